/- Driver for C03 (authenticators), C04 (User-Password), C11 (Tunnel-Password). H := MD5. -/
import RV.Driver.C01
import RV.Model.MD5
import RV.Model.Password
namespace RV.Driver
open RV.MD5 (md5)

def noCrash (impl : String) : String × Bool := ("no_panic", !(impl == "PANIC" || impl == "HANG"))

def boolStr (b : Bool) : String := if b then "true" else "false"

def auth16 (w : Bytes) : Bytes := (w.drop 4).take 16

def c03 (op : String) (args : List String) (impl : String) : Verdict :=
  match op, args with
  | "encode", [code, id, auth, secret, attrs] =>
    match parseInt code, parseNat id, unhex auth, unhex secret, parseAttrList attrs with
    | some code, some id, some auth, some secret, some attrs =>
      let p : Packet := ⟨code, UInt8.ofNat id, auth, secret, attrs⟩
      let model := showRes hexOf (encode md5 p)
      let implOk := impl.startsWith "ok "
      let w := match impl.splitOn " " with
        | _ :: wh :: _ => (unhex wh).getD []
        | _ => []
      let cls := Rfc.encClass code
      let fits := specMarshalOk attrs
      let expectAuth := match cls with
        | .verbatim => auth
        | .hashReqAuth => Rfc.replyAuth md5 w auth secret
        | .hashZero => Rfc.replyAuth md5 w (zeros 16) secret
        | .refused => []
      mk impl model ([noCrash impl,
          ("refused_iff_unknown_code_or_oversize", implOk == (cls != .refused && fits))] ++
        (if implOk then
          [("encoding_again_gives_the_same_datagram", (impl.splitOn " ").length == 2),
           ("authenticator_field_per_rfc", auth16 w == expectAuth),
           ("rest_of_datagram_is_marshal", w.take 4 == (header code (UInt8.ofNat id) (20 + (encodeBytes attrs).length) []) &&
              w.drop 20 == encodeBytes attrs)]
         else []))
    | _, _, _, _, _ => bad "encode-args"
  | "authresp", [_, resp, req, secret] | "authresp", [resp, req, secret] =>
    match unhex resp, unhex req, unhex secret with
    | some resp, some req, some secret =>
      let model := boolStr (isAuthenticResponse md5 resp req secret)
      let spec := decide (20 ≤ resp.length) && decide (20 ≤ req.length) && !secret.isEmpty &&
        auth16 resp == Rfc.replyAuth md5 resp (auth16 req) secret
      mk impl model [noCrash impl, ("true_iff_rfc_formula", impl == boolStr spec)]
    | _, _, _ => bad "authresp-args"
  -- (three arguments: the first is a datagram the predicate was shown before, in the same process - history, not input)
  | "authreq", [_, req, secret] | "authreq", [req, secret] =>
    match unhex req, unhex secret with
    | some req, some secret =>
      let model := boolStr (isAuthenticRequest md5 req secret)
      let spec := decide (20 ≤ req.length) && !secret.isEmpty &&
        (match Rfc.reqClass (req.getD 0 0).toNat with
         | .always => true
         | .hashZero => auth16 req == Rfc.replyAuth md5 req (zeros 16) secret
         | .never => false)
      mk impl model [noCrash impl, ("true_iff_rfc_formula", impl == boolStr spec)]
    | _, _ => bad "authreq-args"
  | "exchange", [reqcode, id, auth, secret, reqattrs, respcode, respattrs, tpos, txor] =>
    match parseInt reqcode, parseNat id, unhex auth, unhex secret, parseAttrList reqattrs,
          parseInt respcode, parseAttrList respattrs, parseNat tpos, parseNat txor with
    | some reqcode, some id, some auth, some secret, some reqattrs, some respcode, some respattrs, some tpos, some txor =>
      let req : Packet := ⟨reqcode, UInt8.ofNat id, auth, secret, reqattrs⟩
      let model :=
        match encode md5 req with
        | .ok rw =>
          match parse rw secret with
          | .ok parsed =>
            let rp := { response parsed respcode with attrs := respattrs }
            match encode md5 rp with
            | .ok w =>
              let i := tpos % w.length
              let tam := w.set i ((w.getD i 0) ^^^ UInt8.ofNat txor)
              s!"ok {hexOf rw} {hexOf w} {boolStr (isAuthenticRequest md5 rw secret)} {boolStr (isAuthenticResponse md5 w rw secret)} {boolStr (isAuthenticResponse md5 tam rw secret)} {boolStr (isAuthenticResponse md5 w rw (secret ++ [1]))}"
            | .err => s!"ok {hexOf rw} err"
            | .fault => "PANIC"
          | _ => s!"ok {hexOf rw} unparsable"
        | .err => "err"
        | .fault => "PANIC"
      -- oracle on the implementation's own observation
      let toks := impl.splitOn " "
      let clauses := match toks with
        | ["ok", _, _, areq, aresp, atam, asec] =>
          [("request_verifies", secret.isEmpty || (Rfc.encClass reqcode == .refused) || (Rfc.encClass reqcode == .hashReqAuth) || areq == "true"),
           ("reply_verifies", secret.isEmpty || (Rfc.encClass respcode != .hashReqAuth) || aresp == "true"),
           ("empty_secret_never_authentic", !secret.isEmpty || (areq == "false" && aresp == "false")),
           ("tampered_byte_rejected", (txor % 256 == 0) || atam == "false"),
           ("other_secret_rejected", asec == "false")]
        | _ => []
      mk impl model ([noCrash impl] ++ clauses)
    | _, _, _, _, _, _, _, _, _ => bad "exchange-args"
  | "newstream", [n, failAtS] =>
    -- each packet's 17 octets must be a window of the entropy stream; windows strictly increasing and
    -- non-overlapping (fresh, never reused); a failed Read may surface as a panic (documented)
    match n.toNat? with
    | some n =>
      let toks := ((impl.splitOn " ").headD "").splitOn ","
      let offs := toks.filterMap (·.toNat?)
      let allFound := toks.all fun t => t == "P" || t.toNat?.isSome
      let rec fresh : List Nat → Bool
        | a :: b :: rest => decide (a + 17 ≤ b) && fresh (b :: rest)
        | _ => true
      -- the scripted source fails at most ONCE (at its failAt-th Read, if failAt ≥ 1): at most one call may panic, and
      -- none when the source never fails
      let panics := (toks.filter (· == "P")).length
      -- `<k>p`: the source fails at its k-th Read and at EVERY Read after it - from the first call that meets the failure
      -- on, no call can have cryptographic octets, so every one of them panics (and at least one does: the cases have
      -- more calls than k)
      let permanent := failAtS.endsWith "p"
      let mayPanic := if permanent then n else if (failAtS.toInt?.getD 0) ≥ 1 then 1 else 0
      let afterFirstPanic := toks.dropWhile (· != "P")
      let goneForGood := !permanent || (decide (panics ≥ 1) && afterFirstPanic.all (· == "P"))
      let ok := decide (toks.length = n) && allFound && fresh offs && decide (panics ≤ mayPanic) && goneForGood
      let model := if ok then impl else "every packet's 17 octets are a fresh, non-overlapping window of crypto/rand.Reader's stream"
      mk impl model [noCrash impl,
        ("identifier_and_authenticator_come_from_the_entropy_source", allFound),
        ("entropy_is_never_reused", fresh offs),
        ("panics_only_when_the_entropy_source_fails", decide (panics ≤ mayPanic)),
        ("no_packet_without_the_cryptographic_source", goneForGood),
        ("one_result_per_call", decide (toks.length = n))]
    | none => bad "newstream-n"
  | "new", [code, secret] =>
    let model := s!"ok {code} {if secret == "~" then "-" else secret} - fresh"   -- (`~`: an empty secret that is not nil)
    mk impl model [noCrash impl, ("new_packet_fields_and_fresh_randomness", impl == model)]
  | _, _ => bad s!"op:{op}"

def ceilDiv16 (n : Nat) : Nat := (n + 15) / 16

def c04 (op : String) (args : List String) (impl : String) : Verdict :=
  match op, args with
  | "newup", [plain, secret, ra] =>
    match unhex plain, unhex secret, unhex ra with
    | some plain, some secret, some ra =>
      let model := showRes hexOf (newUserPassword md5 plain secret ra)
      let okSpec := decide (plain.length ≤ 128) && !secret.isEmpty && decide (ra.length = 16)
      let implOk := impl.startsWith "ok "
      mk impl model ([noCrash impl, ("refuses_iff_out_of_domain", implOk == okSpec)] ++
        (if implOk then
          let c := Rfc2865.userPasswordCipher md5 plain secret ra
          [("equals_rfc2865_ciphertext", impl == s!"ok {hexOf c}"),
           -- (the length of what the IMPLEMENTATION returned: two hex digits per octet after "ok ")
           ("length_16_max1_ceil", decide (((impl.drop 3).toString.length) = 2 * (16 * max 1 (ceilDiv16 plain.length))))]
         else []))
    | _, _, _ => bad "newup-args"
  | "up", [a, secret, ra] =>
    match unhex a, unhex secret, unhex ra with
    | some a, some secret, some ra =>
      let model := showRes hexOf (userPassword md5 a secret ra)
      let okSpec := decide (16 ≤ a.length) && decide (a.length ≤ 128) && decide (a.length % 16 = 0) &&
        !secret.isEmpty && decide (ra.length = 16)
      mk impl model [noCrash impl, ("accepts_iff_multiple_of_16_within_16_128", impl.startsWith "ok " == okSpec)]
    | _, _, _ => bad "up-args"
  | "uprt", [plain, secret, ra] =>
    match unhex plain, unhex secret, unhex ra with
    | some plain, some secret, some ra =>
      let model := match newUserPassword md5 plain secret ra with
        | .ok c => s!"ok {hexOf c} {showRes hexOf (userPassword md5 c secret ra)}"
        | .err => "err"
        | .fault => "PANIC"
      let expect := s!"ok {hexOf (Rfc2865.userPasswordCipher md5 plain secret ra)} ok {hexOf (plain.takeWhile (· ≠ 0))}"
      let dom := decide (plain.length ≤ 128) && !secret.isEmpty && decide (ra.length = 16)
      mk impl model [noCrash impl, ("roundtrip_returns_plaintext_up_to_first_nul", if dom then impl == expect else impl == "err")]
    | _, _, _ => bad "uprt-args"
  | _, _ => bad s!"op:{op}"

/-- largest password that still fits in one attribute together with the tag octet:
    2 + 16 * ceil((1+n)/16) + 1 ≤ 253 -/
def tpFits (n : Nat) : Bool := decide (2 + 16 * ceilDiv16 (1 + n) + 1 ≤ 253)

def c11 (op : String) (args : List String) (impl : String) : Verdict :=
  match op, args with
  | "newtp", [pw, salt, secret, ra] =>
    match unhex pw, unhex salt, unhex secret, unhex ra with
    | some pw, some salt, some secret, some ra =>
      let model := showRes hexOf (newTunnelPassword md5 pw salt secret ra)
      let saltOk := decide (salt.length = 2) && decide ((salt.getD 0 0).toNat ≥ 128)
      let okSpec := tpFits pw.length && saltOk && !secret.isEmpty && decide (ra.length = 16)
      let implOk := impl.startsWith "ok "
      let a := match impl.splitOn " " with
        | [_, h] => (unhex h).getD []
        | _ => []
      mk impl model ([noCrash impl] ++
        (if implOk then
          [("fits_in_one_attribute_with_tag", decide (a.length + 1 ≤ 253)),
           ("accepted_only_in_domain", saltOk && !secret.isEmpty && decide (ra.length = 16)),
           ("equals_rfc2868_encoding", a == Rfc2868.tunnelPasswordCipher md5 pw salt secret ra)]
         else [("refuses_only_out_of_domain_or_too_long", !okSpec)]))
    | _, _, _, _ => bad "newtp-args"
  | "tp", [a, secret, ra] =>
    match unhex a, unhex secret, unhex ra with
    | some a, some secret, some ra =>
      let m := tunnelPassword md5 a secret ra
      let model := showRes (fun (r : Bytes × Bytes) => s!"{hexOf r.1} {hexOf r.2}") m
      -- specification of the accept set, computed with the RFC decryption
      let lenOk := decide (18 ≤ a.length) && decide (a.length ≤ 252) && decide ((a.length - 2) % 16 = 0)
      let dom := lenOk && !secret.isEmpty && decide (ra.length = 16) && decide ((a.getD 0 0).toNat ≥ 128)
      let plain := tpDecLoop md5 secret (ra ++ a.take 2) (a.drop 2)
      let embOk := decide ((plain.getD 0 0).toNat ≤ plain.length - 1)
      mk impl model [noCrash impl, ("accepts_iff_wire_format", impl.startsWith "ok " == (dom && embOk))]
    | _, _, _ => bad "tp-args"
  | "tprt", [pw, salt, secret, ra] =>
    match unhex pw, unhex salt, unhex secret, unhex ra with
    | some pw, some salt, some secret, some ra =>
      let model := match newTunnelPassword md5 pw salt secret ra with
        | .ok c => s!"ok {hexOf c} {showRes (fun (r : Bytes × Bytes) => s!"{hexOf r.1} {hexOf r.2}") (tunnelPassword md5 c secret ra)}"
        | .err => "err"
        | .fault => "PANIC"
      let implOk := impl.startsWith "ok "
      let toks := impl.splitOn " "
      mk impl model ([noCrash impl] ++
        (if implOk then [("roundtrip_same_password_and_salt", toks.drop 2 == ["ok", hexOf pw, hexOf salt])] else []))
    | _, _, _, _ => bad "tprt-args"
  | _, _ => bad s!"op:{op}"

end RV.Driver
