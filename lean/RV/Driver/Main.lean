import RV.Driver.C01
import RV.Driver.C03
import RV.Driver.C10
import RV.Driver.C12
import RV.Driver.C13
import RV.Driver.C19
import RV.Driver.C20
import RV.Driver.C07
import RV.Driver.C15
import RV.Driver.C17
import RV.Driver.C05
import RV.Driver.C08
open RV.Driver

def dispatch (prop op : String) (args : List String) (impl : String) : Verdict :=
  match prop with
  | "C01" => c01 op args impl
  | "C09" => c09 op args impl
  | "C03" => c03 op args impl
  | "C04" => c04 op args impl
  | "C11" => c11 op args impl
  | "C10" => c10 op args impl
  | "C12" => c12 op args impl
  | "C14" => c14 op args impl
  | "C13" => c13 op args impl
  | "C02" => c02 op args impl
  | "C19" => c19 op args impl
  | "C20" => c20 op args impl
  | "C07" => c07 op args impl
  | "C06" => c06 op args impl
  | "C15" => c15x op args impl
  | "C16" => c16 op args impl
  | "C17" => c17 op args impl
  | "C18" => c18 op args impl
  | "C05" => c05 op args impl
  | "C08" => c08 op args impl
  | _ => bad s!"prop:{prop}"

/-- a line is `id \t prop \t op \t arg… \t => \t impl` -/
def handleLine (line : String) : String :=
  let cols := line.splitOn "\t"
  match cols with
  | id :: prop :: op :: rest =>
    let args := rest.takeWhile (· != "=>")
    let impl := (rest.dropWhile (· != "=>")).drop 1
    match impl with
    | ["BAD-CASE"] =>
      -- the harness rejected the case as outside the input domain (used while shrinking)
      ({ agree := true, prop := "PROP_NA", model := "BAD-CASE" } : Verdict).render id
    | [r] => (dispatch prop op args r).render id
    | _ => (bad "no-result-column").render id
  | _ => (bad "columns").render "?"

partial def loop (h : IO.FS.Stream) (out : IO.FS.Stream) : IO Unit := do
  let line ← h.getLine
  if line.isEmpty then return ()
  let l := String.ofList (line.toList.reverse.dropWhile (fun c => c == '\n' || c == '\r')).reverse
  if !l.isEmpty then out.putStrLn (handleLine l)
  loop h out

def main : IO Unit := do
  let out ← IO.getStdout
  loop (← IO.getStdin) out
