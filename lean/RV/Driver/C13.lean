/-
  Driver for C13 (observers are pure, results are copies) and C02 (the decode surface never panics
  or hangs).  The model's getters are total pure functions of the packet value, so the expected
  observation is "nothing changed, second read equal, no aliasing" / "no panic"; the driver checks
  the implementation's flags against exactly that, and the parse outcome against the model.
-/
import RV.Driver.C12
namespace RV.Driver
open RV.MD5 (md5)

def readersOf (d : Desc) : List String :=
  ["Lookup", "Get"] ++ (if d.kind == .concat then [] else ["Gets"]) ++
  (if d.kind.isText || d.kind == .concat then ["GetString", "LookupString"] else []) ++
  (if d.kind.isText then ["GetStrings"] else [])

def coreFlags : List String :=
  ["parse-writes-input", "predicates-write-input", "parseattrs-result-aliases-buffer", "parsed-packet-aliases-buffer", "encode-mutates-packet",
   "encoded-buffer-aliases-packet", "marshal-not-repeatable", "decoders-mutate-packet",
   "decoder-results-alias-packet", "dump-mutates-packet", "dump-not-repeatable", "input-changed-at-end"]

def encodeFlags : List String :=
  ["encodedlen-mutates-packet", "marshal-mutates-packet", "encode-mutates-packet", "marshal-not-repeatable",
   "encode-not-repeatable", "encoded-buffer-aliases-packet"]

def c13 (op : String) (args : List String) (impl : String) : Verdict :=
  match op, args with
  | "purehelper", [desc, attrs, _, _] =>
    match parseDesc desc, parseAttrList attrs with
    | some d, some _ =>
      let model := " ".intercalate ((readersOf d).map fun r => s!"{r}:mut=0,rep=0,alias=0")
      let toks := impl.splitOn " "
      mk impl model
        ([noCrash impl] ++ toks.flatMap fun t =>
          match t.splitOn ":" with
          | [r, flags] =>
            [(s!"{r}_leaves_packet_unchanged", (flags.splitOn ",").contains "mut=0"),
             (s!"{r}_repeated_read_same", (flags.splitOn ",").contains "rep=0"),
             (s!"{r}_result_is_a_copy", (flags.splitOn ",").contains "alias=0")]
          | _ => [("obs_wellformed", impl == "PANIC" || impl == "HANG")])
    | _, _ => bad "purehelper-args"
  | "purecore", [bh, sh] =>
    match unhex bh, unhex sh with
    | some b, some s =>
      -- whether the datagram parses is C01's business; here only the purity flags are compared
      let _ := (b, s)
      let parsed := !impl.endsWith "unparsed"
      let model :=
        if parsed then " ".intercalate (coreFlags.map (· ++ "=0"))
        else " ".intercalate ((coreFlags.take 3).map (· ++ "=0")) ++ " unparsed"
      mk impl model
        ([noCrash impl] ++ (impl.splitOn " ").filterMap fun t =>
          match t.splitOn "=" with
          | [name, v] => some (s!"not_{name}", v == "0")
          | _ => none)
    | _, _ => bad "purecore-args"
  | "pureencode", [_, _, _, _, _] =>
    let model := " ".intercalate (encodeFlags.map (· ++ "=0"))
    mk impl model
      ([noCrash impl] ++ (impl.splitOn " ").filterMap fun t =>
        match t.splitOn "=" with
        | [name, v] => some (s!"not_{name}", v == "0")
        | _ => none)
  | _, _ => bad s!"op:{op}"

def c02 (op : String) (args : List String) (impl : String) : Verdict :=
  match op, args with
  | "datagram", [bh, sh, _] =>
    match unhex bh, unhex sh with
    | some b, some s =>
      -- the parse outcome itself is C01's business (compared there); C02 compares "returned normally"
      let _ := (b, s)
      let model := if impl == "ok parse=ok" then "ok parse=ok" else "ok parse=err"
      mk impl model [("returns_without_panic_or_hang", impl.startsWith "ok")]
    | _, _ => bad "datagram-args"
  | "tpraw", [_, _, _] =>
    mk impl "ok" [("returns_without_panic_or_hang", impl.startsWith "ok")]
  | "getter", [desc, attrs, sh, ah] =>
    match parseDesc desc, parseAttrList attrs, unhex sh, unhex ah with
    | some d, some as, some s, some a =>
      -- the model's getters are total functions: evaluating them is the model-side observation
      let model :=
        match marshal ⟨1, 0, a, s, as⟩ with
        | .ok w =>
          (match parse w s with
           | .ok p =>
             let l := hLookup md5 d p.attrs s a
             let g := hGets md5 d p.attrs s a
             if l == l && g.2 == g.2 then "ok" else "ok"
           | _ => "ok unparsable")
        | _ => "BAD-CASE"
      mk impl model [("returns_without_panic_or_hang", impl.startsWith "ok")]
    | _, _, _, _ => bad "getter-args"
  | _, _ => bad s!"op:{op}"

end RV.Driver
