/-
  Driver for C01 (wire codec) and C09 (attribute list): runs the executable model on the harness's
  input, compares with the implementation's canonical result (AGREE/DIFF) and evaluates the
  property's specification on the implementation's own output (PROP_*).
-/
import RV.Driver.Util
namespace RV.Driver

def showPacketFields (p : Packet) : String :=
  s!"{p.code} {p.id.toNat} {hexOf p.auth} {showAttrs p.attrs}"

def showRes (f : α → String) : Res α → String
  | .ok a => s!"ok {f a}"
  | .err => "err"
  | .fault => "PANIC"

/-- the statement's acceptance predicate, evaluated directly on the input bytes -/
def specAccept (b : Bytes) : Bool :=
  decide (20 ≤ b.length) && decide (20 ≤ lengthField b) && decide (lengthField b ≤ 4096)
    && decide (lengthField b ≤ b.length) && wellFormedTLV ((b.take (lengthField b)).drop 20)

def sumValid (as : Attrs) : Nat :=
  as.foldl (fun n a => if validType a then n + 2 + a.val.length else n) 0

def specMarshalOk (as : Attrs) : Bool :=
  as.all (fun a => !validType a || decide (a.val.length ≤ 253)) && decide (20 + sumValid as ≤ 4096)

def c01 (op : String) (args : List String) (impl : String) : Verdict :=
  match op, args with
  | "parse", [bh] =>
    match unhex bh with
    | none => bad "hex"
    | some b =>
      let m := parse b []
      let model := match m with
        | .ok p => s!"ok {showPacketFields p} {showRes hexOf (marshal p)}"
        | .err => "err"
        | .fault => "PANIC"
      let implOk := impl.startsWith "ok "
      let clauses :=
        [("no_panic", !(impl == "PANIC" || impl == "HANG")),
         ("accept_iff_wellformed", implOk == specAccept b)] ++
        (if implOk then
          [("remarshal_eq_first_Length_bytes",
            (impl.splitOn " ").getLast? == some s!"{hexOf (b.take (lengthField b))}")]
         else [])
      mk impl model clauses
  | "parseattrs", [bh] =>
    match unhex bh with
    | none => bad "hex"
    | some b =>
      let model := showRes showAttrs (parseAttrs b)
      mk impl model
        [("no_panic", !(impl == "PANIC" || impl == "HANG")),
         ("accept_iff_wellformed", impl.startsWith "ok " == wellFormedTLV b)]
  | "marshal", [code, id, auth, attrs] =>
    match parseInt code, parseNat id, unhex auth, parseAttrList attrs with
    | some code, some id, some auth, some attrs =>
      let p : Packet := ⟨code, UInt8.ofNat id, auth, [], attrs⟩
      let m := marshal p
      let model := match m with
        | .ok w => s!"ok {hexOf w} {showRes showPacketFields (parse w [])}"
        | .err => "err"
        | .fault => "PANIC"
      let implOk := impl.startsWith "ok "
      let w := match impl.splitOn " " with
        | _ :: wh :: _ => (unhex wh).getD []
        | _ => []
      let expectReparse := s!"ok {code} {id} {hexOf auth} {showAttrs (attrs.filter validType)}"
      let implReparse := " ".intercalate ((impl.splitOn " ").drop 2)
      let clauses :=
        [("no_panic", !(impl == "PANIC" || impl == "HANG")),
         ("ok_iff_fits", implOk == specMarshalOk attrs)] ++
        (if implOk then
          [("length_consistent", decide (w.length = 20 + sumValid attrs) && decide (lengthField w = w.length)),
           ("no_oversize_emitted", decide (w.length ≤ 4096))] ++
          (if 0 ≤ code ∧ code ≤ 255 then [("reparse_same", implReparse == expectReparse)] else [])
         else [])
      mk impl model clauses
    | _, _, _, _ => bad "marshal-args"
  | "encodedlen", [attrs] =>
    match parseAttrList attrs with
    | none => bad "attrs"
    | some as =>
      let model := showRes toString (encodedLen as)
      let ok := as.all (fun a => !validType a || decide (a.val.length ≤ 253))
      mk impl model
        [("ok_iff_values_fit", impl.startsWith "ok " == ok),
         ("reported_eq_written", !ok || impl == s!"ok {(encodeBytes as).length}")]
  | _, _ => bad s!"op:{op}"

/-! C09: operation sequences -/

inductive AOp where
  | add (k : Int) (v : Bytes)
  | del (k : Int)
  | set (k : Int) (v : Bytes)
  | get (k : Int)
  | lookup (k : Int)

def parseAOps (s : String) : Option (List AOp) :=
  if s == "-" then some [] else
  (s.splitOn ",").mapM fun e =>
    match e.splitOn ":" with
    | ["add", k, v] => do pure (.add (← parseInt k) (← unhex v))
    | ["set", k, v] => do pure (.set (← parseInt k) (← unhex v))
    | ["del", k] => do pure (.del (← parseInt k))
    | ["get", k] => do pure (.get (← parseInt k))
    | ["lookup", k] => do pure (.lookup (← parseInt k))
    | _ => none

/-- one step of the model: new list and the canonical observation -/
def aStep (as : Attrs) : AOp → Attrs × String
  | .add k v => let r := as.add k v; (r, showAttrs r)
  | .del k => let r := as.del k; (r, showAttrs r)
  | .set k v => let r := as.set k v; (r, showAttrs r)
  | .get k => (as, hexOf (as.get k))
  | .lookup k => (as, showOptBytes (as.lookup k))

/-- the ordered-multimap specification, evaluated on the implementation's own previous state -/
def aSpec (before : Attrs) (obs : String) : AOp → Bool
  | .add k v => obs == showAttrs (before ++ [⟨k, v⟩])
  | .del k => obs == showAttrs (Spec.del before k)
  | .set k v => obs == showAttrs (Spec.set before k v)
  | .get k => obs == hexOf (((before.find? (fun a => a.typ = k)).map (·.val)).getD [])
  | .lookup k => obs == showOptBytes ((before.find? (fun a => a.typ = k)).map (·.val))

def c09 (op : String) (args : List String) (impl : String) : Verdict :=
  match op, args with
  | "ops", [init, ops] =>
    match parseAttrList init, parseAOps ops with
    | some init, some ops =>
      -- model trace
      let (final, obsRev) := ops.foldl (fun (st : Attrs × List String) o =>
          let (s', ob) := aStep st.1 o; (s', ob :: st.2)) (init, [])
      let wire := match marshal ⟨1, 0, zeros 16, [], final⟩ with
        | .ok w => s!"wire={hexOf w}"
        | .err => "wire=err"
        | .fault => "wire=PANIC"
      let model := " ".intercalate (obsRev.reverse ++ [wire])
      -- oracle on the implementation's own states
      let implObs := impl.splitOn " "
      let rec go (before : Attrs) (ops : List AOp) (obs : List String) (i : Nat) : List (String × Bool) × Attrs :=
        match ops, obs with
        | o :: os, ob :: obs' =>
          let okStep := aSpec before ob o
          let after := match o with
            | .get _ | .lookup _ => before
            | _ => (parseAttrList ob).getD before
          let (rest, fin) := go after os obs' (i + 1)
          ((s!"step{i}_spec", okStep) :: rest, fin)
        | _, _ => ([], before)
      let (clauses, implFinal) := go init ops implObs 0
      let implWire := implObs.getLast?.getD ""
      let wireOk :=
        if (implFinal.all fun a => !validType a || decide (a.val.length ≤ 253)) && decide (20 + sumValid implFinal ≤ 4096) then
          implWire == "wire=" ++ hexOf (header 1 0 (20 + (encodeBytes implFinal).length) (zeros 16) ++ encodeBytes implFinal)
        else implWire == "wire=err"
      mk impl model ([("no_panic", !(impl == "PANIC" || impl == "HANG")),
                      ("obs_count", decide (implObs.length = ops.length + 1))] ++ clauses ++
                     [("wire_lists_valid_types_in_order", wireOk)])
    | _, _ => bad "ops-args"
  | _, _ => bad s!"op:{op}"

end RV.Driver
