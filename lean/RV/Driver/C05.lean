/-
  Driver for C05 (client returns only authentic replies).  H := MD5.

  case:  exchange <reqcode> <id> <auth> <secret> <attrs> <maxErrors> <skipVerify> <history>
         history = datagrams in the order the scripted peer sends them: hex joined by `,`
                   (`-` = no datagram at all; an element `e` or `-` = the empty datagram)
  impl:  returned <index> <code> <id> <auth> <attrs> | failed parse | failed nonauthentic | ctx-done
         (`ctx-done`: nothing ended the call; the harness cancelled the context once every datagram
          had been consumed)

  The model result is `RV.Client.recvLoop` on the same bytes, with `wire` recomputed here by
  `RV.encode md5` from the request's fields.  The oracle clauses are evaluated on the implementation's
  result from the statement's own notions (declarative well-formedness `specAccept`, the RFC formula
  `Rfc.replyAuth`), not from the loop.
-/
import RV.Driver.C03
import RV.Model.Client
namespace RV.Driver
open RV.MD5 (md5)
open RV.Client

def parseHistory (s : String) : Option (List Bytes) :=
  if s == "-" then some [] else
  (s.splitOn ",").mapM fun e => if e == "e" || e == "-" || e == "" then some [] else unhexList e.toList

def showErrClass : ErrClass → String
  | .parseErr => "parse"
  | .nonAuthentic => "nonauthentic"

def showOutcome : Outcome → String
  | .returned i p => s!"returned {i} {showPacketFields p}"
  | .failed _ e => s!"failed {showErrClass e}"
  | .waiting => "ctx-done"

/-- the statement's "valid response authenticator for the request actually sent and the packet's
    secret", by the RFC formula on the datagram as read -/
def oracleAuthentic (wire secret b : Bytes) : Bool :=
  decide (20 ≤ b.length) && decide (20 ≤ wire.length) && !secret.isEmpty &&
    auth16 b == Rfc.replyAuth md5 b (auth16 wire) secret

def oracleAcceptable (skip : Bool) (wire secret d : Bytes) : Bool :=
  let b := d.take 4096
  specAccept b && (skip || oracleAuthentic wire secret b)

def c05 (op : String) (args : List String) (impl : String) : Verdict :=
  match op, args with
  | "exchange", [code, id, auth, secret, attrs, maxErr, skip, hist] =>
    -- `default`: the call goes through the package-level radius.Exchange, i.e. DefaultClient (MaxPacketErrors 10)
    -- `default:<n>`: the same, after the caller has set DefaultClient.MaxPacketErrors = n (and InsecureSkipVerify as given)
    let maxErr := if maxErr == "default" then "10"
      else if maxErr.startsWith "default:" then (maxErr.drop 8).toString else maxErr
    match parseInt code, parseNat id, unhex auth, unhex secret, parseAttrList attrs, parseInt maxErr, parseNat skip,
          parseHistory hist with
    | some code, some id, some auth, some secret, some attrs, some maxErr, some skip, some hist =>
      let req : Packet := ⟨code, UInt8.ofNat id, auth, secret, attrs⟩
      let skip := skip != 0
      match encode md5 req with
      | .ok wire =>
        let cfg : Cfg := ⟨maxErr, skip⟩
        let model := showOutcome (recvLoop md5 cfg wire secret hist)
        -- oracle
        let acc := hist.map (oracleAcceptable skip wire secret)
        let firstAcc := acc.findIdx? (fun b => b)
        let leading := (acc.takeWhile (!·)).length
        let budgetHit := decide (maxErr > 0) && decide (maxErr ≤ (leading : Int))
        let isRet := impl.startsWith "returned "
        let isFail := impl.startsWith "failed "
        let expectRet := match firstAcc with
          | some i =>
            match parse ((hist.getD i []).take 4096) secret with
            | .ok p => s!"returned {i} {showPacketFields p}"
            | _ => "?"
          | none => "?"
        let kthClass :=
          let d := (hist.getD (maxErr.toNat - 1) []).take 4096
          if specAccept d then "failed nonauthentic" else "failed parse"
        mk impl model
          [noCrash impl,
           ("result_is_a_packet_an_error_or_pending", isRet || isFail || impl == "ctx-done"),
           ("returned_is_parse_of_first_authentic_datagram", !isRet || impl == expectRet),
           ("never_fails_with_zero_budget", !isFail || decide (maxErr > 0)),
           ("fails_only_when_count_reaches_budget", !isFail || budgetHit),
           ("fails_as_soon_as_count_reaches_budget", !budgetHit || isFail),
           ("fails_with_that_datagrams_error", !isFail || impl == kthClass),
           ("returns_the_reply_when_one_arrived", !(firstAcc.isSome && !budgetHit) || isRet)]
      | _ => mk impl "encode-err" [noCrash impl, ("unencodable_request_refused", impl == "encode-err")]
    | _, _, _, _, _, _, _, _ => bad "exchange-args"
  | _, _ => bad s!"op:{op}"

end RV.Driver
