/-
  Driver for C08 (Exchange terminates, honours its context, resends verbatim, leaks nothing).  H := MD5.

  case:  scenario <reqcode> <id> <auth> <secret> <attrs> <retryMs> <maxErrors> <skipVerify>
                  <peer> <cancel> <reply> <garbage> [<ctx>]
    peer    silent | closed | flood | late:<k>:<g>:<m> | nodial:<v> | vanish
            (late: after the (k+1)-th datagram from the client send g garbage datagrams, the reply and m more
             datagrams; flood: garbage from the first request on, until the call returns;
             nodial: an address `DialContext` refuses at once (v = 0 no port, 1 port 99999, 2 unixgram path that
             does not exist, 3 unknown network) - a listener of the harness stays up to see that nothing is sent;
             vanish: `Client.Net = "unixgram"`, the peer takes the first datagram and is then closed and unlinked:
             every retransmission fails, the pending Read does not)
    cancel  never | pre | predeadline | at:<j>:<delayMs> | deadline:<ms>
            (pre: context already cancelled; predeadline: deadline already passed; at: cancel delayMs after
             the peer received its j-th datagram; deadline: context.WithTimeout(ms))
    reply, garbage   the concrete datagrams the peer sends (hex)
    ctx     std | wrap | cause (optional, default std): the context is of a standard library type / of a user-defined
            type with its own Done channel / carries a cause of the caller's own (WithCancelCause, WithTimeoutCause:
            Err() is still Canceled / DeadlineExceeded, context.Cause is not).  The logic machine does not depend on it (the runtime observations do).
  impl:  class=<c> pkt=<fields|-> first=<hex|-|na> verbatim=<b|na> resends=<ok|…|na> prompt=<b|na>
         silent=<b|na> goroutines=<b> fds=<b> t0=<ms> arr=<ms,ms,…|-|na> end=<ms|na> d=<retry ms>
         (observations of the real call as classes and booleans; the last four tokens are the raw numbers
          behind `resends`: arrival instants of the request datagrams at the peer and the instant Exchange
          had returned by, in whole milliseconds since the instant just before Exchange was called - a clock
          whose origin is not after the model's t0 - and the interval)

  Timed layer.  The number and the instants of the retransmissions are not determined by the scenario
  (they depend on the scheduler), so the model side does not predict them: it echoes `arr` and `end` and
  evaluates the bounds the timed machine `RV.Exchange.Timed` PROVES for every well-timed run
  (Props/C08: `resend_not_early`, `resend_count_le`, `no_resend_without_retry_timed`, tied to exactly
  these two predicates by `observation_within_model_bounds`) on the numbers:
      obsNotEarly d tol arr      the i-th datagram (0-based) is not seen before i·d - tol
      obsCountOk d tol end arr   |arr| ≤ 1 + (end + tol) / d      (d = max(Retry, 0); x / 0 = 0)
  Only these UPPER bounds are asserted.  The lower bound (`resend_count_ge_under_latency`) is conditional
  on a latency hypothesis that a loaded machine does not meet, so it is not asserted on numbers (the
  harness's own, very loose `toofew` class stays as it was).
  Allowance `c08TolMs`: the argument needs none - a datagram is seen after it was written, a write
  follows its tick, a tick is never delivered before it is due, the clock's origin precedes the ticker's
  creation, Exchange returns after its last successful write, and all instants are rounded DOWN to whole
  milliseconds while i·d is a whole number of them; lateness of any kind only helps.  One millisecond is
  kept as a margin for the printing.  (The harness measures a scenario again, up to three times, when these
  predicates fail, as it does for its other timing clauses: `c08TimedBad` in c08.go, same formula.)

  The model side derives the abstract event sequence of the scenario (the number of ticks is timing
  dependent, so a representative number is used and only tick-independent observations are compared),
  runs the logic machine `RV.Exchange.step` on it and prints what the machine says: the outcome class,
  the returned packet, the bytes written; the runtime observations (promptness, census, descriptors)
  are printed as the property demands them.  The oracle asserts the property's clauses on the
  implementation's observations.
-/
import RV.Driver.C05
import RV.Model.ClientTimed
namespace RV.Driver
open RV.MD5 (md5)
open RV.Client RV.Exchange

/-- allowance, in milliseconds, for the model's bounds on the raw numbers (see the head of the file;
    the same constant as `c08TolMs` in harness/cmd/vh/c08.go) -/
def c08TolMs : Nat := 1

/-- `arr` token: `na` = the peer cannot report, `-` = it saw nothing, else instants in milliseconds -/
def parseArr (s : String) : Option (Option (List Nat)) :=
  if s == "na" then some none
  else if s == "-" then some (some [])
  else (s.splitOn ",").mapM parseNat |>.map some

/-- `end` token: `na` or milliseconds -/
def parseEnd (s : String) : Option (Option Nat) :=
  if s == "na" then some none else (parseNat s).map some

def nondecreasing : List Nat → Bool
  | a :: b :: rest => decide (a ≤ b) && nondecreasing (b :: rest)
  | _ => true

inductive PeerKind where
  | silent | closed | flood
  | late (k g m : Nat)
  | nodial (v : Nat)
  | vanish
  | deaf          -- the same socket with its receiving side shut down from the start: every write fails

inductive CancelKind where
  | never | pre | predeadline
  | at (j delay : Nat)
  | deadline (ms : Nat)

def parsePeer (s : String) : Option PeerKind :=
  match s.splitOn ":" with
  | ["silent"] => some .silent
  | ["usilent"] => some .silent   -- the same peer on a unixgram socket (Client.Net = "unixgram"): no difference to the logic
  | ["closed"] => some .closed
  | ["flood"] => some .flood
  | ["late", k, g, m] => do pure (.late (← parseNat k) (← parseNat g) (← parseNat m))
  | ["nodial", v] => do
    let v ← parseNat v
    if v < 5 then pure (.nodial v) else none   -- (4: the socket cannot be had - EMFILE from the dialer, a "temporary" net.Error)
  | ["vanish"] => some .vanish
  | ["deaf"] => some .deaf
  | _ => none

def parseCancel (s : String) : Option CancelKind :=
  match s.splitOn ":" with
  | ["never"] => some .never
  | ["pre"] => some .pre
  | ["predeadline"] => some .predeadline
  | ["at", j, d] => do pure (.at (← parseNat j) (← parseNat d))
  | ["deadline", ms] => do pure (.deadline (← parseNat ms))
  | _ => none

def CancelKind.isDeadline : CancelKind → Bool
  | .predeadline | .deadline _ => true
  | _ => false

/-- the runtime events a cancellation induces: the helper sees `ctx.Done()`, closes the conn, the
    blocked Read fails -/
def ctxChain : List Event := [.ctxDone, .helperObservesCtx, .readError]

/-- abstract event sequence of a scenario; `none` = the scenario is outside the generator's domain
    (its outcome would depend on a race or it would never end) -/
def scenarioEvents (retryMs maxErr : Int) (peer : PeerKind) (cancel : CancelKind) (reply garbage : Bytes) :
    Option (List Event) :=
  -- ticks occur within a scenario only for short intervals (an hour-long interval never fires)
  let ticking := decide (retryMs > 0) && decide (retryMs ≤ 1000)
  let ticks (n : Nat) : List Event := if ticking then List.replicate n .tick else []
  let fin : List Event := match cancel with
    | .never => []
    | _ => ctxChain
  -- "after the j-th datagram" needs j ≥ 1, and retransmissions for j > 1
  let cancelHappens := match cancel with
    | .at j _ => decide (j ≥ 1) && (decide (j ≤ 1) || ticking)
    | _ => true
  if !cancelHappens then none else
  match cancel with
  | .pre | .predeadline => some [.ctxDone, .dialFail]
  | _ =>
    match peer with
    | .closed => some [.dialOk, .readError]
    | .nodial _ =>
      -- `DialContext` fails at once, with the context still live (a deadline must be far enough away for that)
      match cancel with
      | .never => some [.dialFail]
      | .deadline ms => if ms ≥ 1000 then some [.dialFail] else none
      | _ => none
    | .vanish | .deaf =>
      -- the peer takes the first datagram and goes away; the retransmissions (`conn.Write` calls whose errors the
      -- code ignores) change nothing, no Read completes until the helper closes the conn
      match cancel with
      | .at j _ => if j == 1 then some ([.dialOk] ++ ticks 2 ++ fin) else none
      | .deadline _ => some ([.dialOk] ++ ticks 2 ++ fin)
      | _ => none
    | .silent =>
      match cancel with
      | .never => none
      | _ => some ([.dialOk] ++ ticks 2 ++ fin)
    | .flood =>
      let n := if maxErr > 0 then maxErr.toNat else 3
      match cancel with
      | .never => if maxErr > 0 then some ([.dialOk] ++ List.replicate n (.datagram garbage)) else none
      | _ => some ([.dialOk] ++ List.replicate n (.datagram garbage) ++ ticks 1 ++
                   List.replicate n (.datagram garbage) ++ fin)
    | .late k g m =>
      let body := List.replicate g (Event.datagram garbage) ++ [.datagram reply] ++
                  (List.replicate m (Event.datagram garbage))
      if k == 0 then some ([.dialOk] ++ body ++ fin)
      else match cancel with
        | .never => if ticking then some ([.dialOk] ++ ticks k ++ body) else none
        | .at j _ =>
          -- the peer answers only after k retransmissions; cancelled after the j-th datagram it never does
          if !ticking then some ([.dialOk] ++ fin)
          else if k ≥ j + 2 then some ([.dialOk] ++ ticks (j - 1) ++ fin)
          else none
        | .deadline _ => if !ticking then some ([.dialOk] ++ fin) else none
        | _ => none

def showResultClass (deadline : Bool) : Result → String
  | .reply _ => "reply"
  | .encodeErr => "encode-err"
  | .ctxErr => if deadline then "ctx-deadline" else "ctx-canceled"
  | .dialErr => "dial-error"
  | .netErr => "net-error"
  | .pktErr .parseErr => "parse-error"
  | .pktErr .nonAuthentic => "nonauthentic"

def showPkt (p : Packet) : String := s!"{p.code}/{p.id.toNat}/{hexOf p.auth}/{showAttrs p.attrs}"

def tok (impl key : String) : String :=
  match (impl.splitOn " ").find? (fun t => t.startsWith (key ++ "=")) with
  | some t => (t.drop (key.length + 1)).toString
  | none => "?"

def c08 (op : String) (args : List String) (impl : String) : Verdict :=
  -- a WithTimeout scenario whose time budget was spent before the call began, three times in a row (an overloaded
  -- machine): no observation of the library
  if impl.startsWith "INCONCLUSIVE" then { agree := true, prop := "PROP_NA", model := impl, why := "inconclusive" } else
  match op, args with
  | "scenario", code :: id :: auth :: secret :: attrs :: retry :: maxErr :: skip :: peer :: cancel :: reply :: garbage :: rest =>
    if !(rest == [] || rest == ["std"] || rest == ["wrap"] || rest == ["cause"]) then bad "scenario-args" else
    match parseInt code, parseNat id, unhex auth, unhex secret, parseAttrList attrs, parseInt retry, parseInt maxErr,
          parseNat skip, parsePeer peer, parseCancel cancel, unhex reply, unhex garbage with
    | some code, some id, some auth, some secret, some attrs, some retry, some maxErr, some skip, some peer,
      some cancel, some reply, some garbage =>
      let req : Packet := ⟨code, UInt8.ofNat id, auth, secret, attrs⟩
      let P : Params := Params.ofPacket md5 ⟨maxErr, skip != 0⟩ retry req
      let evs := match P.wire with
        | .ok _ => scenarioEvents retry maxErr peer cancel reply garbage
        | _ => some []
      match evs with
      | none => { agree := true, prop := "PROP_NA", model := "scenario-outside-domain" }
      | some evs =>
        let s := run md5 P (init P) evs
        match s.phase with
        | .returned r =>
          let closed := match peer with | .closed => true | _ => false
          let vanish := match peer with | .vanish | .deaf => true | _ => false
          let deaf := match peer with | .deaf => true | _ => false
          let nodial := match peer with | .nodial _ => true | _ => false
          -- what the peer cannot report: nobody is there (closed), or it is gone after the first datagram (vanish)
          let blind := closed || vanish
          let isCtx := match r with | .ctxErr => true | _ => false
          let cls := showResultClass cancel.isDeadline r
          let pkt := match r with | .reply p => showPkt p | _ => "-"
          let first := if (closed || deaf) && !s.sent.isEmpty then "na" else match s.sent with
            | w :: _ => hexOf w
            | [] => "-"
          let verbatim := if blind then "na" else boolStr (s.sent.all (fun x => some x == s.sent.head?))
          let resends := if blind then "na" else "ok"
          -- the timed layer: the raw numbers are echoed (not predicted), the interval and the clock are the model's
          let arrTok := tok impl "arr"
          let endTok := tok impl "end"
          -- the clock origin reported by the harness: the instant the Dialer's Control hook returned (the socket exists,
          -- nothing is written yet), whole ms since the call began - not after the model's t0, so
          -- `observation_within_model_bounds` applies to the instants counted from there
          -- whole ms between the peer sending the reply that came back and the return of the call (echoed; `na` if none)
          let lagTok := tok impl "lag"
          let lagOk := lagTok == "na" || (match lagTok.toNat? with | some n => decide (n < 250) | none => false)
          let t0Tok := tok impl "t0"
          -- (a missing or malformed token must not loosen the bounds: it fails `timed_observation_wellformed`)
          let t0 := t0Tok.toNat?.getD 0
          let t0WellFormed := t0Tok.toNat?.isSome
          let model := s!"class={cls} pkt={pkt} first={first} verbatim={verbatim} resends={resends} " ++
            s!"prompt={if isCtx then "true" else "na"} silent={if blind then "na" else boolStr true} " ++
            s!"goroutines={boolStr s.connClosed} fds={boolStr s.connClosed} " ++
            s!"t0={t0Tok} arr={arrTok} end={endTok} d={retry} lag={lagTok}"
          let d := Timed.period P
          let arrP := parseArr arrTok
          let endP := parseEnd endTok
          let timedWellFormed := match arrP, endP with
            | some a, some _ => (match a with | some l => nondecreasing l | none => true)
            | _, _ => false
          -- the model's bounds on the numbers (true when the peer could not report)
          let notEarly := match arrP with
            | some (some l) => Timed.obsNotEarly d c08TolMs (l.map (· - t0))
            | _ => true
          let countOk := match arrP, endP with
            | some (some l), some (some fin) => Timed.obsCountOk d c08TolMs (fin - t0) l
            | _, _ => true
          -- the property's clauses on the implementation's observations
          let icls := tok impl "class"
          let allowed := ["reply", "ctx-canceled", "ctx-deadline", "net-error", "dial-error", "parse-error",
                          "nonauthentic", "encode-err"]
          let cancelled := match cancel with | .never => false | _ => true
          let ctxName := if cancel.isDeadline then "ctx-deadline" else "ctx-canceled"
          let okTok (k : String) := let v := tok impl k; v == "true" || v == "na"
          mk impl model
            [noCrash impl,
             ("exchange_always_returns", icls != "HANG" && allowed.contains icls),
             ("context_error_is_the_contexts_own", !(icls.startsWith "ctx-") || (cancelled && icls == ctxName)),
             ("returns_context_error_after_cancel", !isCtx || icls == ctxName),
             ("returns_the_reply_when_one_arrives", !(cls == "reply") || icls == "reply"),
             -- a failed dial: the dial error comes back unless the context was done (then the context's own)
             ("dial_error_returned_unless_ctx_done", !(cls == "dial-error") || icls == "dial-error"),
             -- … and nothing was written anywhere: the machine's `sent` is empty, and so is the peer's log
             ("nothing_sent_on_dial_failure", !(nodial || cls == "dial-error") || (s.sent.isEmpty && tok impl "first" == "-")),
             -- retransmissions that fail do not keep the call from returning the context's error
             ("failed_resends_do_not_outlive_cancel", !(vanish && isCtx) || icls == ctxName),
             ("returns_promptly_after_cancel", okTok "prompt"),
             -- "with the reply as soon as an acceptable one arrives": within 250 ms of the peer sending it
             ("returns_with_the_reply_as_soon_as_it_arrives", lagOk),
             ("resend_is_byte_identical", okTok "verbatim"),
             ("no_resend_when_retry_not_positive", decide (retry > 0) || tok impl "resends" == "ok" || tok impl "resends" == "na"),
             ("resend_count_matches_interval", decide (retry ≤ 0) || tok impl "resends" == "ok" || tok impl "resends" == "na"),
             -- the same two clauses and `resend_not_early`, as the timed machine's theorems evaluated on the raw numbers
             ("timed_observation_wellformed", timedWellFormed && t0WellFormed),
             ("no_resend_when_retry_not_positive", decide (retry > 0) || countOk),
             ("resend_not_early", notEarly),
             ("resend_count_matches_interval", decide (retry ≤ 0) || countOk),
             ("nothing_sent_after_return", okTok "silent"),
             ("no_goroutine_survives", okTok "goroutines"),
             ("socket_closed", okTok "fds")]
        | _ => { agree := true, prop := "PROP_NA", model := "scenario-does-not-end" }
    | _, _, _, _, _, _, _, _, _, _, _, _ => bad "scenario-args"
  | _, _ => bad s!"op:{op}"

end RV.Driver
