/-
  Driver for C19 (MS-CHAPv2 / MPPE).  `P := Prims.concrete` — the Lean SHA-1, MD4 and DES written from
  the standards.  AGREE/DIFF compares the implementation's result with `Model.MSCHAP.*`; the clauses
  evaluate the RFC definitions `Spec.*` on the case's inputs and compare with the implementation's own
  output.  Cases outside the property's domain (invalid UTF-8, 8-octet challenge / 16-octet hash /
  7-octet key of the primitives' RFC signatures, key lengths > 20) get PROP_NA: correspondence only.
-/
import RV.Driver.C03
import RV.Model.MSCHAP
namespace RV.Driver
open RV.Spec

def P19 : Prims := Prims.concrete

/-- in-domain ⇒ clauses are evaluated; out of domain ⇒ only the correspondence counts -/
def mkDom (inDomain : Bool) (impl model : String) (clauses : List (String × Bool)) : Verdict :=
  if inDomain then mk impl model clauses
  else { agree := impl == model, prop := "PROP_NA", model := model }

/-- the octets of an `ok <hex>` result (empty for anything else) -/
def implBytes (impl : String) : Bytes :=
  match impl.splitOn " " with
  | ["ok", h] => (unhex h).getD []
  | _ => []

def parseBool (s : String) : Option Bool := if s == "1" then some true else if s == "0" then some false else none

def isUpperHex (c : Char) : Bool := ('0' ≤ c && c ≤ '9') || ('A' ≤ c && c ≤ 'F')

/-- "S=" followed by exactly 40 upper-case hexadecimal digits -/
def authRespShape (impl : String) : Bool :=
  match impl.toList.drop 3 with
  | 'S' :: '=' :: rest => rest.length == 40 && rest.all isUpperHex
  | _ => false

/-- odd parity of every octet, evaluated with a definition of its own (not the model's `popCount`) -/
def oddParity (b : UInt8) : Bool := ((List.range 8).filter fun i => b.toNat / 2 ^ i % 2 == 1).length % 2 == 1

def okHex (b : Bytes) : String := s!"ok {hexOf b}"

def optEq (impl : String) (spec : Option Bytes) : Bool :=
  match spec with
  | some b => impl == okHex b
  | none => true

def c19 (op : String) (args : List String) (impl : String) : Verdict :=
  match op, args with
  | "utf16", [pw] =>
    match unhex pw with
    | some pw =>
      let spec := UTF16.Spec.utf16le? pw
      mkDom spec.isSome impl (showRes hexOf (Model.MSCHAP.toUTF16 pw))
        [noCrash impl, ("utf16le_of_the_password", optEq impl spec)]
    | none => bad "hex"
  | "chash", [peer, auth, user] =>
    match unhex peer, unhex auth, unhex user with
    | some peer, some auth, some user =>
      mk impl (okHex (Model.MSCHAP.challengeHash P19 peer auth user))
        [noCrash impl, ("rfc2759_8_2_challenge_hash", impl == okHex (Rfc2759.challengeHash P19 peer auth user))]
    | _, _, _ => bad "hex"
  | "nthash", [pwU] =>
    match unhex pwU with
    | some pwU =>
      mk impl (okHex (Model.MSCHAP.ntPasswordHash P19 pwU))
        [noCrash impl, ("rfc2759_8_3_md4", impl == okHex (Rfc2759.ntPasswordHash P19 pwU))]
    | none => bad "hex"
  | "ntpw", [pw] =>
    -- NTPasswordHash(ToUTF16(password))
    match unhex pw with
    | some pw =>
      let spec := (UTF16.Spec.utf16le? pw).map (Rfc2759.ntPasswordHash P19)
      let model := match Model.MSCHAP.toUTF16 pw with
        | .ok u => okHex (Model.MSCHAP.ntPasswordHash P19 u)
        | .err => "err"
        | .fault => "PANIC"
      mkDom spec.isSome impl model [noCrash impl, ("rfc2759_8_3_md4_of_utf16le_password", optEq impl spec)]
    | none => bad "hex"
  | "chresp", [ch, ph] =>
    match unhex ch, unhex ph with
    | some ch, some ph =>
      mkDom (ch.length == 8 && ph.length == 16) impl (showRes hexOf (Model.MSCHAP.challengeResponse P19 ch ph))
        [noCrash impl, ("rfc2759_8_5_three_des_encryptions", impl == okHex (Rfc2759.challengeResponse P19 ch ph)),
         ("response_is_24_octets", (implBytes impl).length == 24)]
    | _, _ => bad "hex"
  | "descrypt", [key, clear] =>
    match unhex key, unhex clear with
    | some key, some clear =>
      let model := showRes hexOf (Model.MSCHAP.desCrypt P19 key clear)
      if key.length == 8 then
        -- not an RFC 2759 signature (DesEncrypt takes 7 octets): FIPS 46-3 DES with the key as given
        mkDom (clear.length == 8) impl model [noCrash impl, ("fips46_des_under_the_8_octet_key", impl == okHex (P19.des key clear))]
      else
        mkDom (key.length == 7 && clear.length == 8) impl model
          [noCrash impl, ("rfc2759_8_6_des_under_parity_expanded_key", impl == okHex (Rfc2759.desEncrypt P19 clear key))]
    | _, _ => bad "hex"
  | "paritypad", [key] =>
    -- the unexported parityPadDESKey, reached by the harness through go:linkname
    match unhex key with
    | some key =>
      let out := implBytes impl
      if impl == "UNOBSERVABLE" then
        -- harness built with -tags c19nolink: the tie to parityPadDESKey is broken, no input fails
        { agree := false, prop := "PROP_NA", model := okHex (Model.MSCHAP.parityPadDESKey key), why := "parityPadDESKey-not-reachable" }
      else
      mkDom (key.length == 7) impl (okHex (Model.MSCHAP.parityPadDESKey key))
        [noCrash impl,
         ("rfc2759_8_6_seven_key_bits_in_the_upper_bits_of_each_octet",
            out.length == 8 && out.map (fun b => b.toNat / 2) == (Rfc2759.expandKey key).map (fun b => b.toNat / 2)),
         ("rfc2759_8_6_odd_parity", out.all oddParity),
         ("rfc2759_8_6_expanded_key", impl == okHex (Rfc2759.expandKey key))]
    | none => bad "hex"
  | "ntresp", [auth, peer, user, pw] =>
    match unhex auth, unhex peer, unhex user, unhex pw with
    | some auth, some peer, some user, some pw =>
      let spec := Rfc2759.generateNTResponse P19 auth peer user pw
      mkDom spec.isSome impl (showRes hexOf (Model.MSCHAP.generateNTResponse P19 auth peer user pw))
        [noCrash impl, ("rfc2759_8_1_nt_response", optEq impl spec),
         ("response_is_24_octets", (implBytes impl).length == 24)]
    | _, _, _, _ => bad "hex"
  | "authresp", [auth, peer, ntr, user, pw] =>
    match unhex auth, unhex peer, unhex ntr, unhex user, unhex pw with
    | some auth, some peer, some ntr, some user, some pw =>
      let spec := Rfc2759.generateAuthenticatorResponse P19 auth peer ntr user pw
      let model := showRes String.ofList (Model.MSCHAP.generateAuthenticatorResponse P19 auth peer ntr user pw)
      -- (any NT-Response length: the function hashes what it is given, see C19.nt_response_size_is_checked_by_makeKey_only
      -- and DESIGN §5c - the formula of RFC 2759 §8.7 is defined for every octet string)
      mkDom spec.isSome impl model
        [noCrash impl,
         ("rfc2759_8_7_authenticator_response", match spec with | some s => impl == s!"ok {String.ofList s}" | none => true),
         ("S_equals_plus_40_upper_case_hex_digits", authRespShape impl)]
    | _, _, _, _, _ => bad "hex"
  | "masterkey", [phh, ntr] =>
    match unhex phh, unhex ntr with
    | some phh, some ntr =>
      mkDom true impl (okHex (Model.MSCHAP.getMasterKey P19 phh ntr))
        [noCrash impl, ("rfc3079_3_4_master_key", impl == okHex (Rfc3079.getMasterKey P19 phh ntr)),
         ("master_key_is_16_octets", (implBytes impl).length == 16)]
    | _, _ => bad "hex"
  | "startkey", [mk_, len, snd] =>
    match unhex mk_, parseNat len, parseBool snd with
    | some mkey, some len, some isSend =>
      let model := showRes hexOf (Model.MSCHAP.getAsymmetricStartKey P19 mkey len isSend)
      if mkey.length != 16 then
        mk impl model [noCrash impl, ("wrong_size_master_key_refused", impl == "err")]
      else
        mkDom (decide (len ≤ 20)) impl model
          [noCrash impl,
           ("rfc3079_3_4_server_side_start_key", impl == okHex (Rfc3079.getAsymmetricStartKey P19 mkey len isSend true)),
           ("truncated_to_session_key_length", (implBytes impl).length == len)]
    | _, _, _ => bad "startkey-args"
  | "makekey", [ntr, pw, snd] =>
    match unhex ntr, unhex pw, parseBool snd with
    | some ntr, some pw, some isSend =>
      let model := showRes hexOf (Model.MSCHAP.makeKey P19 ntr pw isSend)
      if ntr.length != 24 then
        mk impl model [noCrash impl, ("wrong_size_nt_response_refused", impl == "err")]
      else
        let spec := Rfc2548.mppeKey P19 ntr pw isSend
        mkDom spec.isSome impl model
          [noCrash impl, ("rfc2548_2_4_2_mppe_key", optEq impl spec),
           ("key_is_16_octets", (implBytes impl).length == 16)]
    | _, _, _ => bad "makekey-args"
  | _, _ => bad s!"op:{op}"

end RV.Driver
