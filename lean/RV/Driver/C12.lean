/-
  Driver for the generated-helper properties: C12 (helper laws), C14 (vendor helpers, same protocol,
  hostile Vendor-Specific attributes) — op `helper`.
  Case:  helper  <desc>  <initial attrs>  <secret>  <auth>  <ops>
    desc = name|typ|vendorID|vendorType|kind|hasTag|encrypt|size          (from the DICTIONARY)
    ops  = comma separated:  add:<tag>:<val>  set:<tag>:<val>  addstr:…  setstr:…  del  lookup  gets  wire
    val  = hex bytes (`-` empty) | n<dec> | t<dec> | p<iphex>/<maskhex> | pnil
  Result: one token per step, starting with the initial reads:
    init|L=<lookup>|G=<gets>    ok|<attrs>|L=…|G=…    err|<attrs>|L=…|G=…    del|<attrs>|L=…|G=…
    lookup|<attrs>|L=…|G=…      wire=ok|<attrs>|L=…|G=…   wire=err
-/
import RV.Driver.C10
import RV.Model.Helper
namespace RV.Driver
open RV.MD5 (md5)

def parseKind : String → Option Kind
  | "string" => some .string | "octets" => some .octets | "concat" => some .concat
  | "ipaddr" => some .ipaddr | "ipv6addr" => some .ipv6addr | "ipv6prefix" => some .ipv6prefix
  | "ifid" => some .ifid | "date" => some .date | "integer" => some .integer
  | "integer64" => some .integer64 | "short" => some .short | "byte" => some .byte
  | _ => none

def parseDesc (s : String) : Option Desc :=
  match s.splitOn "|" with
  | [_, typ, vid, vtyp, kind, tag, enc, size] => do
    let typ ← parseInt typ
    let vid ← parseNat vid
    let vtyp ← parseNat vtyp
    let kind ← parseKind kind
    let enc ← parseNat enc
    let size ← parseInt size
    pure { typ := typ, vendorID := vid, vendorType := UInt8.ofNat vtyp, kind := kind, hasTag := tag == "1",
           encrypt := enc, size := if size < 0 then none else some size.toNat }
  | _ => none

def parseVal (s : String) : Option GVal :=
  if s.startsWith "n" then (s.drop 1).toString.toNat?.map .nat
  else if s.startsWith "t" then (s.drop 1).toString.toInt?.map .time
  else if s == "pnil" then some (.pfx none)
  else if s.startsWith "p" then
    match (s.drop 1).toString.splitOn "/" with
    | [ip, m] => do pure (.pfx (some (← unhex ip, ← unhex m)))
    | _ => none
  else (unhex s).map .bytes

def showVal : GVal → String
  | .bytes b => hexOf b
  | .nat n => s!"n{n}"
  | .time u => s!"t{u}"
  | .pfx none => "pnil"
  | .pfx (some (ip, m)) => s!"p{hexOf ip}/{hexOf m}"

def showLookup : LookupRes → String
  | .noAttr => "noattr"
  | .err => "err"
  | .val t v => s!"{t.toNat}:{showVal v}"

def showGets (g : List (UInt8 × GVal) × Bool) : String :=
  "[" ++ ";".intercalate (g.1.map fun tv => s!"{tv.1.toNat}:{showVal tv.2}") ++ "]" ++ (if g.2 then "" else "!")

inductive HOp where
  | add (str : Bool) (tag : UInt8) (v : GVal)
  | set (str : Bool) (tag : UInt8) (v : GVal)
  | del | lookup | wire

def parseHOps (s : String) : Option (List HOp) :=
  if s == "-" then some [] else
  (s.splitOn ",").mapM fun e =>
    match e.splitOn ":" with
    | ["add", t, v] => do pure (.add false (UInt8.ofNat (← parseNat t)) (← parseVal v))
    | ["addstr", t, v] => do pure (.add true (UInt8.ofNat (← parseNat t)) (← parseVal v))
    | ["set", t, v] => do pure (.set false (UInt8.ofNat (← parseNat t)) (← parseVal v))
    | ["setstr", t, v] => do pure (.set true (UInt8.ofNat (← parseNat t)) (← parseVal v))
    | ["del"] => some .del
    | ["lookup"] => some .lookup
    | ["wire"] => some .wire
    | _ => none

/-- the attribute the operation just stored, as found in the implementation's list -/
def storedAt (d : Desc) (before after : Attrs) (isSet : Bool) : Option Bytes :=
  let idx :=
    if d.vendorID = 0 ∧ isSet then
      match before.findIdx? (fun a => a.typ = d.typ) with
      | some i => i
      | none => after.length - 1
    else after.length - 1
  (after[idx]?).map fun a => if d.vendorID = 0 then a.val else a.val.drop 6

/-- the two salt octets the code drew, read off the stored attribute -/
def saltHint (d : Desc) (tag : UInt8) (stored : Option Bytes) : Bytes :=
  match stored with
  | none => [0x80, 0]
  | some s => ((if d.hasTag ∧ tag.toNat ≤ 0x1F ∧ d.kind.isText then s.drop 1 else s).take 2)

structure HObs where
  head : String
  attrs : Attrs
  l : String
  g : String

def HObs.render (o : HObs) : String := s!"{o.head}|{showAttrs o.attrs}|L={o.l}|G={o.g}|V=ok"

def parseObs (tok : String) : Option HObs :=
  match tok.splitOn "|" with
  | [h, as, l, g, _] => do
    let as ← parseAttrList as
    pure ⟨h, as, (l.drop 2).toString, (g.drop 2).toString⟩
  | _ => none

def reads (d : Desc) (as : Attrs) (secret auth : Bytes) : String × String :=
  (showLookup (hLookup md5 d as secret auth),
   if d.kind == .concat then "[]" else showGets (hGets md5 d as secret auth))

/-- canonical value a successful setter must make readable again (the property's "returns v") -/
def canonVal (d : Desc) (v : GVal) : GVal :=
  match d.kind, v with
  | .ipaddr, .bytes ip => .bytes ((to4 ip).getD ip)
  | .ipv6addr, .bytes ip => .bytes ((to16 ip).getD ip)
  | .ipv6prefix, .pfx (some (ip, m)) =>
      (match specMaskOnes m with
       | some n => .pfx (some (specMaskedIP ip n, m))
       | none => v)
  | .byte, .nat n => .nat (n % 256)
  | _, _ => v

/-- this vendor's other sub-attributes and every other attribute, flattened in order: what Set/Del
    on (vendor, type) must preserve byte for byte -/
def othersView (d : Desc) (as : Attrs) : List String :=
  if d.vendorID = 0 then (as.filter (fun a => a.typ ≠ d.typ)).map fun a => s!"{a.typ}:{hexOf a.val}"
  else as.flatMap fun a =>
    match vendorPayload d.vendorID a with
    | none => [s!"{a.typ}:{hexOf a.val}"]
    | some payload =>
      let rest := (vsaDel d.vendorType payload).1
      if rest.isEmpty then [] else [s!"v:{hexOf rest}"]

/-- no Vendor-Specific attribute of this vendor with an empty payload, and (after Del) none that
    still holds the type -/
def noEmptyVsa (d : Desc) (as : Attrs) : Bool :=
  d.vendorID = 0 || as.all fun a => match vendorPayload d.vendorID a with
    | some p => !p.isEmpty
    | none => true

def hasNul (v : GVal) : Bool := match v with | .bytes b => b.any (· == 0) | _ => false

def helperCase (pid : String) (args : List String) (impl : String) : Verdict :=
  match args with
  | [desc, init, secret, auth, ops] =>
    match parseDesc desc, parseAttrList init, unhex secret, unhex auth, parseHOps ops with
    | some d, some init, some secret, some auth, some ops =>
      let implToks := impl.splitOn " "
      -- ---------- model run (salt taken from the implementation's stored attribute) ----------
      let (l0, g0) := reads d init secret auth
      let initObs : HObs := ⟨"init", init, l0, g0⟩
      let rec run (as : Attrs) (ops : List HOp) (itoks : List String) (acc : List String) : List String :=
        match ops with
        | [] => acc.reverse
        | o :: rest =>
          let itok := itoks.headD ""
          let implAfter := (parseObs itok).map (·.attrs)
          match o with
          | .add _ tag v | .set _ tag v =>
            let isSet := match o with | .set .. => true | _ => false
            let salt := saltHint d tag (implAfter.bind fun af => storedAt d as af isSet)
            let r := if isSet then hSet md5 d as tag v secret auth salt else hAdd md5 d as tag v secret auth salt
            (match r with
             | .ok as' => let (l, g) := reads d as' secret auth
                          run as' rest itoks.tail ((HObs.render ⟨"ok", as', l, g⟩) :: acc)
             | .err => let (l, g) := reads d as secret auth
                       run as rest itoks.tail ((HObs.render ⟨"err", as, l, g⟩) :: acc)
             | .fault => run as rest itoks.tail ("PANIC" :: acc))
          | .del =>
            let as' := hDel d as
            let (l, g) := reads d as' secret auth
            run as' rest itoks.tail ((HObs.render ⟨"del", as', l, g⟩) :: acc)
          | .lookup =>
            let (l, g) := reads d as secret auth
            run as rest itoks.tail ((HObs.render ⟨"lookup", as, l, g⟩) :: acc)
          | .wire =>
            -- Encode (code 1: authenticator verbatim) → Parse
            -- code 1 keeps the authenticator; a salt-encrypted attribute travels in a reply (code 2), whose
            -- authenticator field is then the response hash: irrelevant here, the getters use the request's
            (match (if d.encrypt == 2 then encode md5 ⟨2, 0, auth, secret, as⟩ else marshal ⟨1, 0, auth, secret, as⟩) with
             | .ok w =>
               (match parse w secret with
                | .ok p => let (l, g) := reads d p.attrs secret auth
                           run p.attrs rest itoks.tail ((HObs.render ⟨"wire=ok", p.attrs, l, g⟩) :: acc)
                | _ => run as rest itoks.tail ("wire=unparsable" :: acc))
             | _ => run as rest itoks.tail ("wire=err" :: acc))
      let modelToks := initObs.render :: run init ops (implToks.drop 1) []
      let model := " ".intercalate modelToks
      -- ---------- the property's laws on the implementation's own observations ----------
      let vend := d.vendorID != 0
      let rec laws (prev : HObs) (ops : List HOp) (itoks : List String) (i : Nat) : List (String × Bool) :=
        match ops, itoks with
        | o :: rest, tok :: toks =>
          if tok == "PANIC" || tok == "HANG" then [(s!"step{i}_terminates_without_panic", false)] else
          match parseObs tok with
          | none =>
            (match o with
             | .wire => if tok == "wire=err" then laws prev rest toks (i + 1) else [(s!"step{i}_obs_wellformed", false)]
             | _ => [(s!"step{i}_obs_wellformed", false)])
          | some cur =>
            let variantsOk := tok.endsWith "|V=ok"
            let here : List (String × Bool) := [("get_and_string_variants_agree_with_lookup_and_gets", variantsOk)] ++
              match o with
              | .add _ tag v | .set _ tag v =>
                let isSet := match o with | .set .. => true | _ => false
                let tagOk := !d.hasTag || tag.toNat ≤ 0x1F
                let tag' : Nat := if d.hasTag then tag.toNat else 0
                let intTooWide := d.hasTag && (match d.kind.intBytes, v with
                  | some w, .nat n => decide (n ≥ 256 ^ (w - 1))
                  | _, _ => false)
                let nulCut := d.encrypt == 1 && d.kind.isText && hasNul v
                let emptyConcat := d.kind == .concat && v == .bytes []
                let want := s!"{tag'}:{showVal (canonVal d v)}"
                let suffix := if !tagOk then "[tag>0x1F]" else if intTooWide then "[tagged integer value>24 bits]"
                              else if nulCut then "[encrypt=1 value with NUL]" else ""
                if cur.head == "ok" then
                  (if isSet then
                    [(s!"set_then_lookup_returns_value{suffix}", cur.l == want || (emptyConcat && cur.l == "noattr")),
                     (s!"set_then_gets_is_singleton{suffix}", cur.g == s!"[{want}]" || (emptyConcat && cur.g == "[]") || d.kind == .concat)]
                   else
                    [(s!"add_appends_to_gets{suffix}", prev.g.endsWith "!" || cur.g == (if prev.g == "[]" then s!"[{want}]" else (prev.g.dropEnd 1).toString ++ s!";{want}]"))]) ++
                  [("others_untouched", othersView d cur.attrs == othersView d prev.attrs),
                   ("no_empty_vendor_attribute", noEmptyVsa d cur.attrs),
                   ("stored_value_fits_in_attribute", d.kind == .concat ||
                      (match cur.attrs.getLast?, storedAt d prev.attrs cur.attrs isSet with
                       | some last, some stored => decide (stored.length ≤ 253) && (d.vendorID == 0 || decide (last.val.length ≤ 253))
                       | _, _ => true)),
                   ("stored_obfuscated_never_in_clear",
                      d.encrypt == 0 || !(d.encrypt == 1 && d.kind.isText || d.usesSalt) ||
                      (match encodeValue md5 { d with encrypt := 0 } tag v secret auth [], storedAt d prev.attrs cur.attrs isSet with
                       | .ok clear, some stored =>
                         let c := if d.hasTag && tag.toNat ≤ 0x1F && d.kind.isText then clear.drop 1 else clear
                         stored != clear && (c.length < 4 || c.all (· == 0) || !(hexOf stored).contains (hexOf c))
                       | _, _ => true))]
                else if cur.head == "err" then
                  [("refusal_leaves_packet_unchanged", showAttrs cur.attrs == showAttrs prev.attrs)]
                else [(s!"step{i}_obs_wellformed", false)]
              | .del =>
                [("del_then_lookup_reports_no_attribute", cur.l == "noattr" && cur.g == "[]"),
                 ("others_untouched", othersView d cur.attrs == othersView d prev.attrs),
                 ("no_empty_vendor_attribute", noEmptyVsa d cur.attrs)]
              | .lookup =>
                [("reading_does_not_change_packet", showAttrs cur.attrs == showAttrs prev.attrs),
                 ("repeated_read_same", cur.l == prev.l && cur.g == prev.g)]
              | .wire =>
                [("values_survive_encode_parse", cur.l == prev.l && cur.g == prev.g)]
            here ++ laws cur rest toks (i + 1)
        | [], _ => []
        | _ :: _, [] => [("one_observation_per_step", false)]
      let clauses :=
        match implToks with
        | t0 :: rest =>
          (match parseObs t0 with
           | some o0 => laws o0 ops rest 0
           | none => [("initial_obs_wellformed", false)])
        | [] => [("initial_obs_wellformed", false)]
      let _ := vend
      let _ := pid
      mk impl model ([noCrash impl] ++ clauses)
    | _, _, _, _, _ => bad "helper-args"
  | _ => bad "helper-arity"

/-- value constants: `consts <name> <dict values name=number,…> => <number=string,…>|<const numbers>` -/
def constsCase (args : List String) (impl : String) : Verdict :=
  match args with
  | [_, dv] =>
    let decls : List (String × Nat) := if dv == "-" then [] else
      (dv.splitOn ",").filterMap fun e => match e.splitOn "=" with
        | [n, k] => k.toNat?.map fun k => (n, k)
        | _ => none
    -- the template keeps, per number, the LAST declaration (after a stable sort by number)
    let numbers := (decls.map (·.2)).eraseDups
    let expectPairs := numbers.map fun k => (k, ((decls.filter (·.2 == k)).getLast?.map (·.1)).getD "")
    let sorted := expectPairs.mergeSort (fun a b => a.1 ≤ b.1)
    let model := ",".intercalate (sorted.map fun (k, n) => s!"{k}={n}") ++ "|" ++ ",".intercalate (sorted.map fun (k, _) => toString k)
    let model := if sorted.isEmpty then "|" else model
    mk impl model [noCrash impl, ("constants_and_strings_equal_dictionary_values", impl == model)]
  | _ => bad "consts-arity"

/-- names another package's dictionary declares for this attribute (`-ref`): `String()` of each number is the
    name written there (`name=number` pairs, one per number, ascending) -/
def extConstsCase (args : List String) (impl : String) : Verdict :=
  match args with
  | [_, dv] =>
    let decls : List (String × Nat) := (dv.splitOn ",").filterMap fun e => match e.splitOn "=" with
      | [n, k] => k.toNat?.map fun k => (n, k)
      | _ => none
    let model := ",".intercalate (decls.map fun (n, k) => s!"{k}={n}")
    mk impl model [noCrash impl, ("externally_declared_value_names_equal_dictionary", impl == model)]
  | _ => bad "extconsts-arity"

def c12 (op : String) (args : List String) (impl : String) : Verdict :=
  match op with
  | "helper" => helperCase "C12" args impl
  | "consts" => constsCase args impl
  | "extconsts" => extConstsCase args impl
  | _ => bad s!"op:{op}"

def c14 (op : String) (args : List String) (impl : String) : Verdict :=
  match op with
  | "helper" => helperCase "C14" args impl
  | _ => bad s!"op:{op}"

end RV.Driver
