/-
  Driver for C16 (dictionary language) + the pieces shared with C15:
    * the canonical syntax of a parsed dictionary / of a failure (same as harness/cmd/vh/c16.go),
    * `DSpec`: a specification-level reader of the dictionary language, written from the wording of
      the property (grammar, scopes, faults) and NOT from the model's parser: it works on tokens
      split at blanks/tabs, knows nothing of Go's field-count dispatch, strconv, EqualFold, bufio.
      Where the property's wording does not determine the answer (exotic white space, non-ASCII
      "letter case", lines ≥ 64 KiB, a VENDOR line inside a vendor block) it answers `unspecified`
      and the oracle then checks only that nothing crashed.
-/
import RV.Driver.C03
import RV.Model.DictParser
namespace RV.Driver
open RV RV.Dict RV.DictParser

/-! ### canonical syntax -/

def optInt : Option Int → String
  | none => "_"
  | some n => toString n

def optBool : Option Bool → String
  | none => "_"
  | some true => "T"
  | some false => "F"

def joinOr (sep : String) (xs : List String) : String := if xs.isEmpty then "-" else sep.intercalate xs

def showAttr (a : Attribute) : String :=
  s!"{hexOf a.name}/{".".intercalate (a.oid.map toString)}/{a.typ.toNat}/{optInt a.size}/{optInt a.encrypt}/{optBool a.hasTag}/{optBool a.isConcat}"

def showValue (v : Value) : String := s!"{hexOf v.attrName}/{hexOf v.name}/{v.number}"

def showVendor (v : Vendor) : String :=
  s!"{hexOf v.name}/{v.number}/{optInt v.typeOctets}/{optInt v.lengthOctets}" ++
  "{" ++ joinOr "," (v.attributes.map showAttr) ++ "}{" ++ joinOr "," (v.values.map showValue) ++ "}"

def showDict (d : Dictionary) : String :=
  joinOr "," (d.attributes.map showAttr) ++ "~" ++ joinOr "," (d.values.map showValue) ++ "~" ++
  joinOr "|" (d.vendors.map showVendor)

def className : ErrClass → String
  | .unknownLine => "UnknownLine" | .invalidOID => "InvalidOID" | .unknownAttributeType => "UnknownAttributeType"
  | .duplicateAttributeFlag => "DuplicateAttributeFlag" | .unknownAttributeFlag => "UnknownAttributeFlag"
  | .invalidAttributeEncryptType => "InvalidAttributeEncryptType" | .duplicateAttribute => "DuplicateAttribute"
  | .strconv => "Strconv" | .invalidVendorFormat => "InvalidVendorFormat" | .duplicateVendor => "DuplicateVendor"
  | .nestedVendorBlock => "NestedVendorBlock" | .unknownVendor => "UnknownVendor"
  | .unmatchedEndVendor => "UnmatchedEndVendor" | .invalidEndVendor => "InvalidEndVendor"
  | .beginVendorInclude => "BeginVendorInclude" | .unclosedVendorBlock => "UnclosedVendorBlock"

/-- (class, file, line, detail) of a failure -/
def failureParts : Failure → String × Option Bytes × Nat × Option Bytes
  | .decl c f l => (className c, some f, l, none)
  | .openErr f l n => ("Open", some f, l, some n)
  | .recursive f l n => ("RecursiveInclude", some f, l, some n)
  | .scanner => ("Scanner", none, 0, none)
  | .rootOpen => ("RootOpen", none, 0, none)
  | .outOfFuel => ("OUT-OF-FUEL", none, 0, none)

/-- C16: `ok <dict>` / `err <Class> <line>` -/
def showResult16 (r : Result) : String :=
  match r with
  | (none, st) => s!"ok {showDict st.dict}"
  | (some .outOfFuel, _) => "DEPTH-EXCEEDED"
  | (some e, _) => let p := failureParts e; s!"err {p.1} {p.2.2.1}"

/-! ### specification-level reader -/
namespace DSpec

/-- split at every byte satisfying `p` (always at least one piece) -/
def splitAtP (p : UInt8 → Bool) : Bytes → List Bytes
  | [] => [[]]
  | b :: rest =>
    if p b then [] :: splitAtP p rest
    else match splitAtP p rest with
      | l :: ls => (b :: l) :: ls
      | [] => [[b]]

def sub (pat : Bytes) : Bytes → Bool
  | [] => pat.isEmpty
  | b :: rest => pat.isPrefixOf (b :: rest) || sub pat rest

/-- physical lines: split at LF, one CR before the LF belongs to the terminator -/
def physLines (text : Bytes) : List Bytes :=
  let segs := (splitAtP (· == 10) text)
  let segs := if segs.getLast? == some [] then segs.dropLast else segs
  segs.map fun l => if l.getLast? == some 13 then l.dropLast else l

/-- texts on which the property's wording is silent -/
def unspecifiedText (text : Bytes) : Option String :=
  let ls := splitAtP (· == 10) text
  if ls.any (fun l => decide (l.length ≥ 65536)) then some "line-of-64KiB-or-more"
  else if (physLines text).any (fun l => l.any (fun b => b == 13 || b == 11 || b == 12)) then some "control-character-as-white-space"
  else if sub [0xC2, 0x85] text || sub [0xC2, 0xA0] text || sub [0xE1, 0x9A, 0x80] text || sub [0xE2, 0x80] text
      || sub [0xE2, 0x81, 0x9F] text || sub [0xE3, 0x80, 0x80] text then some "unicode-white-space"
  else if sub [0xC5, 0xBF] text || sub [0xE2, 0x84, 0xAA] text then some "non-ascii-letter-case"
  else none

def tokens (line : Bytes) : List Bytes :=
  (splitAtP (fun b => b == 32 || b == 9) (line.takeWhile (· != 35))).filter (!·.isEmpty)

def str (s : String) : Bytes := s.toUTF8.toList
def lower (s : Bytes) : Bytes := s.map fun b => if 65 ≤ b && b ≤ 90 then b + 32 else b
def allDigits (s : Bytes) : Bool := !s.isEmpty && s.all fun b => 48 ≤ b && b ≤ 57
def natOf (s : Bytes) : Nat := s.foldl (fun n b => n * 10 + (b.toNat - 48)) 0

/-- signed decimal in the 32-bit range -/
def int32? (s : Bytes) : Option Int :=
  let (neg, body) := match s with
    | 45 :: r => (true, r)
    | 43 :: r => (false, r)
    | _ => (false, s)
  if !allDigits body then none else
  let n := natOf body
  if neg then (if n ≤ 2147483648 then some (-(n : Int)) else none)
  else (if n ≤ 2147483647 then some (n : Int) else none)

def hexDigitVal (b : UInt8) : Option Nat :=
  if 48 ≤ b && b ≤ 57 then some (b.toNat - 48) else if 97 ≤ b && b ≤ 102 then some (b.toNat - 87)
  else if 65 ≤ b && b ≤ 70 then some (b.toNat - 55) else none

/-- decimal or 0x-hex, 32-bit unsigned -/
def uint32? (s : Bytes) : Option Nat :=
  match s with
  | 48 :: 120 :: h =>
    if h.isEmpty || h.any (fun b => (hexDigitVal b).isNone) then none else
    let n := h.foldl (fun n b => n * 16 + (hexDigitVal b).getD 0) 0
    if n < 4294967296 then some n else none
  | _ => if allDigits s && natOf s < 4294967296 then some (natOf s) else none

/-- dotted number whose components fit Go's int -/
def oid? (s : Bytes) : Option (List Int) :=
  let parts := splitAtP (· == 46) s
  if parts.isEmpty || parts.any (fun p => !allDigits p || decide (natOf p ≥ 2 ^ 63)) then none
  else some (parts.map fun p => (natOf p : Int))

def typeNames : List (String × AttrType) :=
  [("string", .string), ("octets", .octets), ("ipaddr", .ipaddr), ("date", .date), ("integer", .integer),
   ("ipv6addr", .ipv6addr), ("ipv6prefix", .ipv6prefix), ("ifid", .ifid), ("integer64", .integer64), ("vsa", .vsa),
   ("ether", .ether), ("abinary", .abinary), ("byte", .byte), ("short", .short), ("signed", .signed), ("tlv", .tlv),
   ("ipv4prefix", .ipv4prefix)]

def type? (s : Bytes) : Option (AttrType × Option Int) :=
  let l := lower s
  match typeNames.find? (fun e => str e.1 == l) with
  | some e => some (e.2, none)
  | none =>
    if (str "octets[").isPrefixOf l && l.getLast? == some 93 && l.length ≥ 9 then
      (int32? ((s.drop 7).dropLast)).map fun n => (.octets, some n)
    else none

/-- what one line says -/
inductive Line where
  | blank
  | attr (a : Attribute)
  | value (v : Value)
  | vendor (v : Vendor)
  | beginV (n : Bytes)
  | endV (n : Bytes)
  | incl (n : Bytes)
  | faulty (classes : List String)

def readFlags (a : Attribute) (fl : Bytes) : Attribute × List String :=
  (splitAtP (· == 44) fl).foldl (fun (acc : Attribute × List String) f =>
    let (a, errs) := acc
    if f == str "has_tag" then
      (if a.hasTag.isSome then (a, errs ++ ["DuplicateAttributeFlag"]) else ({ a with hasTag := some true }, errs))
    else if f == str "concat" then
      (if a.isConcat.isSome then (a, errs ++ ["DuplicateAttributeFlag"]) else ({ a with isConcat := some true }, errs))
    else if (str "encrypt=").isPrefixOf f then
      if a.encrypt.isSome then (a, errs ++ ["DuplicateAttributeFlag"]) else
      match int32? (f.drop 8) with
      | some n => ({ a with encrypt := some n }, errs)
      | none => ({ a with encrypt := some 0 }, errs ++ ["InvalidAttributeEncryptType"])
    else (a, errs ++ ["UnknownAttributeFlag"])) (a, [])

def readLine (line : Bytes) : Line :=
  let ts := tokens line
  let kw (s : String) : Bool := ts.head? == some (str s)
  match ts with
  | [] => .blank
  | _ =>
  if kw "ATTRIBUTE" then
    match ts with
    | [_, name, oid, ty] | [_, name, oid, ty, _] =>
      let e1 := if (oid? oid).isNone then ["InvalidOID"] else []
      let e2 := if (type? ty).isNone then ["UnknownAttributeType"] else []
      let t := (type? ty).getD (.string, none)
      let a0 : Attribute := { name := name, oid := (oid? oid).getD [], typ := t.1, size := t.2 }
      let (a, e3) := match ts with
        | [_, _, _, _, fl] => readFlags a0 fl
        | _ => (a0, [])
      if (e1 ++ e2 ++ e3).isEmpty then .attr a else .faulty (e1 ++ e2 ++ e3)
    | _ => .faulty ["UnknownLine"]
  else if kw "VALUE" then
    match ts with
    | [_, a, n, num] =>
      match uint32? num with
      | some v => .value { attrName := a, name := n, number := v }
      | none => .faulty ["Strconv"]
    | _ => .faulty ["UnknownLine"]
  else if kw "VENDOR" then
    match ts with
    | [_, name, num] =>
      match int32? num with
      | some n => .vendor { name := name, number := n }
      | none => .faulty ["Strconv"]
    | [_, name, num, fmt] =>
      let e1 := if (int32? num).isNone then ["Strconv"] else []
      let f : Option (Int × Int) :=
        match fmt.drop 7 with
        | [t, 44, l] =>
          if (str "format=").isPrefixOf fmt && (t == 49 || t == 50 || t == 52) && (l == 48 || l == 49 || l == 50)
          then some ((t.toNat - 48 : Nat), (l.toNat - 48 : Nat)) else none
        | _ => none
      let e2 := if f.isNone then ["InvalidVendorFormat"] else []
      if (e1 ++ e2).isEmpty then
        .vendor { name := name, number := (int32? num).getD 0, typeOctets := f.map (·.1), lengthOctets := f.map (·.2) }
      else .faulty (e1 ++ e2)
    | _ => .faulty ["UnknownLine"]
  else if kw "BEGIN-VENDOR" then
    match ts with | [_, n] => .beginV n | _ => .faulty ["UnknownLine"]
  else if kw "END-VENDOR" then
    match ts with | [_, n] => .endV n | _ => .faulty ["UnknownLine"]
  else if kw "$INCLUDE" then
    match ts with | [_, n] => .incl n | _ => .faulty ["UnknownLine"]
  else .faulty ["UnknownLine"]

inductive Out where
  | accept (d : Dictionary)
  | reject (classes : List String) (file : Bytes) (line : Nat) (detail : Option Bytes)
  | unspecified (why : String)

/-- reader state: dictionary so far, open vendor block -/
structure RS where
  d : Dictionary := {}
  block : Option Bytes := none

def updVendor (name : Bytes) (f : Vendor → Vendor) (vs : List Vendor) : List Vendor :=
  match vs.findIdx? (·.name == name) with
  | some i => vs.modify i f
  | none => vs

/-- read one file (depth-first through `$INCLUDE`); `path` = files being read, innermost first -/
def readFile (fs : List (Bytes × Bytes)) (ign : Bool) : Nat → List Bytes → Bytes → Bytes → Dictionary → Out
  | 0, _, _, _, _ => .unspecified "include-depth"
  | fuel + 1, path, file, text, d0 =>
    match unspecifiedText text with
    | some why => .unspecified why
    | none =>
    let ls := physLines text
    let rec go (ls : List Bytes) (no : Nat) (s : RS) : Out :=
      match ls with
      | [] => if s.block.isSome then .reject ["UnclosedVendorBlock"] file (no - 1) none else .accept s.d
      | l :: rest =>
        let rej (cs : List String) : Out := .reject cs file no none
        match readLine l with
        | .blank => go rest (no + 1) s
        | .faulty cs => rej cs
        | .attr a =>
          let scope := match s.block with
            | none => s.d.attributes
            | some v => ((s.d.vendors.find? (fun (w : Vendor) => w.name == v)).map (fun (w : Vendor) => w.attributes)).getD []
          match scope.find? (·.name == a.name) with
          | some old => if ign && old == a then go rest (no + 1) s else rej ["DuplicateAttribute"]
          | none =>
            match s.block with
            | none => go rest (no + 1) { s with d := { s.d with attributes := s.d.attributes ++ [a] } }
            | some v => go rest (no + 1) { s with d := { s.d with vendors := updVendor v (fun x => { x with attributes := x.attributes ++ [a] }) s.d.vendors } }
        | .value x =>
          match s.block with
          | none => go rest (no + 1) { s with d := { s.d with values := s.d.values ++ [x] } }
          | some v => go rest (no + 1) { s with d := { s.d with vendors := updVendor v (fun y => { y with values := y.values ++ [x] }) s.d.vendors } }
        | .vendor v =>
          if s.block.isSome then .unspecified "VENDOR-inside-vendor-block"
          else if s.d.vendors.any (fun w => w.name == v.name || w.number == v.number) then rej ["DuplicateVendor"]
          else go rest (no + 1) { s with d := { s.d with vendors := s.d.vendors ++ [v] } }
        | .beginV n =>
          if s.block.isSome then rej ["NestedVendorBlock"]
          else if s.d.vendors.any (·.name == n) then go rest (no + 1) { s with block := some n }
          else rej ["UnknownVendor"]
        | .endV n =>
          match s.block with
          | none => rej ["UnmatchedEndVendor"]
          | some v => if v == n then go rest (no + 1) { s with block := none } else rej ["InvalidEndVendor"]
        | .incl n =>
          if s.block.isSome then rej ["BeginVendorInclude"] else
          match fs.find? (·.1 == n) with
          | none => .reject ["Open"] file no (some n)
          | some (_, t) =>
            if path.contains n then .reject ["RecursiveInclude"] file no (some n)
            else match readFile fs ign fuel (n :: path) n t s.d with
              | .accept d' => go rest (no + 1) { s with d := d' }
              | other => other
    go ls 1 { d := d0 }

/-- C16: a single text, no includable files -/
def readText (ign : Bool) (text : Bytes) : Out := readFile [] ign 2 [str "root"] (str "root") text {}

end DSpec

/-! ### the C16 oracle -/

def implClassLine (impl : String) : Option (String × String) :=
  match impl.splitOn " " with
  | ["err", c, l] => some (c, l)
  | _ => none

/-- clauses that compare the implementation's answer with the specification-level reading -/
def specClauses16 (spec : DSpec.Out) (impl : String) : List (String × Bool) :=
  match spec with
  | .unspecified _ => []
  | .accept d =>
    if impl.startsWith "err " then
      [(s!"in_language_but_rejected:{((implClassLine impl).map (·.1)).getD "?"}", false)]
    else [("lists_precisely_the_declared_items_in_order", impl == s!"ok {showDict d}")]
  | .reject cs _ line _ =>
    if impl.startsWith "ok " then [(s!"fault_not_rejected:{cs.headD "?"}", false)]
    else match implClassLine impl with
      | some (c, l) =>
        -- an error on an EARLIER line means that a line of the language was rejected
        if l != "0" && decide ((l.toNat?.getD 0) < line) then [(s!"in_language_but_rejected:{c}", false)]
        else [("fault_reported_with_its_class", cs.contains c), ("fault_reported_with_its_1_based_line", l == toString line)]
      | none => [("fault_reported_with_its_class", false)]

def c16 (op : String) (args : List String) (impl : String) : Verdict :=
  let run (th ign : String) (extra : DSpec.Out → List (String × Bool)) : Verdict :=
    match unhex th with
    | none => bad "hex"
    | some text =>
      let ig := ign == "1"
      let model := showResult16 (parseText Cfg.tree ig text)
      let spec := DSpec.readText ig text
      mk impl model ([noCrash impl, ("terminates", impl != "DEPTH-EXCEEDED")] ++ extra spec ++ specClauses16 spec impl)
  match op, args with
  | "parse", [th, ign] => run th ign (fun _ => [])
  | "rendered", [th, ign, expected] =>
    run th ign fun spec =>
      [("GENERATOR-vs-SPEC:expected-dictionary", match spec with
          | .accept d => showDict d == expected
          | .unspecified _ => true
          | .reject .. => false),
       (if impl.startsWith "err " then s!"layout_changed_the_result:rejected:{((implClassLine impl).map (·.1)).getD "?"}"
        else "layout_changed_the_result", impl == s!"ok {expected}")]
  | "fault", [th, ign, cls, line] =>
    run th ign fun spec =>
      [("GENERATOR-vs-SPEC:expected-fault", match spec with
          | .reject cs _ l _ => cs.contains cls && toString l == line
          | .unspecified _ => true
          | .accept _ => false),
       (s!"fault_not_rejected:{cls}", !impl.startsWith "ok "),
       (s!"fault_reported_with_class_and_line:{cls}", impl == s!"err {cls} {line}")]
  | _, _ => bad s!"op:{op}"

end RV.Driver
