/- Driver for C10 (typed value codecs). -/
import RV.Driver.C03
import RV.Model.Codec
namespace RV.Driver

/-- specification helpers written independently of the model's encoders -/
def natOfBytes (b : Bytes) : Nat := b.foldl (fun n x => n * 256 + x.toNat) 0

def isV4 (ip : Bytes) : Bool :=
  ip.length == 4 || (ip.length == 16 && ip.take 12 == [0,0,0,0,0,0,0,0,0,0,0xff,0xff])

def canon16 (ip : Bytes) : Bytes := if ip.length == 4 then [0,0,0,0,0,0,0,0,0,0,0xff,0xff] ++ ip else ip

/-- bit `i` (0 = most significant bit of byte 0) -/
def bitAt (b : Bytes) (i : Nat) : Bool := ((b.getD (i / 8) 0).toNat / 2 ^ (7 - i % 8)) % 2 == 1

/-- a mask of `len` bytes is canonical with `n` ones -/
def specMaskOnes (mask : Bytes) : Option Nat :=
  let bits := (List.range (mask.length * 8)).map (bitAt mask)
  let n := (bits.takeWhile id).length
  if (bits.drop n).all (!·) then some n else none

def specMaskedIP (ip : Bytes) (ones : Nat) : Bytes :=
  (List.range ip.length).map fun i =>
    let b := (ip.getD i 0).toNat
    let keep := if (i + 1) * 8 ≤ ones then 8 else if i * 8 ≥ ones then 0 else ones - i * 8
    UInt8.ofNat (b / 2 ^ (8 - keep) * 2 ^ (8 - keep))

def showResPair {α β} (f : α → String) (g : β → String) : Res (α × β) → String
  | .ok (a, b) => s!"ok {f a} {g b}"
  | .err => "err"
  | .fault => "PANIC"

def encDec {α} (enc : Res Bytes) (dec : Bytes → Res α) (sh : α → String) : String :=
  match enc with
  | .ok a => s!"ok {hexOf a} {showRes sh (dec a)}"
  | .err => "err"
  | .fault => "PANIC"

def implAttr (impl : String) : Bytes :=
  match impl.splitOn " " with
  | _ :: h :: _ => (unhex h).getD []
  | _ => []

def c10Inner (op : String) (args : List String) (impl : String) : Verdict :=
  let implOk := impl.startsWith "ok "
  match op, args with
  | "short", [v] =>
    match parseNat v with
    | some v =>
      mk impl (encDec (.ok (newShort v)) short toString)
        [noCrash impl, ("roundtrip", impl == s!"ok {hexOf (beBytes 2 v)} ok {v}"), ("len", (implAttr impl).length == 2)]
    | none => bad "nat"
  | "integer", [v] =>
    match parseNat v with
    | some v =>
      mk impl (encDec (.ok (newInteger v)) integer toString)
        [noCrash impl, ("roundtrip", impl == s!"ok {hexOf (beBytes 4 v)} ok {v}"), ("len", (implAttr impl).length == 4)]
    | none => bad "nat"
  | "integer64", [v] =>
    match parseNat v with
    | some v =>
      mk impl (encDec (.ok (newInteger64 v)) integer64 toString)
        [noCrash impl, ("roundtrip", impl == s!"ok {hexOf (beBytes 8 v)} ok {v}"), ("len", (implAttr impl).length == 8)]
    | none => bad "nat"
  | "string", [h] | "bytes", [h] =>
    match unhex h with
    | some s =>
      let model := encDec (if op == "string" then newString s else newBytes s) (fun a => Res.ok a) hexOf
      mk impl model [noCrash impl, ("error_iff_longer_than_253", implOk == decide (s.length ≤ 253)),
        ("roundtrip", !implOk || impl == s!"ok {hexOf s} ok {hexOf s}")]
    | none => bad "hex"
  | "ipaddr", [h] =>
    match unhex h with
    | some ip =>
      let model := encDec (newIPAddr ip) ipAddr hexOf
      let a := implAttr impl
      mk impl model [noCrash impl, ("error_iff_not_ipv4", implOk == isV4 ip),
        ("roundtrip_ip_equal", !implOk || (a.length == 4 && impl == s!"ok {hexOf a} ok {hexOf a}" && canon16 a == canon16 ip))]
    | none => bad "hex"
  | "ipv6addr", [h] =>
    match unhex h with
    | some ip =>
      let model := encDec (newIPv6Addr ip) ipv6Addr hexOf
      let a := implAttr impl
      mk impl model [noCrash impl, ("error_iff_not_an_ip", implOk == (ip.length == 4 || ip.length == 16)),
        ("roundtrip_ip_equal", !implOk || (a.length == 16 && impl == s!"ok {hexOf a} ok {hexOf a}" && a == canon16 ip))]
    | none => bad "hex"
  | "ifid", [h] =>
    match unhex h with
    | some x =>
      let model := encDec (newIFID x) ifid hexOf
      mk impl model [noCrash impl, ("error_iff_not_8_bytes", implOk == (x.length == 8)),
        ("roundtrip", !implOk || impl == s!"ok {hexOf x} ok {hexOf x}")]
    | none => bad "hex"
  | "date", [u, _nanos] =>
    match parseInt u with
    | some u =>
      let model := encDec (newDate u) date toString
      mk impl model [noCrash impl, ("error_iff_unrepresentable", implOk == (decide (0 ≤ u) && decide (u < 4294967296))),
        ("roundtrip_to_the_second", !implOk || impl == s!"ok {hexOf (beBytes 4 u.toNat)} ok {u}")]
    | none => bad "int"
  | "vsa", [id, h] =>
    match parseNat id, unhex h with
    | some id, some v =>
      let model := encDec (newVendorSpecific id v) vendorSpecific (fun (r : Nat × Bytes) => s!"{r.1} {hexOf r.2}")
      let a := implAttr impl
      mk impl model [noCrash impl,
        ("never_undecodable_or_oversize", !implOk || (decide (a.length ≤ 253) && impl == s!"ok {hexOf (beBytes 4 id ++ v)} ok {id} {hexOf v}")),
        ("error_iff_unrepresentable", implOk == (decide (1 ≤ v.length) && decide (v.length ≤ 249)))]
    | _, _ => bad "vsa-args"
  | "tlv", [t, h] =>
    match parseNat t, unhex h with
    | some t, some v =>
      let model := encDec (newTLV (UInt8.ofNat t) v) tlv (fun (r : UInt8 × Bytes) => s!"{r.1.toNat} {hexOf r.2}")
      let a := implAttr impl
      mk impl model [noCrash impl,
        ("never_undecodable_or_oversize", !implOk || (decide (a.length ≤ 255) && impl == s!"ok {hexOf ([UInt8.ofNat t, UInt8.ofNat (2 + v.length)] ++ v)} ok {t} {hexOf v}")),
        ("error_iff_unrepresentable", implOk == (decide (1 ≤ v.length) && decide (v.length ≤ 253)))]
    | _, _ => bad "tlv-args"
  | "ipv6prefix", [iph, mh] =>
    if iph == "nil" then mk impl (encDec (newIPv6Prefix none) ipv6Prefix (fun _ => "")) [noCrash impl, ("nil_refused", impl == "err")] else
    match unhex iph, unhex mh with
    | some ip, some mask =>
      let model := encDec (newIPv6Prefix (some (ip, mask))) ipv6Prefix (fun (r : Bytes × Bytes) => s!"{hexOf r.1} {hexOf r.2}")
      let ones := if mask.length == 16 then specMaskOnes mask else none
      let a := implAttr impl
      mk impl model ([noCrash impl, ("error_iff_not_an_ipv6_prefix", implOk == (ip.length == 16 && ones.isSome))] ++
        (match ones with
         | some n => if implOk then
             [("roundtrip_host_bits_cleared", impl == s!"ok {hexOf a} ok {hexOf (specMaskedIP ip n)} {hexOf mask}"),
              ("wire_form", a == [0, UInt8.ofNat n] ++ (specMaskedIP ip n).take ((n + 7) / 8))] else []
         | none => []))
    | _, _ => bad "prefix-args"
  | "dec", [codec, h] =>
    match unhex h with
    | some a =>
      let (model, accept) : String × Bool := match codec with
        | "short" => (showRes toString (short a), a.length == 2)
        | "integer" => (showRes toString (integer a), a.length == 4)
        | "integer64" => (showRes toString (integer64 a), a.length == 8)
        | "ipaddr" => (showRes hexOf (ipAddr a), a.length == 4)
        | "ipv6addr" => (showRes hexOf (ipv6Addr a), a.length == 16)
        | "ifid" => (showRes hexOf (ifid a), a.length == 8)
        | "date" => (showRes toString (date a), a.length == 4)
        | "string" => (s!"ok {hexOf a}", true)
        | "bytes" => (s!"ok {hexOf a}", true)
        | "vsa" => (showResPair toString hexOf (vendorSpecific a), decide (5 ≤ a.length))
        | "tlv" => (showResPair (fun (t : UInt8) => toString t.toNat) hexOf (tlv a),
                    decide (3 ≤ a.length) && decide (a.length ≤ 255) && (a.getD 1 0).toNat == a.length)
        | "ipv6prefix" =>
            let pl := (a.getD 1 0).toNat
            let ip := a.drop 2 ++ zeros (18 - a.length)
            (showResPair hexOf hexOf (ipv6Prefix a),
             decide (2 ≤ a.length) && decide (a.length ≤ 18) && decide (pl ≤ 128) && specMaskedIP ip pl == ip)
        | _ => ("?", false)
      let valueOk : Bool := match codec with
        | "short" | "integer" | "integer64" | "date" => !implOk || impl == s!"ok {natOfBytes a}"
        | "vsa" => !implOk || impl == s!"ok {natOfBytes (a.take 4)} {hexOf (a.drop 4)}"
        | "tlv" => !implOk || impl == s!"ok {(a.getD 0 0).toNat} {hexOf (a.drop 2)}"
        | "ipv6prefix" =>
            -- the address is the octets after the two-octet header, padded with zeros to sixteen; the mask has as many
            -- leading one bits as the prefix-length octet says (written from RFC 3162 §2.3, not with the model's decoder)
            let pl := (a.getD 1 0).toNat
            let ip := a.drop 2 ++ zeros (18 - a.length)
            let mask : Bytes := (List.range 16).map fun i =>
              let keep := if (i + 1) * 8 ≤ pl then 8 else if i * 8 ≥ pl then 0 else pl - i * 8
              UInt8.ofNat (256 - 2 ^ (8 - keep))
            !implOk || impl == s!"ok {hexOf ip} {hexOf mask}"
        | _ => !implOk || impl == s!"ok {hexOf a}"
      mk impl model [noCrash impl, ("accepts_exactly_wire_format", implOk == accept), ("decoded_value", valueOk)]
    | none => bad "hex"
  | _, _ => bad s!"op:{op}"

/-- every encoder call returns a fresh slice (the harness scribbles over one result and calls again) -/
def c10 (op : String) (args : List String) (impl : String) : Verdict :=
  if impl == "encoder-result-shared" then
    { agree := false, prop := "PROP_FAIL", model := "fresh slice per call", why := "encoder_results_are_fresh_not_shared" }
  else c10Inner op args impl

end RV.Driver
