/-
  Driver for C15 (dictionary include walk).
  op  walk <fs> <root> <ign>      fs = `namehex:texthex,…` (`-` = no file), first entry of a name wins
  result  DEPTH-EXCEEDED | <outcome> <trace>
     outcome = ok <dict> | err <Class> <filehex> <line> <detailhex>
     trace   = o<namehex> / c<namehex> events joined by `,` (`-` if none)
  Oracle = the specification-level depth-first reading (`DSpec.readFile`, written from the property):
  terminates; a cycle is reported as RecursiveInclude exactly when the walk reaches it before any
  other fault; acyclic graphs (diamonds, repeated includes) are not; every open has a close; a
  ParseError names the file and the 1-based line.
-/
import RV.Driver.C16
namespace RV.Driver
open RV RV.Dict RV.DictParser

def parseFS (s : String) : Option FS :=
  if s == "-" then some [] else
  (s.splitOn ",").mapM fun e =>
    match e.splitOn ":" with
    | [n, t] => do
      let n ← unhex n
      let t ← unhex t
      pure (n, t)
    | _ => none

def showEvent : Event → String
  | .opened n => s!"o{hexOf n}"
  | .closed n => s!"c{hexOf n}"

def optHex : Option Bytes → String
  | none => "-"
  | some b => hexOf b

def showResult15 (r : Result) : String :=
  let trace := joinOr "," (r.2.log.map showEvent)
  match r with
  | (none, st) => s!"ok {showDict st.dict} {trace}"
  | (some .outOfFuel, _) => "DEPTH-EXCEEDED"
  | (some e, _) => let p := failureParts e; s!"err {p.1} {optHex p.2.1} {p.2.2.1} {optHex p.2.2.2} {trace}"

/-- every `o<name>` of the trace is followed by a `c<name>`: replay the trace with the multiset of
    open handles (a second close of a handle is allowed) -/
def traceBalanced (trace : String) : Bool :=
  if trace == "-" then true else
  let evs := trace.splitOn ","
  let final := evs.foldl (fun (open_ : List String) e =>
    let n := (e.drop 1).toString
    if e.startsWith "o" then n :: open_
    else if open_.contains n then open_.erase n else open_) []
  final.isEmpty

def c15 (op : String) (args : List String) (impl : String) : Verdict :=
  -- `walkfs` is the same walk through the real file system and FileSystemOpener, with the `$INCLUDE`
  -- arguments re-spelled in equivalent ways by the harness: the expected outcome is that of the plain spelling
  let op := if op == "walkfs" then "walk" else op
  match op, args with
  | "walk", [fsS, rootS, ign] =>
    match parseFS fsS, unhex rootS with
    | some fs, some root =>
      let ig := ign == "1"
      let model := showResult15 (parseFile Cfg.tree ig fs root)
      let toks := impl.splitOn " "
      let trace := toks.getLast?.getD "-"
      let spec : DSpec.Out := match fs.find? (·.1 == root) with
        | none => .reject ["RootOpen"] [] 0 none
        | some (_, text) => DSpec.readFile fs ig (fs.length + 2) [root] root text {}
      let base : List (String × Bool) :=
        [noCrash impl,
         ("terminates_without_unbounded_recursion", impl != "DEPTH-EXCEEDED"),
         ("every_opened_file_is_closed", traceBalanced trace)]
      let specCl : List (String × Bool) :=
        match spec with
        | .unspecified _ => []
        | .accept d =>
          match toks with
          | "err" :: "RecursiveInclude" :: _ => [("acyclic_includes_reported_as_recursive", false)]
          | "err" :: c :: _ => [(s!"in_language_but_rejected:{c}", false)]
          | ["ok", dict, _] => [("lists_precisely_the_declared_items_in_order", dict == showDict d)]
          | _ => [("result_is_a_dictionary_or_an_error", false)]
        | .reject cs file line detail =>
          match toks with
          | "ok" :: _ =>
            [(if cs == ["RecursiveInclude"] then "include_cycle_not_reported" else s!"fault_not_rejected:{cs.headD "?"}", false)]
          | ["err", c, f, l, d, _] =>
            if cs != ["RecursiveInclude"] && f == hexOf file && l != "0" && decide ((l.toNat?.getD 0) < line) then [(s!"in_language_but_rejected:{c}", false)] else
            [(if cs == ["RecursiveInclude"] then "include_cycle_reported_as_RecursiveIncludeError"
              else if c == "RecursiveInclude" then "recursive_include_reported_where_the_walk_meets_another_fault_first"
              else "fault_reported_with_its_class", cs.contains c),
             ("parse_error_names_the_file_and_the_1_based_line",
                cs == ["RootOpen"] || (f == hexOf file && l == toString line)),
             ("error_names_the_included_file", match detail with | some x => d == hexOf x | none => true)]
          | _ => [("result_is_a_dictionary_or_an_error", false)]
      mk impl model (base ++ specCl)
    | _, _ => bad "fs"
  | _, _ => bad s!"op:{op}"

end RV.Driver
