/-
  Driver for C15 (dictionary include walk).
  op  walk <fs> <root> <ign>      fs = `namehex:texthex,…` (`-` = no file), first entry of a name wins
  result  DEPTH-EXCEEDED | <outcome> <trace>
     outcome = ok <dict> | err <Class> <filehex> <line> <detailhex>
     trace   = o<namehex> / c<namehex> events joined by `,` (`-` if none)
  Oracle = the specification-level depth-first reading (`DSpec.readFile`, written from the property):
  terminates; a cycle is reported as RecursiveInclude exactly when the walk reaches it before any
  other fault; acyclic graphs (diamonds, repeated includes) are not; every open has a close; a
  ParseError names the file and the 1-based line.
-/
import RV.Driver.C16
import RV.Model.DictParserIO
namespace RV.Driver
open RV RV.Dict RV.DictParser

def parseFS (s : String) : Option FS :=
  if s == "-" then some [] else
  (s.splitOn ",").mapM fun e =>
    match e.splitOn ":" with
    | [n, t] => do
      let n ← unhex n
      let t ← unhex t
      pure (n, t)
    | _ => none

def showEvent : Event → String
  | .opened n => s!"o{hexOf n}"
  | .closed n => s!"c{hexOf n}"

def optHex : Option Bytes → String
  | none => "-"
  | some b => hexOf b

def showResult15 (r : Result) : String :=
  let trace := joinOr "," (r.2.log.map showEvent)
  match r with
  | (none, st) => s!"ok {showDict st.dict} {trace}"
  | (some .outOfFuel, _) => "DEPTH-EXCEEDED"
  | (some e, _) => let p := failureParts e; s!"err {p.1} {optHex p.2.1} {p.2.2.1} {optHex p.2.2.2} {trace}"

/-- every `o<name>` of the trace is followed by a `c<name>`: replay the trace with the multiset of
    open handles (a second close of a handle is allowed) -/
def traceBalanced (trace : String) : Bool :=
  if trace == "-" then true else
  let evs := trace.splitOn ","
  let final := evs.foldl (fun (open_ : List String) e =>
    let n := (e.drop 1).toString
    if e.startsWith "o" then n :: open_
    else if open_.contains n then open_.erase n else open_) []
  final.isEmpty

/-- The trace is WELL NESTED: a word of the language of `RV.DictParser.Nested` - every `o<name>` is
    matched by its own `c<name>`, LIFO (a close refers to the most recently opened handle that is not
    done with), a second close of a handle allowed only directly after its first.
    The trace names FILES, not handles, so where one name is open twice (a RecursiveInclude) a close can
    be read as belonging to either handle; the recognizer keeps every reading (`List (stack, innermost
    handle closed once already)`) and accepts if one of them is well nested.  This is the strongest
    check the trace allows: a dropped close of a re-opened handle (`o a, o a, c a` then the parent's
    close) is refused, whereas "inner handle closed twice, outer handle of the same name never" and
    "both closed once" are the same word `o a, o a, c a, c a`.  That last gap is closed on the harness
    side, which counts per handle: `err HandleLeak` (in-memory opener), `fds=<n>` (real files). -/
def traceNested (trace : String) : Bool :=
  if trace == "-" then true else
  let step (cs : List (List String × Bool)) (e : String) : List (List String × Bool) :=
    let n := (e.drop 1).toString
    (cs.flatMap fun (stk, once) =>
      -- a handle that was closed once is done with as soon as anything but its second close follows
      let stk' := if once then stk.tail else stk
      if e.startsWith "o" then [(n :: stk', false)]
      else
        (if once && stk.head? == some n then [(stk.tail, false)] else []) ++     -- the second close of that handle
        (if stk'.head? == some n then [(stk', true)] else [])).eraseDups          -- the first close of the innermost open handle
  let final := (trace.splitOn ",").foldl step [([], false)]
  final.any fun (stk, once) => stk.isEmpty || (once && stk.length == 1)

def c15 (op : String) (args : List String) (impl : String) : Verdict :=
  -- `walkfs` is the same walk through the real file system and FileSystemOpener, with the `$INCLUDE`
  -- arguments re-spelled in equivalent ways by the harness: the expected outcome is that of the plain spelling
  let op := if op == "walkfs" then "walk" else op
  match op, args with
  | "walk", [fsS, rootS, ign] =>
    match parseFS fsS, unhex rootS with
    | some fs, some root =>
      let ig := ign == "1"
      let model := showResult15 (parseFile Cfg.tree ig fs root)
      let toks := impl.splitOn " "
      let trace := toks.getLast?.getD "-"
      let spec : DSpec.Out := match fs.find? (·.1 == root) with
        | none => .reject ["RootOpen"] [] 0 none
        | some (_, text) => DSpec.readFile fs ig (fs.length + 2) [root] root text {}
      let base : List (String × Bool) :=
        [noCrash impl,
         ("terminates_without_unbounded_recursion", impl != "DEPTH-EXCEEDED"),
         ("every_opened_file_is_closed", traceBalanced trace),
         ("every_opened_handle_is_closed", !impl.startsWith "err HandleLeak"),
         ("open_close_trace_is_well_nested", traceNested trace)]
      let specCl : List (String × Bool) :=
        match spec with
        | .unspecified _ => []
        | .accept d =>
          match toks with
          | "err" :: "RecursiveInclude" :: _ => [("acyclic_includes_reported_as_recursive", false)]
          | "err" :: c :: _ => [(s!"in_language_but_rejected:{c}", false)]
          | ["ok", dict, _] => [("lists_precisely_the_declared_items_in_order", dict == showDict d)]
          | _ => [("result_is_a_dictionary_or_an_error", false)]
        | .reject cs file line detail =>
          match toks with
          | "ok" :: _ =>
            [(if cs == ["RecursiveInclude"] then "include_cycle_not_reported" else s!"fault_not_rejected:{cs.headD "?"}", false)]
          | ["err", c, f, l, d, _] =>
            if cs != ["RecursiveInclude"] && f == hexOf file && l != "0" && decide ((l.toNat?.getD 0) < line) then [(s!"in_language_but_rejected:{c}", false)] else
            [(if cs == ["RecursiveInclude"] then "include_cycle_reported_as_RecursiveIncludeError"
              else if c == "RecursiveInclude" then "recursive_include_reported_where_the_walk_meets_another_fault_first"
              else "fault_reported_with_its_class", cs.contains c),
             ("parse_error_names_the_file_and_the_1_based_line",
                cs == ["RootOpen"] || (f == hexOf file && l == toString line)),
             ("error_names_the_included_file", match detail with | some x => d == hexOf x | none => true)]
          | _ => [("result_is_a_dictionary_or_an_error", false)]
      mk impl model (base ++ specCl)
    | _, _ => bad "fs"
  | _, _ => bad s!"op:{op}"

/-! ### walkio: files whose reader or whose `Close` fails (RV.Model.DictParserIO)

  op  walkio <fs> <root> <ign> <chunk>    fs = `namehex:texthex:flags,…`, flags = 1 readFails + 2 closeFails;
                                          chunk = size of the reader's chunks in the harness (the model has none)
  result  as for walk, plus  err Read - 0 - <trace>   and   err Close <filehex> <line> <namehex> <trace>
  Model = `parseFileIO Cfg.tree`.  Oracle, on the implementation's own observation:
    * no crash, terminates, every opened file is closed (the trace);
    * ok ⇒ no file that was opened has a failing reader, none that was opened for an include a failing
      `Close` (no failure is swallowed);
    * Read ⇒ the error is bare (no file, no line) and some opened file has a failing reader;
    * Close ⇒ it names a file of the file system and a line of it, counted from 1, that reads
      `$INCLUDE <name>`, and <name> was opened and has a failing `Close`;
    * every other outcome is judged as `walk` judges it on the same files without flags: failures of
      readers and of `Close` can only cut the walk short, with one of the two classes above. -/

def parseFSIO (s : String) : Option FSIO :=
  if s == "-" then some [] else
  (s.splitOn ",").mapM fun e =>
    match e.splitOn ":" with
    | [n, t, f] => do
      let n ← unhex n
      let t ← unhex t
      let f ← f.toNat?
      if f > 3 then none else pure (n, t, f % 2 == 1, f / 2 == 1)
    | _ => none

/-- the `walk` argument for the same files without their flags -/
def eraseFSArg (s : String) : String :=
  if s == "-" then "-" else
  ",".intercalate ((s.splitOn ",").map fun e => ":".intercalate ((e.splitOn ":").take 2))

def failurePartsIO : FailureIO → String × Option Bytes × Nat × Option Bytes
  | .base e => failureParts e
  | .readErr => ("Read", none, 0, none)
  | .closeErr f l n => ("Close", some f, l, some n)

def showResult15IO (r : ResultIO) : String :=
  let trace := joinOr "," (r.2.log.map showEvent)
  match r with
  | (none, st) => s!"ok {showDict st.dict} {trace}"
  | (some (.base .outOfFuel), _) => "DEPTH-EXCEEDED"
  | (some e, _) => let p := failurePartsIO e; s!"err {p.1} {optHex p.2.1} {p.2.2.1} {optHex p.2.2.2} {trace}"

/-- line `l` (decimal, 1-based) of the file `f` (hex) reads `$INCLUDE <d>`; true where the property's
    wording does not say how the text splits into lines and words -/
def lineIsInclude (fs : FSIO) (f l d : String) : Bool :=
  match fs.find? (fun e => hexOf e.1 == f), l.toNat? with
  | some e, some (k + 1) =>
    if (DSpec.unspecifiedText e.2.1).isSome then true else
    match (DSpec.physLines e.2.1)[k]? with
    | some line =>
      match DSpec.tokens line with
      | [kw, n] => kw == DSpec.str "$INCLUDE" && hexOf n == d
      | _ => false
    | none => false
  | _, _ => false

def c15io (args : List String) (impl : String) : Verdict :=
  match args with
  | [fsS, rootS, ign, _chunk] =>
    match parseFSIO fsS, unhex rootS with
    | some fs, some root =>
      let ig := ign == "1"
      let model := showResult15IO (parseFileIO Cfg.tree ig fs root)
      let toks := impl.splitOn " "
      let trace := toks.getLast?.getD "-"
      let evs := if trace == "-" then [] else trace.splitOn ","
      let opened : List String := (evs.filter (·.startsWith "o")).map fun e => (e.drop 1).toString
      let readFails (n : String) : Bool := match fs.find? (fun e => hexOf e.1 == n) with
        | some e => e.2.2.1
        | none => false
      let closeFails (n : String) : Bool := match fs.find? (fun e => hexOf e.1 == n) with
        | some e => e.2.2.2
        | none => false
      let base : List (String × Bool) :=
        [noCrash impl,
         ("terminates_without_unbounded_recursion", impl != "DEPTH-EXCEEDED"),
         ("every_opened_file_is_closed", traceBalanced trace),
         ("every_opened_handle_is_closed", !impl.startsWith "err HandleLeak"),
         ("open_close_trace_is_well_nested", traceNested trace)]
      let io : List (String × Bool) :=
        match toks with
        | "ok" :: _ =>
          [("read_failure_swallowed", opened.all fun n => !readFails n),
           ("close_failure_swallowed", (opened.drop 1).all fun n => !closeFails n)]
        | ["err", "Read", f, l, d, _] =>
          [("read_error_is_returned_bare", f == "-" && l == "0" && d == "-"),
           ("read_error_without_a_failing_reader", opened.any readFails)]
        | ["err", "Close", f, l, d, _] =>
          [("close_error_names_an_included_file_whose_close_fails", closeFails d && (opened.drop 1).contains d),
           ("parse_error_names_the_file_and_the_1_based_line", lineIsInclude fs f l d)]
        | _ => []
      let plain : List (String × Bool) :=
        match toks with
        | "err" :: "Read" :: _ => []
        | "err" :: "Close" :: _ => []
        | _ =>
          let v := c15 "walk" [eraseFSArg fsS, rootS, ign] impl
          [(s!"as_walk_without_flags:{v.why}", v.prop != "PROP_FAIL")]
      mk impl model (base ++ io ++ plain)
    | _, _ => bad "fs"
  | _ => bad "walkio-args"

/-- the real-file-system ops end their observation with `fds=<n>`: the number of descriptors of the process that
    are open after the call and were not before it (finalizers off).  Split it off and judge it. -/
def splitFds (impl : String) : String × Option Nat :=
  let toks := impl.splitOn " "
  match toks.getLast? with
  | some t => if t.startsWith "fds=" then (" ".intercalate toks.dropLast, (t.drop 4).toString.toNat?) else (impl, none)
  | none => (impl, none)

def withFds (v : Verdict) (fds : Option Nat) : Verdict :=
  match fds with
  | some 0 | none => v
  | some n => if v.prop == "PROP_FAIL" then v else
    { v with prop := "PROP_FAIL", why := s!"every_opened_file_is_closed:descriptors_left_open={n}" }

/-- all ops of C15.  `walkfsdir` is `walkio` through the real file system: an entry with flag 1 and no text is a
    DIRECTORY (FileSystemOpener opens it, the first Read fails with EISDIR) -/
def c15x (op : String) (args : List String) (impl : String) : Verdict :=
  let (impl', fds) := splitFds impl
  if op == "walkio" then c15io args impl
  else if op == "walkfsdir" then withFds (c15io (args ++ ["0"]) impl') fds
  else if op == "walkfs" then withFds (c15 op args impl') fds
  else c15 op args impl

end RV.Driver
