/-
  I/O glue of the driver: field syntax of the line protocol.
    bytes   lower-case hex, `-` for the empty string
    int     decimal, optional leading `-`
    list    elements joined by `,` ; element sub-fields joined by `:` ; `-` for the empty list
  Part of the trusted base (not verified).
-/
import RV.Model.Wire
namespace RV.Driver

def hexDigit (n : Nat) : Char := if n < 10 then Char.ofNat (48 + n) else Char.ofNat (87 + n)

def hexOf (b : Bytes) : String :=
  if b.isEmpty then "-" else
  String.ofList (b.foldr (fun x acc => hexDigit (x.toNat / 16) :: hexDigit (x.toNat % 16) :: acc) [])

def hexVal (c : Char) : Option Nat :=
  if '0' ≤ c ∧ c ≤ '9' then some (c.toNat - 48)
  else if 'a' ≤ c ∧ c ≤ 'f' then some (c.toNat - 87)
  else if 'A' ≤ c ∧ c ≤ 'F' then some (c.toNat - 55)
  else none

def unhexList : List Char → Option Bytes
  | [] => some []
  | [_] => none
  | a :: b :: rest => do
    let x ← hexVal a
    let y ← hexVal b
    let r ← unhexList rest
    pure (UInt8.ofNat (x * 16 + y) :: r)

/-- `-` is the nil slice, `~` an empty slice that is not nil: both are the empty byte string -/
def unhex (s : String) : Option Bytes :=
  if s == "-" || s == "~" then some [] else unhexList s.toList

def parseInt (s : String) : Option Int := s.toInt?

def parseNat (s : String) : Option Nat := s.toNat?

/-- `typ:hex,typ:hex` -/
def parseAttrList (s : String) : Option Attrs :=
  if s == "-" then some [] else
  (s.splitOn ",").mapM fun e =>
    match e.splitOn ":" with
    | [t, v] => do
      let t ← parseInt t
      let v ← unhex v
      pure ⟨t, v⟩
    | _ => none

def showAttrs (as : Attrs) : String :=
  if as.isEmpty then "-" else
  ",".intercalate (as.map fun a => s!"{a.typ}:{hexOf a.val}")

def showOptBytes : Option Bytes → String
  | none => "none"
  | some b => s!"some:{hexOf b}"

/-- verdict of one case -/
structure Verdict where
  agree : Bool
  prop : String      -- PROP_OK | PROP_FAIL | PROP_NA
  model : String
  why : String := ""

def Verdict.render (id : String) (v : Verdict) : String :=
  s!"{id}\t{if v.agree then "AGREE" else "DIFF"}\t{v.prop}\t{v.model}\t{v.why}"

def bad (why : String) : Verdict := { agree := false, prop := "PROP_NA", model := "?", why := s!"driver-cannot-parse:{why}" }

/-- first failing clause wins - except that a failing clause whose name carries a bracketed qualifier (`…[tag>0x1F]`:
    the expected-defect clauses that `known_findings.json` lists) gives way to any OTHER failing clause of the same
    case: a listed finding must not hide an unlisted failure that happens on the same line -/
def propOf (clauses : List (String × Bool)) : String × String :=
  let failing := clauses.filter (fun c => !c.2)
  match failing.find? (fun c => !c.1.endsWith "]"), failing.head? with
  | some (name, _), _ => ("PROP_FAIL", name)
  | none, some (name, _) => ("PROP_FAIL", name)
  | none, none => ("PROP_OK", "")

def mk (impl model : String) (clauses : List (String × Bool)) : Verdict :=
  let (p, why) := propOf clauses
  { agree := impl == model, prop := p, model := model, why := why }

end RV.Driver
