/-
  Driver for C06 (dispatch) and C07 (graceful shutdown): op `scenario <skipVerify> <secrets> <commands>`.
  The command list (see harness/cmd/vh/c07.go) is interpreted on the transition system of
  RV.Model.Server; each command is one label (or a wait whose permitted outcomes the model lists).
  The oracle walks the implementation's observations and checks the statements of C06 / C07 on
  them directly (who has returned, which handlers run, what a nil return implies, …).
-/
import RV.Driver.C13
import RV.Model.Server
namespace RV.Driver
open RV.MD5 (md5)
open RV.Server

inductive Cmd where
  | S (i conn : Nat) | s (i : Nat) | D (conn peer : Nat) (d : Bytes) | d (t : Nat) | F (t : Nat) (code : Nat)
  | R (t : Nat) (code : Nat)   -- the handler of task t writes its reply NOW and keeps running (a later F ends it)
  | X (j : Nat) | x (j : Nat) | C (j : Nat) | W (j : Nat) | e (conn : Nat) | f (conn : Nat) (k : ReadErrKind) | Z

def parseCmd (c : String) : Option Cmd :=
  let arg := (c.drop 1).toString
  match c.toList.head? with
  | some 'S' => arg.toNat?.map fun i => .S i i
  | some 'T' => match arg.splitOn ":" with
      | [i, c] => do pure (.S (← i.toNat?) (← c.toNat?))
      | _ => none
  | some 's' => arg.toNat?.map .s
  | some 'D' => match arg.splitOn ":" with
      -- Serve reads into a buffer of MaxPacketLength octets: what the goroutine sees of a longer datagram is its first 4096 octets
      | [i, p, h] => do pure (.D (← i.toNat?) (← p.toNat?) ((← unhex h).take 4096))
      | _ => none
  | some 'd' => arg.toNat?.map .d
  | some 'F' => match arg.splitOn ":" with
      | [t] => t.toNat?.map (.F · 0)
      | [t, c] => do pure (.F (← t.toNat?) (← c.toNat?))
      | _ => none
  | some 'R' => match arg.splitOn ":" with
      | [t, c] => do pure (.R (← t.toNat?) (← c.toNat?))
      | _ => none
  | some 'X' => arg.toNat?.map .X
  | some 'x' => arg.toNat?.map .x
  | some 'C' => arg.toNat?.map .C
  -- (`W<j>:<ms>`: the lab watches Shutdown j for that long before it calls it blocked; the model has no clock)
  | some 'W' => ((arg.splitOn ":").headD "").toNat?.map .W
  | some 'e' => arg.toNat?.map .e
  | some 'f' => match arg.splitOn ":" with
      | [c, "nontemp"] => c.toNat?.map (.f · .nonTemporary)
      | [c, "temp"] => c.toNat?.map (.f · .other)
      | [c, "plain"] => c.toNat?.map (.f · .other)
      | _ => none
  | some 'Z' => if arg.isEmpty then some .Z else none
  | _ => none

def parseSecrets (s : String) : Option (List (Nat × SecretAns)) :=
  if s == "-" then some [] else
  (s.splitOn ",").mapM fun e => match e.splitOn ":" with
    | [p, "error"] => do pure (← p.toNat?, SecretAns.error)
    | [p, h] => do
      let b ← unhex h
      pure (← p.toNat?, if b.isEmpty then SecretAns.empty else SecretAns.secret b)
    | _ => none

def secretFn (tbl : List (Nat × SecretAns)) (peer : Nat) : SecretAns :=
  match tbl.find? (·.1 == peer) with
  | some (_, a) => a
  | none => .error

inductive DownStage where
  | none | parked | waiting | returned (r : String)
deriving DecidableEq

structure IState where
  st : St
  parked : List Bool            -- Serve i is parked at the serve.registered hook
  stage : List DownStage
  cancelable : List Bool

def handlerObs (peer : Nat) (p : Packet) (conn : Nat) (serverCtx : Bool := true) (done : Bool := false) : String :=
  s!"handler:peer{peer}:{p.id.toNat}:{p.code}:{showAttrs p.attrs}:{hexOf p.secret}:local{conn}:ctx={boolStr serverCtx}:done={boolStr done}"

/-- the `Request` the model built for goroutine `t` (the `request` event of the `taskRun` step) -/
def requestOf (s : St) (t : Nat) : Option (Packet × Nat × Nat × Ctx) :=
  s.log.findSome? fun e => match e with
    | .request t' p remote localConn ctx => if t' == t then some (p, remote, localConn, ctx) else none
    | _ => none

/-- socket, destination and octets of the last `reply` event, if the log ends with one -/
def lastReply (s : St) : Option (Nat × Nat × Bytes) :=
  match s.log.getLast? with
  | some (.reply _ conn addr w) => some (conn, addr, w)
  | _ => none

/-- the attributes the lab's handlers add to their reply (harness/cmd/vh/c07.go: `resp.Add(18, "reply")`) -/
def labReplyAttrs : Attrs := [⟨18, "reply".toUTF8.toList⟩]

/-- reply written by the handler for task `t`, as the model's `reply` event has it (socket, destination,
    octets): `conn>addr:conn:auth:code` -/
def replyObs (conn peer : Nat) (req : Packet) (reqWire : Bytes) (w : Bytes) : String :=
  s!":{conn}>peer{peer}:conn{conn}:auth={boolStr (isAuthenticResponse md5 w reqWire req.secret)}:code={(w.getD 0 0).toNat}"

/-- the number after `@` in an observation like `f=err@1` -/
def atServe (tok : String) : Option Nat :=
  match tok.splitOn "@" with
  | [_, i] => i.toNat?
  | _ => none

/-- what the oracle has seen so far, from the implementation's observations only -/
structure Seen where
  connOf : List (Nat × Nat) := []      -- Serve call ↦ conn, for calls that registered
  entered : List Nat := []             -- Serve calls that registered a listener
  reading : List Nat := []             -- … that reached ReadFrom and have not returned
  returned : List Nat := []
  asked : List Nat := []
  running : List Nat := []
  sdReq : Bool := false
  nilSeen : Bool := false
  cancelled : List Nat := []
  inflight : List (Nat × Nat × Nat) := []
  dg : List (Nat × Nat × Nat × Bytes) := []   -- task ↦ (Serve call, conn, peer, datagram)

def Seen.readersOn (w : Seen) (c : Nat) : List Nat :=
  (w.reading.filter fun i => (w.connOf.lookup i) == some c).mergeSort (· ≤ ·)

def scenarioCase (args : List String) (impl : String) : Verdict :=
  match args with
  | [skip, secrets, cmds] =>
    match parseSecrets secrets, (cmds.splitOn ",").mapM parseCmd with
    | some tbl, some cmds =>
      let cfg : Cfg := { variant := .fixed, skipVerify := skip == "1", secretOf := secretFn tbl }
      let nS := 8
      let nD := 4
      let nC := 4
      -- Serve call i ↦ the conn of the first S/T command naming it
      let conns : List Nat := (List.range nS).map fun i =>
        match cmds.findSome? (fun c => match c with | .S j c => if j == i then some c else none | _ => none) with
        | some c => c
        | none => 0
      if conns.any (· ≥ nC) then bad "scenario-conn" else
      let implToks := impl.splitOn " "
      -- ------------------------------------------------ model run
      let rec go (is : IState) (cmds : List Cmd) (itoks : List String) (dgrams : List (Nat × Nat × Bytes)) (acc : List String) : List String :=
        match cmds with
        | [] => acc.reverse
        | c :: rest =>
          let itok := itoks.headD ""
          let next (is : IState) (o : String) (dg := dgrams) := go is rest itoks.tail dg (o :: acc)
          let s := is.st
          let readers (c : Nat) : List Nat := (List.range nS).filter fun i =>
            s.serves[i]? == some .running && !(is.parked.getD i false) && s.connOf.getD i 0 == c
          match c with
          | .S i cn =>
            if i ≥ nS ∨ conns.getD i 0 ≠ cn then next is "S=noop" else
            (match s.serves[i]? with
             | some .notStarted =>
               (match step md5 cfg s (.serveEnter i) with
                | some s' => if s.sd then next { is with st := s' } "S=shutdown"
                             else next { is with st := s', parked := is.parked.set i true } "S=parked"
                | none => next is "S=noop")
             | _ => next is "S=noop")
          | .s i =>
            if is.parked.getD i false then
              let s' := (step md5 cfg s (.serveCount i)).getD s
              next { is with st := s', parked := is.parked.set i false } "s=reading"
            else next is "s=noop"
          | .D cn peer d =>
            (match readers cn with
             | [i] =>
               -- a datagram fed after the conn was closed, to a Serve call that has not seen the closed conn yet, is one
               -- its `ReadFrom` had taken before the Close: `serveRead` before, `serveSpawn` after (RV.Model.Server2;
               -- `serveSpawn` has no guard, it is `spawn`) - the code tests nothing between the read and the `go`
               (match (if s.connClosed.getD cn 0 == 0 then step md5 cfg s (.serveRecv i peer d)
                       else some (spawn md5 cfg s i peer d)) with
                | some s' => go { is with st := s' } rest itoks.tail (dgrams ++ [(i, peer, d)]) ("D=asked" :: acc)
                | none => next is "D=noop")
             | _ => next is "D=noop")
          | .d t =>
            (match s.tasks[t]? with
             | some ⟨_, .spawned fate⟩ =>
               (match step md5 cfg s (.taskRun t) with
                | some s' =>
                  -- the observation is the model's `request` event: packet, RemoteAddr, LocalAddr's conn, ctx
                  (match s'.tasks[t]?, fate, requestOf s' t with
                   | some ⟨_, .inHandler _⟩, .handle _ _, some (p, remote, localConn, ctx) =>
                     next { is with st := s' } ("d=" ++ handlerObs remote p localConn (ctx == .server) s.ctxCancelled)
                   | some ⟨_, .inHandler _⟩, _, _ => next { is with st := s' } "d=handler-without-request"
                   | _, _, _ => next { is with st := s' } "d=dropped")
                | none => next is "d=noop")
             | _ => next is "d=noop")
          | .F t code =>
            (match s.tasks[t]? with
             | some ⟨i, .inHandler _⟩ =>
               -- a handler that replies calls Write before it returns: the model's `taskReply` step names
               -- the socket and the destination (`reply` event); without a reply only `taskFinish` is taken
               (match dgrams[t]? with
                | some (_, peer, d) =>
                  let req := match classify md5 cfg peer d with
                    | .handle _ p => p
                    | _ => ⟨0, 0, [], [], []⟩
                  -- `Write` reaches `conn.WriteTo` only when `Encode` succeeded: the model's `taskReply` step is
                  -- enabled exactly then (code 0 = the handler does not reply: no code is 0, the encoder refuses)
                  let (sR, robs) := match (if code = 0 then none else step md5 cfg s (.taskReply t code labReplyAttrs)) with
                    | some sR => (sR, match lastReply sR with
                        | some (rconn, raddr, w) => replyObs rconn raddr req d w
                        | none => "")
                    | none => (s, "")
                  (match step md5 cfg sR (.taskFinish t) with
                   | some s' => next { is with st := s' } ("F=done" ++ robs ++ s!":cd={boolStr s.ctxCancelled}")
                   | none => next is "F=noop")
                | none => next is "F=noop")
             | _ => next is "F=noop")
          | .R t code =>
            (match s.tasks[t]?, dgrams[t]? with
             | some ⟨_, .inHandler _⟩, some (_, peer, d) =>
               let req := match classify md5 cfg peer d with
                 | .handle _ p => p
                 | _ => ⟨0, 0, [], [], []⟩
               (match (if code = 0 then none else step md5 cfg s (.taskReply t code labReplyAttrs)) with
                | some sR => next { is with st := sR } ("R=sent" ++ (match lastReply sR with
                    | some (rconn, raddr, w) => replyObs rconn raddr req d w
                    | none => ""))
                | none => next is "R=noop")
             | _, _ => next is "R=noop")
          | .X j =>
            if j ≥ nD then next is "X=noop" else
            (match is.stage.getD j .none with
             | .none =>
               (match step md5 cfg s (.downEnter j) with
                | some s' => next { is with st := s', stage := is.stage.set j .parked, cancelable := is.cancelable.set j true } "X=parked"
                | none => next is "X=noop")
             | _ => next is "X=noop")
          | .x j =>
            if is.stage.getD j .none == .parked then next { is with stage := is.stage.set j .waiting } "x=ok"
            else next is "x=noop"
          | .C j =>
            -- (the caller's context may end before Shutdown is even called)
            if j < nD then
              next { is with st := (step md5 cfg s (.ctxExpire j)).getD s } "C=ok"
            else next is "C=noop"
          | .W j =>
            (match is.stage.getD j .none with
             | .returned r => next is s!"W={r}"
             | .waiting =>
               let ctxDone := (s.downs[j]?.map (·.ctxDone)).getD false
               let canNil := s.closes ≥ 1
               -- when both are ready Go's select may take either: follow the implementation's choice
               let r := if canNil ∧ ctxDone then (if itok == "W=ctx" then "ctx" else "nil")
                        else if canNil then "nil" else if ctxDone then "ctx" else "blocked"
               if r == "blocked" then next is "W=blocked"
               else
                 let lbl := if r == "nil" then Label.downReturnNil j else Label.downReturnCtx j
                 next { is with st := (step md5 cfg s lbl).getD s, stage := is.stage.set j (.returned r) } s!"W={r}"
             | _ => next is "W=noop")
          | .e cn =>
            let rs := readers cn
            if rs.isEmpty ∨ s.connClosed.getD cn 0 == 0 then next is "e=noop" else
            -- the read of every Serve call on this conn fails
            let (s', outs) := rs.foldl (fun (acc : St × List String) i =>
              match step md5 cfg acc.1 (.serveReadErr i) with
              | some s' => (s', acc.2 ++ [if s'.closes ≥ 2 ∧ acc.1.closes < 2 then "PANIC(close of closed channel)" else "shutdown"])
              | none => (acc.1, acc.2 ++ ["stuck"])) (s, [])
            next { is with st := s' } ("e=" ++ "+".intercalate outs)
          | .f cn k =>
            (match readers cn with
             | [] => next is "f=noop"
             | r0 :: rs =>
               -- which of the readers receives the failure is the environment's choice: follow the implementation
               let i := match atServe itok with
                 | some i => if (r0 :: rs).contains i then i else r0
                 | none => r0
               (match step md5 cfg s (.serveReadFail i k) with
                | some s' =>
                  (match s'.serves[i]? with
                   | some (.returned .errShutdown) => next { is with st := s' } s!"f=shutdown@{i}"
                   | some (.returned .readError) => next { is with st := s' } s!"f=err@{i}"
                   | _ => next { is with st := s' } "f=retry")
                | none => next is "f=noop"))
          | .Z => next is "Z=clean"
      let is0 : IState := ⟨initWith conns nD, List.replicate nS false, List.replicate nD .none, List.replicate nD false⟩
      let model := " ".intercalate (go is0 cmds implToks [] [])
      -- ------------------------------------------------ the statements, on the implementation's observations
      let bad := implToks.any fun t => (t.splitOn "PANIC").length > 1 || (t.splitOn "CRASH").length > 1 || (t.splitOn "HANG").length > 1 || (t.splitOn "RACE").length > 1
      -- replay the observations
      let rec walk (cmds : List Cmd) (toks : List String) (w : Seen) : List (String × Bool) :=
        match cmds, toks with
        | c :: cs, tok :: ts =>
          let cont (w : Seen) (extra : List (String × Bool)) := extra ++ walk cs ts w
          let nilCheck : List (String × Bool) :=
            [("nil_return_only_after_every_serve_returned", w.entered.all (w.returned.contains ·)),
             ("nil_return_only_after_every_handler_finished", w.running.isEmpty && w.asked.isEmpty)]
          match c with
          | .S i cn =>
            if tok == "S=parked" then
              cont { w with entered := i :: w.entered, connOf := (i, cn) :: w.connOf }
                [("serve_after_shutdown_returns_ErrServerShutdown", !w.sdReq)]
            else if tok == "S=shutdown" then
              cont w [("ErrServerShutdown_only_after_shutdown_requested", w.sdReq)]
            else cont w [("serve_start_observation", tok == "S=noop")]
          | .D cn peer d =>
            if tok == "D=asked" then
              cont { w with asked := w.dg.length :: w.asked, dg := w.dg ++ [((w.readersOn cn).headD 0, cn, peer, d)] }
                [("datagram_goes_to_the_one_reader", (w.readersOn cn).length == 1)]
            else if tok.startsWith "D=serve-returned" then
              -- Serve returned holding a datagram its read had delivered: that datagram is never handled
              let i := (w.readersOn cn).headD 0
              cont { w with returned := i :: w.returned, reading := w.reading.erase i }
                [("every_received_datagram_is_handed_to_a_goroutine", false)]
            else cont w []
          | .d t =>
            if tok.startsWith "d=handler:" || tok == "d=dropped" then
              (match w.dg[t]? with
               | some (i, cn, peer, d) =>
                 let fate := classify md5 cfg peer d
                 let (shouldHandle, key, expectObs) := match fate with
                   | .handle (p, id) pk => (!(w.inflight.contains (i, p, id.toNat)), (i, p, id.toNat), "d=" ++ handlerObs p pk cn true w.sdReq)
                   | _ => (false, (0, 0, 0), "")
                 let handled := tok.startsWith "d=handler:"
                 cont { w with asked := w.asked.erase t, running := if handled then t :: w.running else w.running,
                               inflight := if handled then key :: w.inflight else w.inflight }
                   [("handler_invoked_iff_secret_authentic_parses_and_not_in_flight", handled == shouldHandle),
                    ("request_carries_packet_secret_addresses_context", !handled || !shouldHandle || tok == expectObs),
                    ("no_handler_starts_after_nil_return", !(handled && w.nilSeen))]
               | none => cont w [("task_known", false)])
            else cont w []
          | .F t code =>
            if tok.startsWith "F=done" then
              (match w.dg[t]? with
               | some (i, cn, peer, d) =>
                 let key := match classify md5 cfg peer d with
                   | .handle (p, id) _ => (i, p, id.toNat)
                   | _ => (0, 0, 0)
                 let isReply := Rfc.encClass code == .hashReqAuth
                 let parts := tok.splitOn ":"
                 -- the last field says whether the request context was done when the handler returned
                 let cd := parts.getLast?.getD ""
                 let parts := parts.dropLast
                 cont { w with running := w.running.erase t, inflight := w.inflight.erase key }
                   [("reply_to_source_on_receiving_socket_with_valid_authenticator",
                      !isReply || parts == ["F=done", s!"{cn}>peer{peer}", s!"conn{cn}", "auth=true", s!"code={code}"]),
                    ("shutdown_cancels_the_request_contexts", cd == s!"cd={boolStr w.sdReq}")]
               | none => cont w [("task_known", false)])
            else cont w []
          | .R t code =>
            if tok.startsWith "R=sent" then
              (match w.dg[t]? with
               | some (_, cn, peer, _) =>
                 -- (the task stays in flight: a duplicate that arrives now is still a duplicate)
                 cont w [("reply_to_source_on_receiving_socket_with_valid_authenticator",
                      !(Rfc.encClass code == .hashReqAuth) ||
                        tok.splitOn ":" == ["R=sent", s!"{cn}>peer{peer}", s!"conn{cn}", "auth=true", s!"code={code}"])]
               | none => cont w [("task_known", false)])
            else cont w []
          | .X _ =>
            if tok == "X=parked" then cont { w with sdReq := true } []
            else if tok == "X=nil" then cont { w with sdReq := true, nilSeen := true } nilCheck
            else cont w []
          | .C j => cont (if tok == "C=ok" then { w with cancelled := j :: w.cancelled } else w) []
          | .W j =>
            if tok == "W=nil" then cont { w with nilSeen := true } nilCheck
            else if tok == "W=ctx" then cont w [("context_error_only_if_context_ended", w.cancelled.contains j)]
            else cont w []
          | .e cn =>
            if tok == "e=noop" then cont w []
            else
              let rs := w.readersOn cn
              cont { w with returned := rs ++ w.returned, reading := w.reading.filter (!rs.contains ·) }
                [("running_serve_returns_ErrServerShutdown", tok == "e=" ++ "+".intercalate (rs.map fun _ => "shutdown"))]
          | .f cn _ =>
            if tok == "f=noop" || tok == "f=retry" then
              cont w [("read_failure_after_shutdown_returns_ErrServerShutdown", !(tok == "f=retry" && w.sdReq))]
            else
              (match atServe tok with
               | some i =>
                 cont { w with returned := i :: w.returned, reading := w.reading.erase i }
                   [("read_failure_after_shutdown_returns_ErrServerShutdown", !w.sdReq || tok.startsWith "f=shutdown@"),
                    ("ErrServerShutdown_only_after_shutdown_requested", w.sdReq || !tok.startsWith "f=shutdown@"),
                    ("read_failure_hits_a_reader_of_that_conn", (w.readersOn cn).contains i)]
               | none => cont w [("read_failure_observation", false)])
          | .s i =>
            if tok == "s=shutdown" then cont { w with returned := i :: w.returned } []
            else if tok == "s=reading" then cont { w with reading := i :: w.reading } []
            else cont w []
          | .Z => cont w [("no_deadlock_everything_returns_and_listeners_closed", tok == "Z=clean")]
          | .x _ => cont w []
        | [], _ => []
        | _ :: _, [] => [("one_observation_per_command", false)]
      let clauses := walk cmds implToks {}
      mk impl model ([("no_panic", !bad)] ++ clauses)
    | _, _ => bad "scenario-args"
  | _ => bad "scenario-arity"

/-- n Shutdown calls racing for the critical section (fresh server, or one Serve call running): `downEnter`
    is one step of the model, so whichever call comes first does the work and every call returns nil -/
def downsCase (args : List String) (impl : String) : Verdict :=
  match args with
  | [n] =>
    match n.toNat? with
    | some _ =>
      mk impl "all=nil" [("no_panic_no_race", !((impl.splitOn "CRASH").length > 1 || (impl.splitOn "RACE").length > 1 || (impl.splitOn "PANIC").length > 1)),
                         ("concurrent_shutdowns_all_return_nil", impl == "all=nil")]
    | none => bad "downs-n"
  | _ => bad "downs-arity"

/-- a server without Handler / SecretSource refuses Serve and ListenAndServe at once; Shutdown then returns nil -/
def nilCfgCase (impl : String) : Verdict :=
  let model := " ".intercalate ((List.range 3).flatMap fun k => [s!"cfg{k}=refused", s!"cfg{k}=refused", s!"shutdown{k}=nil"])
  mk impl model [("no_panic", !((impl.splitOn "PANIC").length > 1 || (impl.splitOn "HANG").length > 1)),
                 ("misconfigured_server_refuses_and_shuts_down", impl == model)]

/-- `listen <network>`: ListenAndServe end to end over the loopback - a request gets an authentic Access-Accept from the
    address it was sent to (a datagram that is no RADIUS packet having been dropped before it), Shutdown returns nil
    and ListenAndServe returns ErrServerShutdown.  (What Serve does on the socket is the scenarios' business; this
    case is about the socket being opened on `Addr` / `Network`, served, and closed.) -/
def listenCase (impl : String) : Verdict :=
  let udp := if (impl.splitOn " udpclose=skipped ").length > 1 then "skipped" else "yes:ctx:nil:shutdown"
  let model := s!"reply=auth=true:code=2:id-matches=true handled=yes pair=2:2 addrs=2,2,2 udpclose={udp} shutdown=nil ret=shutdown"
  -- `pair=<handlers started>:<authentic replies>`: two peers on one host (same IP, different source ports) send the
  -- same identifier while the first handler is still running; the model keys requests in flight by (source address,
  -- identifier) (`Server.lean`, `at_most_one_inflight` is per key; `C06.different_peers_different_keys`), so both are
  -- served.  `addrs=`: the same through a conn that hands out *net.UDPAddr peers differing in the IPv6 zone only, in the
  -- port only, in the IP only
  mk impl model [("no_panic", !((impl.splitOn "PANIC").length > 1 || (impl.splitOn "CRASH").length > 1)),
                 ("two_peers_on_one_host_with_the_same_identifier_are_both_served",
                    (impl.splitOn " pair=").length ≤ 1 || (impl.splitOn " pair=2:2 addrs=2,2,2 ").length > 1 || (impl.splitOn " pair=- ").length > 1),
                 -- `udpclose=<listener closed>:<first Shutdown>:<second Shutdown>:<Serve>`: a real *net.UDPConn listener, a
                 -- handler still running, a Shutdown whose context ends first (`shutdown_closes_listeners` does not wait
                 -- for the handlers; `ctx_error_only_if_ctx_done`); `skipped` when the loopback request never arrived
                 ("shutdown_closes_a_udp_listener_while_a_handler_still_runs",
                    (impl.splitOn " udpclose=").length ≤ 1 || (impl.splitOn " udpclose=yes:ctx:nil:shutdown ").length > 1
                      || (impl.splitOn " udpclose=skipped ").length > 1),
                 ("listen_and_serve_serves_on_its_address_until_shutdown",
                    impl == model)]

/-- `finishes n`: n DIFFERENT requests in flight on one Serve call, their handlers return at the same instant
    (forty rounds): each is served exactly once, nothing crashes (the table of requests in flight is written by n
    goroutines at once), Shutdown returns nil -/
def finishesCase (args : List String) (impl : String) : Verdict :=
  match args with
  | [n] =>
    match n.toNat? with
    | some n =>
      let model := s!"starts={n} shutdown=nil"
      mk impl model [("no_panic_no_race", !((impl.splitOn "CRASH").length > 1 || (impl.splitOn "RACE").length > 1 || (impl.splitOn "PANIC").length > 1)),
                     ("one_handler_per_distinct_request", impl.startsWith s!"starts={n} "),
                     ("shutdown_returns_nil_after_release", impl.endsWith "shutdown=nil")]
    | none => bad "finishes-n"
  | _ => bad "finishes-arity"

def c07 (op : String) (args : List String) (impl : String) : Verdict :=
  match op with
  | "downs" => downsCase args impl
  | "nilcfg" => nilCfgCase impl
  | "listen" => listenCase impl
  | "finishes" => finishesCase args impl
  | "scenario" => scenarioCase args impl
  | _ => bad s!"op:{op}"

/-- n identical datagrams racing for the dedup table while the first handler blocks: the model's
    `taskRun` is atomic, so exactly one handler starts and n-1 datagrams are dropped -/
def dupsCase (args : List String) (impl : String) : Verdict :=
  match args with
  | [n] =>
    match n.toNat? with
    | some n =>
      let model := s!"starts=1 dropped={n - 1} shutdown=nil"
      mk impl model [("no_panic_no_race", !((impl.splitOn "CRASH").length > 1 || (impl.splitOn "RACE").length > 1 || (impl.splitOn "PANIC").length > 1)),
                     ("exactly_one_handler_per_source_and_identifier", impl.startsWith "starts=1 "),
                     ("shutdown_returns_nil_after_release", impl.endsWith "shutdown=nil")]
    | none => bad "dups-n"
  | _ => bad "dups-arity"

def c06 (op : String) (args : List String) (impl : String) : Verdict :=
  match op with
  | "nilcfg" => nilCfgCase impl
  | "listen" => listenCase impl
  | "dups" => dupsCase args impl
  | "finishes" => finishesCase args impl
  | "scenario" => scenarioCase args impl
  | _ => bad s!"op:{op}"

end RV.Driver
