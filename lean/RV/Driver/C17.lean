/-
  Driver for C17 (generator output) and C18 (shipped generated code = generator output).
  Canonical dictionary syntax: see harness/cmd/vh/dictsyntax.go.
-/
import RV.Driver.Util
import RV.Model.Gen
namespace RV.Driver.G17
open RV.Dict RV.Gen RV.Driver

/-! ### parsing the canonical dictionary syntax -/

def listOf (s : String) : List String := if s == "-" || s == "" then [] else s.splitOn ","

def optInt (s : String) : Option (Option Int) := if s == "-" then some none else (parseInt s).map some

def optBool (s : String) : Option (Option Bool) :=
  if s == "-" then some none else if s == "0" then some (some false) else if s == "1" then some (some true) else none

def parseOID (s : String) : Option (List Int) := if s == "-" then some [] else (s.splitOn ".").mapM parseInt

def attrTypeOfNat : Nat → Option AttrType
  | 1 => some .string | 2 => some .octets | 3 => some .ipaddr | 4 => some .date | 5 => some .integer
  | 6 => some .ipv6addr | 7 => some .ipv6prefix | 8 => some .ifid | 9 => some .integer64 | 10 => some .vsa
  | 11 => some .ether | 12 => some .abinary | 13 => some .byte | 14 => some .short | 15 => some .signed
  | 16 => some .tlv | 17 => some .ipv4prefix | _ => none

/-- `vkey:hex(name):oid:type:size:encrypt:has_tag:concat` -/
def parseAttr (e : String) : Option (String × Attribute) :=
  match e.splitOn ":" with
  | [k, n, oid, t, sz, enc, tag, cc] => do
    let n ← unhex n
    let oid ← parseOID oid
    let t ← (parseNat t).bind attrTypeOfNat
    let sz ← optInt sz
    let enc ← optInt enc
    let tag ← optBool tag
    let cc ← optBool cc
    pure (k, { name := n, oid := oid, typ := t, size := sz, encrypt := enc, hasTag := tag, isConcat := cc })
  | _ => none

/-- `vkey:hex(attribute):hex(name):number` -/
def parseValue (e : String) : Option (String × Value) :=
  match e.splitOn ":" with
  | [k, a, n, num] => do
    let a ← unhex a
    let n ← unhex n
    let num ← parseNat num
    pure (k, { attrName := a, name := n, number := num })
  | _ => none

/-- `vkey:hex(name):number:typeOctets:lengthOctets` -/
def parseVendor (e : String) : Option (String × Vendor) :=
  match e.splitOn ":" with
  | [k, n, num, t, l] => do
    let n ← unhex n
    let num ← parseInt num
    let t ← optInt t
    let l ← optInt l
    pure (k, { name := n, number := num, typeOctets := t, lengthOctets := l })
  | _ => none

def parseDictionary (attrs values vendors : String) : Option Dictionary := do
  let as ← (listOf attrs).mapM parseAttr
  let vs ← (listOf values).mapM parseValue
  let vn ← (listOf vendors).mapM parseVendor
  let keys := vn.map (·.1)
  if as.any (fun a => a.1 != "-" && !keys.contains a.1) || vs.any (fun v => v.1 != "-" && !keys.contains v.1) then none
  let pick {α} (k : String) (l : List (String × α)) : List α := (l.filter (·.1 == k)).map (·.2)
  pure { attributes := pick "-" as, values := pick "-" vs,
         vendors := vn.map fun (k, v) => { v with attributes := pick k as, values := pick k vs } }

def parseOptions (ignore refs : String) : Option Options := do
  let ig ← (listOf ignore).mapM unhex
  let rf ← (listOf refs).mapM fun e =>
    match e.splitOn ":" with
    | n :: rest@(_ :: _) => do
      let n ← unhex n
      pure (n, bs (":".intercalate rest))
    | _ => none
  pure { ignore := ig, refs := rf }

def asciiOnly (d : Dictionary) (o : Options) : Bool :=
  let ok (b : Bytes) := b.all (· < 128)
  d.attributes.all (ok ·.name) && d.values.all (fun v => ok v.name && ok v.attrName)
  && d.vendors.all (fun v => ok v.name && v.attributes.all (ok ·.name) && v.values.all (fun x => ok x.name && ok x.attrName))
  && o.ignore.all ok && o.refs.all (ok ·.1)

/-! ### rendering the model's inventory in the harness's syntax -/

def strOf (b : Bytes) : String := String.ofList (b.map (fun x => Char.ofNat x.toNat))

def renderTy : Ty → String
  | .packet => "*radius.Packet" | .byte => "byte" | .str => "string" | .ip => "net.IP"
  | .hw => "net.HardwareAddr" | .ipnet => "*net.IPNet" | .time => "time.Time" | .error => "error"
  | .radiusType => "radius.Type" | .untyped => "" | .u16 => "uint16" | .u32 => "uint32" | .u64 => "uint64"
  | .named id => strOf id | .mapStr id => s!"map[{strOf id}]string" | .slice t => "[]" ++ renderTy t
  | .attribute => "radius.Attribute" | .bool => "bool"

def renderDecl (d : Decl) : String :=
  let tys (l : List Ty) := ";".intercalate (l.map renderTy)
  match d.kind with
  | .const => s!"c:{strOf d.name}:{tys d.results}"
  | .type => s!"t:{strOf d.name}:{tys d.results}"
  | .var => s!"v:{strOf d.name}:{tys d.results}"
  | .func => s!"f:{strOf d.name}:{tys d.params}>{tys d.results}"
  | .method => s!"m:{strOf d.name}:{tys d.params}>{tys d.results}"

def renderImp : Imp → String
  | .std p => strOf p | .radius => "layeh.com/radius" | .rfc2865 => "layeh.com/radius/rfc2865" | .dot p => "." ++ strOf p

def insertSorted (s : String) : List String → List String
  | [] => [s]
  | t :: l => if s < t then s :: t :: l else t :: insertSorted s l

def sortStrings (l : List String) : List String := l.foldr insertSorted []

def renderImports (l : List Imp) : String :=
  if l.isEmpty then "-" else ",".intercalate (sortStrings (l.map renderImp))

def renderDecls (l : List Decl) : String :=
  if l.isEmpty then "-" else ",".intercalate (l.map renderDecl)

/-! ### the property's oracle, on the implementation's own inventory -/

structure IDecl where
  kind : String
  name : String
  params : List String
  results : List String
  ty : String

def parseIDecl (s : String) : Option IDecl :=
  match s.splitOn ":" with
  | [k, n, sig] =>
    if k == "f" || k == "m" then
      match sig.splitOn ">" with
      | [ps, rs] => some ⟨k, n, if ps == "" then [] else ps.splitOn ";", if rs == "" then [] else rs.splitOn ";", ""⟩
      | _ => none
    else some ⟨k, n, [], [], sig⟩
  | _ => none

def pkt := "*radius.Packet"

/-- the helper functions the property documents for an attribute kind -/
def expectedHelpers (a : Attribute) (vendor : Bool) : List String :=
  if a.typ == .string || a.typ == .octets then
    if a.isConcat == some true && !vendor then ["Get", "GetString", "Lookup", "LookupString", "Set", "SetString", "Del"]
    else ["Add", "AddString", "Get", "GetString", "Gets", "GetStrings", "Lookup", "LookupString", "Set", "SetString", "Del"]
  else if a.typ == .vsa then []
  else ["Add", "Get", "Gets", "Lookup", "Set", "Del"]

def sameSet (a b : List String) : Bool := a.all b.contains && b.all a.contains && a.length == b.length

/-- per attribute: the first violated clause, if any -/
def attrShape (inv : List IDecl) (vals : List Value) (a : Attribute) (vendor : Bool) : Option String :=
  let x := strOf (identifier a.name)
  let hasTag := a.hasTag == some true
  let salt := a.encrypt == some 2
  let isInt := a.typ == .integer || a.typ == .short || a.typ == .integer64
  let funcs := inv.filter (fun d => d.kind == "f" && d.name.startsWith (x ++ "_"))
  let suffixes := funcs.map (fun d => (d.name.drop (x.length + 1)).toString)
  let f (n : String) := funcs.find? (fun d => d.name == x ++ "_" ++ n)
  let writers := ["Add", "AddString", "Set", "SetString"].filterMap f
  let readers := ["Get", "GetString", "Gets", "GetStrings", "Lookup", "LookupString"].filterMap f
  let nTag := if hasTag then 1 else 0
  if !(exportedIdent (identifier a.name)) then some "helpers_exported"
  else if !sameSet suffixes (expectedHelpers a vendor) then some "api_shape"
  else if isInt && !(inv.any (fun d => d.kind == "t" && d.name == x)
      && inv.any (fun d => d.kind == "v" && d.name == x ++ "_Strings")
      && inv.any (fun d => d.kind == "m" && d.name == x ++ ".String")
      -- every VALUE number of the attribute has a named constant (of several VALUEs with one number, one)
      && (let mine := vals.filter (·.attrName == a.name)
          mine.all (fun v => mine.any (fun w => w.number == v.number &&
            inv.any (fun d => d.kind == "c" && d.name == x ++ "_Value_" ++ strOf (identifier w.name) && d.ty == x)))
          -- and every constant of the type is named after one of its VALUEs
          && (inv.filter (fun d => d.kind == "c" && d.name.startsWith (x ++ "_Value_"))).all (fun d =>
            mine.any (fun w => d.name == x ++ "_Value_" ++ strOf (identifier w.name))))) then some "api_shape_integer"
  else if !(writers.all (fun d => d.params.length == 2 + nTag && d.params.head? == some pkt && (!hasTag || d.params[1]? == some "byte"))
      && ((["Get", "GetString"].filterMap f).all (fun d => d.results.length == 1 + nTag && (!hasTag || d.results.head? == some "byte")))
      && ((["Lookup", "LookupString"].filterMap f).all (fun d => d.results.length == 2 + nTag && (!hasTag || d.results.head? == some "byte")))
      && ((["Gets", "GetStrings"].filterMap f).all (fun d => d.results.length == 2 + nTag && (!hasTag || d.results.head? == some "[]byte")))) then some "tag_parameter_iff_tagged"
  else if !(readers.all (fun d => d.params == (if salt then [pkt, pkt] else [pkt]))
      && (f "Del").all (fun d => d.params == [pkt])) then some "request_packet_parameter_iff_salt_encrypted"
  else none

def shapeClause (d : Dictionary) (o : Options) (inv : List IDecl) : Option String :=
  let top := (d.attributes.filter (fun a => !o.ignore.contains a.name)).filterMap (fun a => attrShape inv d.values a false)
  let ven := d.vendors.flatMap fun v =>
    (v.attributes.filter (fun a => !o.ignore.contains a.name)).filterMap (fun a => attrShape inv v.values a true)
  (top ++ ven).head?

/-- nothing at all for attributes on the ignore list (unless a non-ignored attribute shares the identifier) -/
def ignoredOK (d : Dictionary) (o : Options) (inv : List IDecl) : Bool :=
  let all := d.attributes ++ d.vendors.flatMap (·.attributes)
  let keptIds := (all.filter (fun a => !o.ignore.contains a.name)).map (fun a => identifier a.name)
  (all.filter (fun a => o.ignore.contains a.name)).all fun a =>
    let id := identifier a.name
    id.isEmpty || keptIds.contains id ||
      !(inv.any (fun dcl => dcl.name == strOf id || dcl.name.startsWith (strOf id ++ "_") || dcl.name.startsWith (strOf id ++ ".")))

def namesUnique (inv : List IDecl) : Bool :=
  let ns := (inv.filter (fun d => !(d.kind == "f" && d.name == "init"))).map (·.name)
  ns.length == ns.eraseDups.length

def flag (toks : List String) (k : String) : Bool := toks.contains (k ++ "=1")

end RV.Driver.G17

namespace RV.Driver
open RV.Dict RV.Gen RV.Driver.G17

def c17 (op : String) (args : List String) (impl : String) : Verdict :=
  match args with
  | [a, v, vn, _pkg, ig, rf] =>
    match parseDictionary a v vn, parseOptions ig rf with
    | some d, some o =>
      let toks := impl.splitOn " "
      let noCrash : String × Bool := ("never_panics", impl != "PANIC" && impl != "HANG")
      let implErr := toks.head? == some "err"
      let implOk := toks.head? == some "ok"
      let generic : List (String × Bool) :=
        [noCrash, ("error_or_source", implErr || implOk),
         ("gofmt_formatted", implErr || flag toks "fmt"),
         ("compiles", implErr || flag toks "compiles")]
      -- determinism clauses come last so that they do not mask the others in multi-attribute dictionaries
      let determinism : List (String × Bool) :=
        [("repeated_runs_identical", implErr || flag toks "rerun"),
         ("permutation_invariant", flag toks "perm")]
      if op == "genu" then
        let (p, why) := propOf (generic ++ determinism)
        { agree := true, prop := p, model := "n/a(non-ASCII)", why := why }
      else if !asciiOnly d o then bad "non-ascii"
      else
        let implInvS := if implOk then toks.getD 6 "-" else "-"
        let implImps := if implOk then toks.getD 5 "-" else "-"
        let inv := (listOf implInvS).filterMap parseIDecl
        let spec : List (String × Bool) :=
          if implOk then
            [("declarations_parse", inv.length == (listOf implInvS).length),
             (((shapeClause d o inv).getD "api_shape"), (shapeClause d o inv).isNone),
             ("ignored_attributes_emit_nothing", ignoredOK d o inv),
             ("declared_names_unique", namesUnique inv)]
          else []
        let (p, why) := propOf (generic ++ spec ++ determinism)
        match generate Cfg.current d o with
        | .ok out =>
          let mi := renderImports out.imports
          let md := renderDecls out.decls
          let agree := implOk && implImps == mi && implInvS == md
          { agree := agree, prop := p, why := why,
            model := if agree then "ok (imports and inventory as observed)" else s!"ok {mi} {md}" }
        | .error .panic => { agree := impl == "PANIC", prop := p, why := why, model := "PANIC" }
        | .error e => { agree := implErr, prop := p, why := why, model := s!"err {repr e}" }
    | _, _ => bad "dictionary"
  | _ => bad "args"

/-- C18: `regen <dir>`; the result carries the dictionary, the options and the inventory of the
    CHECKED-IN file, which must equal the model's inventory of that dictionary. -/
def c18 (_op : String) (_args : List String) (impl : String) : Verdict :=
  let toks := impl.splitOn " "
  let same : String × Bool := ("checked_in_equals_regenerated", toks.head? == some "same")
  match toks with
  | ["same", _n, "|", a, v, vn, _pkg, ig, rf, "|", imps, invS] =>
    match parseDictionary a v vn, parseOptions ig rf with
    | some d, some o =>
      match generate Cfg.current d o with
      | .ok out =>
        let mi := renderImports out.imports
        let md := renderDecls out.decls
        let agree := imps == mi && invS == md
        let (p, why) := propOf [same]
        { agree := agree, prop := p, why := why,
          model := if agree then "same (model inventory = inventory of the checked-in file)" else s!"same ... | {mi} {md}" }
      | .error e =>
        let (p, why) := propOf [same]
        { agree := false, prop := p, why := why, model := s!"model-refuses-the-shipped-dictionary {repr e}" }
    | _, _ => bad "dictionary"
  | _ =>
    let (p, why) := propOf [same]
    { agree := true, prop := p, why := why, model := if same.2 then impl else "same" }

end RV.Driver
