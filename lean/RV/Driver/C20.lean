/-
  Driver for C20 (dictionary Merge).

  Case syntax (shared with harness/cmd/vh/c20.go).  A dictionary is `-` (empty) or a `,`-joined list
  of items; an `a`/`v` item belongs to the vendor opened last, or to the top level if none is open:
    a:<name>:<oid>:<type>[:<size>:<encrypt>:<hastag>:<concat>]   attribute; name hex, oid `-` or `1.2.3`,
                                                                 type 1..17, flags `n` (not valid) or int / 0|1
    v:<attribute>:<name>:<number>                                value (names hex)
    V:<name>:<number>:<typeoctets>:<lengthoctets>[:<xa>:<xv>]    opens a vendor; `n` = nil pointer;
                                                                 xa/xv = spare capacity of its slices (Go side only)
    C:<xa>:<xv>:<xV>                                             spare capacity of the top-level slices (Go side only)
  Canonical rendering: top-level attributes, values, then each vendor followed by its attributes and
  values; the short attribute form when no flag is valid; no capacity fields.

  Ops:
    merge <d1> <d2> <times>          Merge(d1,d2) called <times> times on the same two objects.
                                     result: rounds joined by ` | `, each `ok <dict> d1-same|d1-changed d2-same|d2-changed`
                                     or `err d1-… d2-…`
    chain <steps> <D0> … <Dk-1>      steps `i+j,…`: each calls Merge(Di,Dj) and names its result D(k), D(k+1), …
                                     (a failed merge leaves a hole; a step that uses a hole prints `skip`).
                                     result: steps joined by ` | `, each `ok <dict> chg=<indices|->` / `err chg=…`;
                                     chg lists every dictionary whose deep snapshot differs after the call.

  AGREE/DIFF: the model (`merge c20Mode`, on a vendor store) reproduces the whole line.
  PROP_*: clauses of the statement evaluated on the implementation's own outputs against the value-level
  `Spec.merge` (never against the model).  Inputs that are not well-formed (duplicate vendor name or
  number inside one dictionary) are outside the property: correspondence only, PROP_NA.
-/
import RV.Driver.Util
import RV.Model.DictMerge
namespace RV.Driver
open RV.Dict RV.DictMerge

/-- Which Merge the driver's model is: `.fixed` = /repo with proposed_fixes/merge-copy-vendor.diff
    applied; `.current` = the unrepaired helpers.go (extends d1's vendor in place). -/
def c20Mode : Mode := .fixed

namespace C20

def attrTypeOfNat : Nat → Option AttrType
  | 1 => some .string | 2 => some .octets | 3 => some .ipaddr | 4 => some .date | 5 => some .integer
  | 6 => some .ipv6addr | 7 => some .ipv6prefix | 8 => some .ifid | 9 => some .integer64 | 10 => some .vsa
  | 11 => some .ether | 12 => some .abinary | 13 => some .byte | 14 => some .short | 15 => some .signed
  | 16 => some .tlv | 17 => some .ipv4prefix | _ => none

def showOID (o : List Int) : String := if o.isEmpty then "-" else ".".intercalate (o.map toString)
def showOptInt : Option Int → String
  | none => "n"
  | some i => toString i
def showOptBool : Option Bool → String
  | none => "n"
  | some true => "1"
  | some false => "0"

def showAttr (a : Attribute) : String :=
  let base := s!"a:{hexOf a.name}:{showOID a.oid}:{a.typ.toNat}"
  if a.size.isNone && a.encrypt.isNone && a.hasTag.isNone && a.isConcat.isNone then base
  else s!"{base}:{showOptInt a.size}:{showOptInt a.encrypt}:{showOptBool a.hasTag}:{showOptBool a.isConcat}"

def showValue (v : Value) : String := s!"v:{hexOf v.attrName}:{hexOf v.name}:{v.number}"

def showVendor (v : Vendor) : List String :=
  s!"V:{hexOf v.name}:{v.number}:{showOptInt v.typeOctets}:{showOptInt v.lengthOctets}" ::
    (v.attributes.map showAttr ++ v.values.map showValue)

def showDict (d : Dictionary) : String :=
  let items := d.attributes.map showAttr ++ d.values.map showValue ++ d.vendors.flatMap showVendor
  if items.isEmpty then "-" else ",".intercalate items

def parseOID (s : String) : Option (List Int) :=
  if s == "-" then some [] else (s.splitOn ".").mapM fun c => do
    let n ← c.toNat?
    pure (Int.ofNat n)

def parseOptInt (s : String) : Option (Option Int) :=
  if s == "n" then some none else (parseInt s).map some

def parseOptBool (s : String) : Option (Option Bool) :=
  if s == "n" then some none else if s == "0" then some (some false) else if s == "1" then some (some true) else none

/-- parser state: vendors are kept in reverse, the open vendor first -/
structure PState where
  attrs : List Attribute := []
  values : List Value := []
  vendors : List Vendor := []

def PState.addAttr (p : PState) (a : Attribute) : PState :=
  match p.vendors with
  | [] => { p with attrs := p.attrs ++ [a] }
  | v :: vs => { p with vendors := { v with attributes := v.attributes ++ [a] } :: vs }

def PState.addValue (p : PState) (x : Value) : PState :=
  match p.vendors with
  | [] => { p with values := p.values ++ [x] }
  | v :: vs => { p with vendors := { v with values := v.values ++ [x] } :: vs }

def parseItem (p : PState) (item : String) : Option PState :=
  match item.splitOn ":" with
  | ["a", n, o, t] => do
    let t ← attrTypeOfNat (← parseNat t)
    pure (p.addAttr { name := ← unhex n, oid := ← parseOID o, typ := t })
  | ["a", n, o, t, sz, en, tg, cc] => do
    let t ← attrTypeOfNat (← parseNat t)
    pure (p.addAttr { name := ← unhex n, oid := ← parseOID o, typ := t, size := ← parseOptInt sz,
                      encrypt := ← parseOptInt en, hasTag := ← parseOptBool tg, isConcat := ← parseOptBool cc })
  | ["v", a, n, k] => do
    pure (p.addValue { attrName := ← unhex a, name := ← unhex n, number := ← parseNat k })
  | ["V", n, k, t, l] => do
    pure { p with vendors := { name := ← unhex n, number := ← parseInt k, typeOctets := ← parseOptInt t,
                               lengthOctets := ← parseOptInt l } :: p.vendors }
  | ["V", n, k, t, l, xa, xv] => do
    let _ ← parseNat xa
    let _ ← parseNat xv
    pure { p with vendors := { name := ← unhex n, number := ← parseInt k, typeOctets := ← parseOptInt t,
                               lengthOctets := ← parseOptInt l } :: p.vendors }
  | ["C", xa, xv, xV] => do
    let _ ← parseNat xa
    let _ ← parseNat xv
    let _ ← parseNat xV
    pure p
  | _ => none

def parseDict (s : String) : Option Dictionary :=
  if s == "-" then some {} else do
    let p ← (s.splitOn ",").foldlM parseItem ({} : PState)
    pure { attributes := p.attrs, values := p.values, vendors := p.vendors.reverse }

/-- fresh vendor objects for an input dictionary -/
def alloc (st : Store) (d : Dictionary) : DictR × Store :=
  ({ attributes := d.attributes, values := d.values,
     vendors := (List.range d.vendors.length).map (· + st.length) }, st ++ d.vendors)

def parseSteps (s : String) : Option (List (Nat × Nat)) :=
  if s == "-" then some [] else (s.splitOn ",").mapM fun e =>
    match e.splitOn "+" with
    | [i, j] => do pure (← parseNat i, ← parseNat j)
    | _ => none

/-- one observation of the model or of the implementation -/
structure Obs where
  res : Option (Option Dictionary)   -- none = skip, some none = err, some (some d) = ok d
  changed : List Nat

def showChg (c : List Nat) : String := if c.isEmpty then "-" else ",".intercalate (c.map toString)

def Obs.render (pairStyle : Bool) (o : Obs) : String :=
  let flags := if pairStyle then
      s!"{if o.changed.contains 0 then "d1-changed" else "d1-same"} {if o.changed.contains 1 then "d2-changed" else "d2-same"}"
    else s!"chg={showChg o.changed}"
  match o.res with
  | none => "skip"
  | some none => s!"err {flags}"
  | some (some d) => s!"ok {showDict d} {flags}"

/-- the model: run the steps on a store -/
def runModel (m : Mode) (inputs : List Dictionary) (steps : List (Nat × Nat)) : List Obs :=
  let (dicts, st) := inputs.foldl (fun (acc : Array (Option DictR) × Store) d =>
      let (r, st') := alloc acc.2 d; (acc.1.push (some r), st')) (#[], [])
  let (_, _, obsRev) := steps.foldl (fun (s : Array (Option DictR) × Store × List Obs) ij =>
      let (dicts, st, obs) := s
      match dicts[ij.1]?.join, dicts[ij.2]?.join with
      | some a, some b =>
        match merge m a b st with
        | .error _ => (dicts.push none, st, { res := some none, changed := [] } :: obs)
        | .ok (r, st') =>
          let chg := (List.range dicts.size).filter fun k =>
            match dicts[k]?.join with
            | some d => resolve st' d != resolve st d
            | none => false
          (dicts.push (some r), st', { res := some (some (resolve st' r)), changed := chg } :: obs)
      | _, _ => (dicts.push none, st, { res := none, changed := [] } :: obs)) (dicts, st, [])
  obsRev.reverse

/-- parse one round of the implementation's line -/
def parseObs (pairStyle : Bool) (s : String) : Option Obs :=
  let toks := s.splitOn " "
  let flags (fs : List String) : Option (List Nat) :=
    if pairStyle then
      match fs with
      | [a, b] =>
        if (a == "d1-same" || a == "d1-changed") && (b == "d2-same" || b == "d2-changed") then
          some ((if a == "d1-changed" then [0] else []) ++ (if b == "d2-changed" then [1] else []))
        else none
      | _ => none
    else
      match fs with
      | [c] => if c == "chg=-" then some [] else
          if c.startsWith "chg=" then ((c.drop 4).toString.splitOn ",").mapM parseNat else none
      | _ => none
  match toks with
  | ["skip"] => some { res := none, changed := [] }
  | "err" :: fs => do pure { res := some none, changed := ← flags fs }
  | "ok" :: d :: fs => do pure { res := some (some (← parseDict d)), changed := ← flags fs }
  | _ => none

/-- the oracle: clauses of the statement on the implementation's own observations.
    `vals` = value of every dictionary named so far: the inputs as given, results as the
    implementation printed them.  Returns the clauses and whether a step left the property's domain. -/
def oracle (inputs : List Dictionary) (steps : List (Nat × Nat)) (obs : List Obs) : List (String × Bool) × Bool :=
  let rec go (vals : Array (Option Dictionary)) (seen : List (Nat × Nat)) :
      List (Nat × Nat) → List Obs → List (String × Bool) × Bool
    | ij :: steps, o :: obs =>
      match vals[ij.1]?.join, vals[ij.2]?.join with
      | some a, some b =>
        if !(decide (Spec.WF a) && decide (Spec.WF b)) then
          -- this step is outside the property's domain (an operand is not well-formed): nothing is demanded of it,
          -- but the steps after it are still judged (each on its own operands)
          let (rest, _) := go (vals.push (o.res.join)) (ij :: seen) steps obs
          (rest, true)
        else
        let again := seen.contains ij
        let nm (s : String) := if again then "merge_again_" ++ s else s
        let expected := Spec.merge a b
        let here : List (String × Bool) :=
          match o.res with
          | none => [(nm "ok_iff_conflict_free", false)]
          | some none => [(nm "ok_iff_conflict_free", expected.isNone)]
          | some (some r) =>
            [(nm "ok_iff_conflict_free", expected.isSome),
             (nm "result_is_ordered_union", expected == some r),
             (nm "exactly_once", Spec.exactlyOnce a b r)]
        let here := here ++ [(nm "inputs_unchanged", o.changed.isEmpty)]
        let (rest, na) := go (vals.push (o.res.join)) (ij :: seen) steps obs
        (here ++ rest, na)
      | _, _ =>
        -- a hole is used: nothing to demand of this step except that it was skipped
        let (rest, na) := go (vals.push none) seen steps obs
        (("skip_on_hole", o.res.isNone) :: rest, na)
    | _, _ => ([], false)
  go (inputs.map some).toArray [] steps obs

def verdict (pairStyle : Bool) (inputs : List Dictionary) (steps : List (Nat × Nat)) (impl : String) : Verdict :=
  let model := " | ".intercalate ((runModel c20Mode inputs steps).map (Obs.render pairStyle))
  if impl == "PANIC" || impl == "HANG" then mk impl model [("no_panic", false)] else
  match (impl.splitOn " | ").mapM (parseObs pairStyle) with
  | none => { agree := false, prop := "PROP_FAIL", model := model, why := "result_line_wellformed" }
  | some obs =>
    let (clauses, na) := oracle inputs steps obs
    let clauses := ("one_observation_per_call", obs.length == steps.length) :: clauses
    let v := mk impl model clauses
    if v.prop == "PROP_OK" && na then { v with prop := "PROP_NA" } else v

end C20

def c20 (op : String) (args : List String) (impl : String) : Verdict :=
  match op, args with
  | "merge", [d1, d2, times] =>
    match C20.parseDict d1, C20.parseDict d2, parseNat times with
    | some d1, some d2, some t =>
      if t == 0 || t > 8 then bad "times" else
      C20.verdict true [d1, d2] (List.replicate t (0, 1)) impl
    | _, _, _ => bad "merge-args"
  | "chain", steps :: ds =>
    match C20.parseSteps steps, ds.mapM C20.parseDict with
    | some steps, some ds =>
      if steps.isEmpty || ds.isEmpty then bad "chain-empty" else C20.verdict false ds steps impl
    | _, _ => bad "chain-args"
  | _, _ => bad s!"op:{op}"

end RV.Driver
