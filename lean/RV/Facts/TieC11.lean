/-
  Ties (see TieC01.lean for the conventions) — the part that belongs to C11: the sets of lengths 0..300
  that the code's NewTunnelPassword accept, probed by running the code on every length, equal the sets the model accepts.
-/
import RV.Facts.Generated
import RV.Facts.Expected
namespace RV.Facts.C11
open RV RV.Facts

theorem tie_encTunnelPassword : Generated.encTunnelPassword = Expected.encTunnelPassword := by decide +kernel

end RV.Facts.C11
