/-
  Ties between the facts regenerated from the Go source (`RV.Facts.Generated`, rewritten by
  `vh probe` on every run) and the constants / finite tables the model is built from.  Each is
  closed by kernel evaluation over the *whole* table, so a changed limit or table row in the code
  breaks a proof obligation deterministically.  (Thresholds are encoded +1, 0 = "never accepted".)
-/
import RV.Facts.Generated
import RV.Model.Wire
import RV.Facts.Expected
namespace RV.Facts
open RV

theorem tie_maxPacketLengthConst : Generated.maxPacketLengthConst = maxPacketLength := by decide
theorem tie_parseMinBuf : Generated.parseMinBuf = minPacketLength + 1 := by decide
theorem tie_lenFieldMin : Generated.lenFieldMin = minPacketLength + 1 := by decide
theorem tie_lenFieldMax : Generated.lenFieldMax = maxPacketLength + 1 := by decide
theorem tie_lenBeyondBuffer : Generated.lenBeyondBuffer = 1 := by decide
theorem tie_attrLenMin : Generated.attrLenMin = minAttrLength + 1 := by decide
theorem tie_attrValMax : Generated.attrValMax = maxAttrValue + 1 := by decide
theorem tie_marshalMax : Generated.marshalMax = maxPacketLength + 1 := by decide


/-! C03: the per-code behaviour of `Encode` and `IsAuthenticRequest`, probed for every code 0..255
    (and out-of-range codes of the Go `int`), equals the model's switch. -/
theorem tie_encodeClass : Generated.encodeClass = Expected.encodeClass := by decide +kernel
theorem tie_requestClass : Generated.requestClass = Expected.requestClass := by decide +kernel
theorem tie_encodeClassOutOfRange : Generated.encodeClassOutOfRange = Expected.encodeClassOutOfRange := by decide +kernel

end RV.Facts
