/- All ties (one module per property, so that a broken tie raises the alarm of its own property only). -/
import RV.Facts.TieC01
import RV.Facts.TieC03
import RV.Facts.TieC06
import RV.Facts.TieC07
import RV.Facts.TieC10
import RV.Facts.TieC04
import RV.Facts.TieC11
