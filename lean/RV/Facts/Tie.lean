/- All ties (one module per property, so that a broken tie raises the alarm of its own property only). -/
import RV.Facts.TieC01
import RV.Facts.TieC03
import RV.Facts.TieC06
import RV.Facts.TieC07
