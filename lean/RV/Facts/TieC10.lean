/-
  Ties (see TieC01.lean for the conventions) — the part that belongs to C10: the sets of lengths 0..300
  that the code's typed decoders / encoders accept, probed by running the code on every length, equal the sets the model accepts.
-/
import RV.Facts.Generated
import RV.Facts.Expected
namespace RV.Facts.C10
open RV RV.Facts

theorem tie_acceptShort : Generated.acceptShort = Expected.acceptShort := by decide +kernel
theorem tie_acceptInteger : Generated.acceptInteger = Expected.acceptInteger := by decide +kernel
theorem tie_acceptInteger64 : Generated.acceptInteger64 = Expected.acceptInteger64 := by decide +kernel
theorem tie_acceptIPAddr : Generated.acceptIPAddr = Expected.acceptIPAddr := by decide +kernel
theorem tie_acceptIPv6Addr : Generated.acceptIPv6Addr = Expected.acceptIPv6Addr := by decide +kernel
theorem tie_acceptIFID : Generated.acceptIFID = Expected.acceptIFID := by decide +kernel
theorem tie_acceptDate : Generated.acceptDate = Expected.acceptDate := by decide +kernel
theorem tie_acceptVSA : Generated.acceptVSA = Expected.acceptVSA := by decide +kernel
theorem tie_encString : Generated.encString = Expected.encString := by decide +kernel
theorem tie_encBytes : Generated.encBytes = Expected.encBytes := by decide +kernel
theorem tie_encVSA : Generated.encVSA = Expected.encVSA := by decide +kernel
theorem tie_encTLV : Generated.encTLV = Expected.encTLV := by decide +kernel

end RV.Facts.C10
