/-
  Run with `lake env lean --run RV/Facts/DiffC18.lean` when `RV.Facts.TieC18` no longer builds: prints one line
  `ROW <tab> c18pkg <tab> k` per package whose checked-in inventory differs from what the model generator
  produces from its dictionary (evaluated by the compiler here; the tie itself is checked by the kernel).
-/
import RV.Facts.C18.AllFacts
open RV RV.Facts

def main : IO Unit := do
  if C18.all.length < 32 then IO.println s!"ROW\tc18pkg\t-1\tonly {C18.all.length} helper packages found"
  for (k, e) in C18.all.zipIdx.map (fun p => (p.2, p.1)) do
    if !ExpectedC18.agrees e.2.1 e.2.2.1 e.2.2.2.1 e.2.2.2.2 then
      IO.println s!"ROW\tc18pkg\t{k}\t{String.ofList (e.1.map (fun b => Char.ofNat b.toNat))}"
