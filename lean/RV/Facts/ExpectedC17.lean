/-
  The model's side of the identifier table of the generator (C17): for every candidate name the probe used,
  the identifier the generator derives for a `string` attribute with that name, or nothing when Generate
  refuses the dictionary.
-/
import RV.Facts.Generated
import RV.Model.Gen
namespace RV.Facts.ExpectedC17
open RV RV.Dict RV.Gen

def toBytes (l : List Nat) : Bytes := l.map UInt8.ofNat
def ofBytes (b : Bytes) : List Nat := b.map (·.toNat)

/-- accepted ⇒ the identifier in front of `_Type`; refused ⇒ [] -/
def identOf (n : Bytes) : List Nat :=
  match generate Cfg.current { attributes := [{ name := n, oid := [1], typ := .string }] } ⟨[], []⟩ with
  | .ok out =>
    match out.decls.find? (·.role == .typeConst) with
    | some d => ofBytes (d.name.take (d.name.length - 5))
    | none => ofBytes (bs "!no-type-constant")
  | .error _ => []

def c17Ident : List (List Nat) := Generated.c17Names.map fun n => identOf (toBytes n)

/-- the candidates must contain: every printable ASCII character in first / middle / last position, every
    digit first, every initialism in lower case -/
def mustNames : List Bytes :=
  ((List.range 95).flatMap fun k =>
    let c := UInt8.ofNat (32 + k)
    [[97, c, 98], [c, 97, 98], [97, 98, c]])
  ++ (List.range 10).map (fun d => [UInt8.ofNat (48 + d), 120])
  ++ initialisms.map (fun i => i.map fun c => if 65 ≤ c && c ≤ 90 then c + 32 else c)

def covers : Bool := mustNames.all fun m => (Generated.c17Names.map toBytes).contains m

end RV.Facts.ExpectedC17
