/-
  Ties between the facts regenerated from the Go source (`RV.Facts.Generated`, rewritten by
  `vh probe` on every run) and the constants / finite tables the model is built from — the part
  that belongs to C01.  Closed by kernel evaluation over the WHOLE table, so a changed limit or
  table row in the code breaks a proof obligation deterministically.
  (Thresholds are encoded +1, 0 = "never accepted"; syntactic facts: 1 holds, 2 unknown, 0 violated.)
-/
import RV.Facts.Generated
import RV.Facts.Expected
namespace RV.Facts.C01
open RV RV.Facts

theorem tie_maxPacketLengthConst : Generated.maxPacketLengthConst = maxPacketLength := by decide
theorem tie_parseMinBuf : Generated.parseMinBuf = minPacketLength + 1 := by decide
theorem tie_lenFieldMin : Generated.lenFieldMin = minPacketLength + 1 := by decide
theorem tie_lenFieldMax : Generated.lenFieldMax = maxPacketLength + 1 := by decide
theorem tie_lenBeyondBuffer : Generated.lenBeyondBuffer = 1 := by decide
theorem tie_attrLenMin : Generated.attrLenMin = minAttrLength + 1 := by decide
theorem tie_attrValMax : Generated.attrValMax = maxAttrValue + 1 := by decide
theorem tie_marshalMax : Generated.marshalMax = maxPacketLength + 1 := by decide

end RV.Facts.C01
