/-
  Ties between the facts regenerated from the Go source (`RV.Facts.Generated`, rewritten by
  `vh probe` on every run) and the constants / finite tables the model is built from — the part
  that belongs to C03.  Closed by kernel evaluation over the WHOLE table, so a changed limit or
  table row in the code breaks a proof obligation deterministically.
  (Thresholds are encoded +1, 0 = "never accepted"; syntactic facts: 1 holds, 2 unknown, 0 violated.)
-/
import RV.Facts.Generated
import RV.Facts.Expected
namespace RV.Facts.C03
open RV RV.Facts

/-- the per-code behaviour of `Encode` and `IsAuthenticRequest`, probed for every code 0..255 (and
    out-of-range codes of the Go `int`), equals the model's switch -/
theorem tie_encodeClass : Generated.encodeClass = Expected.encodeClass := by decide +kernel
theorem tie_requestClass : Generated.requestClass = Expected.requestClass := by decide +kernel
theorem tie_encodeClassOutOfRange : Generated.encodeClassOutOfRange = Expected.encodeClassOutOfRange := by decide +kernel
/-- `New` reads 17 bytes from crypto/rand -/
theorem tie_newUsesCryptoRand : Generated.newUsesCryptoRand ≠ 0 := by decide

end RV.Facts.C03
