/-
  Ties between the facts regenerated from the Go source (`RV.Facts.Generated`, rewritten by
  `vh probe` on every run) and the constants / finite tables the model is built from — the part
  that belongs to C06.  Closed by kernel evaluation over the WHOLE table, so a changed limit or
  table row in the code breaks a proof obligation deterministically.
  (Thresholds are encoded +1, 0 = "never accepted"; syntactic facts: 1 holds, 2 unknown, 0 violated.)
-/
import RV.Facts.Generated
import RV.Facts.Expected
namespace RV.Facts.C06
open RV RV.Facts

theorem tie_requestClass : Generated.requestClass = Expected.requestClass := by decide +kernel
/-- lookup and insert of the dedup table lie in one critical section (`taskRun` is a single step) -/
theorem tie_dedupAtomic : Generated.dedupAtomic ≠ 0 := by decide

end RV.Facts.C06
