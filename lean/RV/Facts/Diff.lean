/-
  Run with `lake env lean --run RV/Facts/Diff.lean` when `RV.Facts.Tie` no longer builds:
  prints one line `ROW <tab> fact <tab> index` per fact (row) that differs from the model.
-/
import RV.Facts.Generated
import RV.Model.Wire
import RV.Facts.Expected
import RV.Facts.ExpectedC16
import RV.Facts.ExpectedC17
open RV RV.Facts

def natFacts : List (String × Nat × Nat) := [
  ("maxPacketLengthConst", Generated.maxPacketLengthConst, maxPacketLength),
  ("parseMinBuf", Generated.parseMinBuf, minPacketLength + 1),
  ("lenFieldMin", Generated.lenFieldMin, minPacketLength + 1),
  ("lenFieldMax", Generated.lenFieldMax, maxPacketLength + 1),
  ("lenBeyondBuffer", Generated.lenBeyondBuffer, 1),
  ("attrLenMin", Generated.attrLenMin, minAttrLength + 1),
  ("attrValMax", Generated.attrValMax, maxAttrValue + 1),
  ("marshalMax", Generated.marshalMax, maxPacketLength + 1)]

def listFacts : List (String × List Nat × List Nat) := [
  ("encodeClass", Generated.encodeClass, Expected.encodeClass),
  ("requestClass", Generated.requestClass, Expected.requestClass),
  ("encodeClassOutOfRange", Generated.encodeClassOutOfRange, Expected.encodeClassOutOfRange),
  ("c16TypeCode", Generated.c16TypeCode, ExpectedC16.c16TypeCode),
  ("c16TypeSize", Generated.c16TypeSize, ExpectedC16.c16TypeSize),
  ("c16Flags", Generated.c16Flags, ExpectedC16.c16Flags),
  ("c16Format", Generated.c16Format, ExpectedC16.c16Format),
  ("c16ValueNumber", Generated.c16ValueNumber, ExpectedC16.c16ValueNumber)]

def list2Facts : List (String × List (List Nat) × List (List Nat)) := [
  ("c16Oid", Generated.c16Oid, ExpectedC16.c16Oid),
  ("c17Ident", Generated.c17Ident, ExpectedC17.c17Ident)]

def coverFacts : List (String × Bool) := [
  ("c17Names", ExpectedC17.covers),
  ("c16TypeTokens", ExpectedC16.covers Generated.c16TypeTokens ExpectedC16.mustTypeTokens),
  ("c16FlagTokens", ExpectedC16.covers Generated.c16FlagTokens ExpectedC16.mustFlagTokens),
  ("c16FormatTokens", ExpectedC16.covers Generated.c16FormatTokens ExpectedC16.mustFormatTokens),
  ("c16ValueTokens", ExpectedC16.covers Generated.c16ValueTokens ExpectedC16.mustValueTokens),
  ("c16OidTokens", ExpectedC16.covers Generated.c16OidTokens ExpectedC16.mustOidTokens)]

/-- sets of accepted lengths: a row is a length on which code and model disagree -/
def setFacts : List (String × List Nat × List Nat) := [
  ("acceptShort", Generated.acceptShort, Expected.acceptShort),
  ("acceptInteger", Generated.acceptInteger, Expected.acceptInteger),
  ("acceptInteger64", Generated.acceptInteger64, Expected.acceptInteger64),
  ("acceptIPAddr", Generated.acceptIPAddr, Expected.acceptIPAddr),
  ("acceptIPv6Addr", Generated.acceptIPv6Addr, Expected.acceptIPv6Addr),
  ("acceptIFID", Generated.acceptIFID, Expected.acceptIFID),
  ("acceptDate", Generated.acceptDate, Expected.acceptDate),
  ("acceptVSA", Generated.acceptVSA, Expected.acceptVSA),
  ("encString", Generated.encString, Expected.encString),
  ("encBytes", Generated.encBytes, Expected.encBytes),
  ("encVSA", Generated.encVSA, Expected.encVSA),
  ("encTLV", Generated.encTLV, Expected.encTLV),
  ("encUserPassword", Generated.encUserPassword, Expected.encUserPassword),
  ("acceptUserPassword", Generated.acceptUserPassword, Expected.acceptUserPassword),
  ("encTunnelPassword", Generated.encTunnelPassword, Expected.encTunnelPassword)]

def astFacts : List (String × Nat) := [
  ("newUsesCryptoRand", Generated.newUsesCryptoRand),
  ("countedUnderLock", Generated.countedUnderLock),
  ("shutdownFlagUnderLock", Generated.shutdownFlagUnderLock),
  ("dedupAtomic", Generated.dedupAtomic),
  ("tickerPeriodIsRetry", Generated.tickerPeriodIsRetry),
  ("activeAddBeforeGo", Generated.activeAddBeforeGo),
  ("serveFlagUnderLock", Generated.serveFlagUnderLock)]

def main : IO Unit := do
  for (n, g, e) in setFacts do
    for k in List.range 301 do
      if g.contains k != e.contains k then IO.println s!"ROW\t{n}\t{k}\tgenerated={g.contains k}\tmodel={e.contains k}"
  for (n, g, e) in list2Facts do
    if g.length != e.length then IO.println s!"ROW\t{n}\t-1\tlength generated={g.length} model={e.length}"
    for (i, (x, y)) in (List.zip g e).zipIdx.map (fun p => (p.2, p.1)) do
      if x != y then IO.println s!"ROW\t{n}\t{i}\tgenerated={x}\tmodel={y}"
  for (n, ok) in coverFacts do
    if !ok then IO.println s!"ROW\t{n}\t-1\tcandidate list does not cover the required tokens"
  for (n, g) in astFacts do
    if g == 0 then IO.println s!"ROW\t{n}\t-1\tgenerated=0 (determinately violated)"
  for (n, g, e) in natFacts do
    if g != e then IO.println s!"ROW\t{n}\t-1\tgenerated={g}\tmodel={e}"
  for (n, g, e) in listFacts do
    if g.length != e.length then IO.println s!"ROW\t{n}\t-1\tlength generated={g.length} model={e.length}"
    for (i, (x, y)) in (List.zip g e).zipIdx.map (fun p => (p.2, p.1)) do
      if x != y then IO.println s!"ROW\t{n}\t{i}\tgenerated={x}\tmodel={y}"
