/-
  The model's side of the C18 tie: the inventory (imports; declarations with kind, name and signature, in
  emission order) that the model generator `Gen.generate Cfg.current` produces for a dictionary and options,
  rendered into the byte syntax in which the probe reports the inventory of a checked-in `generated.go`
  (harness/cmd/vh/dictsyntax.go, `dsInventory`).  Byte lists only, so that the kernel can evaluate it.
-/
import RV.Model.Gen
namespace RV.Facts.ExpectedC18
open RV RV.Dict RV.Gen

def renderTy : Ty → Bytes
  | .packet => bs "*radius.Packet" | .byte => bs "byte" | .str => bs "string" | .ip => bs "net.IP"
  | .hw => bs "net.HardwareAddr" | .ipnet => bs "*net.IPNet" | .time => bs "time.Time" | .error => bs "error"
  | .radiusType => bs "radius.Type" | .untyped => [] | .u16 => bs "uint16" | .u32 => bs "uint32" | .u64 => bs "uint64"
  | .named id => id | .mapStr id => bs "map[" ++ id ++ bs "]string" | .slice t => bs "[]" ++ renderTy t
  | .attribute => bs "radius.Attribute" | .bool => bs "bool"

def joinWith (sep : UInt8) : List Bytes → Bytes
  | [] => []
  | [x] => x
  | x :: xs => x ++ sep :: joinWith sep xs

def renderDecl (d : Decl) : Bytes :=
  let tys (l : List Ty) := joinWith 59 (l.map renderTy)        -- ';'
  match d.kind with
  | .const => bs "c:" ++ d.name ++ [58] ++ tys d.results
  | .type => bs "t:" ++ d.name ++ [58] ++ tys d.results
  | .var => bs "v:" ++ d.name ++ [58] ++ tys d.results
  | .func => bs "f:" ++ d.name ++ [58] ++ tys d.params ++ [62] ++ tys d.results
  | .method => bs "m:" ++ d.name ++ [58] ++ tys d.params ++ [62] ++ tys d.results

def renderImp : Imp → Bytes
  | .std p => p | .radius => bs "layeh.com/radius" | .rfc2865 => bs "layeh.com/radius/rfc2865" | .dot p => 46 :: p

/-- `sort.Strings` on the import paths (insertion sort by byte order) -/
def insertSorted (s : Bytes) : List Bytes → List Bytes
  | [] => [s]
  | t :: l => if bytesLt s t then s :: t :: l else t :: insertSorted s l

def sortBytes (l : List Bytes) : List Bytes := l.foldr insertSorted []

/-- unpacking of the probe's byte strings: `B n len` = the `len` octets of `n`, big-endian -/
def Bacc (n : Nat) : Nat → Bytes → Bytes
  | 0, acc => acc
  | k + 1, acc => Bacc (n / 256) k (UInt8.ofNat (n % 256) :: acc)

def B (n len : Nat) : Bytes := Bacc n len []

example : B 0x414243 3 = [65, 66, 67] ∧ B 0 0 = [] ∧ B 0x00ff 2 = [0, 255] := by decide

/-- does the model generator, run on `d` with `o`, produce exactly the inventory of the checked-in file? -/
def agrees (d : Dictionary) (o : Options) (imports decls : List Bytes) : Bool :=
  match generate Cfg.current d o with
  | .ok out =>
    sortBytes (out.imports.map renderImp) == imports &&
    out.decls.map renderDecl == decls
  | .error _ => false

/-! ## The packages and their files (pinned; second audit, finding 9)

`packages_present` only counted, and the per-package ties range over whatever list `vh probe` regenerates: a package
replaced by another, or a hand-written file next to a generated one ("no hand edits" is a statement about the
PACKAGE), would not have been seen.  These two lists are the inventory of the pinned commit; the regenerated facts
`RV.Facts.C18.packageFiles` / `all.map (·.1)` must equal them (`tie_packageFiles`, `tie_packageNames`). -/

/-- every directory with a go:generate artefact and its non-test Go files -/
def packageFiles : List (Bytes × List Bytes) := [
  ((B 0x6465627567 5), [(B 0x64656275672e676f 8), (B 0x646f632e676f 6), (B 0x67656e65726174652e676f 11), (B 0x67656e65726174655f6d61696e2e676f 16), (B 0x67656e6572617465642e676f 12)]),  -- debug: debug.go doc.go generate.go generate_main.go generated.go
  ((B 0x696e7465726e616c2f73616c74656e637279707474657374 24), [(B 0x67656e65726174652e676f 11), (B 0x67656e6572617465642e676f 12)]),  -- internal/saltencrypttest: generate.go generated.go
  ((B 0x72666332383635 7), [(B 0x67656e65726174652e676f 11), (B 0x67656e6572617465642e676f 12)]),  -- rfc2865: generate.go generated.go
  ((B 0x72666332383636 7), [(B 0x67656e65726174652e676f 11), (B 0x67656e6572617465642e676f 12)]),  -- rfc2866: generate.go generated.go
  ((B 0x72666332383637 7), [(B 0x67656e65726174652e676f 11), (B 0x67656e6572617465642e676f 12)]),  -- rfc2867: generate.go generated.go
  ((B 0x72666332383638 7), [(B 0x67656e65726174652e676f 11), (B 0x67656e6572617465642e676f 12)]),  -- rfc2868: generate.go generated.go
  ((B 0x72666332383639 7), [(B 0x67656e65726174652e676f 11), (B 0x67656e6572617465642e676f 12)]),  -- rfc2869: generate.go generated.go
  ((B 0x72666333313632 7), [(B 0x67656e65726174652e676f 11), (B 0x67656e6572617465642e676f 12)]),  -- rfc3162: generate.go generated.go
  ((B 0x72666333353736 7), [(B 0x67656e65726174652e676f 11), (B 0x67656e6572617465642e676f 12)]),  -- rfc3576: generate.go generated.go
  ((B 0x72666333353830 7), [(B 0x67656e65726174652e676f 11), (B 0x67656e6572617465642e676f 12)]),  -- rfc3580: generate.go generated.go
  ((B 0x72666334303732 7), [(B 0x67656e65726174652e676f 11), (B 0x67656e6572617465642e676f 12)]),  -- rfc4072: generate.go generated.go
  ((B 0x72666334333732 7), [(B 0x67656e65726174652e676f 11), (B 0x67656e6572617465642e676f 12)]),  -- rfc4372: generate.go generated.go
  ((B 0x72666334363033 7), [(B 0x67656e65726174652e676f 11), (B 0x67656e6572617465642e676f 12)]),  -- rfc4603: generate.go generated.go
  ((B 0x72666334363735 7), [(B 0x67656e65726174652e676f 11), (B 0x67656e6572617465642e676f 12)]),  -- rfc4675: generate.go generated.go
  ((B 0x72666334363739 7), [(B 0x67656e65726174652e676f 11), (B 0x67656e6572617465642e676f 12)]),  -- rfc4679: generate.go generated.go
  ((B 0x72666334383138 7), [(B 0x67656e65726174652e676f 11), (B 0x67656e6572617465642e676f 12)]),  -- rfc4818: generate.go generated.go
  ((B 0x72666334383439 7), [(B 0x67656e65726174652e676f 11), (B 0x67656e6572617465642e676f 12)]),  -- rfc4849: generate.go generated.go
  ((B 0x72666335303930 7), [(B 0x67656e65726174652e676f 11), (B 0x67656e6572617465642e676f 12)]),  -- rfc5090: generate.go generated.go
  ((B 0x72666335313736 7), [(B 0x67656e65726174652e676f 11), (B 0x67656e6572617465642e676f 12)]),  -- rfc5176: generate.go generated.go
  ((B 0x72666335343437 7), [(B 0x67656e65726174652e676f 11), (B 0x67656e6572617465642e676f 12)]),  -- rfc5447: generate.go generated.go
  ((B 0x72666335353830 7), [(B 0x67656e65726174652e676f 11), (B 0x67656e6572617465642e676f 12)]),  -- rfc5580: generate.go generated.go
  ((B 0x72666335363037 7), [(B 0x67656e65726174652e676f 11), (B 0x67656e6572617465642e676f 12)]),  -- rfc5607: generate.go generated.go
  ((B 0x72666335393034 7), [(B 0x67656e65726174652e676f 11), (B 0x67656e6572617465642e676f 12)]),  -- rfc5904: generate.go generated.go
  ((B 0x72666336353139 7), [(B 0x67656e65726174652e676f 11), (B 0x67656e6572617465642e676f 12)]),  -- rfc6519: generate.go generated.go
  ((B 0x72666336353732 7), [(B 0x67656e65726174652e676f 11), (B 0x67656e6572617465642e676f 12)]),  -- rfc6572: generate.go generated.go
  ((B 0x72666336363737 7), [(B 0x67656e65726174652e676f 11), (B 0x67656e6572617465642e676f 12)]),  -- rfc6677: generate.go generated.go
  ((B 0x72666336393131 7), [(B 0x67656e65726174652e676f 11), (B 0x67656e6572617465642e676f 12)]),  -- rfc6911: generate.go generated.go
  ((B 0x72666337303535 7), [(B 0x67656e65726174652e676f 11), (B 0x67656e6572617465642e676f 12)]),  -- rfc7055: generate.go generated.go
  ((B 0x72666337323638 7), [(B 0x67656e65726174652e676f 11), (B 0x67656e6572617465642e676f 12)]),  -- rfc7268: generate.go generated.go
  ((B 0x76656e646f72732f6172756261 13), [(B 0x67656e65726174652e676f 11), (B 0x67656e6572617465642e676f 12)]),  -- vendors/aruba: generate.go generated.go
  ((B 0x76656e646f72732f6d6963726f736f6674 17), [(B 0x67656e65726174652e676f 11), (B 0x67656e6572617465642e676f 12), (B 0x6d736368617076322d7365727665722d6578616d706c652e676f 26)]),  -- vendors/microsoft: generate.go generated.go mschapv2-server-example.go
  ((B 0x76656e646f72732f6d696b726f74696b 16), [(B 0x67656e65726174652e676f 11), (B 0x67656e6572617465642e676f 12)]),  -- vendors/mikrotik: generate.go generated.go
  ((B 0x76656e646f72732f7769737072 13), [(B 0x67656e65726174652e676f 11), (B 0x67656e6572617465642e676f 12)])  -- vendors/wispr: generate.go generated.go
]

/-- the helper packages (every artefact but the debug package's built-in dictionary), in order -/
def helperPackages : List Bytes := [
  (B 0x696e7465726e616c2f73616c74656e637279707474657374 24),  -- internal/saltencrypttest
  (B 0x72666332383635 7),  -- rfc2865
  (B 0x72666332383636 7),  -- rfc2866
  (B 0x72666332383637 7),  -- rfc2867
  (B 0x72666332383638 7),  -- rfc2868
  (B 0x72666332383639 7),  -- rfc2869
  (B 0x72666333313632 7),  -- rfc3162
  (B 0x72666333353736 7),  -- rfc3576
  (B 0x72666333353830 7),  -- rfc3580
  (B 0x72666334303732 7),  -- rfc4072
  (B 0x72666334333732 7),  -- rfc4372
  (B 0x72666334363033 7),  -- rfc4603
  (B 0x72666334363735 7),  -- rfc4675
  (B 0x72666334363739 7),  -- rfc4679
  (B 0x72666334383138 7),  -- rfc4818
  (B 0x72666334383439 7),  -- rfc4849
  (B 0x72666335303930 7),  -- rfc5090
  (B 0x72666335313736 7),  -- rfc5176
  (B 0x72666335343437 7),  -- rfc5447
  (B 0x72666335353830 7),  -- rfc5580
  (B 0x72666335363037 7),  -- rfc5607
  (B 0x72666335393034 7),  -- rfc5904
  (B 0x72666336353139 7),  -- rfc6519
  (B 0x72666336353732 7),  -- rfc6572
  (B 0x72666336363737 7),  -- rfc6677
  (B 0x72666336393131 7),  -- rfc6911
  (B 0x72666337303535 7),  -- rfc7055
  (B 0x72666337323638 7),  -- rfc7268
  (B 0x76656e646f72732f6172756261 13),  -- vendors/aruba
  (B 0x76656e646f72732f6d6963726f736f6674 17),  -- vendors/microsoft
  (B 0x76656e646f72732f6d696b726f74696b 16),  -- vendors/mikrotik
  (B 0x76656e646f72732f7769737072 13)  -- vendors/wispr
]

example : packageFiles.length = 33 ∧ helperPackages.length = 32 := by decide

end RV.Facts.ExpectedC18
