/-
  The model's side of the C18 tie: the inventory (imports; declarations with kind, name and signature, in
  emission order) that the model generator `Gen.generate Cfg.current` produces for a dictionary and options,
  rendered into the byte syntax in which the probe reports the inventory of a checked-in `generated.go`
  (harness/cmd/vh/dictsyntax.go, `dsInventory`).  Byte lists only, so that the kernel can evaluate it.
-/
import RV.Model.Gen
namespace RV.Facts.ExpectedC18
open RV RV.Dict RV.Gen

def renderTy : Ty → Bytes
  | .packet => bs "*radius.Packet" | .byte => bs "byte" | .str => bs "string" | .ip => bs "net.IP"
  | .hw => bs "net.HardwareAddr" | .ipnet => bs "*net.IPNet" | .time => bs "time.Time" | .error => bs "error"
  | .radiusType => bs "radius.Type" | .untyped => [] | .u16 => bs "uint16" | .u32 => bs "uint32" | .u64 => bs "uint64"
  | .named id => id | .mapStr id => bs "map[" ++ id ++ bs "]string" | .slice t => bs "[]" ++ renderTy t
  | .attribute => bs "radius.Attribute" | .bool => bs "bool"

def joinWith (sep : UInt8) : List Bytes → Bytes
  | [] => []
  | [x] => x
  | x :: xs => x ++ sep :: joinWith sep xs

def renderDecl (d : Decl) : Bytes :=
  let tys (l : List Ty) := joinWith 59 (l.map renderTy)        -- ';'
  match d.kind with
  | .const => bs "c:" ++ d.name ++ [58] ++ tys d.results
  | .type => bs "t:" ++ d.name ++ [58] ++ tys d.results
  | .var => bs "v:" ++ d.name ++ [58] ++ tys d.results
  | .func => bs "f:" ++ d.name ++ [58] ++ tys d.params ++ [62] ++ tys d.results
  | .method => bs "m:" ++ d.name ++ [58] ++ tys d.params ++ [62] ++ tys d.results

def renderImp : Imp → Bytes
  | .std p => p | .radius => bs "layeh.com/radius" | .rfc2865 => bs "layeh.com/radius/rfc2865" | .dot p => 46 :: p

/-- `sort.Strings` on the import paths (insertion sort by byte order) -/
def insertSorted (s : Bytes) : List Bytes → List Bytes
  | [] => [s]
  | t :: l => if bytesLt s t then s :: t :: l else t :: insertSorted s l

def sortBytes (l : List Bytes) : List Bytes := l.foldr insertSorted []

/-- unpacking of the probe's byte strings: `B n len` = the `len` octets of `n`, big-endian -/
def Bacc (n : Nat) : Nat → Bytes → Bytes
  | 0, acc => acc
  | k + 1, acc => Bacc (n / 256) k (UInt8.ofNat (n % 256) :: acc)

def B (n len : Nat) : Bytes := Bacc n len []

example : B 0x414243 3 = [65, 66, 67] ∧ B 0 0 = [] ∧ B 0x00ff 2 = [0, 255] := by decide

/-- does the model generator, run on `d` with `o`, produce exactly the inventory of the checked-in file? -/
def agrees (d : Dictionary) (o : Options) (imports decls : List Bytes) : Bool :=
  match generate Cfg.current d o with
  | .ok out =>
    sortBytes (out.imports.map renderImp) == imports &&
    out.decls.map renderDecl == decls
  | .error _ => false

end RV.Facts.ExpectedC18
