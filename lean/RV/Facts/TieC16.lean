/-
  Ties (see TieC01.lean for the conventions) — the part that belongs to C16: the token-level tables of the
  tree's dictionary parser (type names incl. `octets[n]` and letter case, the flag field, `format=t,l`,
  VALUE numbers), obtained by running the parser on one-line dictionaries over the candidate lists, equal what
  the model's `parseType` / `parseFlags` / `parseVendor` / `parseValue` compute on the same tokens.
-/
import RV.Facts.Generated
import RV.Facts.ExpectedC16
namespace RV.Facts.C16
open RV RV.Facts

theorem tie_c16TypeCode : Generated.c16TypeCode = ExpectedC16.c16TypeCode := by decide +kernel
theorem tie_c16TypeSize : Generated.c16TypeSize = ExpectedC16.c16TypeSize := by decide +kernel
theorem tie_c16Flags : Generated.c16Flags = ExpectedC16.c16Flags := by decide +kernel
theorem tie_c16Format : Generated.c16Format = ExpectedC16.c16Format := by decide +kernel
theorem tie_c16Oid : Generated.c16Oid = ExpectedC16.c16Oid := by decide +kernel
theorem tie_c16ValueNumber : Generated.c16ValueNumber = ExpectedC16.c16ValueNumber := by decide +kernel

/-- the candidate lists are not vacuous -/
theorem candidates_cover :
    ExpectedC16.covers Generated.c16TypeTokens ExpectedC16.mustTypeTokens = true ∧
    ExpectedC16.covers Generated.c16FlagTokens ExpectedC16.mustFlagTokens = true ∧
    ExpectedC16.covers Generated.c16FormatTokens ExpectedC16.mustFormatTokens = true ∧
    ExpectedC16.covers Generated.c16ValueTokens ExpectedC16.mustValueTokens = true ∧
    ExpectedC16.covers Generated.c16OidTokens ExpectedC16.mustOidTokens = true := by decide +kernel

end RV.Facts.C16
