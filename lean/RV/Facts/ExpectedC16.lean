/-
  The model's side of the token-level tables of the dictionary parser (C16).  The candidate tokens are
  the ones the probe used (`Generated.c16…Tokens`, bytes); `TieC16.lean` also proves that the candidate
  lists contain what they must (every type name in three letter cases, every `format=t,l` digit pair, …),
  so that an emptied candidate list cannot make the tie vacuous.
-/
import RV.Facts.Generated
import RV.Model.DictParser
namespace RV.Facts.ExpectedC16
open RV RV.Dict RV.DictParser

def toBytes (l : List Nat) : Bytes := l.map UInt8.ofNat

/-- 0 = refused as an unknown attribute type, else the Go `AttributeType` number -/
def typeCode (t : Bytes) : Nat :=
  match parseType t with
  | .ok (ty, _) => ty.toNat
  | .error _ => 0

/-- 0 = no size, else size + 2^31 + 1 -/
def typeSize (t : Bytes) : Nat :=
  match parseType t with
  | .ok (_, some n) => (n + 2 ^ 31 + 1).toNat
  | _ => 0

def errIndex : ErrClass → Nat
  | .unknownLine => 1 | .invalidOID => 2 | .unknownAttributeType => 3 | .duplicateAttributeFlag => 4
  | .unknownAttributeFlag => 5 | .invalidAttributeEncryptType => 6 | .duplicateAttribute => 7 | .strconv => 8
  | .invalidVendorFormat => 9 | .duplicateVendor => 10 | .nestedVendorBlock => 11 | .unknownVendor => 12
  | .unmatchedEndVendor => 13 | .invalidEndVendor => 14 | .beginVendorInclude => 15 | .unclosedVendorBlock => 16

/-- the flag field of `ATTRIBUTE A 1 string <flags>`: error class index, or
    100 + 4·(encrypt + 2^31 + 1 | 0) + 2·has_tag + concat -/
def flagsCode (f : Bytes) : Nat :=
  match parseFlags (splitComma f) { name := [65], oid := [1], typ := .string } with
  | .error e => errIndex e
  | .ok a =>
    100 + (match a.encrypt with | some n => 4 * (n + 2 ^ 31 + 1).toNat | none => 0)
        + (if a.hasTag == some true then 2 else 0) + (if a.isConcat == some true then 1 else 0)

/-- the format field of `VENDOR V 9 <format>`: error class index, or 100 + 16·type octets + length octets -/
def formatCode (f : Bytes) : Nat :=
  match parseVendor Cfg.tree [86] [57] (some f) with
  | .error e => errIndex e
  | .ok v => 100 + 16 * (v.typeOctets.getD 0).toNat + (v.lengthOctets.getD 0).toNat

/-- the number field of `VALUE A N <number>`: 0 = refused by strconv, else number + 1 -/
def valueCode (n : Bytes) : Nat :=
  match parseValue [65] [78] n with
  | .ok v => v.number + 1
  | .error _ => 0

/-- the number field of `ATTRIBUTE A <oid> string`: [0] = refused as an invalid OID, else 1 followed by two fields per
    component, floor(c / 2^32) + 2^31 and c mod 2^32 (the empty token cannot occur as a field: it is listed as refused) -/
def oidCode (t : Bytes) : List Nat :=
  if t.isEmpty then [0] else
  match parseOID Cfg.tree t with
  | some o => 1 :: o.flatMap fun c => [(c / 2 ^ 32 + 2 ^ 31).toNat, (c % 2 ^ 32).toNat]
  | none => [0]

def c16Oid : List (List Nat) := Generated.c16OidTokens.map fun t => oidCode (toBytes t)

def c16TypeCode : List Nat := Generated.c16TypeTokens.map fun t => typeCode (toBytes t)
def c16TypeSize : List Nat := Generated.c16TypeTokens.map fun t => typeSize (toBytes t)
def c16Flags : List Nat := Generated.c16FlagTokens.map fun t => flagsCode (toBytes t)
def c16Format : List Nat := Generated.c16FormatTokens.map fun t => formatCode (toBytes t)
def c16ValueNumber : List Nat := Generated.c16ValueTokens.map fun t => valueCode (toBytes t)

/-! what the candidate lists must contain -/
def upper (b : Bytes) : Bytes := b.map fun c => if 97 ≤ c && c ≤ 122 then c - 32 else c
def title : Bytes → Bytes
  | [] => []
  | c :: r => (if 97 ≤ c && c ≤ 122 then c - 32 else c) :: r

def typeNames : List Bytes := nmString :: nmOctets :: typeTable.map (·.1)

def mustTypeTokens : List Bytes :=
  typeNames ++ typeNames.map upper ++ typeNames.map title ++
  ["octets[0]", "octets[16]", "octets[-1]", "octets[2147483647]", "octets[2147483648]", "octets[]", "octets[x]", "strings", "strin"].map bs

def mustFlagTokens : List Bytes :=
  ["encrypt=1", "encrypt=2", "encrypt=3", "has_tag", "concat", "encrypt=2,has_tag,concat", "encrypt=1,encrypt=2", "encrypt=1,encrypt=1",
   "has_tag,has_tag", "concat,concat", "encrypt=x", "abc", "HAS_TAG", ",", "has_tag,"].map bs

def mustFormatTokens : List Bytes :=
  ((List.range 10).flatMap fun a => (List.range 10).map fun b =>
    kwFormat ++ [UInt8.ofNat (48 + a), 44, UInt8.ofNat (48 + b)]) ++ ["format=1,1,c", "format=1", "FORMAT=1,1"].map bs

def mustOidTokens : List Bytes :=
  ["1", "26.1", "0", "01", "+5", "-5", "26.+1", "1.", ".1", "1..2", "9223372036854775807", "9223372036854775808", "a", "1a"].map bs

def mustValueTokens : List Bytes :=
  ["0", "1", "255", "4294967295", "4294967296", "-1", "0x1", "0xff", "0xFF", "0xffffffff", "0x100000000", "0x", "010", "0Xff"].map bs

def covers (have_ : List (List Nat)) (must : List Bytes) : Bool := must.all fun m => (have_.map toBytes).contains m

end RV.Facts.ExpectedC16
