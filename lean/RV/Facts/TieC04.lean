/-
  Ties (see TieC01.lean for the conventions) — the part that belongs to C04: the sets of lengths 0..300
  that the code's User-Password functions accept, probed by running the code on every length, equal the sets the model accepts.
-/
import RV.Facts.Generated
import RV.Facts.Expected
namespace RV.Facts.C04
open RV RV.Facts

theorem tie_encUserPassword : Generated.encUserPassword = Expected.encUserPassword := by decide +kernel
theorem tie_acceptUserPassword : Generated.acceptUserPassword = Expected.acceptUserPassword := by decide +kernel

end RV.Facts.C04
