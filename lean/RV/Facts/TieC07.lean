/-
  Ties between the facts regenerated from the Go source (`RV.Facts.Generated`, rewritten by
  `vh probe` on every run) and the constants / finite tables the model is built from — the part
  that belongs to C07.  Closed by kernel evaluation over the WHOLE table, so a changed limit or
  table row in the code breaks a proof obligation deterministically.
  (Thresholds are encoded +1, 0 = "never accepted"; syntactic facts: 1 holds, 2 unknown, 0 violated.)
-/
import RV.Facts.Generated
import RV.Facts.Expected
namespace RV.Facts.C07
open RV RV.Facts

/-- `Serve` counts itself under the mutex: the tree is the `.fixed` variant of RV.Model.Server -/
theorem tie_countedUnderLock : Generated.countedUnderLock ≠ 0 := by decide

/-- `Shutdown` tests and sets the flag inside its critical section: the model's `downEnter` is one step -/
theorem tie_shutdownFlagUnderLock : Generated.shutdownFlagUnderLock ≠ 0 := by decide

/-- the read loop counts a datagram's task before the `go` statement that starts it (second audit, finding 4: the
    model's `serveRecv` merges the count and the start; a count taken by the new goroutine itself would not be it) -/
theorem tie_activeAddBeforeGo : Generated.activeAddBeforeGo ≠ 0 := by decide

/-- `Serve` tests the shutdown flag inside the critical section in which it registers its listener and counts itself:
    the model's `serveEnter` is one step (a test before the lock lets Shutdown close the listeners in between; the
    listener registered afterwards is never closed and that Serve call never returns) -/
theorem tie_serveFlagUnderLock : Generated.serveFlagUnderLock ≠ 0 := by decide

end RV.Facts.C07
