/- The model's side of every regenerated fact: constants and finite tables computed from the model. -/
import RV.Model.Wire
import RV.Model.Auth
namespace RV.Facts.Expected
open RV

def outOfRangeCodes : List Int := [-2, -1, 256, 257, 258, 260, 267, 268, 296, 299, 300, 511, 512, 513, 1000, 65537]

def encodeClass : List Nat := (List.range 256).map (fun c => (RV.encodeClass (Int.ofNat c)).toNat)
def requestClass : List Nat := (List.range 256).map (fun c => (RV.requestClass c).toNat)
def encodeClassOutOfRange : List Nat := outOfRangeCodes.map (fun c => (RV.encodeClass c).toNat)

end RV.Facts.Expected
