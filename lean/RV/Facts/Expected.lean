/- The model's side of every regenerated fact: constants and finite tables computed from the model. -/
import RV.Model.Wire
import RV.Model.Auth
import RV.Model.Codec
import RV.Model.Password
namespace RV.Facts.Expected
open RV

def outOfRangeCodes : List Int := [-2, -1, 256, 257, 258, 260, 267, 268, 296, 299, 300, 511, 512, 513, 1000, 65537]

def encodeClass : List Nat := (List.range 256).map (fun c => (RV.encodeClass (Int.ofNat c)).toNat)
def requestClass : List Nat := (List.range 256).map (fun c => (RV.requestClass c).toNat)
def encodeClassOutOfRange : List Nat := outOfRangeCodes.map (fun c => (RV.encodeClass c).toNat)


/-! lengths 0..300 accepted by the model's decoders / encoders (content does not matter for these) -/
def lens (p : Nat → Bool) : List Nat := (List.range 301).filter p

def acceptShort : List Nat := lens fun n => (RV.short (zeros n)).isOk
def acceptInteger : List Nat := lens fun n => (RV.integer (zeros n)).isOk
def acceptInteger64 : List Nat := lens fun n => (RV.integer64 (zeros n)).isOk
def acceptIPAddr : List Nat := lens fun n => (RV.ipAddr (zeros n)).isOk
def acceptIPv6Addr : List Nat := lens fun n => (RV.ipv6Addr (zeros n)).isOk
def acceptIFID : List Nat := lens fun n => (RV.ifid (zeros n)).isOk
def acceptDate : List Nat := lens fun n => (RV.date (zeros n)).isOk
def acceptVSA : List Nat := lens fun n => (RV.vendorSpecific (zeros n)).isOk
def encString : List Nat := lens fun n => (RV.newString (zeros n)).isOk
def encBytes : List Nat := lens fun n => (RV.newBytes (zeros n)).isOk
def encVSA : List Nat := lens fun n => (RV.newVendorSpecific 9 (zeros n)).isOk
def encTLV : List Nat := lens fun n => (RV.newTLV 1 (zeros n)).isOk
/-- the length guards of the password functions (the hash does not matter for acceptance) -/
def encUserPassword : List Nat := lens fun n => (RV.newUserPassword (fun _ => zeros 16) (zeros n) [1] (zeros 16)).isOk
def acceptUserPassword : List Nat := lens fun n => (RV.userPassword (fun _ => zeros 16) (zeros n) [1] (zeros 16)).isOk
def encTunnelPassword : List Nat := lens fun n => (RV.newTunnelPassword (fun _ => zeros 16) (zeros n) [0x80, 1] [1] (zeros 16)).isOk

end RV.Facts.Expected
