/-
  Ties (see TieC01.lean for the conventions) — the part that belongs to C17: the identifiers the tree's
  generator derives from attribute names (first-digit words, `+` ↦ Plus, field splitting, golint
  initialisms, Title-casing, refusal of names without an exported identifier), read off generated code for
  every candidate name, equal what the model's `generate` produces for the same one-attribute dictionary.
-/
import RV.Facts.Generated
import RV.Facts.ExpectedC17
namespace RV.Facts.C17
open RV RV.Facts

theorem tie_c17Ident : Generated.c17Ident = ExpectedC17.c17Ident := by decide +kernel
theorem candidates_cover : ExpectedC17.covers = true := by decide +kernel

end RV.Facts.C17
