/-
  Tie between a fact regenerated from the Go source (`RV.Facts.Generated`, rewritten by `vh probe` on every run)
  and the timed model of C08: the model's `period P` is `Client.Retry`, and so is the argument of
  `time.NewTicker` in client.go.  (Syntactic fact: 1 holds, 2 unknown - accepted, the behavioural bounds carry
  the clause -, 0 violated: the interval is a different expression of Retry.)
-/
import RV.Facts.Generated
namespace RV.Facts.C08
open RV RV.Facts

/-- the ticker's period is the configured interval (`Timed.period P = max Retry 0`) -/
theorem tie_tickerPeriodIsRetry : Generated.tickerPeriodIsRetry ≠ 0 := by decide

end RV.Facts.C08
