/-
  C02 — The decode surface never panics and never hangs.

  Statements are about the *checked* mirror RV/Model/Checked.lean, in which every Go index
  expression `b[i]`, slice expression `b[i:j]` and store `b[i] = v` is a partial operation that
  yields `Res.fault` exactly when the Go runtime would panic (`primitives_faithful`), and in which
  every loop is a well-founded recursion that Lean accepted without fuel — each `Checked.*` function
  below is a total function, i.e. it returns after finitely many steps on every input ("no hang").

  For every function of the surface there are two theorems, for ALL inputs:
    `*_never_faults`  the checked function never yields `fault`;
    `*_refines`       the checked function computes exactly what the total model of
                      Wire/Auth/Codec/Password/Vendor/Helper computes — so the theorems of the other
                      properties, stated on the total models, are statements about code that was
                      checked not to index out of range.
  The hash is a parameter; where the code indexes into a digest (`UserPassword`, `TunnelPassword`)
  the theorems assume a 16-byte digest, which `md5_is_16` discharges for MD5 and
  `userPassword_needs_16` shows to be necessary.  `negative_control_*` show that the layer has
  teeth: removing one guard from the shipped code produces a provable fault.

  Helper lemmas live in RV/Proofs/Checked.lean.
-/
import RV.Model.Checked
import RV.Model.MD5
import RV.Proofs.Checked
namespace RV.C02
open RV

/-! ### the failure model -/

/-- `b[i]` faults iff `i ≥ len(b)`; `b[i:j]` faults iff `i > j` or `j > len(b)`; `b[i] = v` faults
    iff `i ≥ len(b)`; none of them ever returns an ordinary error. -/
theorem primitives_faithful (b : Bytes) (i j : Nat) (v : UInt8) :
    (Checked.idx b i = .fault ↔ b.length ≤ i) ∧
    (Checked.slice b i j = .fault ↔ (i > j ∨ j > b.length)) ∧
    (Checked.store b i v = .fault ↔ b.length ≤ i) ∧
    (Checked.be32 b = .fault ↔ b.length < 4) :=
  ⟨Checked.idx_fault_iff b i, Checked.slice_fault_iff b i j, Checked.store_fault_iff b i v, Checked.be32_fault_iff b⟩

example : Checked.idx [1, 2, 3] 3 = .fault := rfl
example : Checked.slice [1, 2, 3] 2 1 = .fault := rfl
example : Checked.slice [1, 2, 3] 1 4 = .fault := rfl
example : Checked.slice [1, 2, 3] 1 3 = .ok [2, 3] := rfl

theorem md5_is_16 : ∀ x, (MD5.md5 x).length = 16 := MD5.md5_length

/-! ### ParseAttributes, Parse -/

theorem parseAttrs_never_faults (b : Bytes) : Checked.parseAttrs b ≠ .fault :=
  Checked.parseAttrs_ne_fault' b

theorem parseAttrs_refines (b : Bytes) : Checked.parseAttrs b = RV.parseAttrs b :=
  Checked.parseAttrs_eq b

/-- bounded work: every parsed attribute consumed at least two input bytes (so the loop runs at most
    `len(b)/2` times), and header plus value lengths add up to the input length exactly -/
theorem parseAttrs_bound (b : Bytes) (as : Attrs) (h : Checked.parseAttrs b = .ok as) :
    2 * as.length ≤ b.length ∧ (as.map (fun a => 2 + a.val.length)).sum = b.length := by
  rw [Checked.parseAttrs_eq] at h
  exact ⟨Checked.parseAttrs_count b as h, Checked.parseAttrs_bytes b as h⟩

theorem parse_never_faults (b secret : Bytes) : Checked.parse b secret ≠ .fault :=
  Checked.parse_ne_fault' b secret

theorem parse_refines (b secret : Bytes) : Checked.parse b secret = RV.parse b secret :=
  Checked.parse_eq b secret

/-- a parsed packet has at most 2038 attributes -/
theorem parse_bound (b secret : Bytes) (p : Packet) (h : Checked.parse b secret = .ok p) :
    p.attrs.length ≤ 2038 := by
  rw [Checked.parse_eq] at h
  exact Checked.parse_count b secret p h

/-! ### IsAuthenticRequest, IsAuthenticResponse (any hash) -/

theorem isAuthenticResponse_never_faults (H : Hash) (response request secret : Bytes) :
    Checked.isAuthenticResponse H response request secret ≠ .fault := by
  rw [Checked.isAuthenticResponse_eq]; simp

theorem isAuthenticResponse_refines (H : Hash) (response request secret : Bytes) :
    Checked.isAuthenticResponse H response request secret = .ok (RV.isAuthenticResponse H response request secret) :=
  Checked.isAuthenticResponse_eq H response request secret

theorem isAuthenticRequest_never_faults (H : Hash) (request secret : Bytes) :
    Checked.isAuthenticRequest H request secret ≠ .fault := by
  rw [Checked.isAuthenticRequest_eq]; simp

theorem isAuthenticRequest_refines (H : Hash) (request secret : Bytes) :
    Checked.isAuthenticRequest H request secret = .ok (RV.isAuthenticRequest H request secret) :=
  Checked.isAuthenticRequest_eq H request secret

/-! ### typed decoders of attribute.go -/

theorem decoders_refine (a : Bytes) :
    Checked.integer a = RV.integer a ∧ Checked.integer64 a = RV.integer64 a ∧ Checked.short a = RV.short a ∧
    Checked.bytesOf a = RV.bytesOf a ∧ Checked.ipAddr a = RV.ipAddr a ∧ Checked.ipv6Addr a = RV.ipv6Addr a ∧
    Checked.ifid a = RV.ifid a ∧ Checked.date a = RV.date a ∧ Checked.vendorSpecific a = RV.vendorSpecific a ∧
    Checked.tlv a = RV.tlv a ∧ Checked.ipv6Prefix a = RV.ipv6Prefix a :=
  ⟨Checked.integer_eq a, Checked.integer64_eq a, Checked.short_eq a, Checked.bytesOf_eq a, Checked.ipAddr_eq a,
   Checked.ipv6Addr_eq a, Checked.ifid_eq a, Checked.date_eq a, Checked.vendorSpecific_eq a, Checked.tlv_eq a,
   Checked.ipv6Prefix_eq a⟩

theorem decoders_never_fault (a : Bytes) :
    Checked.integer a ≠ .fault ∧ Checked.integer64 a ≠ .fault ∧ Checked.short a ≠ .fault ∧
    Checked.ipAddr a ≠ .fault ∧ Checked.ipv6Addr a ≠ .fault ∧ Checked.ifid a ≠ .fault ∧
    Checked.date a ≠ .fault ∧ Checked.vendorSpecific a ≠ .fault ∧ Checked.tlv a ≠ .fault ∧
    Checked.ipv6Prefix a ≠ .fault := by
  have h := never_faults' a
  rw [Checked.integer_eq, Checked.integer64_eq, Checked.short_eq, Checked.ipAddr_eq, Checked.ipv6Addr_eq,
    Checked.ifid_eq, Checked.date_eq, Checked.vendorSpecific_eq, Checked.tlv_eq, Checked.ipv6Prefix_eq]
  exact ⟨h.2.1, h.2.2.1, h.1, h.2.2.2.1, h.2.2.2.2.1, h.2.2.2.2.2.1, h.2.2.2.2.2.2.1, h.2.2.2.2.2.2.2.1,
    h.2.2.2.2.2.2.2.2.1, h.2.2.2.2.2.2.2.2.2⟩

/-! ### UserPassword, TunnelPassword (16-byte digest) -/

theorem userPassword_never_faults (H : Hash) (hH : ∀ x, (H x).length = 16) (a secret ra : Bytes) :
    Checked.userPassword H a secret ra ≠ .fault :=
  Checked.userPassword_ne_fault' H hH a secret ra

theorem userPassword_refines (H : Hash) (hH : ∀ x, (H x).length = 16) (a secret ra : Bytes) :
    Checked.userPassword H a secret ra = RV.userPassword H a secret ra :=
  Checked.userPassword_eq H hH a secret ra

theorem tunnelPassword_never_faults (H : Hash) (hH : ∀ x, (H x).length = 16) (a secret ra : Bytes) :
    Checked.tunnelPassword H a secret ra ≠ .fault :=
  Checked.tunnelPassword_ne_fault' H hH a secret ra

theorem tunnelPassword_refines (H : Hash) (hH : ∀ x, (H x).length = 16) (a secret ra : Bytes) :
    Checked.tunnelPassword H a secret ra = RV.tunnelPassword H a secret ra :=
  Checked.tunnelPassword_eq H hH a secret ra

/-- for the hash the library uses -/
theorem passwords_never_fault_md5 (a secret ra : Bytes) :
    Checked.userPassword MD5.md5 a secret ra ≠ .fault ∧ Checked.tunnelPassword MD5.md5 a secret ra ≠ .fault :=
  ⟨userPassword_never_faults _ md5_is_16 a secret ra, tunnelPassword_never_faults _ md5_is_16 a secret ra⟩

/-- the digest-length hypothesis is necessary -/
theorem userPassword_needs_16 : Checked.userPassword (fun _ => []) (zeros 16) [1] (zeros 16) = .fault :=
  Checked.userPassword_short_hash_faults

/-! ### vendor walkers (`_GetsVendor`, `_LookupVendor`) -/

theorem vsaGets_never_faults (typ : UInt8) (vsa : Bytes) : Checked.vsaGets typ vsa ≠ .fault := by
  rw [Checked.vsaGets_eq]; simp

theorem vsaGets_refines (typ : UInt8) (vsa : Bytes) : Checked.vsaGets typ vsa = .ok (RV.vsaGets typ vsa) :=
  Checked.vsaGets_eq typ vsa

/-- bounded work: every sub-attribute found consumed at least three payload bytes -/
theorem vsaGets_bound (typ : UInt8) (vsa : Bytes) (vs : List Bytes) (h : Checked.vsaGets typ vsa = .ok vs) :
    3 * vs.length ≤ vsa.length := by
  rw [Checked.vsaGets_eq] at h; cases h; exact Checked.vsaGets_count typ vsa

theorem getsVendor_never_faults (vid : Nat) (typ : UInt8) (as : Attrs) : Checked.getsVendor vid typ as ≠ .fault := by
  rw [Checked.getsVendor_eq]; simp

theorem getsVendor_refines (vid : Nat) (typ : UInt8) (as : Attrs) :
    Checked.getsVendor vid typ as = .ok (RV.getsVendor vid typ as) :=
  Checked.getsVendor_eq vid typ as

theorem lookupVendor_never_faults (vid : Nat) (typ : UInt8) (as : Attrs) : Checked.lookupVendor vid typ as ≠ .fault := by
  rw [Checked.lookupVendor_eq]; simp

theorem lookupVendor_refines (vid : Nat) (typ : UInt8) (as : Attrs) :
    Checked.lookupVendor vid typ as = .ok (RV.lookupVendor vid typ as) :=
  Checked.lookupVendor_eq vid typ as

/-! ### generated getters (`X_Lookup`, `X_Gets`) -/

/-- tag stripping and the byte kind never index out of range -/
theorem getter_pieces_never_fault (a : Bytes) :
    Checked.tagStrip a ≠ .fault ∧ Checked.tagStripInt a ≠ .fault ∧ Checked.byteKind a ≠ .fault := by
  rw [Checked.tagStrip_eq, Checked.tagStripInt_eq, Checked.byteKind_eq]
  refine ⟨by simp, by simp, ?_⟩
  split <;> simp

theorem decodeValue_never_faults (H : Hash) (hH : ∀ x, (H x).length = 16) (d : Desc) (a secret auth : Bytes) :
    Checked.decodeValue H d a secret auth ≠ .fault :=
  Checked.decodeValue_ne_fault H hH d a secret auth

theorem decodeValue_refines (H : Hash) (hH : ∀ x, (H x).length = 16) (d : Desc) (a secret auth : Bytes) :
    Checked.decodeValue H d a secret auth = RV.decodeValue H d a secret auth :=
  Checked.decodeValue_eq H hH d a secret auth

/-- `hLookup` / `hGets` are total functions into `LookupRes` / a list with a success flag, neither of
    which has a fault outcome; the only source of a fault below them is `decodeValue`, which the
    total model never reports and the checked mirror excludes.  Every `X_Lookup` answer is one of
    "absent", "error", "value". -/
theorem hLookup_total (H : Hash) (d : Desc) (as : Attrs) (secret auth : Bytes) :
    hLookup H d as secret auth = .noAttr ∨ hLookup H d as secret auth = .err ∨
    ∃ t v, hLookup H d as secret auth = .val t v := by
  cases hLookup H d as secret auth with
  | noAttr => exact Or.inl rfl
  | err => exact Or.inr (Or.inl rfl)
  | val t v => exact Or.inr (Or.inr ⟨t, v, rfl⟩)

theorem total_decodeValue_never_faults (H : Hash) (d : Desc) (a secret auth : Bytes) :
    RV.decodeValue H d a secret auth ≠ .fault :=
  Checked.RV_decodeValue_ne_fault H d a secret auth

/-- `X_Gets` returns at most one value per stored occurrence -/
theorem hGets_bound (H : Hash) (d : Desc) (as : Attrs) (secret auth : Bytes) :
    (hGets H d as secret auth).1.length ≤ (rawValues d as).length :=
  Checked.hGets_count H d as secret auth

/-! ### debug.Dump -/

theorem dump_never_faults (H : Hash) (hH : ∀ x, (H x).length = 16) (dict : Int → Option Checked.DumpType)
    (secret auth : Bytes) (as : Attrs) : Checked.dumpAttrs H dict secret auth as ≠ .fault :=
  Checked.dumpAttrs_ne_fault H hH dict secret auth as

/-- one output line per attribute -/
theorem dump_bound (H : Hash) (dict : Int → Option Checked.DumpType) (secret auth : Bytes) (as : Attrs)
    (out : List Checked.DumpVal) (h : Checked.dumpAttrs H dict secret auth as = .ok out) :
    out.length = as.length :=
  Checked.dumpAttrs_length H dict secret auth as out h

/-! ### negative controls: remove a guard, get a fault -/

/-- TunnelPassword without `if int(passwordLength) > len(plaintext)-1`: `plaintext[1:1+passwordLength]`
    panics on an 18-byte attribute (and the shipped function answers "error" on it) -/
theorem negative_control_tunnelPassword :
    Checked.tunnelPasswordNoLenCheck (fun _ => zeros 16) ([0x80, 0x00, 0xFF] ++ zeros 15) [1] (zeros 16) = .fault ∧
    Checked.tunnelPassword (fun _ => zeros 16) ([0x80, 0x00, 0xFF] ++ zeros 15) [1] (zeros 16) = .err :=
  ⟨Checked.tunnelPasswordNoLenCheck_faults, Checked.tunnelPassword_on_control⟩

/-- the vendor walker without `int(vsaLen) > len(vsa)`: `vsa[2:5]` panics on a 3-byte payload (and the
    shipped walker stops there and returns nothing) -/
theorem negative_control_vendor_walker :
    Checked.vsaGetsNoLenCheck 1 [1, 5, 0] = .fault ∧ Checked.vsaGets 1 [1, 5, 0] = .ok [] :=
  ⟨Checked.vsaGetsNoLenCheck_faults, Checked.vsaGets_on_control⟩

end RV.C02
