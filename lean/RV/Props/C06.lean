/-
  C06 — The server dispatches exactly the authentic, non-duplicate requests and answers them.
  About the datagram pipeline (`classify`) and the dedup table of RV.Model.Server, for every
  schedule and any number of datagrams; the reply's authenticator goes through C03.
  Trace-level statements (`handler_only_if_parsed`, `handler_start_once_and_fresh`, `request_carries`,
  `reply_on_receiving_socket`, `exactly_once_per_datagram`) are about the log of every reachable state:
  which step of the schedule an event came from and what the goroutine had captured (`St.origin`).

  Second audit: the `reply` event carries the octets written, `reply_answers_its_request` links every
  `reply` of the log to the `recv` that spawned its goroutine, to the request handed over and to
  `reply_authentic`; `keeps_serving` is the "keeps serving" clause of C02; the `fine_…` theorems state
  the trace-level clauses for the machine RV.Model.Server2 in which `ReadFrom` returning and the `go`
  statement are separate steps.
-/
import RV.Model.Server
import RV.Model.Server2
import RV.Proofs.Server
import RV.Proofs.Server2
namespace RV.C06
open RV RV.Server

/-- A datagram reaches the dedup stage iff the secret source yields a non-empty secret, the
    request is authentic under it (unless checking is disabled) and it parses; the packet handed
    on is that parse, carrying that secret; the key is (source, identifier). -/
theorem classify_handle_iff (H : Hash) (cfg : Cfg) (peer : Nat) (d : Bytes) (key : Key) (p : Packet) :
    classify H cfg peer d = .handle key p ↔
      ∃ s, cfg.secretOf peer = .secret s ∧ s ≠ [] ∧
        (cfg.skipVerify = true ∨ isAuthenticRequest H d s = true) ∧
        parse d s = .ok p ∧ key = (peer, p.id) := by
  exact classify_handle_iff' H cfg peer d key p

/-- the request handed to the handler carries the parsed packet and that secret -/
theorem request_fields (H : Hash) (cfg : Cfg) (peer : Nat) (d : Bytes) (key : Key) (p : Packet)
    (h : classify H cfg peer d = .handle key p) :
    ∃ s, cfg.secretOf peer = .secret s ∧ parse d s = .ok p ∧ p.secret = s := by
  obtain ⟨s, hs, _, _, hp, _⟩ := (classify_handle_iff' H cfg peer d key p).mp h
  exact ⟨s, hs, hp, (parse_secret hp).1⟩

/-- The key under which a request is in flight names its source address: requests of different peers
    never share a key, whatever their identifiers (two clients behind one host differ in their port,
    hence in their source address, hence here). -/
theorem key_names_the_peer (H : Hash) (cfg : Cfg) (peer : Nat) (d : Bytes) (key : Key) (p : Packet)
    (h : classify H cfg peer d = .handle key p) : key = (peer, p.id) := by
  unfold classify at h
  split at h <;> try cases h
  split at h
  · cases h
  · split at h
    · cases h
    · split at h
      · cases h; rfl
      · cases h

theorem different_peers_different_keys (H : Hash) (cfg : Cfg) (peer peer' : Nat) (d d' : Bytes)
    (key key' : Key) (p p' : Packet) (hne : peer ≠ peer')
    (h : classify H cfg peer d = .handle key p) (h' : classify H cfg peer' d' = .handle key' p') :
    key ≠ key' := by
  rw [key_names_the_peer H cfg peer d key p h, key_names_the_peer H cfg peer' d' key' p' h']
  intro e; exact hne (congrArg Prod.fst e)

/-- The handler is invoked for a datagram goroutine iff its datagram passed the pipeline and its
    key is not in flight on that Serve call; every other datagram is dropped without the handler. -/
theorem handler_iff (H : Hash) (cfg : Cfg) (s : St) (t i : Nat) (fate : Fate)
    (ht : s.tasks[t]? = some ⟨i, .spawned fate⟩) :
    (∃ s' key, step H cfg s (.taskRun t) = some s' ∧ s'.tasks[t]? = some ⟨i, .inHandler key⟩) ↔
    (∃ key p, fate = .handle key p ∧ key ∉ s.inflight.getD i []) := by
  exact handler_iff' H cfg s t i fate ht

/-- Every other datagram is dropped without the handler being invoked (in every state reachable in
    the tree's variant; for arbitrary unreachable states the log could additionally record a double
    close — `RV.Server.dropped_otherwise_false` — which `C07.closes_le_one` excludes). -/
theorem dropped_otherwise (H : Hash) (cfg : Cfg) (hv : cfg.variant = .fixed) (conns : List Nat) (nD : Nat)
    (ls : List Label) (t i : Nat) (fate : Fate)
    (ht : (run H cfg (initWith conns nD) ls).tasks[t]? = some (⟨i, .spawned fate⟩ : Task))
    (hn : ¬ ∃ key p, fate = .handle key p ∧ key ∉ (run H cfg (initWith conns nD) ls).inflight.getD i []) :
    ∃ s', step H cfg (run H cfg (initWith conns nD) ls) (.taskRun t) = some s' ∧
      s'.tasks[t]? = some (⟨i, .done⟩ : Task) ∧
      s'.log = (run H cfg (initWith conns nD) ls).log ++ [.dropped t] ∧
      s'.inflight = (run H cfg (initWith conns nD) ls).inflight :=
  dropped_otherwise_reach H cfg hv conns nD ls t i fate ht hn

/-- At most one handler per (Serve call, source, identifier), under every schedule: the dedup table
    has no duplicates and holds exactly the keys of the handlers that are running. -/
theorem at_most_one_inflight (H : Hash) (cfg : Cfg) (conns : List Nat) (nD : Nat) (ls : List Label) (i : Nat) :
    let s := run H cfg (initWith conns nD) ls
    (s.inflight.getD i []).Nodup ∧
    ∀ key, key ∈ s.inflight.getD i [] ↔ ∃ t : Nat, s.tasks[t]? = some (⟨i, .inHandler key⟩ : Task) := by
  have hI := InvG_run H cfg conns nD ls
  exact ⟨hI.nodup i, hI.mem i⟩

/-- Once a handler has returned, its key is free again: the same identifier is served again. -/
theorem released_after_return (H : Hash) (cfg : Cfg) (conns : List Nat) (nD : Nat) (ls : List Label) (t i : Nat) (key : Key)
    (ht : (run H cfg (initWith conns nD) ls).tasks[t]? = some ⟨i, .inHandler key⟩) :
    ∃ s', step H cfg (run H cfg (initWith conns nD) ls) (.taskFinish t) = some s' ∧ key ∉ s'.inflight.getD i [] := by
  exact released_after_return' H cfg conns nD ls t i key ht

/-- The handler never sees a packet the parser rejects (server clause of C02), in every reachable
    state and under every schedule: a `handlerStart t key` event in the log belongs to a goroutine
    that (old conclusion) is in its handler or done, and that was spawned — as the `t`-th goroutine —
    by an enabled `serveRecv i peer d` step of the schedule whose datagram the pipeline classified
    `handle key p`: the secret source answered `peer` with a non-empty secret, the datagram is
    authentic under it (unless checking is disabled) and parses to `p`; the key is (source, identifier). -/
theorem handler_only_if_parsed (H : Hash) (cfg : Cfg) (conns : List Nat) (nD : Nat) (ls : List Label) (t : Nat) (key : Key)
    (h : Event.handlerStart t key ∈ (run H cfg (initWith conns nD) ls).log) :
    (∃ i, (run H cfg (initWith conns nD) ls).tasks[t]? = some ⟨i, .inHandler key⟩ ∨
          (run H cfg (initWith conns nD) ls).tasks[t]? = some ⟨i, .done⟩) ∧
    ∃ (i peer : Nat) (d : Bytes) (p : Packet),
      (∃ ls1 ls2 s1', ls = ls1 ++ Label.serveRecv i peer d :: ls2 ∧
          step H cfg (run H cfg (initWith conns nD) ls1) (.serveRecv i peer d) = some s1' ∧
          (run H cfg (initWith conns nD) ls1).tasks.length = t) ∧
      Event.recv t i peer d ∈ (run H cfg (initWith conns nD) ls).log ∧
      (run H cfg (initWith conns nD) ls).origin[t]? = some ⟨i, peer, d⟩ ∧
      classify H cfg peer d = .handle key p ∧
      ∃ sec, cfg.secretOf peer = .secret sec ∧ sec ≠ [] ∧
        (cfg.skipVerify = true ∨ isAuthenticRequest H d sec = true) ∧
        parse d sec = .ok p ∧ key = (peer, p.id) := by
  refine ⟨(InvG_run H cfg conns nD ls).log t key h, ?_⟩
  have hO := InvO_run H cfg conns nD ls
  obtain ⟨⟨i, peer, d⟩, p, ho, hcl, _⟩ := hO.hs t key h
  simp only at hcl
  have hrecv := (recv_mem_iff hO t i peer d).mpr ho
  obtain ⟨ls1, l, ls2, s1', hls, hst, _, hnew⟩ :=
    log_provenance H cfg _ ls (initWith conns nD) hrecv (by simp [initWith])
  obtain ⟨rfl, hlen⟩ := newEv_recv hnew
  exact ⟨i, peer, d, p, ⟨ls1, ls2, s1', hls, hst, hlen.symm⟩, hrecv, ho, hcl,
    (classify_handle_iff' H cfg peer d key p).mp hcl⟩

/-- how often the handler has been started for goroutine `t` (number of `handlerStart t _` events) -/
def handlerStarts (s : St) (t : Nat) : Nat := hsCount s t

/-- At most once per datagram, at trace level: in every reachable state the log holds at most one
    `handlerStart t _` event for any goroutine `t`. -/
theorem handler_start_at_most_once (H : Hash) (cfg : Cfg) (conns : List Nat) (nD : Nat) (ls : List Label) (t : Nat) :
    handlerStarts (run H cfg (initWith conns nD) ls) t ≤ 1 :=
  InvC_hsCount_le (InvC_run H cfg conns nD ls) t

/-- The handler is started once per goroutine and only while its key is free: a `handlerStart t key`
    event is the only `handlerStart t _` event of the log, and it was appended by a `taskRun t` step of
    the schedule taken in a state in which goroutine `t` had not yet run, its datagram had been classified
    `handle key p`, and `key` was NOT in the dedup table of its Serve call at that moment. -/
theorem handler_start_once_and_fresh (H : Hash) (cfg : Cfg) (conns : List Nat) (nD : Nat) (ls : List Label)
    (t : Nat) (key : Key)
    (h : Event.handlerStart t key ∈ (run H cfg (initWith conns nD) ls).log) :
    handlerStarts (run H cfg (initWith conns nD) ls) t = 1 ∧
    (∀ key', Event.handlerStart t key' ∈ (run H cfg (initWith conns nD) ls).log → key' = key) ∧
    ∃ ls1 ls2 i p s1', ls = ls1 ++ Label.taskRun t :: ls2 ∧
      (run H cfg (initWith conns nD) ls1).tasks[t]? = some ⟨i, .spawned (.handle key p)⟩ ∧
      key ∉ (run H cfg (initWith conns nD) ls1).inflight.getD i [] ∧
      (∀ k, Event.handlerStart t k ∉ (run H cfg (initWith conns nD) ls1).log) ∧
      step H cfg (run H cfg (initWith conns nD) ls1) (.taskRun t) = some s1' ∧
      s1'.tasks[t]? = some ⟨i, .inHandler key⟩ ∧ key ∈ s1'.inflight.getD i [] := by
  have hC := InvC_run H cfg conns nD ls
  refine ⟨?_, fun key' h' => hs_key_unique hC h' h, ?_⟩
  · have h1 := hsCount_pos h
    have h2 := InvC_hsCount_le hC t
    simp only [handlerStarts]; omega
  · obtain ⟨ls1, l, ls2, s1', hls, hst, _, hnew⟩ :=
      log_provenance H cfg _ ls (initWith conns nD) h (by simp [initWith])
    obtain ⟨rfl, i, p, ht, hfree⟩ := newEv_handlerStart hnew
    refine ⟨ls1, ls2, i, p, s1', hls, ht, hfree, ?_, hst, ?_⟩
    · intro k hk
      obtain ⟨i', h1 | h1⟩ := (InvG_run H cfg conns nD ls1).log t k hk
      · rw [ht] at h1; cases h1
      · rw [ht] at h1; cases h1
    · obtain ⟨i', fate', ht', hh | hh⟩ := step_taskRun hst
      · rw [ht] at ht'; cases ht'
        obtain ⟨key', p', he, _, rfl⟩ := hh
        cases he
        have htl := lt_of_getElem?_eq_some ht
        have hil : i < (run H cfg (initWith conns nD) ls1).inflight.length := by
          rw [(InvG_run H cfg conns nD ls1).len]; exact (InvG_run H cfg conns nD ls1).bound t _ ht
        refine ⟨by simp [htl], ?_⟩
        simp [hil]
      · rw [ht] at ht'; cases ht'
        exact absurd ⟨key, p, rfl, hfree⟩ hh.1

/-- Conversely (with `handler_iff`): in a reachable state a goroutine whose datagram was classified
    `handle key p` and whose key is free DOES get the handler when it runs — the step appends the
    request (parsed packet, the datagram's source address, the conn of the Serve call that read it,
    the server's context) and the `handlerStart` event, and puts the key in flight. -/
theorem handler_started_if_free (H : Hash) (cfg : Cfg) (conns : List Nat) (nD : Nat) (ls : List Label)
    (t i : Nat) (key : Key) (p : Packet)
    (ht : (run H cfg (initWith conns nD) ls).tasks[t]? = some ⟨i, .spawned (.handle key p)⟩)
    (hfree : key ∉ (run H cfg (initWith conns nD) ls).inflight.getD i []) :
    ∃ peer d s', (run H cfg (initWith conns nD) ls).origin[t]? = some ⟨i, peer, d⟩ ∧
      classify H cfg peer d = .handle key p ∧
      step H cfg (run H cfg (initWith conns nD) ls) (.taskRun t) = some s' ∧
      s'.tasks[t]? = some ⟨i, .inHandler key⟩ ∧
      s'.log = (run H cfg (initWith conns nD) ls).log ++
        [.request t p peer (conns.getD i 0) .server, .handlerStart t key] := by
  have hO := InvO_run H cfg conns nD ls
  obtain ⟨⟨i', peer, d⟩, ho, hio⟩ := origin_of_task hO ht
  simp only at hio; subst hio
  have hf := hO.fate t i _ _ ht ho
  simp only at hf
  obtain ⟨s', hs⟩ := taskRun_enabled (H := H) (cfg := cfg) ht
  refine ⟨peer, d, s', ho, hf.symm, hs, ?_⟩
  obtain ⟨i', fate', ht', hh | hh⟩ := step_taskRun hs
  · rw [ht] at ht'; cases ht'
    obtain ⟨key', p', he, _, rfl⟩ := hh
    cases he
    refine ⟨by simp [lt_of_getElem?_eq_some ht], ?_⟩
    simp only [peerOf_eq ho, connOf_run]
  · rw [ht] at ht'; cases ht'
    exact absurd ⟨key, p, rfl, hfree⟩ hh.1

/-- The request handed to the handler: a `request` event carries the packet the datagram parses to
    under the peer's secret (with that secret), the datagram's source address as `RemoteAddr`, the
    conn of the Serve call that read the datagram as local address, and the server's context; and the
    handler was started for exactly this goroutine. -/
theorem request_carries (H : Hash) (cfg : Cfg) (conns : List Nat) (nD : Nat) (ls : List Label)
    (t : Nat) (p : Packet) (remote localConn : Nat) (ctx : Ctx)
    (h : Event.request t p remote localConn ctx ∈ (run H cfg (initWith conns nD) ls).log) :
    ∃ (i : Nat) (d : Bytes) (key : Key) (sec : Bytes),
      Event.recv t i remote d ∈ (run H cfg (initWith conns nD) ls).log ∧
      (run H cfg (initWith conns nD) ls).origin[t]? = some ⟨i, remote, d⟩ ∧
      classify H cfg remote d = .handle key p ∧
      cfg.secretOf remote = .secret sec ∧ parse d sec = .ok p ∧ p.secret = sec ∧
      localConn = conns.getD i 0 ∧ ctx = .server ∧
      Event.handlerStart t key ∈ (run H cfg (initWith conns nD) ls).log := by
  have hO := InvO_run H cfg conns nD ls
  obtain ⟨⟨i, peer, d⟩, key, ho, hcl, hpe, hc, hx, hhs⟩ := hO.req t p remote localConn ctx h
  simp only at hcl hc hpe
  subst hpe
  obtain ⟨sec, hs, _, _, hp, _⟩ := (classify_handle_iff' H cfg remote d key p).mp hcl
  rw [connOf_run] at hc
  exact ⟨i, d, key, sec, (recv_mem_iff hO t i remote d).mpr ho, ho, hcl, hs, hp, (parse_secret hp).1, hc, hx, hhs⟩

/-- every started handler was handed such a request -/
theorem handler_start_has_request (H : Hash) (cfg : Cfg) (conns : List Nat) (nD : Nat) (ls : List Label)
    (t : Nat) (key : Key)
    (h : Event.handlerStart t key ∈ (run H cfg (initWith conns nD) ls).log) :
    ∃ (i peer : Nat) (d : Bytes) (p : Packet),
      (run H cfg (initWith conns nD) ls).origin[t]? = some ⟨i, peer, d⟩ ∧
      Event.request t p peer (conns.getD i 0) .server ∈ (run H cfg (initWith conns nD) ls).log := by
  obtain ⟨⟨i, peer, d⟩, p, ho, _, hr⟩ := (InvO_run H cfg conns nD ls).hs t key h
  rw [connOf_run] at hr
  exact ⟨i, peer, d, p, ho, hr⟩

/-- the context of a request is the server's: once Shutdown has been requested it is cancelled -/
theorem request_ctx_cancelled_by_shutdown (H : Hash) (cfg : Cfg) (hv : cfg.variant = .fixed) (conns : List Nat)
    (nD : Nat) (ls : List Label) (t : Nat) (p : Packet) (remote localConn : Nat) (ctx : Ctx)
    (h : Event.request t p remote localConn ctx ∈ (run H cfg (initWith conns nD) ls).log)
    (hsd : (run H cfg (initWith conns nD) ls).sd = true) :
    (run H cfg (initWith conns nD) ls).ctxEnded ctx = true := by
  obtain ⟨_, _, _, _, _, _, hx, _⟩ := (InvO_run H cfg conns nD ls).req t p remote localConn ctx h
  subst hx
  exact ((InvF_run H cfg hv conns nD ls).sdc hsd).1

/-- The reply goes out on the receiving socket to the request's source address: every `reply` event
    of goroutine `t` names the conn of the Serve call that read `t`'s datagram and the address that
    datagram came from; it was written by a `taskReply t _ _` step while `t`'s handler was running.
    (Second audit: the `reply` event now also carries the octets written and the label the handler's
    choice of code and attributes, so the statement has the extra `w`, universally quantified, and
    `code`, `attrs`, existentially; for what `w` is see `reply_answers_its_request`.) -/
theorem reply_on_receiving_socket (H : Hash) (cfg : Cfg) (conns : List Nat) (nD : Nat) (ls : List Label)
    (t conn addr : Nat) (w : Bytes)
    (h : Event.reply t conn addr w ∈ (run H cfg (initWith conns nD) ls).log) :
    ∃ (i peer : Nat) (d : Bytes) (key : Key),
      Event.recv t i peer d ∈ (run H cfg (initWith conns nD) ls).log ∧
      (run H cfg (initWith conns nD) ls).origin[t]? = some ⟨i, peer, d⟩ ∧
      (∃ pc, (run H cfg (initWith conns nD) ls).tasks[t]? = some ⟨i, pc⟩) ∧
      conn = conns.getD i 0 ∧ addr = peer ∧
      Event.handlerStart t key ∈ (run H cfg (initWith conns nD) ls).log ∧
      ∃ ls1 ls2 code attrs, ls = ls1 ++ Label.taskReply t code attrs :: ls2 ∧
        (run H cfg (initWith conns nD) ls1).tasks[t]? = some ⟨i, .inHandler key⟩ := by
  have hO := InvO_run H cfg conns nD ls
  obtain ⟨⟨i, peer, d⟩, key, ho, ha, hc, hhs, _⟩ := hO.rep t conn addr w h
  simp only at ha hc
  rw [connOf_run] at hc
  have htl : t < (run H cfg (initWith conns nD) ls).tasks.length := by
    rw [← hO.len]; exact lt_of_getElem?_eq_some ho
  have htk := List.getElem?_eq_getElem htl
  have hserve := hO.serve t _ _ htk ho
  simp only at hserve
  obtain ⟨ls1, l, ls2, s1', hls, hst, _, hnew⟩ :=
    log_provenance H cfg _ ls (initWith conns nD) h (by simp [initWith])
  obtain ⟨code, attrs, rfl, i1, key1, _, ht1, _, _⟩ := newEv_reply hnew
  -- the goroutine that replied is in the handler whose start is in the log; same Serve call
  have hO1 := InvO_run H cfg conns nD ls1
  obtain ⟨o1, ho1, hio1⟩ := origin_of_task hO1 ht1
  simp only at hio1
  have hhs1 := hO1.inH t i1 key1 ht1
  have hhs1' : Event.handlerStart t key1 ∈ (run H cfg (initWith conns nD) ls).log := by
    rw [hls, run_append]
    exact run_log_mono H cfg _ _ _ hhs1
  have hk : key1 = key := hs_key_unique (InvC_run H cfg conns nD ls) hhs1' hhs
  subst hk
  have hrecv1 : Event.recv t o1.serve o1.peer o1.dgram ∈ (run H cfg (initWith conns nD) ls).log := by
    rw [hls, run_append]
    exact run_log_mono H cfg _ _ _ ((recv_mem_iff hO1 t _ _ _).mpr ho1)
  have ho' := (recv_mem_iff hO t _ _ _).mp hrecv1
  rw [ho] at ho'
  have hi : i = o1.serve := by cases ho'; rfl
  refine ⟨i, peer, d, key1, (recv_mem_iff hO t i peer d).mpr ho, ho,
    ⟨((run H cfg (initWith conns nD) ls).tasks[t]).pc, ?_⟩, hc, ha, hhs, ls1, ls2, code, attrs, hls, ?_⟩
  · rw [htk]; congr 1
    cases hh : (run H cfg (initWith conns nD) ls).tasks[t] with
    | mk a b => rw [hh] at hserve; simp only at hserve; subst hserve; rfl
  · rw [hi, ← hio1]; exact ht1

/-- Exactly once per datagram, at trace level.  In every reachable state:
    * the goroutines are the enabled `serveRecv` steps the schedule took, one `recv` event each, in
      order, carrying what the goroutine captured;
    * for every goroutine `t` the numbers of `handlerStart t _`, `dropped t` and `handlerEnd t` events
      are: 0,0,0 before it runs; 1,0,0 while its handler runs; afterwards either the handler was
      started once and returned once, or the datagram was dropped once — never both, never twice. -/
theorem exactly_once_per_datagram (H : Hash) (cfg : Cfg) (conns : List Nat) (nD : Nat) (ls : List Label) :
    let s := run H cfg (initWith conns nD) ls
    s.tasks.length = recvSteps H cfg (initWith conns nD) ls ∧
    (s.log.filter isRecv).length = s.tasks.length ∧
    s.log.filter isRecv = s.origin.mapIdx recvOf ∧
    ∀ t, handlerStarts s t ≤ 1 ∧
      countSpec (s.tasks[t]?.map (·.pc)) (handlerStarts s t) (dropCount s t) (endCount s t) := by
  have hO := InvO_run H cfg conns nD ls
  have hC := InvC_run H cfg conns nD ls
  refine ⟨?_, ?_, hO.recvs, fun t => ⟨InvC_hsCount_le hC t, hC t⟩⟩
  · have := tasks_length_run H cfg ls (initWith conns nD)
    simpa [initWith] using this
  · rw [hO.recvs, List.length_mapIdx, hO.len]

/-- A reply written by the handler (Response of the request, any attributes, a reply code) encodes
    with a response authenticator that is valid for the request datagram under the peer's secret. -/
theorem reply_authentic (H : Hash) (hH : ∀ x, (H x).length = 16) (cfg : Cfg) (peer : Nat) (d : Bytes)
    (key : Key) (p : Packet) (code : Int) (attrs : Attrs) (w : Bytes)
    (h : classify H cfg peer d = .handle key p)
    (hc : Rfc.encClass code = .hashReqAuth)
    (he : encode H { response p code with attrs := attrs } = .ok w) :
    isAuthenticResponse H w d p.secret = true := by
  exact reply_authentic' H hH cfg peer d key p code attrs w h hc he

/-! ### Second audit: the reply on the wire, the secret source's pair, keeps serving, the fine machine -/

/-- The reply, at trace level.  Every `reply` event in the log of a reachable state — `conn.WriteTo(w, addr)`
    on socket `conn` — belongs to a goroutine `t` whose `recv` event is in the log (datagram `d` from `peer`,
    read by Serve call `i`), and
    * its destination is that datagram's source address, its socket the conn that received the datagram;
    * the handler of `t` was started, with a `request` event carrying the packet `p` that `d` parses to
      under the secret `sec` the secret source gave for `peer` (non-empty), that peer and that conn;
    * the octets `w` are the encoding of `p.Response(code)` with the handler's attributes, for some `code`
      and `attrs` (the handler's choice: label `taskReply t code attrs`);
    * so (with `reply_authentic`, i.e. C03) for every reply code `w` carries a Response Authenticator that
      is valid for the request DATAGRAM `d` under `sec`. -/
theorem reply_answers_its_request (H : Hash) (hH : ∀ x, (H x).length = 16) (cfg : Cfg) (conns : List Nat)
    (nD : Nat) (ls : List Label) (t conn addr : Nat) (w : Bytes)
    (h : Event.reply t conn addr w ∈ (run H cfg (initWith conns nD) ls).log) :
    ∃ (i peer : Nat) (d : Bytes) (key : Key) (p : Packet) (sec : Bytes) (code : Int) (attrs : Attrs),
      Event.recv t i peer d ∈ (run H cfg (initWith conns nD) ls).log ∧
      addr = peer ∧ conn = conns.getD i 0 ∧
      Event.request t p peer (conns.getD i 0) .server ∈ (run H cfg (initWith conns nD) ls).log ∧
      Event.handlerStart t key ∈ (run H cfg (initWith conns nD) ls).log ∧
      classify H cfg peer d = .handle key p ∧
      cfg.secretOf peer = .secret sec ∧ sec ≠ [] ∧ parse d sec = .ok p ∧ p.secret = sec ∧
      encode H { response p code with attrs := attrs } = .ok w ∧
      (Rfc.encClass code = .hashReqAuth → isAuthenticResponse H w d sec = true) := by
  obtain ⟨i, peer, d, key, p, sec, code, attrs, h1, _, h3, h4, h5, h6, h7, h8, h9, h10, h11, h12, h13⟩ :=
    reply_answers_of_InvO hH (InvO_run H cfg conns nD ls) h
  rw [connOf_run] at h4 h5
  exact ⟨i, peer, d, key, p, sec, code, attrs, h1, h3, h4, h5, h6, h7, h8, h9, h10, h11, h12, h13⟩

/-- Conversely, a handler that is running CAN write its reply whenever the encoder accepts it: the
    `taskReply` step is enabled and appends exactly the `reply` event with the receiving conn, the
    source address and the encoded octets. -/
theorem reply_written_if_encodable (H : Hash) (cfg : Cfg) (conns : List Nat) (nD : Nat) (ls : List Label)
    (t i : Nat) (key : Key) (code : Int) (attrs : Attrs)
    (ht : (run H cfg (initWith conns nD) ls).tasks[t]? = some ⟨i, .inHandler key⟩) :
    ∃ (peer : Nat) (d : Bytes) (p : Packet), (run H cfg (initWith conns nD) ls).origin[t]? = some ⟨i, peer, d⟩ ∧
      classify H cfg peer d = .handle key p ∧
      ∀ w, encode H { response p code with attrs := attrs } = .ok w →
        step H cfg (run H cfg (initWith conns nD) ls) (.taskReply t code attrs) =
          some { run H cfg (initWith conns nD) ls with
                 log := (run H cfg (initWith conns nD) ls).log ++ [.reply t (conns.getD i 0) peer w] } := by
  have hO := InvO_run H cfg conns nD ls
  obtain ⟨⟨i', peer, d⟩, ho, hio⟩ := origin_of_task hO ht
  simp only at hio; subst hio
  obtain ⟨p, hcl⟩ := hO.hand t i key _ ht ho
  simp only at hcl
  refine ⟨peer, d, p, ho, hcl, ?_⟩
  intro w hw
  simp only [step, ht, packetOf_of_origin ho hcl, hw, peerOf_eq ho, connOf_run]

/-- The secret source's PAIR.  `RADIUSSecret` may return a secret together with a non-nil error; the code
    tests the error first, so such a datagram is dropped like any other secret-source failure, whatever
    the secret (server-packet.go:151-155) — the model's three-valued answer loses nothing. -/
theorem secret_with_error_is_dropped (H : Hash) (cfg : Cfg) (peer : Nat) (d sec : Bytes)
    (h : cfg.secretOf peer = SecretAns.ofPair sec true) : classify H cfg peer d = .dropSecretError := by
  simp [classify, h, SecretAns.ofPair]

/-- … and without an error the pair is read as before: an empty secret is refused, any other is used. -/
theorem secret_without_error (sec : Bytes) :
    SecretAns.ofPair sec false = (if sec = [] then SecretAns.empty else SecretAns.secret sec) := by
  cases sec <;> simp [SecretAns.ofPair]

/-- Keeps serving (server clause of C02).  In every reachable state a Serve call that is in its read loop
    stays in it under EVERY step other than a failing read of its own (`serveReadErr i`,
    `serveReadFail i _`): no datagram — dropped at any stage of the pipeline, handed to a handler, or a
    duplicate —, no other Serve call, handler or Shutdown call ends it; and afterwards, unless Shutdown
    has been requested, it can take the next datagram, whatever that is (`serveRecv i peer d` is enabled:
    no conn is closed before Shutdown). -/
theorem keeps_serving (H : Hash) (cfg : Cfg) (hv : cfg.variant = .fixed) (conns : List Nat) (nD : Nat)
    (ls : List Label) (i : Nat) (l : Label) (s' : St)
    (hi : (run H cfg (initWith conns nD) ls).serves[i]? = some .running)
    (hs : step H cfg (run H cfg (initWith conns nD) ls) l = some s')
    (hl : l ≠ .serveReadErr i ∧ ∀ k, l ≠ .serveReadFail i k) :
    s'.serves[i]? = some .running ∧
    (s'.sd = false → ∀ peer d, step H cfg s' (.serveRecv i peer d) = some (spawn H cfg s' i peer d)) := by
  have hI := InvF_run H cfg hv conns nD ls
  have hrun : s'.serves[i]? = some .running := by
    refine step_running_stable hs hi ?_
    cases l with
    | serveRecv j peer d =>
      by_cases hj : j = i
      · subst hj; exact Or.inr ⟨peer, d, rfl⟩
      · left; simp [Label.readLoopOf, hj]
    | serveReadErr j =>
      left; simp only [Label.readLoopOf, ne_eq, Option.some.injEq]
      intro e; subst e; exact hl.1 rfl
    | serveReadFail j k =>
      left; simp only [Label.readLoopOf, ne_eq, Option.some.injEq]
      intro e; subst e; exact hl.2 k rfl
    | _ => left; simp [Label.readLoopOf]
  exact ⟨hrun, fun hsd peer d => serveRecv_enabled_before_shutdown (InvF_step hv l hI hs) hrun hsd peer d⟩

/-- … in particular after a dropped datagram: the goroutine's `taskRun` step, whatever its outcome, leaves
    every Serve call where it is and does not touch `shutdownRequested`. -/
theorem dropped_datagram_keeps_serving (H : Hash) (cfg : Cfg) (hv : cfg.variant = .fixed) (conns : List Nat) (nD : Nat)
    (ls : List Label) (i t : Nat) (s' : St)
    (hi : (run H cfg (initWith conns nD) ls).serves[i]? = some .running)
    (hsd : (run H cfg (initWith conns nD) ls).sd = false)
    (hs : step H cfg (run H cfg (initWith conns nD) ls) (.taskRun t) = some s') :
    s'.serves[i]? = some .running ∧ s'.sd = false ∧
    ∀ peer d, step H cfg s' (.serveRecv i peer d) = some (spawn H cfg s' i peer d) := by
  obtain ⟨h1, h2⟩ := keeps_serving H cfg hv conns nD ls i (.taskRun t) s' hi hs
    ⟨(by intro e; cases e), (by intro k e; cases e)⟩
  have h3 : s'.sd = false := by
    rw [(step_sd_mono hs).2 (by intro j e; cases e)]; exact hsd
  exact ⟨h1, h3, h2 h3⟩

/-! #### the trace-level clauses in the fine machine (`serveRead` / `serveSpawn` separate) -/

/-- the server clause of C02 in the fine machine: a started handler belongs to a goroutine whose datagram —
    read by a `serveRead`, handed over by a later `serveSpawn`, possibly with a Shutdown in between — is
    authentic under a non-empty secret and parses to the packet handed over -/
theorem fine_handler_only_if_parsed (H : Hash) (cfg : Cfg) (conns : List Nat) (nD : Nat) (ls : List Label2)
    (t : Nat) (key : Key)
    (h : Event.handlerStart t key ∈ (run2 H cfg (initWith2 conns nD) ls).base.log) :
    ∃ (i peer : Nat) (d : Bytes) (p : Packet) (sec : Bytes),
      Event.recv t i peer d ∈ (run2 H cfg (initWith2 conns nD) ls).base.log ∧
      (run2 H cfg (initWith2 conns nD) ls).base.origin[t]? = some ⟨i, peer, d⟩ ∧
      classify H cfg peer d = .handle key p ∧
      Event.request t p peer (conns.getD i 0) .server ∈ (run2 H cfg (initWith2 conns nD) ls).base.log ∧
      cfg.secretOf peer = .secret sec ∧ sec ≠ [] ∧
      (cfg.skipVerify = true ∨ isAuthenticRequest H d sec = true) ∧
      parse d sec = .ok p ∧ key = (peer, p.id) := by
  have hO := InvO_run2 H cfg conns nD ls
  obtain ⟨⟨i, peer, d⟩, p, ho, hcl, hreq⟩ := hO.hs t key h
  simp only at hcl hreq
  rw [connOf_run2] at hreq
  obtain ⟨sec, a, b, c, e, f⟩ := (classify_handle_iff' H cfg peer d key p).mp hcl
  exact ⟨i, peer, d, p, sec, (recv_mem_iff hO t i peer d).mpr ho, ho, hcl, hreq, a, b, c, e, f⟩

/-- at most one handler per (Serve call, source, identifier), and at most one handler start and one
    goroutine per datagram, in the fine machine -/
theorem fine_exactly_once_per_datagram (H : Hash) (cfg : Cfg) (conns : List Nat) (nD : Nat) (ls : List Label2) :
    let s := (run2 H cfg (initWith2 conns nD) ls).base
    (∀ i, (s.inflight.getD i []).Nodup ∧
      ∀ key, key ∈ s.inflight.getD i [] ↔ ∃ t : Nat, s.tasks[t]? = some (⟨i, .inHandler key⟩ : Task)) ∧
    (s.log.filter isRecv).length = s.tasks.length ∧
    s.log.filter isRecv = s.origin.mapIdx recvOf ∧
    ∀ t, handlerStarts s t ≤ 1 ∧
      countSpec (s.tasks[t]?.map (·.pc)) (handlerStarts s t) (dropCount s t) (endCount s t) := by
  have hG := InvG_run2 H cfg conns nD ls
  have hO := InvO_run2 H cfg conns nD ls
  have hC := InvC_run2 H cfg conns nD ls
  refine ⟨fun i => ⟨hG.nodup i, hG.mem i⟩, ?_, hO.recvs, fun t => ⟨InvC_hsCount_le hC t, hC t⟩⟩
  rw [hO.recvs, List.length_mapIdx, hO.len]

/-- the reply at trace level, in the fine machine -/
theorem fine_reply_answers_its_request (H : Hash) (hH : ∀ x, (H x).length = 16) (cfg : Cfg) (conns : List Nat)
    (nD : Nat) (ls : List Label2) (t conn addr : Nat) (w : Bytes)
    (h : Event.reply t conn addr w ∈ (run2 H cfg (initWith2 conns nD) ls).base.log) :
    ∃ (i peer : Nat) (d : Bytes) (key : Key) (p : Packet) (sec : Bytes) (code : Int) (attrs : Attrs),
      Event.recv t i peer d ∈ (run2 H cfg (initWith2 conns nD) ls).base.log ∧
      addr = peer ∧ conn = conns.getD i 0 ∧
      Event.request t p peer (conns.getD i 0) .server ∈ (run2 H cfg (initWith2 conns nD) ls).base.log ∧
      Event.handlerStart t key ∈ (run2 H cfg (initWith2 conns nD) ls).base.log ∧
      classify H cfg peer d = .handle key p ∧
      cfg.secretOf peer = .secret sec ∧ sec ≠ [] ∧ parse d sec = .ok p ∧ p.secret = sec ∧
      encode H { response p code with attrs := attrs } = .ok w ∧
      (Rfc.encClass code = .hashReqAuth → isAuthenticResponse H w d sec = true) := by
  obtain ⟨i, peer, d, key, p, sec, code, attrs, h1, _, h3, h4, h5, h6, h7, h8, h9, h10, h11, h12, h13⟩ :=
    reply_answers_of_InvO hH (InvO_run2 H cfg conns nD ls) h
  rw [connOf_run2] at h4 h5
  exact ⟨i, peer, d, key, p, sec, code, attrs, h1, h3, h4, h5, h6, h7, h8, h9, h10, h11, h12, h13⟩

/-- keeps serving, in the fine machine: a Serve call in its read loop stays in it under every step other
    than a failing read of its own; and before Shutdown it is never blocked: holding a datagram it can
    spawn, otherwise it can read the next one. -/
theorem fine_keeps_serving (H : Hash) (cfg : Cfg) (hv : cfg.variant = .fixed) (conns : List Nat) (nD : Nat)
    (ls : List Label2) (i : Nat) (l : Label2) (s' : St2)
    (hi : (run2 H cfg (initWith2 conns nD) ls).base.serves[i]? = some .running)
    (hs : step2 H cfg (run2 H cfg (initWith2 conns nD) ls) l = some s')
    (hl : l ≠ .base (.serveReadErr i) ∧ ∀ k, l ≠ .base (.serveReadFail i k)) :
    s'.base.serves[i]? = some .running ∧
    (s'.base.sd = false →
      (∀ x, s'.holds i = some x → (step2 H cfg s' (.serveSpawn i)).isSome = true) ∧
      (s'.holds i = none → ∀ peer d, (step2 H cfg s' (.serveRead i peer d)).isSome = true)) := by
  have hI := (InvF_run2_from H cfg hv [l] _ (Inv2_run H cfg conns nD ls) (InvF_run2 H cfg hv conns nD ls)).2
  simp only [run2, hs] at hI
  have hrun : s'.base.serves[i]? = some .running := by
    refine step2_running_stable hs hi ?_
    intro l0 hl0
    subst hl0
    cases l0 with
    | serveRecv j peer d =>
      by_cases hj : j = i
      · subst hj; exact Or.inr ⟨peer, d, rfl⟩
      · left; simp [Label.readLoopOf, hj]
    | serveReadErr j =>
      left; simp only [Label.readLoopOf, ne_eq, Option.some.injEq]
      intro e; subst e; exact hl.1 rfl
    | serveReadFail j k =>
      left; simp only [Label.readLoopOf, ne_eq, Option.some.injEq]
      intro e; subst e; exact hl.2 k rfl
    | _ => left; simp [Label.readLoopOf]
  refine ⟨hrun, fun hsd => ⟨?_, ?_⟩⟩
  · intro x hx; rw [serveSpawn_enabled hx]; rfl
  · intro hn peer d
    rw [step2_serveRead_eq, if_pos ⟨hrun, hn, hI.nsd hsd _⟩]; rfl

/-! ### Non-vacuity: concrete reachable states in which the hypotheses above hold

  One Serve call on conn 3; the hash is the constant sixteen zero octets, every peer has the secret
  `[1]`; the datagram is an Access-Request with identifier 7 (see `classify_example`, `classify_example5`). -/

local notation "H0" => ((fun _ => zeros 16) : Hash)
local notation "cfg0" => (Cfg.mk Variant.fixed false (fun _ => SecretAns.secret [1]))
local notation "dg0" => (([1, 7, 0, 20] ++ zeros 16) : Bytes)
local notation "p0" => (Packet.mk 1 7 (zeros 16) [1] [])

/-- hypothesis of `handler_only_if_parsed`, `handler_start_once_and_fresh`, `handler_start_has_request` -/
example : Event.handlerStart 0 (0, 7) ∈ (run H0 cfg0 (initWith [3] 1)
    [.serveEnter 0, .serveRecv 0 0 dg0, .taskRun 0]).log := by
  simp only [run, step, spawn, classify_example]
  decide

/-- hypotheses of `handler_started_if_free` (and of `handler_iff`): spawned, classified `handle`, key free -/
example :
    let s := run H0 cfg0 (initWith [3] 1) [.serveEnter 0, .serveRecv 0 0 dg0]
    s.tasks[0]? = some ⟨0, .spawned (.handle (0, 7) p0)⟩ ∧ (0, 7) ∉ s.inflight.getD 0 [] := by
  simp only [run, step, spawn, classify_example]
  decide

/-- hypothesis of `request_carries`: the request names peer 5 and conn 3 and the server's context -/
example : Event.request 0 p0 5 3 .server ∈ (run H0 cfg0 (initWith [3] 1)
    [.serveEnter 0, .serveRecv 0 5 dg0, .taskRun 0]).log := by
  simp only [run, step, spawn, classify_example5]
  decide

/-- hypothesis of `reply_on_receiving_socket`: the handler of goroutine 0 writes twice; both replies go
    out on conn 3 to peer 5 -/
example :
    (run H0 cfg0 (initWith [3] 1)
      [.serveEnter 0, .serveRecv 0 5 dg0, .taskRun 0, .taskReply 0 2 [], .taskReply 0 2 [], .taskFinish 0]).log =
    [.recv 0 0 5 dg0, .request 0 p0 5 3 .server, .handlerStart 0 (5, 7), .reply 0 3 5 ([2, 7, 0, 20] ++ zeros 16),
     .reply 0 3 5 ([2, 7, 0, 20] ++ zeros 16), .handlerEnd 0] := by
  decide +kernel

/-- hypotheses of `request_ctx_cancelled_by_shutdown`: a request in the log and Shutdown requested -/
example :
    let s := run H0 cfg0 (initWith [3] 1) [.serveEnter 0, .serveRecv 0 5 dg0, .taskRun 0, .downEnter 0]
    Event.request 0 p0 5 3 .server ∈ s.log ∧ s.sd = true ∧ Cfg.variant cfg0 = .fixed := by
  simp only [run, step, spawn, classify_example5]
  decide

/-- `exactly_once_per_datagram` on a duplicate: the second datagram with the same (source, identifier)
    arrives while the first handler runs and is dropped; the third, after the handler returned, is served -/
example :
    let s := run H0 cfg0 (initWith [3] 1)
      [.serveEnter 0, .serveRecv 0 0 dg0, .serveRecv 0 0 dg0, .taskRun 0, .taskRun 1, .taskFinish 0,
       .serveRecv 0 0 dg0, .taskRun 2]
    (handlerStarts s 0, dropCount s 0, endCount s 0) = (1, 0, 1) ∧
    (handlerStarts s 1, dropCount s 1, endCount s 1) = (0, 1, 0) ∧
    (handlerStarts s 2, dropCount s 2, endCount s 2) = (1, 0, 0) ∧
    s.tasks.length = 3 ∧ (s.log.filter isRecv).length = 3 := by
  simp only [run, step, spawn, classify_example]
  decide

/-- hypotheses of `reply_authentic`: a hash with 16-byte output, a datagram the pipeline hands on, a
    reply code (Access-Accept) and a reply that encodes -/
example :
    (∀ x, (H0 x).length = 16) ∧ classify H0 cfg0 0 dg0 = .handle (0, 7) p0 ∧
    Rfc.encClass 2 = .hashReqAuth ∧
    encode H0 { response p0 2 with attrs := [] } = .ok ([2, 7, 0, 20] ++ zeros 16) := by
  refine ⟨by intro x; simp [zeros], classify_example, rfl, by decide⟩

/-- … and its conclusion on that instance, obtained from the theorem -/
example : isAuthenticResponse H0 ([2, 7, 0, 20] ++ zeros 16) dg0 (Packet.secret p0) = true :=
  reply_authentic H0 (by intro x; simp [zeros]) cfg0 0 dg0 (0, 7) p0 2 [] ([2, 7, 0, 20] ++ zeros 16)
    classify_example rfl (by decide)

/-- hypothesis of `reply_answers_its_request` (and of `reply_on_receiving_socket`): a `reply` event with
    its octets in the log of a reachable state; the hash has 16-octet output -/
example : Event.reply 0 3 5 ([2, 7, 0, 20] ++ zeros 16) ∈ (run H0 cfg0 (initWith [3] 1)
    [.serveEnter 0, .serveRecv 0 5 dg0, .taskRun 0, .taskReply 0 2 [], .taskFinish 0]).log ∧
    (∀ x, (H0 x).length = 16) ∧ Rfc.encClass 2 = .hashReqAuth := by
  refine ⟨by decide +kernel, by intro x; simp [zeros], rfl⟩

/-- a reply the encoder refuses (code 13 is no RADIUS code Encode knows) never reaches the conn: the
    `taskReply` step is not enabled -/
example : step H0 cfg0 (run H0 cfg0 (initWith [3] 1) [.serveEnter 0, .serveRecv 0 5 dg0, .taskRun 0])
    (.taskReply 0 13 []) = none := by
  decide +kernel

/-- hypotheses of `keeps_serving` / `dropped_datagram_keeps_serving`: a datagram from a peer the secret
    source fails for (cfg: every peer errs) is waiting to be dropped while Serve call 0 reads -/
example :
    let s := run H0 { secretOf := fun _ => .error } (initWith [3] 1) [.serveEnter 0, .serveRecv 0 5 dg0]
    s.serves[0]? = some .running ∧ s.sd = false ∧ s.tasks[0]? = some ⟨0, .spawned .dropSecretError⟩ ∧
    (step H0 { secretOf := fun _ => .error } s (.taskRun 0)).isSome = true := by
  decide +kernel

/-- hypothesis of `secret_with_error_is_dropped`: a source that returns the right secret AND an error -/
example : classify H0 { secretOf := fun _ => SecretAns.ofPair [1] true } 0 dg0 = .dropSecretError ∧
    classify H0 { secretOf := fun _ => SecretAns.ofPair [1] false } 0 dg0 = .handle (0, 7) p0 := by
  decide +kernel

/-- the fine machine: the datagram is read, THEN Shutdown runs, then the goroutine is spawned, the handler
    starts and replies — hypotheses of `fine_handler_only_if_parsed` and `fine_reply_answers_its_request`
    in a state in which the read and the spawn are separated by a Shutdown -/
example :
    (run2 H0 cfg0 (initWith2 [3] 1)
      [.base (.serveEnter 0), .serveRead 0 5 dg0, .base (.downEnter 0), .serveSpawn 0, .base (.taskRun 0),
       .base (.taskReply 0 2 [])]).base.log =
    [.listenerClosed 3, .recv 0 0 5 dg0, .request 0 p0 5 3 .server, .handlerStart 0 (5, 7),
     .reply 0 3 5 ([2, 7, 0, 20] ++ zeros 16)] := by
  decide +kernel

end RV.C06
