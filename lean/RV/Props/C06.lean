/-
  C06 — The server dispatches exactly the authentic, non-duplicate requests and answers them.
  About the datagram pipeline (`classify`) and the dedup table of RV.Model.Server, for every
  schedule and any number of datagrams; the reply's authenticator goes through C03.
-/
import RV.Model.Server
import RV.Proofs.Server
namespace RV.C06
open RV RV.Server

/-- A datagram reaches the dedup stage iff the secret source yields a non-empty secret, the
    request is authentic under it (unless checking is disabled) and it parses; the packet handed
    on is that parse, carrying that secret; the key is (source, identifier). -/
theorem classify_handle_iff (H : Hash) (cfg : Cfg) (peer : Nat) (d : Bytes) (key : Key) (p : Packet) :
    classify H cfg peer d = .handle key p ↔
      ∃ s, cfg.secretOf peer = .secret s ∧ s ≠ [] ∧
        (cfg.skipVerify = true ∨ isAuthenticRequest H d s = true) ∧
        parse d s = .ok p ∧ key = (peer, p.id) := by
  exact classify_handle_iff' H cfg peer d key p

/-- the request handed to the handler carries the parsed packet and that secret -/
theorem request_fields (H : Hash) (cfg : Cfg) (peer : Nat) (d : Bytes) (key : Key) (p : Packet)
    (h : classify H cfg peer d = .handle key p) :
    ∃ s, cfg.secretOf peer = .secret s ∧ parse d s = .ok p ∧ p.secret = s := by
  obtain ⟨s, hs, _, _, hp, _⟩ := (classify_handle_iff' H cfg peer d key p).mp h
  exact ⟨s, hs, hp, (parse_secret hp).1⟩

/-- The handler is invoked for a datagram goroutine iff its datagram passed the pipeline and its
    key is not in flight on that Serve call; every other datagram is dropped without the handler. -/
theorem handler_iff (H : Hash) (cfg : Cfg) (s : St) (t i : Nat) (fate : Fate)
    (ht : s.tasks[t]? = some ⟨i, .spawned fate⟩) :
    (∃ s' key, step H cfg s (.taskRun t) = some s' ∧ s'.tasks[t]? = some ⟨i, .inHandler key⟩) ↔
    (∃ key p, fate = .handle key p ∧ key ∉ s.inflight.getD i []) := by
  exact handler_iff' H cfg s t i fate ht

/-- Every other datagram is dropped without the handler being invoked (in every state reachable in
    the tree's variant; for arbitrary unreachable states the log could additionally record a double
    close — `RV.Server.dropped_otherwise_false` — which `C07.closes_le_one` excludes). -/
theorem dropped_otherwise (H : Hash) (cfg : Cfg) (hv : cfg.variant = .fixed) (conns : List Nat) (nD : Nat)
    (ls : List Label) (t i : Nat) (fate : Fate)
    (ht : (run H cfg (initWith conns nD) ls).tasks[t]? = some (⟨i, .spawned fate⟩ : Task))
    (hn : ¬ ∃ key p, fate = .handle key p ∧ key ∉ (run H cfg (initWith conns nD) ls).inflight.getD i []) :
    ∃ s', step H cfg (run H cfg (initWith conns nD) ls) (.taskRun t) = some s' ∧
      s'.tasks[t]? = some (⟨i, .done⟩ : Task) ∧
      s'.log = (run H cfg (initWith conns nD) ls).log ++ [.dropped t] ∧
      s'.inflight = (run H cfg (initWith conns nD) ls).inflight :=
  dropped_otherwise_reach H cfg hv conns nD ls t i fate ht hn

/-- At most one handler per (Serve call, source, identifier), under every schedule: the dedup table
    has no duplicates and holds exactly the keys of the handlers that are running. -/
theorem at_most_one_inflight (H : Hash) (cfg : Cfg) (conns : List Nat) (nD : Nat) (ls : List Label) (i : Nat) :
    let s := run H cfg (initWith conns nD) ls
    (s.inflight.getD i []).Nodup ∧
    ∀ key, key ∈ s.inflight.getD i [] ↔ ∃ t : Nat, s.tasks[t]? = some (⟨i, .inHandler key⟩ : Task) := by
  have hI := InvG_run H cfg conns nD ls
  exact ⟨hI.nodup i, hI.mem i⟩

/-- Once a handler has returned, its key is free again: the same identifier is served again. -/
theorem released_after_return (H : Hash) (cfg : Cfg) (conns : List Nat) (nD : Nat) (ls : List Label) (t i : Nat) (key : Key)
    (ht : (run H cfg (initWith conns nD) ls).tasks[t]? = some ⟨i, .inHandler key⟩) :
    ∃ s', step H cfg (run H cfg (initWith conns nD) ls) (.taskFinish t) = some s' ∧ key ∉ s'.inflight.getD i [] := by
  exact released_after_return' H cfg conns nD ls t i key ht

/-- The handler never sees a packet the parser rejects (server clause of C02): every handlerStart
    event belongs to a goroutine whose datagram was classified `handle`. -/
theorem handler_only_if_parsed (H : Hash) (cfg : Cfg) (conns : List Nat) (nD : Nat) (ls : List Label) (t : Nat) (key : Key)
    (h : Event.handlerStart t key ∈ (run H cfg (initWith conns nD) ls).log) :
    ∃ i, (run H cfg (initWith conns nD) ls).tasks[t]? = some ⟨i, .inHandler key⟩ ∨
         (run H cfg (initWith conns nD) ls).tasks[t]? = some ⟨i, .done⟩ := by
  exact (InvG_run H cfg conns nD ls).log t key h

/-- A reply written by the handler (Response of the request, any attributes, a reply code) encodes
    with a response authenticator that is valid for the request datagram under the peer's secret. -/
theorem reply_authentic (H : Hash) (hH : ∀ x, (H x).length = 16) (cfg : Cfg) (peer : Nat) (d : Bytes)
    (key : Key) (p : Packet) (code : Int) (attrs : Attrs) (w : Bytes)
    (h : classify H cfg peer d = .handle key p)
    (hc : Rfc.encClass code = .hashReqAuth)
    (he : encode H { response p code with attrs := attrs } = .ok w) :
    isAuthenticResponse H w d p.secret = true := by
  exact reply_authentic' H hH cfg peer d key p code attrs w h hc he

end RV.C06
