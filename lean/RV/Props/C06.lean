/-
  C06 — The server dispatches exactly the authentic, non-duplicate requests and answers them.
  About the datagram pipeline (`classify`) and the dedup table of RV.Model.Server, for every
  schedule and any number of datagrams; the reply's authenticator goes through C03.
  Trace-level statements (`handler_only_if_parsed`, `handler_start_once_and_fresh`, `request_carries`,
  `reply_on_receiving_socket`, `exactly_once_per_datagram`) are about the log of every reachable state:
  which step of the schedule an event came from and what the goroutine had captured (`St.origin`).
-/
import RV.Model.Server
import RV.Proofs.Server
namespace RV.C06
open RV RV.Server

/-- A datagram reaches the dedup stage iff the secret source yields a non-empty secret, the
    request is authentic under it (unless checking is disabled) and it parses; the packet handed
    on is that parse, carrying that secret; the key is (source, identifier). -/
theorem classify_handle_iff (H : Hash) (cfg : Cfg) (peer : Nat) (d : Bytes) (key : Key) (p : Packet) :
    classify H cfg peer d = .handle key p ↔
      ∃ s, cfg.secretOf peer = .secret s ∧ s ≠ [] ∧
        (cfg.skipVerify = true ∨ isAuthenticRequest H d s = true) ∧
        parse d s = .ok p ∧ key = (peer, p.id) := by
  exact classify_handle_iff' H cfg peer d key p

/-- the request handed to the handler carries the parsed packet and that secret -/
theorem request_fields (H : Hash) (cfg : Cfg) (peer : Nat) (d : Bytes) (key : Key) (p : Packet)
    (h : classify H cfg peer d = .handle key p) :
    ∃ s, cfg.secretOf peer = .secret s ∧ parse d s = .ok p ∧ p.secret = s := by
  obtain ⟨s, hs, _, _, hp, _⟩ := (classify_handle_iff' H cfg peer d key p).mp h
  exact ⟨s, hs, hp, (parse_secret hp).1⟩

/-- The handler is invoked for a datagram goroutine iff its datagram passed the pipeline and its
    key is not in flight on that Serve call; every other datagram is dropped without the handler. -/
theorem handler_iff (H : Hash) (cfg : Cfg) (s : St) (t i : Nat) (fate : Fate)
    (ht : s.tasks[t]? = some ⟨i, .spawned fate⟩) :
    (∃ s' key, step H cfg s (.taskRun t) = some s' ∧ s'.tasks[t]? = some ⟨i, .inHandler key⟩) ↔
    (∃ key p, fate = .handle key p ∧ key ∉ s.inflight.getD i []) := by
  exact handler_iff' H cfg s t i fate ht

/-- Every other datagram is dropped without the handler being invoked (in every state reachable in
    the tree's variant; for arbitrary unreachable states the log could additionally record a double
    close — `RV.Server.dropped_otherwise_false` — which `C07.closes_le_one` excludes). -/
theorem dropped_otherwise (H : Hash) (cfg : Cfg) (hv : cfg.variant = .fixed) (conns : List Nat) (nD : Nat)
    (ls : List Label) (t i : Nat) (fate : Fate)
    (ht : (run H cfg (initWith conns nD) ls).tasks[t]? = some (⟨i, .spawned fate⟩ : Task))
    (hn : ¬ ∃ key p, fate = .handle key p ∧ key ∉ (run H cfg (initWith conns nD) ls).inflight.getD i []) :
    ∃ s', step H cfg (run H cfg (initWith conns nD) ls) (.taskRun t) = some s' ∧
      s'.tasks[t]? = some (⟨i, .done⟩ : Task) ∧
      s'.log = (run H cfg (initWith conns nD) ls).log ++ [.dropped t] ∧
      s'.inflight = (run H cfg (initWith conns nD) ls).inflight :=
  dropped_otherwise_reach H cfg hv conns nD ls t i fate ht hn

/-- At most one handler per (Serve call, source, identifier), under every schedule: the dedup table
    has no duplicates and holds exactly the keys of the handlers that are running. -/
theorem at_most_one_inflight (H : Hash) (cfg : Cfg) (conns : List Nat) (nD : Nat) (ls : List Label) (i : Nat) :
    let s := run H cfg (initWith conns nD) ls
    (s.inflight.getD i []).Nodup ∧
    ∀ key, key ∈ s.inflight.getD i [] ↔ ∃ t : Nat, s.tasks[t]? = some (⟨i, .inHandler key⟩ : Task) := by
  have hI := InvG_run H cfg conns nD ls
  exact ⟨hI.nodup i, hI.mem i⟩

/-- Once a handler has returned, its key is free again: the same identifier is served again. -/
theorem released_after_return (H : Hash) (cfg : Cfg) (conns : List Nat) (nD : Nat) (ls : List Label) (t i : Nat) (key : Key)
    (ht : (run H cfg (initWith conns nD) ls).tasks[t]? = some ⟨i, .inHandler key⟩) :
    ∃ s', step H cfg (run H cfg (initWith conns nD) ls) (.taskFinish t) = some s' ∧ key ∉ s'.inflight.getD i [] := by
  exact released_after_return' H cfg conns nD ls t i key ht

/-- The handler never sees a packet the parser rejects (server clause of C02), in every reachable
    state and under every schedule: a `handlerStart t key` event in the log belongs to a goroutine
    that (old conclusion) is in its handler or done, and that was spawned — as the `t`-th goroutine —
    by an enabled `serveRecv i peer d` step of the schedule whose datagram the pipeline classified
    `handle key p`: the secret source answered `peer` with a non-empty secret, the datagram is
    authentic under it (unless checking is disabled) and parses to `p`; the key is (source, identifier). -/
theorem handler_only_if_parsed (H : Hash) (cfg : Cfg) (conns : List Nat) (nD : Nat) (ls : List Label) (t : Nat) (key : Key)
    (h : Event.handlerStart t key ∈ (run H cfg (initWith conns nD) ls).log) :
    (∃ i, (run H cfg (initWith conns nD) ls).tasks[t]? = some ⟨i, .inHandler key⟩ ∨
          (run H cfg (initWith conns nD) ls).tasks[t]? = some ⟨i, .done⟩) ∧
    ∃ (i peer : Nat) (d : Bytes) (p : Packet),
      (∃ ls1 ls2 s1', ls = ls1 ++ Label.serveRecv i peer d :: ls2 ∧
          step H cfg (run H cfg (initWith conns nD) ls1) (.serveRecv i peer d) = some s1' ∧
          (run H cfg (initWith conns nD) ls1).tasks.length = t) ∧
      Event.recv t i peer d ∈ (run H cfg (initWith conns nD) ls).log ∧
      (run H cfg (initWith conns nD) ls).origin[t]? = some ⟨i, peer, d⟩ ∧
      classify H cfg peer d = .handle key p ∧
      ∃ sec, cfg.secretOf peer = .secret sec ∧ sec ≠ [] ∧
        (cfg.skipVerify = true ∨ isAuthenticRequest H d sec = true) ∧
        parse d sec = .ok p ∧ key = (peer, p.id) := by
  refine ⟨(InvG_run H cfg conns nD ls).log t key h, ?_⟩
  have hO := InvO_run H cfg conns nD ls
  obtain ⟨⟨i, peer, d⟩, p, ho, hcl, _⟩ := hO.hs t key h
  simp only at hcl
  have hrecv := (recv_mem_iff hO t i peer d).mpr ho
  obtain ⟨ls1, l, ls2, s1', hls, hst, _, hnew⟩ :=
    log_provenance H cfg _ ls (initWith conns nD) hrecv (by simp [initWith])
  obtain ⟨rfl, hlen⟩ := newEv_recv hnew
  exact ⟨i, peer, d, p, ⟨ls1, ls2, s1', hls, hst, hlen.symm⟩, hrecv, ho, hcl,
    (classify_handle_iff' H cfg peer d key p).mp hcl⟩

/-- how often the handler has been started for goroutine `t` (number of `handlerStart t _` events) -/
def handlerStarts (s : St) (t : Nat) : Nat := hsCount s t

/-- At most once per datagram, at trace level: in every reachable state the log holds at most one
    `handlerStart t _` event for any goroutine `t`. -/
theorem handler_start_at_most_once (H : Hash) (cfg : Cfg) (conns : List Nat) (nD : Nat) (ls : List Label) (t : Nat) :
    handlerStarts (run H cfg (initWith conns nD) ls) t ≤ 1 :=
  InvC_hsCount_le (InvC_run H cfg conns nD ls) t

/-- The handler is started once per goroutine and only while its key is free: a `handlerStart t key`
    event is the only `handlerStart t _` event of the log, and it was appended by a `taskRun t` step of
    the schedule taken in a state in which goroutine `t` had not yet run, its datagram had been classified
    `handle key p`, and `key` was NOT in the dedup table of its Serve call at that moment. -/
theorem handler_start_once_and_fresh (H : Hash) (cfg : Cfg) (conns : List Nat) (nD : Nat) (ls : List Label)
    (t : Nat) (key : Key)
    (h : Event.handlerStart t key ∈ (run H cfg (initWith conns nD) ls).log) :
    handlerStarts (run H cfg (initWith conns nD) ls) t = 1 ∧
    (∀ key', Event.handlerStart t key' ∈ (run H cfg (initWith conns nD) ls).log → key' = key) ∧
    ∃ ls1 ls2 i p s1', ls = ls1 ++ Label.taskRun t :: ls2 ∧
      (run H cfg (initWith conns nD) ls1).tasks[t]? = some ⟨i, .spawned (.handle key p)⟩ ∧
      key ∉ (run H cfg (initWith conns nD) ls1).inflight.getD i [] ∧
      (∀ k, Event.handlerStart t k ∉ (run H cfg (initWith conns nD) ls1).log) ∧
      step H cfg (run H cfg (initWith conns nD) ls1) (.taskRun t) = some s1' ∧
      s1'.tasks[t]? = some ⟨i, .inHandler key⟩ ∧ key ∈ s1'.inflight.getD i [] := by
  have hC := InvC_run H cfg conns nD ls
  refine ⟨?_, fun key' h' => hs_key_unique hC h' h, ?_⟩
  · have h1 := hsCount_pos h
    have h2 := InvC_hsCount_le hC t
    simp only [handlerStarts]; omega
  · obtain ⟨ls1, l, ls2, s1', hls, hst, _, hnew⟩ :=
      log_provenance H cfg _ ls (initWith conns nD) h (by simp [initWith])
    obtain ⟨rfl, i, p, ht, hfree⟩ := newEv_handlerStart hnew
    refine ⟨ls1, ls2, i, p, s1', hls, ht, hfree, ?_, hst, ?_⟩
    · intro k hk
      obtain ⟨i', h1 | h1⟩ := (InvG_run H cfg conns nD ls1).log t k hk
      · rw [ht] at h1; cases h1
      · rw [ht] at h1; cases h1
    · obtain ⟨i', fate', ht', hh | hh⟩ := step_taskRun hst
      · rw [ht] at ht'; cases ht'
        obtain ⟨key', p', he, _, rfl⟩ := hh
        cases he
        have htl := lt_of_getElem?_eq_some ht
        have hil : i < (run H cfg (initWith conns nD) ls1).inflight.length := by
          rw [(InvG_run H cfg conns nD ls1).len]; exact (InvG_run H cfg conns nD ls1).bound t _ ht
        refine ⟨by simp [htl], ?_⟩
        simp [hil]
      · rw [ht] at ht'; cases ht'
        exact absurd ⟨key, p, rfl, hfree⟩ hh.1

/-- Conversely (with `handler_iff`): in a reachable state a goroutine whose datagram was classified
    `handle key p` and whose key is free DOES get the handler when it runs — the step appends the
    request (parsed packet, the datagram's source address, the conn of the Serve call that read it,
    the server's context) and the `handlerStart` event, and puts the key in flight. -/
theorem handler_started_if_free (H : Hash) (cfg : Cfg) (conns : List Nat) (nD : Nat) (ls : List Label)
    (t i : Nat) (key : Key) (p : Packet)
    (ht : (run H cfg (initWith conns nD) ls).tasks[t]? = some ⟨i, .spawned (.handle key p)⟩)
    (hfree : key ∉ (run H cfg (initWith conns nD) ls).inflight.getD i []) :
    ∃ peer d s', (run H cfg (initWith conns nD) ls).origin[t]? = some ⟨i, peer, d⟩ ∧
      classify H cfg peer d = .handle key p ∧
      step H cfg (run H cfg (initWith conns nD) ls) (.taskRun t) = some s' ∧
      s'.tasks[t]? = some ⟨i, .inHandler key⟩ ∧
      s'.log = (run H cfg (initWith conns nD) ls).log ++
        [.request t p peer (conns.getD i 0) .server, .handlerStart t key] := by
  have hO := InvO_run H cfg conns nD ls
  obtain ⟨⟨i', peer, d⟩, ho, hio⟩ := origin_of_task hO ht
  simp only at hio; subst hio
  have hf := hO.fate t i _ _ ht ho
  simp only at hf
  obtain ⟨s', hs⟩ := taskRun_enabled (H := H) (cfg := cfg) ht
  refine ⟨peer, d, s', ho, hf.symm, hs, ?_⟩
  obtain ⟨i', fate', ht', hh | hh⟩ := step_taskRun hs
  · rw [ht] at ht'; cases ht'
    obtain ⟨key', p', he, _, rfl⟩ := hh
    cases he
    refine ⟨by simp [lt_of_getElem?_eq_some ht], ?_⟩
    simp only [peerOf_eq ho, connOf_run]
  · rw [ht] at ht'; cases ht'
    exact absurd ⟨key, p, rfl, hfree⟩ hh.1

/-- The request handed to the handler: a `request` event carries the packet the datagram parses to
    under the peer's secret (with that secret), the datagram's source address as `RemoteAddr`, the
    conn of the Serve call that read the datagram as local address, and the server's context; and the
    handler was started for exactly this goroutine. -/
theorem request_carries (H : Hash) (cfg : Cfg) (conns : List Nat) (nD : Nat) (ls : List Label)
    (t : Nat) (p : Packet) (remote localConn : Nat) (ctx : Ctx)
    (h : Event.request t p remote localConn ctx ∈ (run H cfg (initWith conns nD) ls).log) :
    ∃ (i : Nat) (d : Bytes) (key : Key) (sec : Bytes),
      Event.recv t i remote d ∈ (run H cfg (initWith conns nD) ls).log ∧
      (run H cfg (initWith conns nD) ls).origin[t]? = some ⟨i, remote, d⟩ ∧
      classify H cfg remote d = .handle key p ∧
      cfg.secretOf remote = .secret sec ∧ parse d sec = .ok p ∧ p.secret = sec ∧
      localConn = conns.getD i 0 ∧ ctx = .server ∧
      Event.handlerStart t key ∈ (run H cfg (initWith conns nD) ls).log := by
  have hO := InvO_run H cfg conns nD ls
  obtain ⟨⟨i, peer, d⟩, key, ho, hcl, hpe, hc, hx, hhs⟩ := hO.req t p remote localConn ctx h
  simp only at hcl hc hpe
  subst hpe
  obtain ⟨sec, hs, _, _, hp, _⟩ := (classify_handle_iff' H cfg remote d key p).mp hcl
  rw [connOf_run] at hc
  exact ⟨i, d, key, sec, (recv_mem_iff hO t i remote d).mpr ho, ho, hcl, hs, hp, (parse_secret hp).1, hc, hx, hhs⟩

/-- every started handler was handed such a request -/
theorem handler_start_has_request (H : Hash) (cfg : Cfg) (conns : List Nat) (nD : Nat) (ls : List Label)
    (t : Nat) (key : Key)
    (h : Event.handlerStart t key ∈ (run H cfg (initWith conns nD) ls).log) :
    ∃ (i peer : Nat) (d : Bytes) (p : Packet),
      (run H cfg (initWith conns nD) ls).origin[t]? = some ⟨i, peer, d⟩ ∧
      Event.request t p peer (conns.getD i 0) .server ∈ (run H cfg (initWith conns nD) ls).log := by
  obtain ⟨⟨i, peer, d⟩, p, ho, _, hr⟩ := (InvO_run H cfg conns nD ls).hs t key h
  rw [connOf_run] at hr
  exact ⟨i, peer, d, p, ho, hr⟩

/-- the context of a request is the server's: once Shutdown has been requested it is cancelled -/
theorem request_ctx_cancelled_by_shutdown (H : Hash) (cfg : Cfg) (hv : cfg.variant = .fixed) (conns : List Nat)
    (nD : Nat) (ls : List Label) (t : Nat) (p : Packet) (remote localConn : Nat) (ctx : Ctx)
    (h : Event.request t p remote localConn ctx ∈ (run H cfg (initWith conns nD) ls).log)
    (hsd : (run H cfg (initWith conns nD) ls).sd = true) :
    (run H cfg (initWith conns nD) ls).ctxEnded ctx = true := by
  obtain ⟨_, _, _, _, _, _, hx, _⟩ := (InvO_run H cfg conns nD ls).req t p remote localConn ctx h
  subst hx
  exact ((InvF_run H cfg hv conns nD ls).sdc hsd).1

/-- The reply goes out on the receiving socket to the request's source address: every `reply` event
    of goroutine `t` names the conn of the Serve call that read `t`'s datagram and the address that
    datagram came from; it was written by a `taskReply t` step while `t`'s handler was running. -/
theorem reply_on_receiving_socket (H : Hash) (cfg : Cfg) (conns : List Nat) (nD : Nat) (ls : List Label)
    (t conn addr : Nat)
    (h : Event.reply t conn addr ∈ (run H cfg (initWith conns nD) ls).log) :
    ∃ (i peer : Nat) (d : Bytes) (key : Key),
      Event.recv t i peer d ∈ (run H cfg (initWith conns nD) ls).log ∧
      (run H cfg (initWith conns nD) ls).origin[t]? = some ⟨i, peer, d⟩ ∧
      (∃ pc, (run H cfg (initWith conns nD) ls).tasks[t]? = some ⟨i, pc⟩) ∧
      conn = conns.getD i 0 ∧ addr = peer ∧
      Event.handlerStart t key ∈ (run H cfg (initWith conns nD) ls).log ∧
      ∃ ls1 ls2, ls = ls1 ++ Label.taskReply t :: ls2 ∧
        (run H cfg (initWith conns nD) ls1).tasks[t]? = some ⟨i, .inHandler key⟩ := by
  have hO := InvO_run H cfg conns nD ls
  obtain ⟨⟨i, peer, d⟩, key, ho, ha, hc, hhs⟩ := hO.rep t conn addr h
  simp only at ha hc
  rw [connOf_run] at hc
  have htl : t < (run H cfg (initWith conns nD) ls).tasks.length := by
    rw [← hO.len]; exact lt_of_getElem?_eq_some ho
  have htk := List.getElem?_eq_getElem htl
  have hserve := hO.serve t _ _ htk ho
  simp only at hserve
  obtain ⟨ls1, l, ls2, s1', hls, hst, _, hnew⟩ :=
    log_provenance H cfg _ ls (initWith conns nD) h (by simp [initWith])
  obtain ⟨rfl, i1, key1, ht1, _, _⟩ := newEv_reply hnew
  -- the goroutine that replied is in the handler whose start is in the log; same Serve call
  have hO1 := InvO_run H cfg conns nD ls1
  obtain ⟨o1, ho1, hio1⟩ := origin_of_task hO1 ht1
  simp only at hio1
  have hhs1 := hO1.inH t i1 key1 ht1
  have hhs1' : Event.handlerStart t key1 ∈ (run H cfg (initWith conns nD) ls).log := by
    rw [hls, run_append]
    exact run_log_mono H cfg _ _ _ hhs1
  have hk : key1 = key := hs_key_unique (InvC_run H cfg conns nD ls) hhs1' hhs
  subst hk
  have hrecv1 : Event.recv t o1.serve o1.peer o1.dgram ∈ (run H cfg (initWith conns nD) ls).log := by
    rw [hls, run_append]
    exact run_log_mono H cfg _ _ _ ((recv_mem_iff hO1 t _ _ _).mpr ho1)
  have ho' := (recv_mem_iff hO t _ _ _).mp hrecv1
  rw [ho] at ho'
  have hi : i = o1.serve := by cases ho'; rfl
  refine ⟨i, peer, d, key1, (recv_mem_iff hO t i peer d).mpr ho, ho,
    ⟨((run H cfg (initWith conns nD) ls).tasks[t]).pc, ?_⟩, hc, ha, hhs, ls1, ls2, hls, ?_⟩
  · rw [htk]; congr 1
    cases hh : (run H cfg (initWith conns nD) ls).tasks[t] with
    | mk a b => rw [hh] at hserve; simp only at hserve; subst hserve; rfl
  · rw [hi, ← hio1]; exact ht1

/-- Exactly once per datagram, at trace level.  In every reachable state:
    * the goroutines are the enabled `serveRecv` steps the schedule took, one `recv` event each, in
      order, carrying what the goroutine captured;
    * for every goroutine `t` the numbers of `handlerStart t _`, `dropped t` and `handlerEnd t` events
      are: 0,0,0 before it runs; 1,0,0 while its handler runs; afterwards either the handler was
      started once and returned once, or the datagram was dropped once — never both, never twice. -/
theorem exactly_once_per_datagram (H : Hash) (cfg : Cfg) (conns : List Nat) (nD : Nat) (ls : List Label) :
    let s := run H cfg (initWith conns nD) ls
    s.tasks.length = recvSteps H cfg (initWith conns nD) ls ∧
    (s.log.filter isRecv).length = s.tasks.length ∧
    s.log.filter isRecv = s.origin.mapIdx recvOf ∧
    ∀ t, handlerStarts s t ≤ 1 ∧
      countSpec (s.tasks[t]?.map (·.pc)) (handlerStarts s t) (dropCount s t) (endCount s t) := by
  have hO := InvO_run H cfg conns nD ls
  have hC := InvC_run H cfg conns nD ls
  refine ⟨?_, ?_, hO.recvs, fun t => ⟨InvC_hsCount_le hC t, hC t⟩⟩
  · have := tasks_length_run H cfg ls (initWith conns nD)
    simpa [initWith] using this
  · rw [hO.recvs, List.length_mapIdx, hO.len]

/-- A reply written by the handler (Response of the request, any attributes, a reply code) encodes
    with a response authenticator that is valid for the request datagram under the peer's secret. -/
theorem reply_authentic (H : Hash) (hH : ∀ x, (H x).length = 16) (cfg : Cfg) (peer : Nat) (d : Bytes)
    (key : Key) (p : Packet) (code : Int) (attrs : Attrs) (w : Bytes)
    (h : classify H cfg peer d = .handle key p)
    (hc : Rfc.encClass code = .hashReqAuth)
    (he : encode H { response p code with attrs := attrs } = .ok w) :
    isAuthenticResponse H w d p.secret = true := by
  exact reply_authentic' H hH cfg peer d key p code attrs w h hc he

/-! ### Non-vacuity: concrete reachable states in which the hypotheses above hold

  One Serve call on conn 3; the hash is the constant sixteen zero octets, every peer has the secret
  `[1]`; the datagram is an Access-Request with identifier 7 (see `classify_example`, `classify_example5`). -/

local notation "H0" => ((fun _ => zeros 16) : Hash)
local notation "cfg0" => (Cfg.mk Variant.fixed false (fun _ => SecretAns.secret [1]))
local notation "dg0" => (([1, 7, 0, 20] ++ zeros 16) : Bytes)
local notation "p0" => (Packet.mk 1 7 (zeros 16) [1] [])

/-- hypothesis of `handler_only_if_parsed`, `handler_start_once_and_fresh`, `handler_start_has_request` -/
example : Event.handlerStart 0 (0, 7) ∈ (run H0 cfg0 (initWith [3] 1)
    [.serveEnter 0, .serveRecv 0 0 dg0, .taskRun 0]).log := by
  simp only [run, step, classify_example]
  decide

/-- hypotheses of `handler_started_if_free` (and of `handler_iff`): spawned, classified `handle`, key free -/
example :
    let s := run H0 cfg0 (initWith [3] 1) [.serveEnter 0, .serveRecv 0 0 dg0]
    s.tasks[0]? = some ⟨0, .spawned (.handle (0, 7) p0)⟩ ∧ (0, 7) ∉ s.inflight.getD 0 [] := by
  simp only [run, step, classify_example]
  decide

/-- hypothesis of `request_carries`: the request names peer 5 and conn 3 and the server's context -/
example : Event.request 0 p0 5 3 .server ∈ (run H0 cfg0 (initWith [3] 1)
    [.serveEnter 0, .serveRecv 0 5 dg0, .taskRun 0]).log := by
  simp only [run, step, classify_example5]
  decide

/-- hypothesis of `reply_on_receiving_socket`: the handler of goroutine 0 writes twice; both replies go
    out on conn 3 to peer 5 -/
example :
    (run H0 cfg0 (initWith [3] 1)
      [.serveEnter 0, .serveRecv 0 5 dg0, .taskRun 0, .taskReply 0, .taskReply 0, .taskFinish 0]).log =
    [.recv 0 0 5 dg0, .request 0 p0 5 3 .server, .handlerStart 0 (5, 7), .reply 0 3 5, .reply 0 3 5,
     .handlerEnd 0] := by
  simp only [run, step, classify_example5]
  decide

/-- hypotheses of `request_ctx_cancelled_by_shutdown`: a request in the log and Shutdown requested -/
example :
    let s := run H0 cfg0 (initWith [3] 1) [.serveEnter 0, .serveRecv 0 5 dg0, .taskRun 0, .downEnter 0]
    Event.request 0 p0 5 3 .server ∈ s.log ∧ s.sd = true ∧ Cfg.variant cfg0 = .fixed := by
  simp only [run, step, classify_example5]
  decide

/-- `exactly_once_per_datagram` on a duplicate: the second datagram with the same (source, identifier)
    arrives while the first handler runs and is dropped; the third, after the handler returned, is served -/
example :
    let s := run H0 cfg0 (initWith [3] 1)
      [.serveEnter 0, .serveRecv 0 0 dg0, .serveRecv 0 0 dg0, .taskRun 0, .taskRun 1, .taskFinish 0,
       .serveRecv 0 0 dg0, .taskRun 2]
    (handlerStarts s 0, dropCount s 0, endCount s 0) = (1, 0, 1) ∧
    (handlerStarts s 1, dropCount s 1, endCount s 1) = (0, 1, 0) ∧
    (handlerStarts s 2, dropCount s 2, endCount s 2) = (1, 0, 0) ∧
    s.tasks.length = 3 ∧ (s.log.filter isRecv).length = 3 := by
  simp only [run, step, classify_example]
  decide

/-- hypotheses of `reply_authentic`: a hash with 16-byte output, a datagram the pipeline hands on, a
    reply code (Access-Accept) and a reply that encodes -/
example :
    (∀ x, (H0 x).length = 16) ∧ classify H0 cfg0 0 dg0 = .handle (0, 7) p0 ∧
    Rfc.encClass 2 = .hashReqAuth ∧
    encode H0 { response p0 2 with attrs := [] } = .ok ([2, 7, 0, 20] ++ zeros 16) := by
  refine ⟨by intro x; simp [zeros], classify_example, rfl, by decide⟩

/-- … and its conclusion on that instance, obtained from the theorem -/
example : isAuthenticResponse H0 ([2, 7, 0, 20] ++ zeros 16) dg0 (Packet.secret p0) = true :=
  reply_authentic H0 (by intro x; simp [zeros]) cfg0 0 dg0 (0, 7) p0 2 [] ([2, 7, 0, 20] ++ zeros 16)
    classify_example rfl (by decide)

end RV.C06
