/-
  C05 — Exchange returns a packet only if the datagram it was parsed from carries a valid response
  authenticator for the request actually sent and the packet's secret (unless verification is
  explicitly disabled), and the packet returned is the parse of the first such datagram whatever
  garbage, truncations, replays or forgeries precede it.  Datagrams that fail to parse or to verify are
  skipped; the call fails with that datagram's error exactly when their count reaches a positive
  MaxPacketErrors, and never on their account when it is zero.

  All theorems are about `RV.Client.recvLoop` (client.go:97-129 as a fold over the history of
  datagrams read), hold for every hash `H`, every request datagram `wire`, every secret, every
  configuration (including negative `MaxPacketErrors`) and every history of ANY length (induction over
  the history).  "Datagram" means the datagram as the loop sees it: its first 4096 bytes (`readBuf`).
  "Authentic" is `RV.isAuthenticResponse H` (equal to the RFC formula by C03.isAuthenticResponse_iff).

  Section "Machine level" (theorems 9-14) lifts them to the event machine `RV.Exchange.step` — the
  whole call, with its dial, context, ticker, helper and read-error events — through the refinement
  `machine_refines_recvLoop`: in every run the machine's state is determined by `recvLoop` on the
  datagrams the machine actually read (`RV.Exchange.delivered`).
-/
import RV.Model.Client
import RV.Proofs.Client
import RV.Proofs.ClientRefine
namespace RV.C05
open RV RV.Client

variable (H : Hash) (cfg : Cfg) (wire secret : Bytes)

/-- what "unacceptable" means, spelled out: the datagram fails to parse, or verification is on and
    it fails to verify against the request actually sent -/
theorem unacceptable_iff (d : Bytes) :
    Spec.acceptable H cfg wire secret d = false ↔
      (∀ p, parse (readBuf d) secret ≠ .ok p) ∨
        (cfg.skipVerify = false ∧ isAuthenticResponse H (readBuf d) wire secret = false) := by
  exact RV.unacceptable_iff H cfg wire secret d

/-- 1. A returned packet is the parse of datagram `i`, and that datagram is authentic for `wire` and
    the secret — unless verification is disabled. -/
theorem returned_sound (hist : List Bytes) (i : Nat) (p : Packet)
    (h : recvLoop H cfg wire secret hist = .returned i p) :
    ∃ d, hist[i]? = some d ∧ parse (readBuf d) secret = .ok p ∧
      (cfg.skipVerify = true ∨ isAuthenticResponse H (readBuf d) wire secret = true) := by
  obtain ⟨k, d, hj, hk, hp, hv, _⟩ := loop_returned H cfg wire secret hist 0 0 i p h
  have : i = k := by omega
  subst this
  exact ⟨d, hk, hp, hv⟩

/-- 2. It is the FIRST such datagram: everything before it is unacceptable (garbage, truncations,
    replays of rejected datagrams, forgeries — whatever it is). -/
theorem returned_first (hist : List Bytes) (i : Nat) (p : Packet)
    (h : recvLoop H cfg wire secret hist = .returned i p) :
    ∀ j d, j < i → hist[j]? = some d → Spec.acceptable H cfg wire secret d = false := by
  obtain ⟨k, d, hj, _, _, _, hfirst⟩ := loop_returned H cfg wire secret hist 0 0 i p h
  have : i = k := by omega
  subst this
  exact hfirst

/-- 3. The call fails at datagram `i` with error `e` exactly when the budget is positive, datagram
    `i` and every datagram before it are unacceptable (so no acceptable datagram precedes it and it is
    the `(i+1)`-th unacceptable one), `i + 1 = MaxPacketErrors`, and `e` is datagram `i`'s own error
    class (its parse error, or NonAuthenticResponseError when it parses but does not verify). -/
theorem failed_iff (hist : List Bytes) (i : Nat) (e : ErrClass) :
    recvLoop H cfg wire secret hist = .failed i e ↔
      cfg.maxErrors > 0 ∧
      ∃ d, hist[i]? = some d ∧
        (∀ j d', j ≤ i → hist[j]? = some d' → Spec.acceptable H cfg wire secret d' = false) ∧
        (i : Int) + 1 = cfg.maxErrors ∧
        e = Spec.errClass secret d := by
  unfold recvLoop
  rw [loop_failed_iff]
  constructor
  · rintro ⟨k, d, hj, hk, hall, he, hm, hge, hlt⟩
    have : i = k := by omega
    subst this
    refine ⟨hm, d, hk, hall, ?_, he⟩
    cases i with
    | zero => omega
    | succ i' => have := hlt i' (by omega); omega
  · rintro ⟨hm, d, hk, hall, hi, he⟩
    exact ⟨i, d, by omega, hk, hall, he, hm, by omega, by intro k' hk'; omega⟩

/-- … in counting form: datagram `i` is the `MaxPacketErrors`-th unacceptable datagram of the history. -/
theorem failed_is_nth_unacceptable (hist : List Bytes) (i : Nat) (e : ErrClass)
    (h : recvLoop H cfg wire secret hist = .failed i e) :
    (((hist.take (i + 1)).countP (fun d => !Spec.acceptable H cfg wire secret d) : Nat) : Int) = cfg.maxErrors := by
  obtain ⟨_, d, hk, hall, hi, _⟩ := (failed_iff H cfg wire secret hist i e).1 h
  have hlt : i < hist.length := (List.getElem?_eq_some_iff.1 hk).1
  have hc : (hist.take (i + 1)).countP (fun d => !Spec.acceptable H cfg wire secret d) = (hist.take (i + 1)).length := by
    rw [List.countP_eq_length]
    intro x hx
    obtain ⟨n, hn, hxn⟩ := List.getElem_of_mem hx
    have hn' : n < i + 1 := by simp at hn; omega
    have : hist[n]? = some x := by
      rw [← hxn, List.getElem_take]
      exact List.getElem?_eq_getElem (by omega)
    simp [hall n x (by omega) this]
  rw [hc, List.length_take]
  omega

/-- 4. With a zero (or negative) budget the call never fails on account of bad datagrams, however
    many there are. -/
theorem zero_budget_never_fails (h0 : cfg.maxErrors ≤ 0) (hist : List Bytes) (i : Nat) (e : ErrClass) :
    recvLoop H cfg wire secret hist ≠ .failed i e := by
  intro h
  have := ((failed_iff H cfg wire secret hist i e).1 h).1
  omega

/-- 5. A datagram that does not verify is returned only when verification is explicitly disabled. -/
theorem skipVerify_only_way (hist : List Bytes) (i : Nat) (p : Packet) (d : Bytes)
    (h : recvLoop H cfg wire secret hist = .returned i p) (hd : hist[i]? = some d)
    (hna : isAuthenticResponse H (readBuf d) wire secret = false) :
    cfg.skipVerify = true := by
  obtain ⟨d', hd', _, hv⟩ := returned_sound H cfg wire secret hist i p h
  rw [hd] at hd'
  cases hd'
  rcases hv with hv | hv
  · exact hv
  · rw [hna] at hv; cases hv

/-- 6. The call is still waiting exactly when nothing acceptable has arrived and the budget is not
    exhausted. -/
theorem waiting_iff (hist : List Bytes) :
    recvLoop H cfg wire secret hist = .waiting ↔
      (∀ d, d ∈ hist → Spec.acceptable H cfg wire secret d = false) ∧
      (cfg.maxErrors > 0 → (hist.length : Int) < cfg.maxErrors) := by
  unfold recvLoop
  rw [loop_waiting_iff]
  constructor
  · rintro ⟨hall, hlt⟩
    refine ⟨hall, fun hm => ?_⟩
    cases hist with
    | nil => simpa using hm
    | cons d ds => have := hlt hm (by simp); omega
  · rintro ⟨hall, hlt⟩
    exact ⟨hall, fun hm _ => by have := hlt hm; omega⟩

/-- 7. Whatever follows a decision is never looked at (replays and late forgeries cannot change it). -/
theorem decided_is_final (hist more : List Bytes) (h : recvLoop H cfg wire secret hist ≠ .waiting) :
    recvLoop H cfg wire secret (hist ++ more) = recvLoop H cfg wire secret hist := by
  exact loop_stable H cfg wire secret hist more 0 0 h

/-- 8. The loop computes the outcome the statement describes (`Spec.outcome`, written without the
    loop and without a counter). -/
theorem recvLoop_eq_spec (hist : List Bytes) :
    recvLoop H cfg wire secret hist = Spec.outcome H cfg wire secret hist := by
  exact recvLoop_eq_outcome H cfg wire secret hist

/-! ### Machine level: the same about `RV.Exchange.step`, for EVERY event sequence

  `delivered H P evs` are the datagrams `conn.Read` handed to the receive loop during the run `evs`
  (a `datagram` event while the call is in the receive loop with its conn open; `datagram` events
  before the dial, on a conn the helper has closed, or after the return are no-ops of `step` and read
  nothing).  `P.wireBytes` is the byte string `Encode` produced, which is every byte string the call
  ever writes (C08 `resend_verbatim`): "the request actually sent". -/
section machine
open RV.Exchange
variable (P : Params)

/-- 9. REFINEMENT.  In every run, whatever the interleaving of dial results, ticks, context
    cancellation, helper scheduling, read errors and datagrams:
    * while dialing nothing has been read;
    * while the call waits, `recvLoop` on the datagrams read is still `.waiting` and the machine's
      `packetErrorCount` is their number;
    * when the call has returned `reply p`, the datagrams read are `pre ++ [d]`, the loop was still
      waiting after `pre` and returns `p` at `d` (index `pre.length`);
    * the call has returned the packet error `e` likewise with `.failed`;
    * with any other result (encode, dial, network, context error) the loop was still waiting. -/
theorem machine_refines_recvLoop (evs : List Event) :
    match (reach H P evs).phase with
    | .dialing => delivered H P evs = [] ∧ (reach H P evs).errCount = 0
    | .waiting =>
      recvLoop H P.cfg P.wireBytes P.secret (delivered H P evs) = .waiting ∧
        (reach H P evs).errCount = ((delivered H P evs).length : Int)
    | .returned (.reply p) =>
      ∃ pre d, delivered H P evs = pre ++ [d] ∧
        recvLoop H P.cfg P.wireBytes P.secret pre = .waiting ∧
        recvLoop H P.cfg P.wireBytes P.secret (delivered H P evs) = .returned pre.length p
    | .returned (.pktErr e) =>
      ∃ pre d, delivered H P evs = pre ++ [d] ∧
        recvLoop H P.cfg P.wireBytes P.secret pre = .waiting ∧
        recvLoop H P.cfg P.wireBytes P.secret (delivered H P evs) = .failed pre.length e
    | .returned _ => recvLoop H P.cfg P.wireBytes P.secret (delivered H P evs) = .waiting := by
  exact RV.Exchange.refines_reach H P evs

/-- … and the machine restricted to datagram events (after the dial) IS `recvLoop`. -/
theorem machine_on_datagrams_is_recvLoop (w : Bytes) (hw : P.wire = .ok w) (hist : List Bytes) :
    (reach H P (.dialOk :: hist.map .datagram)).phase =
      phaseOf (recvLoop H P.cfg P.wireBytes P.secret hist) := by
  have h0 : step H P (init P) .dialOk =
      { phase := .waiting, sent := [P.wireBytes], connClosed := false, helperAlive := true,
        ctxDone := false, errCount := 0 } := by
    simp only [init, hw]
    unfold step
    rfl
  unfold reach
  rw [RV.Exchange.run_cons, h0]
  exact RV.Exchange.run_datagrams H P _ hist 0 rfl rfl

/-- 10. If the call returns a packet `p` — in ANY run — then the datagrams it read are `pre ++ [d]`
    where: `p` is the parse of `d`; `d` is authentic for the request actually sent and the packet's
    secret, unless `InsecureSkipVerify`; every datagram read before `d` is unacceptable (so `d` is the
    FIRST acceptable datagram read); and with a positive `MaxPacketErrors` fewer than that many
    unacceptable datagrams were read before it.  The request was encoded and written (at least once),
    and everything written is that one byte string. -/
theorem exchange_reply_sound (evs : List Event) (p : Packet)
    (h : (reach H P evs).phase = .returned (.reply p)) :
    ∃ pre d, delivered H P evs = pre ++ [d] ∧
      parse (readBuf d) P.secret = .ok p ∧
      (P.cfg.skipVerify = true ∨ isAuthenticResponse H (readBuf d) P.wireBytes P.secret = true) ∧
      (∀ d', d' ∈ pre → Spec.acceptable H P.cfg P.wireBytes P.secret d' = false) ∧
      (P.cfg.maxErrors > 0 → (pre.length : Int) < P.cfg.maxErrors) ∧
      P.wire = .ok P.wireBytes ∧ (reach H P evs).sent ≠ [] ∧
      (∀ x, x ∈ (reach H P evs).sent → x = P.wireBytes) := by
  have href := RV.Exchange.refines_reach H P evs
  unfold RV.Exchange.Refines RV.Exchange.RefinesAt at href
  rw [h] at href
  obtain ⟨pre, d, hd, hpre, hret⟩ := href
  obtain ⟨d', hd', hp, hv⟩ := returned_sound H P.cfg P.wireBytes P.secret _ _ p hret
  have hdd : d' = d := by
    rw [hd] at hd'
    simpa using hd'.symm
  subst hdd
  obtain ⟨hall, hcnt⟩ := (waiting_iff H P.cfg P.wireBytes P.secret pre).1 hpre
  exact ⟨pre, d', hd, hp, hv, hall, hcnt,
    RV.Exchange.wire_ok_of_not_encodeErr H P evs (by rw [h]; simp),
    (RV.Exchange.sent_nonempty H P evs).2.1 p h,
    (RV.Exchange.inv_run H P evs).sent_wire⟩

/-- 11. If the call returns the packet error `e` then `MaxPacketErrors` is positive, exactly that many
    datagrams were read, every one of them unacceptable (the count has reached the budget, and did so
    at the last one), and `e` is the last one's own error (its parse error, or
    NonAuthenticResponseError when it parses but does not verify). -/
theorem exchange_pktErr_sound (evs : List Event) (e : ErrClass)
    (h : (reach H P evs).phase = .returned (.pktErr e)) :
    P.cfg.maxErrors > 0 ∧ ((delivered H P evs).length : Int) = P.cfg.maxErrors ∧
      (∀ d, d ∈ delivered H P evs → Spec.acceptable H P.cfg P.wireBytes P.secret d = false) ∧
      ∃ pre d, delivered H P evs = pre ++ [d] ∧ e = Spec.errClass P.secret d := by
  have href := RV.Exchange.refines_reach H P evs
  unfold RV.Exchange.Refines RV.Exchange.RefinesAt at href
  rw [h] at href
  obtain ⟨pre, d, hd, hpre, hf⟩ := href
  obtain ⟨hm, d', hd', hall, hi, he⟩ := (failed_iff H P.cfg P.wireBytes P.secret _ _ e).1 hf
  have hdd : d' = d := by
    rw [hd] at hd'
    simpa using hd'.symm
  subst hdd
  refine ⟨hm, by rw [hd]; simp; omega, ?_, pre, d', hd, he⟩
  intro x hx
  obtain ⟨n, hn, hxn⟩ := List.getElem_of_mem hx
  refine hall n x ?_ (by rw [← hxn]; exact List.getElem?_eq_getElem hn)
  rw [hd] at hn; simp at hn; omega

/-- 12. With `MaxPacketErrors ≤ 0` no run ever ends with a packet error, however many bad datagrams
    are read. -/
theorem exchange_zero_budget_never_pktErr (h0 : P.cfg.maxErrors ≤ 0) (evs : List Event) (e : ErrClass) :
    (reach H P evs).phase ≠ .returned (.pktErr e) := by
  intro h
  have := (exchange_pktErr_sound H P evs e h).1
  omega

/-- 13. While the call is still waiting, everything read so far was unacceptable, the machine's
    counter is the number of datagrams read, and a positive budget is not yet reached. -/
theorem exchange_waiting_sound (evs : List Event) (h : (reach H P evs).phase = .waiting) :
    (∀ d, d ∈ delivered H P evs → Spec.acceptable H P.cfg P.wireBytes P.secret d = false) ∧
    (reach H P evs).errCount = ((delivered H P evs).length : Int) ∧
    (P.cfg.maxErrors > 0 → ((delivered H P evs).length : Int) < P.cfg.maxErrors) := by
  have href := RV.Exchange.refines_reach H P evs
  unfold RV.Exchange.Refines RV.Exchange.RefinesAt at href
  rw [h] at href
  obtain ⟨hw, hc⟩ := href
  obtain ⟨hall, hcnt⟩ := (waiting_iff H P.cfg P.wireBytes P.secret _).1 hw
  exact ⟨hall, hc, hcnt⟩

/-- 14. "Exactly when": a datagram delivered to a waiting call with an open conn ends the call with the
    reply if it is acceptable; otherwise it is counted, and the call fails — with that datagram's
    error — iff the budget is positive and the count has now reached it; otherwise it keeps waiting. -/
theorem exchange_on_delivery (pre : List Event) (d : Bytes)
    (hw : (reach H P pre).phase = .waiting) (hc : (reach H P pre).connClosed = false) :
    delivered H P (pre ++ [.datagram d]) = delivered H P pre ++ [d] ∧
    (Spec.acceptable H P.cfg P.wireBytes P.secret d = true →
      ∃ p, parse (readBuf d) P.secret = .ok p ∧
        (reach H P (pre ++ [.datagram d])).phase = .returned (.reply p)) ∧
    (Spec.acceptable H P.cfg P.wireBytes P.secret d = false →
      (reach H P (pre ++ [.datagram d])).phase =
        if P.cfg.maxErrors > 0 ∧ ((delivered H P pre).length : Int) + 1 ≥ P.cfg.maxErrors
        then .returned (.pktErr (Spec.errClass P.secret d)) else .waiting) := by
  obtain ⟨_, hcnt, _⟩ := exchange_waiting_sound H P pre hw
  have hstep : reach H P (pre ++ [.datagram d]) = step H P (reach H P pre) (.datagram d) := by
    rw [RV.Exchange.reach_append]; rfl
  have hdel : delivered H P (pre ++ [.datagram d]) = delivered H P pre ++ [d] := by
    have key : ∀ (s : State) (a b : List Event),
        deliveredFrom H P s (a ++ b) = deliveredFrom H P s a ++ deliveredFrom H P (run H P s a) b := by
      intro s a b
      induction a generalizing s with
      | nil => simp [deliveredFrom, RV.Exchange.run_nil]
      | cons x xs ih => simp [deliveredFrom, RV.Exchange.run_cons, ih, List.append_assoc]
    unfold delivered
    rw [key]
    have : deliveredFrom H P (run H P (init P) pre) [.datagram d] = [d] := by
      have hw' : (run H P (init P) pre).phase = .waiting := hw
      have hc' : (run H P (init P) pre).connClosed = false := hc
      simp [deliveredFrom, deliveredBy, hw', hc']
    rw [this]
  refine ⟨hdel, ?_, ?_⟩
  · intro ha
    obtain ⟨p, hs, hp⟩ := step_of_acceptable H P.cfg P.wireBytes P.secret (reach H P pre).errCount d ha
    refine ⟨p, hp, ?_⟩
    rw [hstep, RV.Exchange.step_datagram_open H P _ d hw hc, hs]
    rfl
  · intro ha
    rw [hstep, RV.Exchange.step_datagram_open H P _ d hw hc,
      step_of_unacceptable H P.cfg P.wireBytes P.secret _ d ha, hcnt]
    by_cases hb : P.cfg.maxErrors > 0 ∧ ((delivered H P pre).length : Int) + 1 ≥ P.cfg.maxErrors
    · rw [if_pos hb, if_pos ((budgetReached_iff P.cfg _).2 hb)]
      rfl
    · rw [if_neg hb]
      have : ¬ budgetReached P.cfg (((delivered H P pre).length : Int) + 1) = true :=
        fun hbr => hb ((budgetReached_iff P.cfg _).1 hbr)
      rw [if_neg this]
      exact hw

/-! ### The parameters ARE the packet (second audit, finding 12)

`Params.wire` and `Params.secret` are free fields of the machine; the call `c.Exchange(ctx, packet, addr)` fixes them:
the wire bytes are `packet.Encode()` and the secret is `packet.Secret` (client.go:51-54, :120).  `Params.ofPacket` is how the
drivers build their `Params`; the theorem restates soundness for "the request actually sent and the packet's secret". -/

/-- the machine's parameters for `c.Exchange(ctx, pk, addr)` (`Params.ofPacket`, which the drivers use) -/
abbrev paramsOf (cfg : Cfg) (retry : Int) (pk : Packet) : Params := Params.ofPacket H cfg retry pk

/-- Exchange returns a packet only if it is the parse of a datagram that carries a valid response authenticator for
    the ENCODING OF THE PACKET IT WAS GIVEN, under THAT PACKET'S secret (unless verification is disabled) - and that
    encoding is the only thing it ever wrote -/
theorem exchange_reply_authentic_for_the_packet_given (cfg : Cfg) (retry : Int) (pk : Packet) (evs : List Event) (p : Packet)
    (h : (reach H (paramsOf H cfg retry pk) evs).phase = .returned (.reply p)) :
    ∃ w pre d, encode H pk = .ok w ∧ delivered H (paramsOf H cfg retry pk) evs = pre ++ [d] ∧
      parse (readBuf d) pk.secret = .ok p ∧
      (cfg.skipVerify = true ∨ isAuthenticResponse H (readBuf d) w pk.secret = true) ∧
      (∀ d', d' ∈ pre → Spec.acceptable H cfg w pk.secret d' = false) ∧
      (∀ x, x ∈ (reach H (paramsOf H cfg retry pk) evs).sent → x = w) := by
  obtain ⟨pre, d, hd, hp, hv, hpre, _, hw, _, hs⟩ := exchange_reply_sound H (paramsOf H cfg retry pk) evs p h
  exact ⟨_, pre, d, hw, hd, hp, hv, hpre, hs⟩

-- (a packet `Encode` refuses is never sent and never answered: `C08.encode_error_returns_first`)

end machine

/-! ### Non-vacuity (tests, evaluated by the kernel on a toy hash) -/
section examples

/-- a 16-byte "hash": the first sixteen input bytes, zero padded -/
def toyH : Hash := fun x => (x ++ zeros 16).take 16

/-- request: Access-Request id 7, authenticator 1..16, no attributes -/
def reqWire : Bytes := [1, 7, 0, 20, 1, 2, 3, 4, 5, 6, 7, 8, 9, 10, 11, 12, 13, 14, 15, 16]
/-- Access-Accept id 7 whose authenticator is `toyH (hdr ++ reqauth ++ secret)` = hdr ++ first 12 bytes of the request authenticator -/
def goodReply : Bytes := [2, 7, 0, 20, 2, 7, 0, 20, 1, 2, 3, 4, 5, 6, 7, 8, 9, 10, 11, 12]
def forged : Bytes := [2, 7, 0, 20, 0, 0, 0, 0, 0, 0, 0, 0, 0, 0, 0, 0, 0, 0, 0, 0]
def garbage : Bytes := [1, 2, 3]

def returnedAt (o : Outcome) (i : Nat) : Bool :=
  match o with
  | .returned j _ => j == i
  | _ => false

/-- garbage and a forgery precede the genuine reply: datagram 2 is returned -/
example : returnedAt (recvLoop toyH ⟨0, false⟩ reqWire [115] [garbage, forged, goodReply, forged]) 2 = true := by
  decide +kernel
/-- budget 2: the second bad datagram ends the call with its own error -/
example : recvLoop toyH ⟨2, false⟩ reqWire [115] [garbage, forged, goodReply] = .failed 1 .nonAuthentic := by
  decide +kernel
example : recvLoop toyH ⟨1, false⟩ reqWire [115] [garbage, forged, goodReply] = .failed 0 .parseErr := by
  decide +kernel
/-- budget 3 is not reached before the genuine reply -/
example : returnedAt (recvLoop toyH ⟨3, false⟩ reqWire [115] [garbage, forged, goodReply]) 2 = true := by
  decide +kernel
/-- verification disabled: the forgery is returned -/
example : returnedAt (recvLoop toyH ⟨0, true⟩ reqWire [115] [garbage, forged, goodReply]) 1 = true := by
  decide +kernel
/-- nothing acceptable, zero (or negative) budget: still waiting -/
example : recvLoop toyH ⟨0, false⟩ reqWire [115] [garbage, forged, garbage, forged] = .waiting := by
  decide +kernel
example : recvLoop toyH ⟨-1, false⟩ reqWire [115] [garbage, forged, garbage, forged] = .waiting := by
  decide +kernel

/-- machine level: the same histories, interleaved with ticks, a context cancellation and a datagram
    on a conn the helper has already closed -/
def PM (maxErr : Int) (skip : Bool) : RV.Exchange.Params := ⟨⟨maxErr, skip⟩, 5, .ok reqWire, [115]⟩
open RV.Exchange in
example : delivered toyH (PM 0 false)
    [.datagram forged, .dialOk, .datagram garbage, .tick, .datagram forged, .ctxDone, .datagram goodReply,
     .datagram forged] = [garbage, forged, goodReply] := by
  decide +kernel
open RV.Exchange in
example : (reach toyH (PM 0 false)
    [.datagram forged, .dialOk, .datagram garbage, .tick, .datagram forged, .ctxDone, .datagram goodReply,
     .datagram forged]).phase =
    phaseOf (recvLoop toyH ⟨0, false⟩ reqWire [115] [garbage, forged, goodReply]) := by
  decide +kernel
open RV.Exchange in
example : (reach toyH (PM 2 false) [.dialOk, .datagram garbage, .tick, .datagram forged, .datagram goodReply]).phase =
    .returned (.pktErr .nonAuthentic) := by
  decide +kernel
open RV.Exchange in
/-- the helper closed the conn: the genuine reply is not read; the read error returns the context's error -/
example : delivered toyH (PM 0 false) [.dialOk, .ctxDone, .helperObservesCtx, .datagram goodReply, .readError] = [] ∧
    (reach toyH (PM 0 false) [.dialOk, .ctxDone, .helperObservesCtx, .datagram goodReply, .readError]).phase =
      .returned .ctxErr := by
  decide +kernel

end examples
end RV.C05
