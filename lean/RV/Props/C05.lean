/-
  C05 — Exchange returns a packet only if the datagram it was parsed from carries a valid response
  authenticator for the request actually sent and the packet's secret (unless verification is
  explicitly disabled), and the packet returned is the parse of the first such datagram whatever
  garbage, truncations, replays or forgeries precede it.  Datagrams that fail to parse or to verify are
  skipped; the call fails with that datagram's error exactly when their count reaches a positive
  MaxPacketErrors, and never on their account when it is zero.

  All theorems are about `RV.Client.recvLoop` (client.go:97-129 as a fold over the history of
  datagrams read), hold for every hash `H`, every request datagram `wire`, every secret, every
  configuration (including negative `MaxPacketErrors`) and every history of ANY length (induction over
  the history).  "Datagram" means the datagram as the loop sees it: its first 4096 bytes (`readBuf`).
  "Authentic" is `RV.isAuthenticResponse H` (equal to the RFC formula by C03.isAuthenticResponse_iff).
-/
import RV.Model.Client
import RV.Proofs.Client
namespace RV.C05
open RV RV.Client

variable (H : Hash) (cfg : Cfg) (wire secret : Bytes)

/-- what "unacceptable" means, spelled out: the datagram fails to parse, or verification is on and
    it fails to verify against the request actually sent -/
theorem unacceptable_iff (d : Bytes) :
    Spec.acceptable H cfg wire secret d = false ↔
      (∀ p, parse (readBuf d) secret ≠ .ok p) ∨
        (cfg.skipVerify = false ∧ isAuthenticResponse H (readBuf d) wire secret = false) := by
  exact RV.unacceptable_iff H cfg wire secret d

/-- 1. A returned packet is the parse of datagram `i`, and that datagram is authentic for `wire` and
    the secret — unless verification is disabled. -/
theorem returned_sound (hist : List Bytes) (i : Nat) (p : Packet)
    (h : recvLoop H cfg wire secret hist = .returned i p) :
    ∃ d, hist[i]? = some d ∧ parse (readBuf d) secret = .ok p ∧
      (cfg.skipVerify = true ∨ isAuthenticResponse H (readBuf d) wire secret = true) := by
  obtain ⟨k, d, hj, hk, hp, hv, _⟩ := loop_returned H cfg wire secret hist 0 0 i p h
  have : i = k := by omega
  subst this
  exact ⟨d, hk, hp, hv⟩

/-- 2. It is the FIRST such datagram: everything before it is unacceptable (garbage, truncations,
    replays of rejected datagrams, forgeries — whatever it is). -/
theorem returned_first (hist : List Bytes) (i : Nat) (p : Packet)
    (h : recvLoop H cfg wire secret hist = .returned i p) :
    ∀ j d, j < i → hist[j]? = some d → Spec.acceptable H cfg wire secret d = false := by
  obtain ⟨k, d, hj, _, _, _, hfirst⟩ := loop_returned H cfg wire secret hist 0 0 i p h
  have : i = k := by omega
  subst this
  exact hfirst

/-- 3. The call fails at datagram `i` with error `e` exactly when the budget is positive, datagram
    `i` and every datagram before it are unacceptable (so no acceptable datagram precedes it and it is
    the `(i+1)`-th unacceptable one), `i + 1 = MaxPacketErrors`, and `e` is datagram `i`'s own error
    class (its parse error, or NonAuthenticResponseError when it parses but does not verify). -/
theorem failed_iff (hist : List Bytes) (i : Nat) (e : ErrClass) :
    recvLoop H cfg wire secret hist = .failed i e ↔
      cfg.maxErrors > 0 ∧
      ∃ d, hist[i]? = some d ∧
        (∀ j d', j ≤ i → hist[j]? = some d' → Spec.acceptable H cfg wire secret d' = false) ∧
        (i : Int) + 1 = cfg.maxErrors ∧
        e = Spec.errClass secret d := by
  unfold recvLoop
  rw [loop_failed_iff]
  constructor
  · rintro ⟨k, d, hj, hk, hall, he, hm, hge, hlt⟩
    have : i = k := by omega
    subst this
    refine ⟨hm, d, hk, hall, ?_, he⟩
    cases i with
    | zero => omega
    | succ i' => have := hlt i' (by omega); omega
  · rintro ⟨hm, d, hk, hall, hi, he⟩
    exact ⟨i, d, by omega, hk, hall, he, hm, by omega, by intro k' hk'; omega⟩

/-- … in counting form: datagram `i` is the `MaxPacketErrors`-th unacceptable datagram of the history. -/
theorem failed_is_nth_unacceptable (hist : List Bytes) (i : Nat) (e : ErrClass)
    (h : recvLoop H cfg wire secret hist = .failed i e) :
    (((hist.take (i + 1)).countP (fun d => !Spec.acceptable H cfg wire secret d) : Nat) : Int) = cfg.maxErrors := by
  obtain ⟨_, d, hk, hall, hi, _⟩ := (failed_iff H cfg wire secret hist i e).1 h
  have hlt : i < hist.length := (List.getElem?_eq_some_iff.1 hk).1
  have hc : (hist.take (i + 1)).countP (fun d => !Spec.acceptable H cfg wire secret d) = (hist.take (i + 1)).length := by
    rw [List.countP_eq_length]
    intro x hx
    obtain ⟨n, hn, hxn⟩ := List.getElem_of_mem hx
    have hn' : n < i + 1 := by simp at hn; omega
    have : hist[n]? = some x := by
      rw [← hxn, List.getElem_take]
      exact List.getElem?_eq_getElem (by omega)
    simp [hall n x (by omega) this]
  rw [hc, List.length_take]
  omega

/-- 4. With a zero (or negative) budget the call never fails on account of bad datagrams, however
    many there are. -/
theorem zero_budget_never_fails (h0 : cfg.maxErrors ≤ 0) (hist : List Bytes) (i : Nat) (e : ErrClass) :
    recvLoop H cfg wire secret hist ≠ .failed i e := by
  intro h
  have := ((failed_iff H cfg wire secret hist i e).1 h).1
  omega

/-- 5. A datagram that does not verify is returned only when verification is explicitly disabled. -/
theorem skipVerify_only_way (hist : List Bytes) (i : Nat) (p : Packet) (d : Bytes)
    (h : recvLoop H cfg wire secret hist = .returned i p) (hd : hist[i]? = some d)
    (hna : isAuthenticResponse H (readBuf d) wire secret = false) :
    cfg.skipVerify = true := by
  obtain ⟨d', hd', _, hv⟩ := returned_sound H cfg wire secret hist i p h
  rw [hd] at hd'
  cases hd'
  rcases hv with hv | hv
  · exact hv
  · rw [hna] at hv; cases hv

/-- 6. The call is still waiting exactly when nothing acceptable has arrived and the budget is not
    exhausted. -/
theorem waiting_iff (hist : List Bytes) :
    recvLoop H cfg wire secret hist = .waiting ↔
      (∀ d, d ∈ hist → Spec.acceptable H cfg wire secret d = false) ∧
      (cfg.maxErrors > 0 → (hist.length : Int) < cfg.maxErrors) := by
  unfold recvLoop
  rw [loop_waiting_iff]
  constructor
  · rintro ⟨hall, hlt⟩
    refine ⟨hall, fun hm => ?_⟩
    cases hist with
    | nil => simpa using hm
    | cons d ds => have := hlt hm (by simp); omega
  · rintro ⟨hall, hlt⟩
    exact ⟨hall, fun hm _ => by have := hlt hm; omega⟩

/-- 7. Whatever follows a decision is never looked at (replays and late forgeries cannot change it). -/
theorem decided_is_final (hist more : List Bytes) (h : recvLoop H cfg wire secret hist ≠ .waiting) :
    recvLoop H cfg wire secret (hist ++ more) = recvLoop H cfg wire secret hist := by
  exact loop_stable H cfg wire secret hist more 0 0 h

/-- 8. The loop computes the outcome the statement describes (`Spec.outcome`, written without the
    loop and without a counter). -/
theorem recvLoop_eq_spec (hist : List Bytes) :
    recvLoop H cfg wire secret hist = Spec.outcome H cfg wire secret hist := by
  exact recvLoop_eq_outcome H cfg wire secret hist

/-! ### Non-vacuity (tests, evaluated by the kernel on a toy hash) -/
section examples

/-- a 16-byte "hash": the first sixteen input bytes, zero padded -/
def toyH : Hash := fun x => (x ++ zeros 16).take 16

/-- request: Access-Request id 7, authenticator 1..16, no attributes -/
def reqWire : Bytes := [1, 7, 0, 20, 1, 2, 3, 4, 5, 6, 7, 8, 9, 10, 11, 12, 13, 14, 15, 16]
/-- Access-Accept id 7 whose authenticator is `toyH (hdr ++ reqauth ++ secret)` = hdr ++ first 12 bytes of the request authenticator -/
def goodReply : Bytes := [2, 7, 0, 20, 2, 7, 0, 20, 1, 2, 3, 4, 5, 6, 7, 8, 9, 10, 11, 12]
def forged : Bytes := [2, 7, 0, 20, 0, 0, 0, 0, 0, 0, 0, 0, 0, 0, 0, 0, 0, 0, 0, 0]
def garbage : Bytes := [1, 2, 3]

def returnedAt (o : Outcome) (i : Nat) : Bool :=
  match o with
  | .returned j _ => j == i
  | _ => false

/-- garbage and a forgery precede the genuine reply: datagram 2 is returned -/
example : returnedAt (recvLoop toyH ⟨0, false⟩ reqWire [115] [garbage, forged, goodReply, forged]) 2 = true := by
  decide +kernel
/-- budget 2: the second bad datagram ends the call with its own error -/
example : recvLoop toyH ⟨2, false⟩ reqWire [115] [garbage, forged, goodReply] = .failed 1 .nonAuthentic := by
  decide +kernel
example : recvLoop toyH ⟨1, false⟩ reqWire [115] [garbage, forged, goodReply] = .failed 0 .parseErr := by
  decide +kernel
/-- budget 3 is not reached before the genuine reply -/
example : returnedAt (recvLoop toyH ⟨3, false⟩ reqWire [115] [garbage, forged, goodReply]) 2 = true := by
  decide +kernel
/-- verification disabled: the forgery is returned -/
example : returnedAt (recvLoop toyH ⟨0, true⟩ reqWire [115] [garbage, forged, goodReply]) 1 = true := by
  decide +kernel
/-- nothing acceptable, zero (or negative) budget: still waiting -/
example : recvLoop toyH ⟨0, false⟩ reqWire [115] [garbage, forged, garbage, forged] = .waiting := by
  decide +kernel
example : recvLoop toyH ⟨-1, false⟩ reqWire [115] [garbage, forged, garbage, forged] = .waiting := by
  decide +kernel

end examples
end RV.C05
