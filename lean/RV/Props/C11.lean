/-
  C11 — Tunnel-Password salt encryption conforms to RFC 2868 §3.5, fits, and round-trips.
  For an arbitrary hash `H` with 16-byte output.
-/
import RV.Model.Password
import RV.Proofs.Password
namespace RV.C11
open RV

/-- NewTunnelPassword accepts exactly: password of at most 239 bytes (the largest that fits), a
    2-byte salt with the high bit set, a non-empty secret and a 16-byte authenticator. -/
theorem new_ok_iff (H : Hash) (pw salt secret ra : Bytes) :
    (∃ a, newTunnelPassword H pw salt secret ra = .ok a) ↔
      pw.length ≤ 239 ∧ salt.length = 2 ∧ 128 ≤ (salt.getD 0 0).toNat ∧ secret ≠ [] ∧ ra.length = 16 :=
  newTunnelPassword_ok_iff H pw salt secret ra

theorem new_never_faults (H : Hash) (pw salt secret ra : Bytes) :
    newTunnelPassword H pw salt secret ra ≠ .fault :=
  newTunnelPassword_ne_fault H pw salt secret ra

/-- It emits exactly the RFC 2868 §3.5 encoding: salt, then the chained xor blocks over the
    length-prefixed, zero-padded password. -/
theorem new_eq_rfc (H : Hash) (hH : ∀ x, (H x).length = 16) (pw salt secret ra a : Bytes)
    (h : newTunnelPassword H pw salt secret ra = .ok a) :
    a = Rfc2868.tunnelPasswordCipher H pw salt secret ra := by
  have _ := hH  -- not needed: the correspondence holds for any `H`
  exact newTunnelPassword_eq_rfc H pw salt secret ra a h

/-- The result together with a tag byte fits in one attribute (253 octets). -/
theorem fits (H : Hash) (hH : ∀ x, (H x).length = 16) (pw salt secret ra a : Bytes)
    (h : newTunnelPassword H pw salt secret ra = .ok a) :
    a.length + 1 ≤ 253 ∧ a.length = 2 + 16 * ((1 + pw.length + 15) / 16) := by
  have hl := newTunnelPassword_length H hH pw salt secret ra a h
  have hp := (newTunnelPassword_ok H pw salt secret ra a h).1
  exact ⟨by omega, hl⟩

/-- "Too long to fit" is exact: a 240-byte password could not fit (2 + 16·16 + 1 > 253). -/
theorem limit_is_tight : 2 + 16 * ((1 + 239 + 15) / 16) + 1 ≤ 253 ∧ ¬ (2 + 16 * ((1 + 240 + 15) / 16) + 1 ≤ 253) := by
  decide

/-- Round trip: same secret and authenticator ⇒ same password and salt. -/
theorem roundtrip (H : Hash) (hH : ∀ x, (H x).length = 16) (pw salt secret ra a : Bytes)
    (h : newTunnelPassword H pw salt secret ra = .ok a) :
    tunnelPassword H a secret ra = .ok (pw, salt) :=
  tunnelPassword_roundtrip H hH pw salt secret ra a h

/-- Decryption accepts exactly: length 2+16k (k ≥ 1) within an attribute, non-empty secret, 16-byte
    authenticator, salt high bit, and an embedded length that does not exceed the data. -/
theorem dec_ok_iff (H : Hash) (hH : ∀ x, (H x).length = 16) (a secret ra : Bytes) :
    (∃ r, tunnelPassword H a secret ra = .ok r) ↔
      18 ≤ a.length ∧ a.length ≤ 252 ∧ (a.length - 2) % 16 = 0 ∧ secret ≠ [] ∧ ra.length = 16 ∧
      128 ≤ (a.getD 0 0).toNat ∧
      ((tpDecLoop H secret (ra ++ a.take 2) (a.drop 2)).getD 0 0).toNat ≤ a.length - 2 - 1 :=
  tunnelPassword_ok_iff H hH a secret ra

theorem dec_never_faults (H : Hash) (a secret ra : Bytes) : tunnelPassword H a secret ra ≠ .fault :=
  tunnelPassword_ne_fault H a secret ra

/-! Non-vacuity (test) -/
example : ∃ a, newTunnelPassword (fun _ => zeros 16) [1, 2, 3] [0x80, 1] [9] (zeros 16) = .ok a := by
  exact (newTunnelPassword_ok_iff _ _ _ _ _).mpr ⟨by decide, by decide, by decide, by decide, by decide⟩

end RV.C11
