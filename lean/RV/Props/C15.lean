/-
  C15 — Dictionary include walk.
  "Parsing any dictionary text over any include graph terminates and returns either a dictionary or
   an error, never panicking or recursing without bound; every $INCLUDE cycle - whether or not it
   passes through the root file - is reported as a ParseError carrying a RecursiveIncludeError,
   while acyclic graphs, including diamonds and repeated includes of one file, are not.  Every file
   opened for an include is closed, and a ParseError names the file and the 1-based line of the
   offending directive."

  The model (RV.Model.DictParser) has both include rules: `parseFileFix` (fix #10 applied: the
  names of all files being parsed are on the path; total by well-founded recursion, no fuel) and
  `parseFileCur` (the code as found: only the root's name is ever in `parsedFiles`; needs fuel).
  `Cfg.tree.includePath` selects which one `parseFile` runs.
-/
import RV.Model.DictParser
import RV.Proofs.DictInclude
namespace RV.C15
open RV RV.Dict RV.DictParser

/- `OpensClosed` (every `opened n` of the log is followed by a `closed n`), the names `nmRoot`, `nmA`,
   `nmB`, `inc` and the example file systems `fsNonRootCycle`, `fsRootCycle`, `fsDiamond` are defined
   in RV.Proofs.DictInclude (namespace RV.C15), because the helper lemmas mention them. -/

/-! ### Termination of the repaired rule: no fuel, on every finite file system -/

/-- the measure that makes `parseFileFix` a total function: each nested `$INCLUDE` of a file that
    exists and is not on the path strictly decreases the number of files not on the path -/
theorem include_measure_decreases (fs : FS) (path : List Bytes) (name t : Bytes)
    (h : fs.lookup name = some t) (hp : ¬ name ∈ path) : unvisited fs (name :: path) < unvisited fs path :=
  unvisited_lt fs path name t h hp

/-- the repaired parser never produces the `outOfFuel` outcome: it always returns a dictionary or an error -/
theorem fixed_never_out_of_fuel (cfg : Cfg) (ign : Bool) (fs : FS) (root : Bytes) (h : cfg.includePath = true) :
    (parseFile cfg ign fs root).1 ≠ some .outOfFuel :=
  parseFile_fix_ne_outOfFuel cfg ign fs root h

/-! ### Cycles -/

/-- the `$INCLUDE` closure: a file that exists and is on the path (`parsedFiles`) is reported as
    RecursiveInclude at the including file and line, and is closed -/
theorem include_on_path_reported (fs : FS) (onPath : Bytes → Bool)
    (recur : (name t : Bytes) → fs.lookup name = some t → onPath name = false → St → Result)
    (name t file : Bytes) (lineNo : Nat) (st : St) (h : fs.lookup name = some t) (hp : onPath name = true) :
    includeWith fs onPath recur name file lineNo st
      = (some (.recursive file lineNo name), (st.opened name).closed name) :=
  includeWith_onPath fs onPath recur name t file lineNo st h hp

/-- (repaired) a successful parse means that no include cycle is reachable from the root:
    every reachable cycle makes the parse fail -/
theorem ok_implies_acyclic (cfg : Cfg) (ign : Bool) (fs : FS) (root : Bytes) (h : cfg.includePath = true)
    (hok : (parseFile cfg ign fs root).1 = none) : ¬ HasCycle fs root :=
  parseFile_ok_acyclic cfg ign fs root h hok

/-- (repaired) a reported RecursiveInclude is a real cycle: the reported file `f` includes `n` at
    a `$INCLUDE` line, `n` leads back to `f`, and `f` is the root or reachable from it -/
theorem cycle_reported (cfg : Cfg) (ign : Bool) (fs : FS) (root f n : Bytes) (l : Nat) (h : cfg.includePath = true)
    (hr : (parseFile cfg ign fs root).1 = some (.recursive f l n)) :
    Includes fs f n ∧ (n = f ∨ Reaches fs n f) ∧ (f = root ∨ Reaches fs root f) :=
  parseFile_recursive_real cfg ign fs root f n l h hr

/-- (repaired) acyclic include graphs - diamonds and repeated includes of one file included - are
    never reported as recursive -/
theorem acyclic_not_reported (cfg : Cfg) (ign : Bool) (fs : FS) (root : Bytes) (h : cfg.includePath = true)
    (hac : ¬ HasCycle fs root) (f n : Bytes) (l : Nat) :
    (parseFile cfg ign fs root).1 ≠ some (.recursive f l n) :=
  parseFile_acyclic_not_recursive cfg ign fs root h hac f n l

/-! ### Every opened file is closed; errors name file and 1-based line (both include rules, any fuel) -/

theorem opens_closed (cfg : Cfg) (ign : Bool) (fs : FS) (root : Bytes) :
    OpensClosed (parseFile cfg ign fs root).2.log :=
  parseFile_opensClosed cfg ign fs root

/-- also for the current rule at every fuel, from any balanced starting log -/
theorem opens_closed_current (cfg : Cfg) (ign : Bool) (fs : FS) (root file text : Bytes) (fuel : Nat) :
    OpensClosed (parseFileCur cfg ign fs root fuel file text {}).2.log :=
  parseFileCur_opensClosed cfg ign fs root file text fuel

/-- a ParseError names a file that was parsed and a line of it, counted from 1 -/
theorem error_line_1_based (cfg : Cfg) (ign : Bool) (fs : FS) (root : Bytes) (e : Failure)
    (he : (parseFile cfg ign fs root).1 = some e) :
    match e with
    | .decl _ f l | .openErr f l _ | .recursive f l _ =>
        ∃ t, fs.lookup f = some t ∧ 1 ≤ l ∧ l ≤ (Lex.lines t).1.length
    | _ => True :=
  parseFile_error_line cfg ign fs root e he

/-! ### The current rule (History: `Cfg.current.includePath = false`, the code before fix #10) -/

/-- defect #10: on a cycle that does not pass through the root the current rule never stops:
    whatever the fuel, it is exhausted -/
theorem nonroot_cycle_diverges (cfg : Cfg) (ign : Bool) (fuel : Nat) :
    (parseFileCur cfg ign fsNonRootCycle nmRoot fuel nmRoot (inc nmA) {}).1 = some .outOfFuel :=
  nonroot_cycle_diverges' cfg ign fuel

/-- the same at the level of `ParseFile` with the cap the harness uses -/
theorem nonroot_cycle_depth_exceeded (ign : Bool) :
    (parseFile Cfg.current ign fsNonRootCycle nmRoot).1 = some .outOfFuel :=
  parseFile_current_nonroot ign

/-- a cycle through the root is reported by the current rule (at `a`, line 1) -/
theorem root_cycle_reported (cfg : Cfg) (ign : Bool) (fuel : Nat) :
    (parseFileCur cfg ign fsRootCycle nmRoot (fuel + 2) nmRoot (inc nmA) {}).1 = some (.recursive nmA 1 nmRoot) :=
  root_cycle_reported' cfg ign fuel

/-- the repaired rule reports the non-root cycle: `b` line 1 includes `a`, which is on the path -/
theorem nonroot_cycle_reported_fixed (ign : Bool) :
    (parseFile Cfg.repaired ign fsNonRootCycle nmRoot).1 = some (.recursive nmB 1 nmA) :=
  nonroot_cycle_fixed ign

/-! ### Non-vacuity -/

example : ¬ HasCycle fsDiamond nmRoot := fsDiamond_acyclic
example : (parseFile Cfg.repaired false fsDiamond nmRoot).1 = none := fsDiamond_ok
example : HasCycle fsNonRootCycle nmRoot := fsNonRootCycle_cyclic

end RV.C15
