/-
  C15 — Dictionary include walk.
  "Parsing any dictionary text over any include graph terminates and returns either a dictionary or
   an error, never panicking or recursing without bound; every $INCLUDE cycle - whether or not it
   passes through the root file - is reported as a ParseError carrying a RecursiveIncludeError,
   while acyclic graphs, including diamonds and repeated includes of one file, are not.  Every file
   opened for an include is closed, and a ParseError names the file and the 1-based line of the
   offending directive."

  The model (RV.Model.DictParser) has both include rules: `parseFileFix` (fix #10 applied: the
  names of all files being parsed are on the path; total by well-founded recursion, no fuel) and
  `parseFileCur` (the code as found: only the root's name is ever in `parsedFiles`; needs fuel).
  `Cfg.tree.includePath` selects which one `parseFile` runs.

  HOW "EVERY CYCLE IS REPORTED" IS TO BE READ.  A parse stops at its FIRST fault, in depth-first,
  line order.  A cycle that lies behind an earlier fault (a refused line, a missing file) is never
  reached, and the report is then that earlier fault, not a RecursiveIncludeError (example
  `fsBadThenCycle` below).  What holds, and is proved in the section "Completeness", is: the outcome
  of the repaired parser is EXACTLY the first fault of the walk `Walk` (a specification that does
  not mention the parser's include closure); it is a RecursiveIncludeError iff that first fault is a
  `$INCLUDE` of a file on the current include path; a graph with a reachable cycle is never
  accepted; and on pure include graphs (nothing but `$INCLUDE`s of existing files: there is no other
  fault to meet) RecursiveIncludeError is reported iff a cycle is reachable from the root.

  FILE IDENTITY (documented assumption).  The model identifies a file with the `$INCLUDE` argument
  string: `FS.lookup name`, and the include path / `parsedFiles` holds these strings.  parser.go
  (lines 216-217) instead looks up `incFile.Name()` of the OPENED handle in `parsedFiles`, and
  `Parse` (line 47-49) seeds the set with `f.Name()` of the root.  Every theorem of this file
  therefore carries the hypothesis
      for every file the opener returns, `Name()` = the name it was requested under
  (and `ParseFile`'s root likewise).  This is true of the harness's in-memory opener.  It is NOT
  true of `FileSystemOpener`: there `Name()` is the absolute joined path, so
    * two spellings of one path that `filepath.Join` / `filepath.Abs` normalise to the same string
      (`a`, `./a`, `x/../a`) are ONE file for Go but two files for the model: Go reports a cycle
      through them, the model (on these strings) would not;
    * conversely Go's check is purely by that name: a cycle through a symbolic link or a hard link
      (two names, one inode) is not detected by Go either, and RecursiveIncludeError.Filename is
      `Name()`, not the argument.
  For such openers the theorems apply to the graph whose vertices are the `Name()` strings, provided
  the opener is a function of them; nothing is claimed about inode identity.
-/
import RV.Model.DictParser
import RV.Proofs.DictInclude
import RV.Proofs.DictWalk
import RV.Proofs.DictGuards
import RV.Proofs.DictIO
namespace RV.C15
open RV RV.Dict RV.DictParser

/- `OpensClosed` (every `opened n` of the log is followed by a `closed n`), the names `nmRoot`, `nmA`,
   `nmB`, `inc` and the example file systems `fsNonRootCycle`, `fsRootCycle`, `fsDiamond` are defined
   in RV.Proofs.DictInclude (namespace RV.C15), because the helper lemmas mention them. -/

/-! ### Termination of the repaired rule: no fuel, on every finite file system -/

/-- the measure that makes `parseFileFix` a total function: each nested `$INCLUDE` of a file that
    exists and is not on the path strictly decreases the number of files not on the path -/
theorem include_measure_decreases (fs : FS) (path : List Bytes) (name t : Bytes)
    (h : fs.lookup name = some t) (hp : ¬ name ∈ path) : unvisited fs (name :: path) < unvisited fs path :=
  unvisited_lt fs path name t h hp

/-- the repaired parser never produces the `outOfFuel` outcome: it always returns a dictionary or an error -/
theorem fixed_never_out_of_fuel (cfg : Cfg) (ign : Bool) (fs : FS) (root : Bytes) (h : cfg.includePath = true) :
    (parseFile cfg ign fs root).1 ≠ some .outOfFuel :=
  parseFile_fix_ne_outOfFuel cfg ign fs root h

/-! ### Cycles -/

/-- the `$INCLUDE` closure: a file that exists and is on the path (`parsedFiles`) is reported as
    RecursiveInclude at the including file and line, and is closed -/
theorem include_on_path_reported (fs : FS) (onPath : Bytes → Bool)
    (recur : (name t : Bytes) → fs.lookup name = some t → onPath name = false → St → Result)
    (name t file : Bytes) (lineNo : Nat) (st : St) (h : fs.lookup name = some t) (hp : onPath name = true) :
    includeWith fs onPath recur name file lineNo st
      = (some (.recursive file lineNo name), (st.opened name).closed name) :=
  includeWith_onPath fs onPath recur name t file lineNo st h hp

/-- (repaired) a successful parse means that no include cycle is reachable from the root:
    every reachable cycle makes the parse fail -/
theorem ok_implies_acyclic (cfg : Cfg) (ign : Bool) (fs : FS) (root : Bytes) (h : cfg.includePath = true)
    (hok : (parseFile cfg ign fs root).1 = none) : ¬ HasCycle fs root :=
  parseFile_ok_acyclic cfg ign fs root h hok

/-- (repaired) a reported RecursiveInclude is a real cycle: the reported file `f` includes `n` at
    a `$INCLUDE` line, `n` leads back to `f`, and `f` is the root or reachable from it -/
theorem cycle_reported (cfg : Cfg) (ign : Bool) (fs : FS) (root f n : Bytes) (l : Nat) (h : cfg.includePath = true)
    (hr : (parseFile cfg ign fs root).1 = some (.recursive f l n)) :
    Includes fs f n ∧ (n = f ∨ Reaches fs n f) ∧ (f = root ∨ Reaches fs root f) :=
  parseFile_recursive_real cfg ign fs root f n l h hr

/-- (repaired) acyclic include graphs - diamonds and repeated includes of one file included - are
    never reported as recursive -/
theorem acyclic_not_reported (cfg : Cfg) (ign : Bool) (fs : FS) (root : Bytes) (h : cfg.includePath = true)
    (hac : ¬ HasCycle fs root) (f n : Bytes) (l : Nat) :
    (parseFile cfg ign fs root).1 ≠ some (.recursive f l n) :=
  parseFile_acyclic_not_recursive cfg ign fs root h hac f n l

/-! ### Every opened file is closed; errors name file and 1-based line (both include rules, any fuel) -/

theorem opens_closed (cfg : Cfg) (ign : Bool) (fs : FS) (root : Bytes) :
    OpensClosed (parseFile cfg ign fs root).2.log :=
  parseFile_opensClosed cfg ign fs root

/-- also for the current rule at every fuel, from any balanced starting log -/
theorem opens_closed_current (cfg : Cfg) (ign : Bool) (fs : FS) (root file text : Bytes) (fuel : Nat) :
    OpensClosed (parseFileCur cfg ign fs root fuel file text {}).2.log :=
  parseFileCur_opensClosed cfg ign fs root file text fuel

/-- a ParseError names a file that was parsed and a line of it, counted from 1 -/
theorem error_line_1_based (cfg : Cfg) (ign : Bool) (fs : FS) (root : Bytes) (e : Failure)
    (he : (parseFile cfg ign fs root).1 = some e) :
    match e with
    | .decl _ f l | .openErr f l _ | .recursive f l _ =>
        ∃ t, fs.lookup f = some t ∧ 1 ≤ l ∧ l ≤ (Lex.lines t).1.length
    | _ => True :=
  parseFile_error_line cfg ign fs root e he

/-! ### The current rule (History: `Cfg.current.includePath = false`, the code before fix #10) -/

/-- defect #10: on a cycle that does not pass through the root the current rule never stops:
    whatever the fuel, it is exhausted -/
theorem nonroot_cycle_diverges (cfg : Cfg) (ign : Bool) (fuel : Nat) :
    (parseFileCur cfg ign fsNonRootCycle nmRoot fuel nmRoot (inc nmA) {}).1 = some .outOfFuel :=
  nonroot_cycle_diverges' cfg ign fuel

/-- the same at the level of `ParseFile` with the cap the harness uses -/
theorem nonroot_cycle_depth_exceeded (ign : Bool) :
    (parseFile Cfg.current ign fsNonRootCycle nmRoot).1 = some .outOfFuel :=
  parseFile_current_nonroot ign

/-- a cycle through the root is reported by the current rule (at `a`, line 1) -/
theorem root_cycle_reported (cfg : Cfg) (ign : Bool) (fuel : Nat) :
    (parseFileCur cfg ign fsRootCycle nmRoot (fuel + 2) nmRoot (inc nmA) {}).1 = some (.recursive nmA 1 nmRoot) :=
  root_cycle_reported' cfg ign fuel

/-- the repaired rule reports the non-root cycle: `b` line 1 includes `a`, which is on the path -/
theorem nonroot_cycle_reported_fixed (ign : Bool) :
    (parseFile Cfg.repaired ign fsNonRootCycle nmRoot).1 = some (.recursive nmB 1 nmA) :=
  nonroot_cycle_fixed ign

/-! ### Completeness: the outcome is the first fault of the depth-first, line-order walk

`Walk cfg ign fs path tooLong ls lineNo vb st r` (RV.Proofs.DictWalk) is a big-step SPECIFICATION of
the include walk, one rule per situation, which mentions neither `includeWith` nor `parseFileFix`;
`WalkFile cfg ign fs root r` is the walk of the root file from line 1.  `r = (none, st)`: the walk
reaches the end; `r = (some flt, st)`: `flt : Fault` is the first fault met - its include path
(innermost first, root last), its 1-based line, its kind (`scannerError`, `unclosedBlock`,
`badLine c`, `includeMissing n`, `includeOnPath n` = THE CYCLE) - and `Fault.report` is what the
parser has to return for it.  All theorems of this section are for the repaired include rule
(`cfg.includePath = true`), except the log theorems, which hold for both rules. -/

/-- the walk of an existing root file always has an outcome … -/
theorem walk_has_outcome (cfg : Cfg) (ign : Bool) (fs : FS) (root text : Bytes) (hl : fs.lookup root = some text) :
    ∃ r, WalkFile cfg ign fs root r :=
  walkFile_total cfg ign fs root text hl

/-- … and only one: "the first fault" is well defined -/
theorem first_fault_unique (cfg : Cfg) (ign : Bool) (fs : FS) (root : Bytes) (r r' : Option Fault × St)
    (h : WalkFile cfg ign fs root r) (h' : WalkFile cfg ign fs root r') : r = r' :=
  walkFile_unique h h'

/-- COMPLETENESS (repaired): the parser returns exactly the report of the first fault of the walk
    (success if there is none), with the walk's state, the root file closed -/
theorem outcome_is_first_fault (cfg : Cfg) (ign : Bool) (fs : FS) (root text : Bytes) (h : cfg.includePath = true)
    (hl : fs.lookup root = some text) :
    ∃ o st', WalkFile cfg ign fs root (o, st') ∧
      parseFile cfg ign fs root = (o.map Fault.report, st'.closed root) :=
  parseFile_eq_walk cfg ign fs root text h hl

/-- the same, from the walk to the parser -/
theorem first_fault_is_outcome (cfg : Cfg) (ign : Bool) (fs : FS) (root : Bytes) (h : cfg.includePath = true)
    (o : Option Fault) (st' : St) (hw : WalkFile cfg ign fs root (o, st')) :
    parseFile cfg ign fs root = (o.map Fault.report, st'.closed root) :=
  walkFile_sound hw h

/-- the same as an equivalence on results -/
theorem outcome_iff_walk (cfg : Cfg) (ign : Bool) (fs : FS) (root text : Bytes) (h : cfg.includePath = true)
    (hl : fs.lookup root = some text) (res : Result) :
    parseFile cfg ign fs root = res ↔
      ∃ o st', WalkFile cfg ign fs root (o, st') ∧ res = (o.map Fault.report, st'.closed root) :=
  parseFile_walk_iff cfg ign fs root text h hl res

/-- what `Fault.report` turns into a RecursiveIncludeError: the faults `includeOnPath`, and only they -/
theorem report_recursive_iff (flt : Fault) (file n : Bytes) (l : Nat) :
    flt.report = .recursive file l n ↔ flt.kind = .includeOnPath n ∧ flt.path.headD [] = file ∧ flt.line = l :=
  RV.DictParser.report_recursive_iff flt file n l

/-- (repaired) RecursiveIncludeError `{File f, Line l, Filename n}` is reported IF AND ONLY IF the
    first fault of the walk is the directive `$INCLUDE n` at line `l` of `f`, `n` being on the
    include path at that moment -/
theorem recursive_iff_first_fault_on_path (cfg : Cfg) (ign : Bool) (fs : FS) (root f n : Bytes) (l : Nat)
    (h : cfg.includePath = true) :
    (parseFile cfg ign fs root).1 = some (.recursive f l n) ↔
      ∃ flt st', WalkFile cfg ign fs root (some flt, st') ∧ flt.kind = .includeOnPath n ∧
        flt.path.headD [] = f ∧ flt.line = l :=
  parseFile_recursive_iff cfg ign fs root f n l h

/-- (repaired) if the walk's first fault is `includeOnPath n`, the result is the
    RecursiveIncludeError for `n` at that file and line (no other class); if it is of another kind,
    the result is not a RecursiveIncludeError (whatever cycles lie further on) -/
theorem first_fault_on_path_only_recursive (cfg : Cfg) (ign : Bool) (fs : FS) (root : Bytes)
    (h : cfg.includePath = true) (flt : Fault) (st' : St) (hw : WalkFile cfg ign fs root (some flt, st')) :
    (∀ n, flt.kind = .includeOnPath n →
      (parseFile cfg ign fs root).1 = some (.recursive (flt.path.headD []) flt.line n)) ∧
    ((∀ n, flt.kind ≠ .includeOnPath n) → ∀ f l n, (parseFile cfg ign fs root).1 ≠ some (.recursive f l n)) :=
  first_fault_decides_recursive cfg ign fs root h flt st' hw

/-- (repaired) a reported RecursiveIncludeError `{File f, Line l, Filename n}` names a file on the
    include path of that moment: there is a path with head `f` and member `n`, which is a
    duplicate-free chain of include edges (`IncludeChain`: each member is `$INCLUDE`d by the next)
    ending in the root, all of whose members are files; `n` exists; and line `l`, counted from 1, of
    `f` is a directive `$INCLUDE n` -/
theorem recursive_names_file_on_path (cfg : Cfg) (ign : Bool) (fs : FS) (root f n : Bytes) (l : Nat)
    (h : cfg.includePath = true) (hr : (parseFile cfg ign fs root).1 = some (.recursive f l n)) :
    ∃ path, path.headD [] = f ∧ n ∈ path ∧
      path ≠ [] ∧ path.getLast? = some root ∧ path.Nodup ∧ IncludeChain fs path ∧
      (∀ x, x ∈ path → (fs.lookup x).isSome = true) ∧
      (fs.lookup n).isSome = true ∧
      ∃ t, fs.lookup f = some t ∧ 1 ≤ l ∧
        ∃ raw, (Lex.lines t).1[l - 1]? = some raw ∧ Lex.fields (Lex.stripComment raw) = [kwINCLUDE, n] :=
  parseFile_recursive_shape cfg ign fs root f n l h hr

/-- (repaired) an open error at `{File f, Line l}` for the name `n`: `n` is not a file and line
    `l` of `f` is `$INCLUDE n` -/
theorem open_error_names_missing_file (cfg : Cfg) (ign : Bool) (fs : FS) (root f n : Bytes) (l : Nat)
    (h : cfg.includePath = true) (hr : (parseFile cfg ign fs root).1 = some (.openErr f l n)) :
    fs.lookup n = none ∧
      ∃ t, fs.lookup f = some t ∧ 1 ≤ l ∧
        ∃ raw, (Lex.lines t).1[l - 1]? = some raw ∧ Lex.fields (Lex.stripComment raw) = [kwINCLUDE, n] :=
  parseFile_openErr_shape cfg ign fs root f n l h hr

/-- (repaired) every failure is the report of a well-formed first fault (`Fault.WellFormed`: a
    legitimate include path from the root, and a line that is what the kind of fault says) -/
theorem failure_is_wellformed_fault (cfg : Cfg) (ign : Bool) (fs : FS) (root text : Bytes)
    (h : cfg.includePath = true) (hl : fs.lookup root = some text) (e : Failure)
    (he : (parseFile cfg ign fs root).1 = some e) :
    ∃ flt st', WalkFile cfg ign fs root (some flt, st') ∧ e = flt.report ∧ flt.WellFormed fs root :=
  parseFile_fault_wf cfg ign fs root text h hl e he

/-- the SPEC's fault `includeOnPath n` is a cycle of the include graph through `n` that is reachable
    from the root (about `Walk` and the graph only; the parser is not mentioned) -/
theorem fault_on_path_is_cycle (cfg : Cfg) (ign : Bool) (fs : FS) (root n : Bytes) (flt : Fault) (st' : St)
    (hw : WalkFile cfg ign fs root (some flt, st')) (hk : flt.kind = .includeOnPath n) : HasCycle fs root :=
  walkFile_onPath_hasCycle hw hk

/-- (repaired) no false cycle on a DAG: diamonds and repeated includes are not reported
    (the audit's name for `acyclic_not_reported`) -/
theorem no_false_cycle_on_dag (cfg : Cfg) (ign : Bool) (fs : FS) (root : Bytes) (h : cfg.includePath = true)
    (hac : ¬ HasCycle fs root) (f n : Bytes) (l : Nat) :
    (parseFile cfg ign fs root).1 ≠ some (.recursive f l n) :=
  acyclic_not_reported cfg ign fs root h hac f n l

/-- (repaired) a graph with a reachable cycle is never accepted (contrapositive of `ok_implies_acyclic`);
    WHICH error is returned is the first fault's: see `recursive_iff_first_fault_on_path` -/
theorem cycle_never_accepted (cfg : Cfg) (ign : Bool) (fs : FS) (root : Bytes) (h : cfg.includePath = true)
    (hcyc : HasCycle fs root) : (parseFile cfg ign fs root).1 ≠ none :=
  parseFile_cycle_not_ok cfg ign fs root h hcyc

/-- (repaired, fix #11) on a pure include graph - every file scans, every line is blank/comment or a
    `$INCLUDE` of an existing file: the exhaustive family "all include graphs on up to 4 files" of
    the differential test - a RecursiveIncludeError is reported IF AND ONLY IF a cycle is reachable
    from the root -/
theorem pure_graph_recursive_iff (cfg : Cfg) (ign : Bool) (fs : FS) (root : Bytes) (h10 : cfg.includePath = true)
    (h11 : cfg.skipNoFields = true) (hp : PureIncludeFS fs) (hroot : (fs.lookup root).isSome = true) :
    (∃ f l n, (parseFile cfg ign fs root).1 = some (.recursive f l n)) ↔ HasCycle fs root :=
  RV.DictParser.pure_graph_recursive_iff cfg ign fs root h10 h11 hp hroot

/-- … and the parse succeeds if and only if there is none -/
theorem pure_graph_ok_iff (cfg : Cfg) (ign : Bool) (fs : FS) (root : Bytes) (h10 : cfg.includePath = true)
    (h11 : cfg.skipNoFields = true) (hp : PureIncludeFS fs) (hroot : (fs.lookup root).isSome = true) :
    (parseFile cfg ign fs root).1 = none ↔ ¬ HasCycle fs root :=
  RV.DictParser.pure_graph_ok_iff cfg ign fs root h10 h11 hp hroot

/-! ### Logs over all outcomes: well nested; closed once or twice; exactly once on error paths

`Nested` (RV.Proofs.DictWalk): every successfully opened file is closed, in LIFO order, once - or
twice.  "Closed exactly once" is FALSE of parser.go for a file that is included successfully: it is
closed by the explicit `incFile.Close()` (parser.go line 233) and again by the deferred `Close()` of
line 214 (the second `Close` of an `*os.File` returns an error that the `defer` drops).  It is TRUE
on every error path and for the root file.  What is true is proved: -/

/-- both include rules, every outcome: the log is well nested -/
theorem log_well_nested (cfg : Cfg) (ign : Bool) (fs : FS) (root : Bytes) :
    Nested (parseFile cfg ign fs root).2.log :=
  parseFile_nested cfg ign fs root

/-- also for the current rule at every fuel -/
theorem log_well_nested_current (cfg : Cfg) (ign : Bool) (fs : FS) (root file text : Bytes) (fuel : Nat) :
    Nested (parseFileCur cfg ign fs root fuel file text {}).2.log :=
  parseFileCur_nested_log cfg ign fs root file text fuel

/-- the root file is opened first and closed last, once; in between the log is well nested -/
theorem log_root_bracket (cfg : Cfg) (ign : Bool) (fs : FS) (root text : Bytes) (hl : fs.lookup root = some text) :
    ∃ w, Nested w ∧ (parseFile cfg ign fs root).2.log = Event.opened root :: (w ++ [Event.closed root]) :=
  parseFile_root_bracket cfg ign fs root text hl

/-- every name is closed at least as often as it is opened, and at most twice as often -/
theorem log_close_counts (cfg : Cfg) (ign : Bool) (fs : FS) (root n : Bytes) :
    (parseFile cfg ign fs root).2.log.count (Event.opened n) ≤ (parseFile cfg ign fs root).2.log.count (Event.closed n) ∧
    (parseFile cfg ign fs root).2.log.count (Event.closed n) ≤ 2 * (parseFile cfg ign fs root).2.log.count (Event.opened n) :=
  parseFile_close_counts cfg ign fs root n

/-- well-nestedness implies the older `OpensClosed` -/
theorem nested_implies_opens_closed (w : List Event) (h : Nested w) : OpensClosed w :=
  h.opensClosed

/-- (repaired) a failing run: the log is `Unwound` along the include path of the first fault, root
    included - every file on that path is opened once and, after the fault, closed EXACTLY ONCE,
    innermost first; the stretches in between are well nested -/
theorem failure_log_unwound (cfg : Cfg) (ign : Bool) (fs : FS) (root text : Bytes) (h : cfg.includePath = true)
    (hl : fs.lookup root = some text) (e : Failure) (he : (parseFile cfg ign fs root).1 = some e) :
    ∃ flt st', WalkFile cfg ign fs root (some flt, st') ∧ e = flt.report ∧
      Unwound flt.path.reverse (parseFile cfg ign fs root).2.log :=
  parseFile_fail_log cfg ign fs root text h hl e he

/-! ### Non-vacuity -/

/-- root → a → b → a: the first fault is `$INCLUDE a` at line 1 of `b`, the path being `[b, a, root]` -/
example (ign : Bool) : ∃ st', WalkFile Cfg.repaired ign fsNonRootCycle nmRoot
    (some ⟨[nmB, nmA, nmRoot], 1, .includeOnPath nmA⟩, st') := walk_nonRootCycle ign
example : (⟨[nmB, nmA, nmRoot], 1, .includeOnPath nmA⟩ : Fault).report = .recursive nmB 1 nmA := rfl
example : PureIncludeFS fsNonRootCycle := fsNonRootCycle_pure
/-- … so, by the equivalence for pure graphs alone, the cycle is reported -/
example (ign : Bool) : ∃ f l n, (parseFile Cfg.repaired ign fsNonRootCycle nmRoot).1 = some (.recursive f l n) :=
  (pure_graph_recursive_iff Cfg.repaired ign fsNonRootCycle nmRoot rfl rfl fsNonRootCycle_pure (by decide)).mpr
    fsNonRootCycle_cyclic

/-- a pure diamond with a repeated include: walked to the end; accepted; hence acyclic -/
example : PureIncludeFS fsPureDiamond := fsPureDiamond_pure
example (ign : Bool) : ∃ st', WalkFile Cfg.repaired ign fsPureDiamond nmRoot (none, st') := walk_pureDiamond ign
example (ign : Bool) : (parseFile Cfg.repaired ign fsPureDiamond nmRoot).1 = none := fsPureDiamond_ok ign
example : ¬ HasCycle fsPureDiamond nmRoot := fsPureDiamond_acyclic

/-- an earlier fault wins: the root's line 1 is refused, its line 2 is `$INCLUDE root`.  The graph
    HAS a cycle, the parse fails (`cycle_never_accepted`), but the report is the first fault - the
    refused line - and NOT a RecursiveIncludeError -/
example : HasCycle fsBadThenCycle nmRoot := fsBadThenCycle_cyclic
example (ign : Bool) : WalkFile Cfg.repaired ign fsBadThenCycle nmRoot
    (some ⟨[nmRoot], 1, .badLine .unknownLine⟩, St.opened {} nmRoot) := walk_badThenCycle ign
example (ign : Bool) : (parseFile Cfg.repaired ign fsBadThenCycle nmRoot).1 = some (.decl .unknownLine nmRoot 1) :=
  fsBadThenCycle_result ign
example (ign : Bool) (f n : Bytes) (l : Nat) :
    (parseFile Cfg.repaired ign fsBadThenCycle nmRoot).1 ≠ some (.recursive f l n) := by
  rw [fsBadThenCycle_result]; simp

/-- `Nested` discriminates: an unclosed open and crossed brackets are not well nested -/
example : ¬ Nested [Event.opened nmA] := not_nested_unclosed nmA
example : ¬ Nested [Event.opened nmA, Event.opened nmB, Event.closed nmA, Event.closed nmB] := not_nested_crossed
example : Nested [Event.opened nmRoot, Event.opened nmA, Event.closed nmA, Event.closed nmA, Event.closed nmRoot] :=
  Nested.file nmRoot false (Nested.file nmA true Nested.nil Nested.nil) Nested.nil

example : ¬ HasCycle fsDiamond nmRoot := fsDiamond_acyclic
example : (parseFile Cfg.repaired false fsDiamond nmRoot).1 = none := fsDiamond_ok
example : HasCycle fsNonRootCycle nmRoot := fsNonRootCycle_cyclic

/-! ### Never panics: every index expression is guarded

  The model has no panic outcome: its list accesses are total (`fields.getD i []`, `f.getD 7 0`,
  `t.take 7`, ...).  That this loses nothing is argued in RV.Proofs.DictGuards, in two steps.
  (1) Field counts: a branch of the `switch` of `parse` (parser.go 76-255) is entered only with the
  field count that its code - `parseAttribute` / `parseValue` / `parseVendor` included - indexes;
  a keyword line with any other count is UnknownLineError.  (2) `Guarded`: a copy of the per-line
  code in which every Go index expression `x[i]`, slice expression `x[a:b]` and indexed assignment
  is PARTIAL (`none` = run-time panic: `Guarded.at?`, `Guarded.slice`, `Guarded.setAt?`, with Go `int`
  indices) and `&&` / `||` short-circuit left to right.  The copy never yields `none`, and equals the
  model's function, for ALL inputs.
  Scope: index, slice and indexed-assignment expressions of parser.go 64-481.  Library calls
  (`strings.*`, `strconv.*`, `append`, map operations, `bufio`) are taken as non-panicking; the
  pointers the Go code dereferences (`attr`, `vendor`, `existing`, `vendorBlock`) are nil-checked
  there; a nil `p.Opener` is the caller's responsibility.  Unbounded recursion is excluded by
  `fixed_never_out_of_fuel` above (the repaired walk is a total function). -/

/-- the `switch` of one line (parser.go 76-255, with `parseAttribute`, `parseOID`, `parseValue`,
    `parseVendor`), every `fields[i]`, `f[3][j]`, `f[3][a:b]`, `s[i+1]`, `o[len(o)-1]` partial:
    no panic on any field list, and the result is the model's `dispatch` -/
theorem line_switch_never_panics (cfg : Cfg) (ign : Bool) (inc : IncludeHandler) (file : Bytes) (lineNo : Nat)
    (vb : Option Bytes) (st : St) (fields : List Bytes) :
    Guarded.dispatchG cfg ign inc file lineNo vb st fields = some (dispatch cfg ign inc file lineNo vb st fields) :=
  Guarded.dispatchG_eq cfg ign inc file lineNo vb st fields

/-- one iteration of the scan loop (parser.go 64-255; `line[:idx]` partial as well) -/
theorem scan_step_never_panics (cfg : Cfg) (ign : Bool) (inc : IncludeHandler) (file : Bytes) (lineNo : Nat)
    (vb : Option Bytes) (st : St) (raw : Bytes) :
    Guarded.stepLineG cfg ign inc file lineNo vb st raw = some (stepLine cfg ign inc file lineNo vb st raw) :=
  Guarded.stepLineG_eq cfg ign inc file lineNo vb st raw

theorem scan_step_is_some (cfg : Cfg) (ign : Bool) (inc : IncludeHandler) (file : Bytes) (lineNo : Nat)
    (vb : Option Bytes) (st : St) (raw : Bytes) :
    (Guarded.stepLineG cfg ign inc file lineNo vb st raw).isSome = true :=
  Guarded.stepLine_never_panics cfg ign inc file lineNo vb st raw

/-- `parseOID` (parser.go 282-306): `s[i+1]` and `o[len(o)-1]` are in range for every byte string;
    the result is the model's OID, `nil` (`[]`) where the model has `none` -/
theorem parseOID_never_panics (cfg : Cfg) (s : Bytes) :
    Guarded.parseOIDG cfg s = some ((parseOID cfg s).getD []) :=
  Guarded.parseOIDG_eq cfg s

/-- `parseAttribute` is only called with 4 or 5 fields (`f[1]`, `f[2]`, `f[3]`; `f[4]` under `len(f) >= 5`) -/
theorem parseAttribute_never_panics (cfg : Cfg) (f : List Bytes) (h : f.length = 4 ∨ f.length = 5) :
    Guarded.parseAttributeG cfg f = some (parseAttribute cfg (f.getD 1 []) (f.getD 2 []) (f.getD 3 [])
      (if f.length == 5 then some (f.getD 4 []) else none)) :=
  Guarded.parseAttributeG_eq cfg f h

/-- the type switch: `f[3][:7]`, `f[3][len(f[3])-1]`, `f[3][7:len(f[3])-1]` sit behind `len(f[3]) > 8` -/
theorem parseType_never_panics (t : Bytes) : Guarded.parseTypeG t = some (parseType t) :=
  Guarded.parseTypeG_eq t

/-- `parseValue` is only called with 4 fields; `f[3][2:]` sits behind `HasPrefix(f[3], "0x")` -/
theorem parseValue_never_panics (f : List Bytes) (h : f.length = 4) :
    Guarded.parseValueG f = some (parseValue (f.getD 1 []) (f.getD 2 []) (f.getD 3 [])) :=
  Guarded.parseValueG_eq f h

/-- `parseVendor` is only called with 3 or 4 fields (`f[3]` under `len(f) == 4`) -/
theorem parseVendor_never_panics (cfg : Cfg) (f : List Bytes) (h : f.length = 3 ∨ f.length = 4) :
    Guarded.parseVendorG cfg f = some (parseVendor cfg (f.getD 1 []) (f.getD 2 [])
      (if f.length == 4 then some (f.getD 3 []) else none)) :=
  Guarded.parseVendorG_eq cfg f h

/-- the `format=t,l` test (parser.go 469): `f[3][8]`, `f[3][7]`, `f[3][9]` are evaluated only after
    `len(f[3]) != 10` was found false; a field of any other length is refused without them -/
theorem vendor_format_never_panics (cfg : Cfg) (s : Bytes) : Guarded.formatOKG cfg s = some (formatOK cfg s) :=
  Guarded.formatOKG_eq cfg s

theorem vendor_format_wrong_length (cfg : Cfg) (s : Bytes) (h : s.length ≠ 10) :
    Guarded.formatOKG cfg s = some false ∧ formatOK cfg s = false :=
  ⟨Guarded.formatOKG_short cfg s h, Guarded.formatOK_inspects_after_length cfg s h⟩

/-- a branch of the `switch` is entered only with the field count its code indexes:
    `maxIndex` = the largest `i` with `fields[i]` evaluated unconditionally in the branch -/
theorem branch_index_in_range (fields : List Bytes) (b : Branch) (h : branchOf fields = b) :
    ∀ i, maxIndex b = some i → i < fields.length :=
  branch_indices_in_range fields b h

/-- ... and `f[4]` (ATTRIBUTE, under `len(f) >= 5`), `f[3]` (VENDOR, under `len(f) == 4`) under their condition -/
theorem branch_cond_index_in_range (fields : List Bytes) (b : Branch) (h : branchOf fields = b) :
    ∀ i c, condIndex b = some (i, c) → c fields.length = true → i < fields.length :=
  branch_cond_indices_in_range fields b h

/-- the field counts of the branches: ATTRIBUTE 4|5, VALUE 4, VENDOR 3|4, BEGIN-VENDOR / END-VENDOR / $INCLUDE 2 -/
theorem branch_field_count (fields : List Bytes) : arityOK (branchOf fields) fields.length = true :=
  branch_arity fields

/-- a keyword with any other field count is UnknownLineError, as is any other first field and a line without fields -/
theorem wrong_field_count_unknown_line (cfg : Cfg) (ign : Bool) (inc : IncludeHandler) (file : Bytes) (lineNo : Nat)
    (vb : Option Bytes) (st : St) (fields : List Bytes) (h : branchOf fields = .unknown) :
    dispatch cfg ign inc file lineNo vb st fields = .fail (.decl .unknownLine file lineNo) st :=
  dispatch_unknown_branch cfg ign inc file lineNo vb st fields h

theorem attribute_field_count (cfg : Cfg) (ign : Bool) (inc : IncludeHandler) (file : Bytes) (lineNo : Nat)
    (vb : Option Bytes) (st : St) (fields : List Bytes)
    (hk : fields.headD [] = kwATTRIBUTE) (h4 : fields.length ≠ 4) (h5 : fields.length ≠ 5) :
    dispatch cfg ign inc file lineNo vb st fields = .fail (.decl .unknownLine file lineNo) st :=
  dispatch_attribute_arity cfg ign inc file lineNo vb st fields hk h4 h5

theorem value_field_count (cfg : Cfg) (ign : Bool) (inc : IncludeHandler) (file : Bytes) (lineNo : Nat)
    (vb : Option Bytes) (st : St) (fields : List Bytes) (hk : fields.headD [] = kwVALUE) (h4 : fields.length ≠ 4) :
    dispatch cfg ign inc file lineNo vb st fields = .fail (.decl .unknownLine file lineNo) st :=
  dispatch_value_arity cfg ign inc file lineNo vb st fields hk h4

theorem vendor_field_count (cfg : Cfg) (ign : Bool) (inc : IncludeHandler) (file : Bytes) (lineNo : Nat)
    (vb : Option Bytes) (st : St) (fields : List Bytes)
    (hk : fields.headD [] = kwVENDOR) (h3 : fields.length ≠ 3) (h4 : fields.length ≠ 4) :
    dispatch cfg ign inc file lineNo vb st fields = .fail (.decl .unknownLine file lineNo) st :=
  dispatch_vendor_arity cfg ign inc file lineNo vb st fields hk h3 h4

theorem begin_vendor_field_count (cfg : Cfg) (ign : Bool) (inc : IncludeHandler) (file : Bytes) (lineNo : Nat)
    (vb : Option Bytes) (st : St) (fields : List Bytes) (hk : fields.headD [] = kwBEGIN) (h2 : fields.length ≠ 2) :
    dispatch cfg ign inc file lineNo vb st fields = .fail (.decl .unknownLine file lineNo) st :=
  dispatch_begin_arity cfg ign inc file lineNo vb st fields hk h2

theorem end_vendor_field_count (cfg : Cfg) (ign : Bool) (inc : IncludeHandler) (file : Bytes) (lineNo : Nat)
    (vb : Option Bytes) (st : St) (fields : List Bytes) (hk : fields.headD [] = kwEND) (h2 : fields.length ≠ 2) :
    dispatch cfg ign inc file lineNo vb st fields = .fail (.decl .unknownLine file lineNo) st :=
  dispatch_end_arity cfg ign inc file lineNo vb st fields hk h2

theorem include_field_count (cfg : Cfg) (ign : Bool) (inc : IncludeHandler) (file : Bytes) (lineNo : Nat)
    (vb : Option Bytes) (st : St) (fields : List Bytes) (hk : fields.headD [] = kwINCLUDE) (h2 : fields.length ≠ 2) :
    dispatch cfg ign inc file lineNo vb st fields = .fail (.decl .unknownLine file lineNo) st :=
  dispatch_include_arity cfg ign inc file lineNo vb st fields hk h2

theorem other_keyword_unknown_line (cfg : Cfg) (ign : Bool) (inc : IncludeHandler) (file : Bytes) (lineNo : Nat)
    (vb : Option Bytes) (st : St) (fields : List Bytes)
    (h1 : fields.headD [] ≠ kwATTRIBUTE) (h2 : fields.headD [] ≠ kwVALUE) (h3 : fields.headD [] ≠ kwVENDOR)
    (h4 : fields.headD [] ≠ kwBEGIN) (h5 : fields.headD [] ≠ kwEND) (h6 : fields.headD [] ≠ kwINCLUDE) :
    dispatch cfg ign inc file lineNo vb st fields = .fail (.decl .unknownLine file lineNo) st :=
  dispatch_unknown_keyword cfg ign inc file lineNo vb st fields h1 h2 h3 h4 h5 h6

/-- (without fix #11) a line of white space only reaches the `switch` with no field: no `fields[0]`, UnknownLineError -/
theorem no_fields_unknown_line (cfg : Cfg) (ign : Bool) (inc : IncludeHandler) (file : Bytes) (lineNo : Nat)
    (vb : Option Bytes) (st : St) :
    dispatch cfg ign inc file lineNo vb st [] = .fail (.decl .unknownLine file lineNo) st :=
  dispatch_no_fields cfg ign inc file lineNo vb st

/-- non-vacuity: the panic-aware primitives do panic where Go would -/
example : Guarded.idx [[1], [2], [3]] 3 = none ∧ Guarded.byteAt [1, 2, 3] 9 = none ∧ Guarded.slice [1, 2, 3] 2 1 = none ∧
    Guarded.byteAt [] (Guarded.len ([] : Bytes) - 1) = none := by decide
/-- `VENDOR x 1 f`: a fourth field shorter than 10 bytes is refused without touching `f[3][7..9]` -/
example : Guarded.formatOKG Cfg.tree [102] = some false := Guarded.formatOKG_short _ _ (by decide)

/-! ### I/O failures: a reader that fails, a `Close` that fails (RV.Model.DictParserIO)

  In the model above a file is `(name, text)` and neither reading nor closing it can fail; parser.go
  has an exit for each (`s.Err()` at line 258, `incFile.Close()` at line 233).  The layer
  RV.Model.DictParserIO gives every file two flags - `(name, text, readFails, closeFails)`, see the
  head of that file for what exactly the reader and `Close` do - and two further outcomes:
  `readErr` (the bare error of the reader) and `closeErr file line name` (a ParseError at the
  `$INCLUDE` line of the including file).  It mirrors the repaired include rule only.  Nothing
  above is changed by it: `io_refines` says that without flags it is the function all theorems above
  are about. -/

/-- without failure flags `parseFileIO` is `parseFile` (repaired rule) on the same files -/
theorem io_refines (cfg : Cfg) (ign : Bool) (fs : FSIO) (root : Bytes) (h : cfg.includePath = true)
    (hnf : fs.NoFlags) : parseFileIO cfg ign fs root = (parseFile cfg ign fs.erase root).lift :=
  parseFileIO_refines cfg ign fs root h hnf

/-- … in particular on every file system of the model above, read as one whose files never fail -/
theorem io_refines_embedded (cfg : Cfg) (ign : Bool) (fs : FS) (root : Bytes) (h : cfg.includePath = true) :
    parseFileIO cfg ign (FSIO.ofFS fs) root = (parseFile cfg ign fs root).lift :=
  parseFileIO_ofFS cfg ign fs root h

/-- the per-line code is the one of the model above: with one of its handlers, a step of the layer
    is its step -/
theorem io_line_step_faithful (cfg : Cfg) (ign : Bool) (h : IncludeHandler) (file : Bytes) (lineNo : Nat)
    (vb : Option Bytes) (st : St) (raw : Bytes) :
    stepLineIO cfg ign h.lift file lineNo vb st raw = (stepLine cfg ign h file lineNo vb st raw).lift :=
  stepLineIO_lift cfg ign h file lineNo vb st raw

/-- EVERY FILE OPENED IS CLOSED - on every file system, whichever readers and `Close` calls fail,
    whatever the outcome -/
theorem io_opens_closed (cfg : Cfg) (ign : Bool) (fs : FSIO) (root : Bytes) :
    OpensClosed (parseFileIO cfg ign fs root).2.log :=
  parseFileIO_opensClosed cfg ign fs root

/-- every failure is explained (`FailureIO.Explained`, RV.Proofs.DictIO): the clauses below, in one -/
theorem io_failure_explained (cfg : Cfg) (ign : Bool) (fs : FSIO) (root : Bytes) (e : FailureIO)
    (he : (parseFileIO cfg ign fs root).1 = some e) : e.Explained cfg ign fs root :=
  parseFileIO_explained cfg ign fs root e he

/-- the bare read error is returned only if some file `g` on the walk has a failing reader, the
    scanner was content with what it delivered (no line of 64 KiB), and all lines of `g` went
    through: with a reader that does not fail, the parse of `g` from the same state and include path
    ends in success, or in nothing but `UnclosedVendorBlock` (which `s.Err()` precedes) -/
theorem io_read_failure_reported (cfg : Cfg) (ign : Bool) (fs : FSIO) (root : Bytes)
    (he : (parseFileIO cfg ign fs root).1 = some .readErr) :
    ∃ g e path st0 st1, (g = root ∨ Reaches fs.erase root g) ∧ fs.lookup g = some e ∧ e.2.1 = true ∧
      (Lex.lines e.1).2 = false ∧
      (parseFileFixIO cfg ign fs path g e.1 false st0 = (none, st1) ∨
       ∃ l, parseFileFixIO cfg ign fs path g e.1 false st0
         = (some (.base (.decl .unclosedVendorBlock g l)), st1)) :=
  parseFileIO_explained cfg ign fs root _ he

/-- a `Close` error is a ParseError `{File f, Line l}`: `f` is a file on the walk, line `l` of it,
    counted from 1, is the directive `$INCLUDE n`, `n` is a file whose `Close` fails, and the parse
    of `n` (its reader included) went through without failure -/
theorem io_close_failure_reported (cfg : Cfg) (ign : Bool) (fs : FSIO) (root f n : Bytes) (l : Nat)
    (he : (parseFileIO cfg ign fs root).1 = some (.closeErr f l n)) :
    ∃ e en path st0 st1, (f = root ∨ Reaches fs.erase root f) ∧ fs.lookup f = some e ∧
      (1 ≤ l ∧ ∃ raw, (Lex.lines e.1).1[l - 1]? = some raw ∧
        Lex.fields (Lex.stripComment raw) = [kwINCLUDE, n]) ∧
      fs.lookup n = some en ∧ en.2.2 = true ∧
      parseFileFixIO cfg ign fs path n en.1 en.2.1 st0 = (none, st1) :=
  parseFileIO_explained cfg ign fs root _ he

/-- every ParseError-class failure, the `Close` error included, names a file of the file system
    and a line of it, counted from 1 -/
theorem io_error_line (cfg : Cfg) (ign : Bool) (fs : FSIO) (root : Bytes) (e : FailureIO)
    (he : (parseFileIO cfg ign fs root).1 = some e) :
    match e with
    | .base (.decl _ f l) | .base (.openErr f l _) | .base (.recursive f l _) | .closeErr f l _ =>
        ∃ en, fs.lookup f = some en ∧ 1 ≤ l ∧ l ≤ (Lex.lines en.1).1.length
    | _ => True := by
  have hx := parseFileIO_explained cfg ign fs root e he
  match e, hx with
  | .base (.decl _ f l), ⟨en, _, hl, h1, h2⟩ => exact ⟨en, hl, h1, h2⟩
  | .base (.openErr f l n), ⟨en, _, hl, hline, _⟩ => exact ⟨en, hl, hline.1, hline.le⟩
  | .base (.recursive f l n), ⟨en, _, hl, hline, _⟩ => exact ⟨en, hl, hline.1, hline.le⟩
  | .closeErr f l n, ⟨en, _, _, _, _, _, hl, hline, _⟩ => exact ⟨en, hl, hline.1, hline.le⟩
  | .base .scanner, _ => trivial
  | .base .rootOpen, _ => trivial
  | .base .outOfFuel, _ => trivial
  | .readErr, _ => trivial

/-- the layer has no fuel and never runs out of it -/
theorem io_never_out_of_fuel (cfg : Cfg) (ign : Bool) (fs : FSIO) (root : Bytes) :
    (parseFileIO cfg ign fs root).1 ≠ some (.base .outOfFuel) :=
  fun he => parseFileIO_explained cfg ign fs root _ he

/-- a reported RecursiveInclude is a real cycle of the include graph, whatever the flags -/
theorem io_cycle_reported (cfg : Cfg) (ign : Bool) (fs : FSIO) (root f n : Bytes) (l : Nat)
    (hr : (parseFileIO cfg ign fs root).1 = some (.base (.recursive f l n))) :
    Includes fs.erase f n ∧ (n = f ∨ Reaches fs.erase n f) ∧ (f = root ∨ Reaches fs.erase root f) :=
  parseFileIO_recursive_real cfg ign fs root f n l hr

/-- acyclic graphs are never reported as recursive, whatever the flags -/
theorem io_no_false_cycle (cfg : Cfg) (ign : Bool) (fs : FSIO) (root : Bytes)
    (hac : ¬ HasCycle fs.erase root) (f n : Bytes) (l : Nat) :
    (parseFileIO cfg ign fs root).1 ≠ some (.base (.recursive f l n)) :=
  parseFileIO_acyclic_not_recursive cfg ign fs root hac f n l

/-- a run that succeeds is - dictionary and log - the run of the model above on the same files … -/
theorem io_ok_is_plain_run (cfg : Cfg) (ign : Bool) (fs : FSIO) (root : Bytes) (h : cfg.includePath = true)
    (st : St) (hr : parseFileIO cfg ign fs root = (none, st)) : parseFile cfg ign fs.erase root = (none, st) :=
  parseFileIO_ok_erase cfg ign fs root h st hr

/-- … so a graph with a reachable cycle is never accepted -/
theorem io_ok_implies_acyclic (cfg : Cfg) (ign : Bool) (fs : FSIO) (root : Bytes) (h : cfg.includePath = true)
    (hok : (parseFileIO cfg ign fs root).1 = none) : ¬ HasCycle fs.erase root :=
  parseFileIO_ok_acyclic cfg ign fs root h hok

/-- NO FAILURE IS SWALLOWED: if `ParseFile` succeeds, the root's reader did not fail, and every file
    that was opened for an `$INCLUDE` has a reader that does not fail and a `Close` that does not
    fail (`LogClean`); the log is the root's bracket around those opens and closes -/
theorem io_failures_not_swallowed (cfg : Cfg) (ign : Bool) (fs : FSIO) (root : Bytes) (st : St)
    (hr : parseFileIO cfg ign fs root = (none, st)) :
    (∃ en, fs.lookup root = some en ∧ en.2.1 = false) ∧
    ∃ w, st.log = Event.opened root :: (w ++ [Event.closed root]) ∧
      ∀ n, Event.opened n ∈ w → ∃ en, fs.lookup n = some en ∧ en.2.1 = false ∧ en.2.2 = false :=
  parseFileIO_ok_no_flags cfg ign fs root st hr

/-- for evaluation: `parseFileIO` is its twin with `fs.length + 1` levels of fuel -/
theorem io_eval (cfg : Cfg) (ign : Bool) (fs : FSIO) (root : Bytes) :
    parseFileIO cfg ign fs root = parseFileFuelIO cfg ign fs root :=
  parseFileIO_eq_fuel cfg ign fs root

/-! #### Non-vacuity (by evaluation) -/

/-- the reader of the included file `a` fails after its last line: bare read error; `a` was closed
    (once: only the deferred `Close` runs), the root was closed; the VALUE of `a` had been read,
    the root's second line was not -/
example : parseFileIO Cfg.tree false fsReadFails nmRoot =
    (some .readErr,
     { dict := { values := [{ attrName := [65], name := [118], number := 1 }] },
       log := [.opened nmRoot, .opened nmA, .closed nmA, .closed nmRoot] }) := by
  rw [io_eval]; decide

/-- the same reader failing in the middle of a line: the scanner delivers the fragment `VAL`, and
    its refusal (line 2 of `a`) is reported, not the read error -/
example : (parseFileIO Cfg.tree false fsReadTruncated nmRoot).1 = some (.base (.decl .unknownLine nmA 2)) := by
  rw [io_eval]; decide

/-- a failing reader and an unclosed vendor block: the read error comes first -/
example : (parseFileIO Cfg.tree false fsReadThenUnclosed nmRoot).1 = some .readErr := by
  rw [io_eval]; decide
example : (parseFileIO Cfg.tree false [(nmRoot, textOpenBlock, false, false)] nmRoot).1
    = some (.base (.decl .unclosedVendorBlock nmRoot 2)) := by
  rw [io_eval]; decide

/-- the first `Close` of the included file fails: ParseError at line 1 of the ROOT naming `a`; `Close`
    of `a` was called twice (explicit + deferred), the root was closed -/
example : parseFileIO Cfg.tree false fsCloseFails nmRoot =
    (some (.closeErr nmRoot 1 nmA),
     { dict := { values := [{ attrName := [65], name := [118], number := 1 }] },
       log := [.opened nmRoot, .opened nmA, .closed nmA, .closed nmA, .closed nmRoot] }) := by
  rw [io_eval]; decide

/-- `Close` failures that do not show: the root's, and that of a file whose parse failed -/
example : parseFileIO Cfg.tree false fsCloseIgnored nmRoot =
    (some (.base (.recursive nmA 1 nmRoot)),
     { log := [.opened nmRoot, .opened nmA, .opened nmRoot, .closed nmRoot, .closed nmA, .closed nmRoot] }) := by
  rw [io_eval]; decide

/-- the flags are seen: the same files without them parse -/
example : (parseFileIO Cfg.tree false (FSIO.ofFS fsReadFails.erase) nmRoot).1 = none := by
  rw [io_eval]; decide
example : ¬ fsReadFails.NoFlags := fun h => by have := (h _ (List.mem_cons_of_mem _ List.mem_cons_self)).1; cases this

/-! #### Logs per HANDLE (after an external audit)

  `io_opens_closed` matches opens and closes BY NAME.  Where one name is open twice - every
  RecursiveInclude opens a file that is already open on the include path - the later close of the
  outer handle also counts for the re-opened one: a log in which the re-opened handle is never closed
  satisfies `OpensClosed` (`io_opens_closed_is_by_name`).  The theorems below are about handles:
  `Nested` is the language of well-bracketed logs - every `opened n` is matched by its OWN
  `closed n`, once, or twice directly after one another; `ClosedTwice` / `UnwoundIO`
  (RV.Proofs.DictIO) say which handle gets which. -/

/-- every file system, any flags, every outcome: the log is well nested, handle by handle -/
theorem io_log_nested (cfg : Cfg) (ign : Bool) (fs : FSIO) (root : Bytes) :
    Nested (parseFileIO cfg ign fs root).2.log :=
  parseFileIO_nested cfg ign fs root

/-- … hence (the form of `log_close_counts`) every name is closed at least as often as it is opened,
    and at most twice as often -/
theorem io_close_counts (cfg : Cfg) (ign : Bool) (fs : FSIO) (root n : Bytes) :
    (parseFileIO cfg ign fs root).2.log.count (Event.opened n) ≤ (parseFileIO cfg ign fs root).2.log.count (Event.closed n) ∧
    (parseFileIO cfg ign fs root).2.log.count (Event.closed n) ≤ 2 * (parseFileIO cfg ign fs root).2.log.count (Event.opened n) :=
  parseFileIO_close_counts cfg ign fs root n

/-- the root's handle (`ParseFile`'s `defer f.Close()`) is opened first and closed last, exactly ONCE,
    whatever the outcome; in between the log is well nested -/
theorem io_log_root_bracket (cfg : Cfg) (ign : Bool) (fs : FSIO) (root : Bytes) (en : Bytes × Bool × Bool)
    (hl : fs.lookup root = some en) :
    ∃ w, Nested w ∧ (parseFileIO cfg ign fs root).2.log = Event.opened root :: (w ++ [Event.closed root]) := by
  obtain ⟨w, hw, hsh⟩ := parseFileIO_log_shape cfg ign fs root en hl
  refine ⟨w, ?_, hw⟩
  rcases hres : (parseFileIO cfg ign fs root).1 with _ | e
  · rw [hres] at hsh; exact hsh.nested
  · rw [hres] at hsh; obtain ⟨ns, hu⟩ := hsh; exact hu.nested

/-- SUCCESS: every handle opened for an `$INCLUDE` is closed exactly TWICE (the explicit
    `incFile.Close()` and the deferred one, directly after one another: `ClosedTwice`), the root's
    exactly once; in numbers, between the root's open and close every name has twice as many closes
    as opens -/
theorem io_ok_closed_twice (cfg : Cfg) (ign : Bool) (fs : FSIO) (root : Bytes) (st : St)
    (hr : parseFileIO cfg ign fs root = (none, st)) :
    ∃ w, st.log = Event.opened root :: (w ++ [Event.closed root]) ∧ ClosedTwice w ∧
      ∀ n, w.count (Event.closed n) = 2 * w.count (Event.opened n) := by
  rcases opt_cases (fs.lookup root) with hl | ⟨en, hl⟩
  · rw [parseFileIO_none cfg ign fs root hl] at hr; simp at hr
  · obtain ⟨w, hw, hsh⟩ := parseFileIO_log_shape cfg ign fs root en hl
    rw [hr] at hw hsh
    exact ⟨w, hw, hsh, hsh.count_eq⟩

/-- FAILURE: every handle that was opened is closed before the error reaches the caller.  The log
    is unwound (`UnwoundIO`) along the handles `root :: ns` that are open when the failure arises:
    what completed before is `ClosedTwice`; the failure arises in the innermost of them, which is the
    file the error names; and after the events `t` of the failing line itself (`FaultTail`: for a
    RecursiveInclude the re-opened handle and its one close, for a failing `Close` the handle closed
    twice, else nothing) the log holds exactly ONE close per open handle, innermost first, the
    root's last -/
theorem io_failure_log_unwound (cfg : Cfg) (ign : Bool) (fs : FSIO) (root : Bytes) (en : Bytes × Bool × Bool)
    (hl : fs.lookup root = some en) (e : FailureIO) (he : (parseFileIO cfg ign fs root).1 = some e) :
    ∃ ns w, (parseFileIO cfg ign fs root).2.log = Event.opened root :: (w ++ [Event.closed root]) ∧
      UnwoundIO e root ns w ∧
      (∀ g, e.file? = some g → (root :: ns).getLast? = some g) ∧
      ∃ pre t, FaultTail e t ∧ w = pre ++ t ++ ns.reverse.map Event.closed := by
  obtain ⟨w, hw, hsh⟩ := parseFileIO_log_shape cfg ign fs root en hl
  rw [he] at hsh
  obtain ⟨ns, hu⟩ := hsh
  exact ⟨ns, w, hw, hu, hu.names_innermost, hu.suffix⟩

/-- the audit's case.  RecursiveInclude `{File f, Line l, Filename n}`: the handle that was opened
    on `n` - a second handle on a file of the include path - is closed, once, at once; then the
    handles of the include path are closed, once each, innermost (`f`) first, the root's last -/
theorem io_recursive_reopened_handle_closed (cfg : Cfg) (ign : Bool) (fs : FSIO) (root f n : Bytes) (l : Nat)
    (he : (parseFileIO cfg ign fs root).1 = some (.base (.recursive f l n))) :
    ∃ ns pre, (root :: ns).getLast? = some f ∧
      (parseFileIO cfg ign fs root).2.log
        = Event.opened root :: (pre ++ [Event.opened n, Event.closed n] ++ ns.reverse.map Event.closed
            ++ [Event.closed root]) := by
  rcases opt_cases (fs.lookup root) with hl | ⟨en, hl⟩
  · rw [parseFileIO_none cfg ign fs root hl] at he; simp at he
  · obtain ⟨ns, w, hw, _, hlast, pre, t, ht, hwt⟩ := io_failure_log_unwound cfg ign fs root en hl _ he
    refine ⟨ns, pre, hlast f rfl, ?_⟩
    rw [hw, hwt, ht.recursive_inv]

/-- `OpensClosed` alone would not do: root → a → a with the re-opened handle of `a` never closed
    has a close of that NAME after every open, and is not well nested -/
theorem io_opens_closed_is_by_name :
    OpensClosed [Event.opened nmRoot, Event.opened nmA, Event.opened nmA, Event.closed nmA, Event.closed nmRoot] ∧
    ¬ Nested [Event.opened nmRoot, Event.opened nmA, Event.opened nmA, Event.closed nmA, Event.closed nmRoot] :=
  opensClosed_by_name_only

/-- root → a → a, the `Close` of `a` fails: RecursiveInclude at line 1 of `a`.  `a` is open TWICE
    when the cycle is found; the re-opened handle is closed (once), then the first handle of `a`
    (once: its `Close` error cannot show), then the root -/
example : parseFileIO Cfg.tree false fsSelfCycleCloseFails nmRoot =
    (some (.base (.recursive nmA 1 nmA)),
     { log := [.opened nmRoot, .opened nmA, .opened nmA, .closed nmA, .closed nmA, .closed nmRoot] }) := by
  rw [io_eval]; decide
/-- … and this log is unwound along `[root, a]` with the tail `[opened a, closed a]` -/
example : UnwoundIO (.base (.recursive nmA 1 nmA)) nmRoot [nmA]
    ([] ++ Event.opened nmA :: (([] ++ [Event.opened nmA, Event.closed nmA]) ++ [Event.closed nmA])) :=
  .into nmA .nil (.here .nil (.reopened nmA 1 nmA) (by intro g hg; simp [FailureIO.file?] at hg; exact hg.symm))

/-- root → a → b, the reader of `b` fails: bare read error; `b`, `a`, the root are closed in that
    order, once each; the VALUE of `b` had been read, the lines after the includes were not -/
example : parseFileIO Cfg.tree false fsReadFailsDeep nmRoot =
    (some .readErr,
     { dict := { values := [{ attrName := [65], name := [118], number := 1 }] },
       log := [.opened nmRoot, .opened nmA, .opened nmB, .closed nmB, .closed nmA, .closed nmRoot] }) := by
  rw [io_eval]; decide
example : UnwoundIO .readErr nmRoot [nmA, nmB]
    ([] ++ Event.opened nmA :: (([] ++ Event.opened nmB :: (([] ++ []) ++ [Event.closed nmB])) ++ [Event.closed nmA])) :=
  .into nmA .nil (.into nmB .nil (.here .nil (.plain (by intros; simp) (by intros; simp))
    (by intro g hg; simp [FailureIO.file?] at hg)))

/-- a successful include is `ClosedTwice` -/
example : ClosedTwice [Event.opened nmA, Event.closed nmA, Event.closed nmA] := .file nmA .nil .nil

end RV.C15
