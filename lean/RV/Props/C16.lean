/-
  C16 — Dictionary language.
  "The parser accepts exactly the FreeRADIUS dictionary language it supports - ATTRIBUTE (name,
   dotted number, type incl. octets[n], flags has_tag / encrypt=n / concat), VALUE (decimal or
   0x-hex), VENDOR (optional format=t,l with t in {1,2,4} and l in {0,1,2}), BEGIN-VENDOR/END-VENDOR
   blocks, $INCLUDE, '#' comments and blank or whitespace-only lines - and the returned Dictionary
   lists precisely the declared attributes, values and vendors in declaration order with the
   declared names, numbers, types and flags, declarations inside a vendor block attached to that
   vendor. Layout (spacing, comments, blank lines, letter case of type names) never changes the
   result, and duplicate attribute names in a scope, duplicate vendor names or numbers, unknown
   vendors, nested/mismatched/unclosed vendor blocks, unknown types or flags, repeated flags and
   non-numeric numbers are rejected."

  Model: RV.Model.DictParser (mirror of dictionary/parser.go, with the repairs #11 #12 #13 as switches
  of `Cfg`).  Specification: RV.Model.DictSpec (abstract dictionaries `AD`, `toDictionary`,
  `Layout`, `render`, `WF`).  `parseText cfg ign text` = `Parser{IgnoreIdenticalAttributes: ign}.Parse`
  on a single text; its value is `(none, ⟨dictionary, _⟩)` or `(some failure, _)`.

  EXACTNESS (section "EXACTLY the language"): RV.Model.DictGrammar is a grammar of the language that
  does not call the parser; `accepts_exactly` : `parseText Cfg.repaired ign text = (none, ⟨d, []⟩) ↔
  Accepts ign text d`, built from the token-level (L1) and line-level (L2) equivalences.  The older
  `parse_render` is the direction "every rendering of a well-formed abstract dictionary is accepted";
  `render_accepted` ties the two specifications together.

  Hypotheses that delimit the theorems (the code's behaviour outside is modelled and compared with
  the Go code by the correspondence run, see DESIGN §5 C16): names are non-empty strings of bytes
  that are neither white space nor `#` (`tokenOK`); OID components < 2⁶³, sizes / encrypt values /
  vendor numbers in the signed 32-bit range, VALUE numbers < 2³²; physical lines shorter than
  bufio's 64 KiB token limit.
-/
import RV.Model.DictSpec
import RV.Model.DictGrammar
import RV.Proofs.DictParser
import RV.Proofs.DictLines
import RV.Proofs.DictReject
namespace RV.C16
open RV RV.Dict RV.DictParser RV.DictParser.Lex RV.DictParser.Spec RV.DictParser.Grammar

/-! ### Lexer -/

/-- `strings.Fields` of `lead f₁ sep₁ f₂ … fₙ trail` (white space = non-empty runs of blanks and tabs
    between fields, possibly empty runs around) is exactly `[f₁, …, fₙ]` -/
theorem fields_join (lead trail : Bytes) (seps : Nat → Bytes) (toks : List Bytes)
    (hl : blanks lead = true) (ht : blanks trail = true)
    (hs : ∀ j, j < toks.length → blanks (seps j) = true ∧ seps j ≠ [])
    (htok : ∀ t ∈ toks, tokenOK t = true) :
    fields (lead ++ joinFields seps 0 toks ++ trail) = toks :=
  DictParser.fields_join lead trail seps toks hl ht hs htok

/-- a whitespace-only string has no fields -/
theorem fields_whitespace_only (w : Bytes) (hw : blanks w = true) : fields w = [] :=
  DictParser.fields_blanks w hw

/-- everything from the first `#` on is dropped -/
theorem comment_stripped (l : Bytes) (c : Option Bytes) (h : l.all (· != 35) = true) :
    stripComment (l ++ commentPart c) = l :=
  DictParser.stripComment_commentPart l c h

/-- … as a specification: the result is the longest prefix without `#` -/
theorem comment_rule (l p : Bytes) :
    stripComment l = p ↔ (∀ b ∈ p, b ≠ 35) ∧ (l = p ∨ ∃ c, l = p ++ 35 :: c) :=
  stripComment_iff l p

/-- bufio.ScanLines delivers exactly the physical lines of a text, for LF and CRLF terminators and
    with or without a terminator on the last line -/
theorem lines_of_text (ps : List (Bytes × Bool)) (final : Bool)
    (hclean : ∀ p ∈ ps, clean p.1 = true) (hshort : ∀ p ∈ ps, p.1.length + 1 < maxTokenSize)
    (hlast : final = false → ∀ p, ps.getLast? = some p → p.1 ≠ []) :
    Lex.lines (joinPhys ps final) = (ps.map (·.1), false) :=
  lines_joinPhys ps final hclean hshort hlast

/-! ### One declaration line, every layout -/

/-- ATTRIBUTE: name, dotted number, type in any letter case incl. `octets[n]`, flags in any order -/
theorem parseLine_attribute (cfg : Cfg) (ign : Bool) (inc : IncludeHandler) (file : Bytes) (lineNo : Nat)
    (vb : Option Bytes) (st : St) (ll : LineLayout) (a : AAttr) (hll : ll.ok = true) (ha : a.ok = true)
    (hnew : attributeByName (scopeAttrs st.dict vb) a.name = none) :
    stepLine cfg ign inc file lineNo vb st (ll.content (attrTokens ll.caseMask a))
      = .next vb { st with dict := addAttr st.dict a.toAttribute vb } := by
  have := stepLine_aline cfg ign inc file lineNo vb st ll (.attr a) hll (by simp [stepOK, ha, hnew])
  simpa [ALine.tokens, applyLine] using this

/-- VALUE: decimal or `0x` hexadecimal -/
theorem parseLine_value (cfg : Cfg) (ign : Bool) (inc : IncludeHandler) (file : Bytes) (lineNo : Nat)
    (vb : Option Bytes) (st : St) (ll : LineLayout) (v : AValue) (hll : ll.ok = true) (hv : v.ok = true) :
    stepLine cfg ign inc file lineNo vb st (ll.content (valueTokens v))
      = .next vb { st with dict := addValue st.dict v.toValue vb } := by
  have := stepLine_aline cfg ign inc file lineNo vb st ll (.value v) hll (by simp [stepOK, hv])
  simpa [ALine.tokens, applyLine] using this

/-- VENDOR: with or without `format=t,l` -/
theorem parseLine_vendor (cfg : Cfg) (ign : Bool) (inc : IncludeHandler) (file : Bytes) (lineNo : Nat)
    (vb : Option Bytes) (st : St) (ll : LineLayout) (v : AVendor) (hll : ll.ok = true) (hv : v.ok = true)
    (hnew : vendorByNameOrNumber st.dict.vendors v.name v.number = none) :
    stepLine cfg ign inc file lineNo vb st (ll.content (vendorTokens v))
      = .next vb { st with dict := { st.dict with vendors := st.dict.vendors ++ [v.toVendor] } } := by
  have := stepLine_aline cfg ign inc file lineNo vb st ll (.vendor v) hll (by simp [stepOK, hv, hnew])
  simpa [ALine.tokens, applyLine] using this

/-- lines that declare nothing (blank, whitespace-only, comment with or without indentation) are skipped -/
theorem parseLine_filler (cfg : Cfg) (hfix : cfg.skipNoFields = true) (ign : Bool) (inc : IncludeHandler) (file : Bytes)
    (lineNo : Nat) (vb : Option Bytes) (st : St) (f : Filler) (hf : f.ok = true) :
    stepLine cfg ign inc file lineNo vb st f.content = .next vb st :=
  stepLine_filler cfg ign inc file lineNo vb st f hf (Or.inl hfix)

/-! ### The whole language: parse ∘ render = toDictionary -/

/-- the statement: every well-formed abstract dictionary, in every layout, parses to the dictionary it denotes -/
def parse_render_full (cfg : Cfg) : Prop :=
  ∀ (ign : Bool) (ℓ : Layout) (ad : AD), WF ad → LayoutOK ℓ ad →
    parseText cfg ign (render ℓ ad) = (none, { dict := toDictionary ad, log := [] })

/-- holds for the repaired parser (only fix #11 matters here) -/
theorem parse_render : parse_render_full Cfg.repaired :=
  fun ign ℓ ad hwf hlay => parseText_render Cfg.repaired ign ℓ ad hwf hlay (Or.inl rfl)

/-- … and for every variant of the code that has fix #11, whatever the other switches -/
theorem parse_render_any (cfg : Cfg) (h11 : cfg.skipNoFields = true) : parse_render_full cfg :=
  fun ign ℓ ad hwf hlay => parseText_render cfg ign ℓ ad hwf hlay (Or.inl h11)

/-- layout never changes the result -/
theorem layout_independent (ign : Bool) (ℓ₁ ℓ₂ : Layout) (ad : AD) (hwf : WF ad) (h₁ : LayoutOK ℓ₁ ad) (h₂ : LayoutOK ℓ₂ ad) :
    parseText Cfg.repaired ign (render ℓ₁ ad) = parseText Cfg.repaired ign (render ℓ₂ ad) := by
  rw [parse_render ign ℓ₁ ad hwf h₁, parse_render ign ℓ₂ ad hwf h₂]

/-- declaration order: the top-level attributes of the result are the top-level ATTRIBUTE declarations, in order -/
theorem toDictionary_attributes (ad : AD) :
    (toDictionary ad).attributes = ad.filterMap fun
      | .item (.attr a) => some a.toAttribute
      | _ => none :=
  toDictionary_attributes' ad

/-- … the top-level values likewise -/
theorem toDictionary_values (ad : AD) :
    (toDictionary ad).values = ad.filterMap fun
      | .item (.value v) => some v.toValue
      | _ => none :=
  toDictionary_values' ad

/-- … and the vendors are the VENDOR declarations in order (names and numbers; their attribute and
    value lists are filled by the blocks) -/
theorem toDictionary_vendors (ad : AD) :
    (toDictionary ad).vendors.map (fun v => (v.name, v.number)) = ad.filterMap fun
      | .vendor v => some (v.name, v.number)
      | _ => none :=
  toDictionary_vendors' ad

/-! ### EXACTLY the language.
    RV.Model.DictGrammar writes the language down as a grammar that does not call the parser:
    token predicates (`Decimal`, `Int32Lit`, `ValueNumber`, `DottedNumber`, `FoldsTo`, `TypeTok`,
    `FlagItem`, `FlagField`, `FormatTok`), line rules with their context conditions (`LineDecl`: name new
    in the scope unless IgnoreIdenticalAttributes and identical; vendor name and number new; BEGIN-VENDOR
    of a declared vendor with no block open; END-VENDOR of the open block), texts (`LinesDecl`,
    `Accepts`: every line blank or a valid declaration, no line over the scanner limit, no block open at
    the end).  Three layers, all proved as equivalences:
      L1  each token parser accepts exactly its token language and returns the value the grammar assigns;
      L2  the directive switch lets a line pass exactly when `LineDecl` holds, with that state change;
      L3  `Parse` succeeds on a text exactly when `Accepts` holds, with that dictionary.
    The lexer (`Lex.lines`, `Lex.stripComment`, `Lex.fields`) is shared by both sides in L3; it has its
    own theorems above (`fields_join`, `comment_stripped`, `lines_of_text`). `$INCLUDE` is outside
    `Accepts` (C15): on a single text the opener knows no file, so such a line is refused. -/

/-! #### L1: tokens -/

/-- `strconv.ParseUint(s, 10, 32)`: non-empty digit strings below 2³², positional value -/
theorem token_decimal (s : Bytes) (n : Nat) : parseUint32Dec s = some n ↔ Decimal s ∧ decValue s = n ∧ n < 2 ^ 32 :=
  parseUint32Dec_iff s n

/-- `strconv.ParseUint(s, 16, 32)`: non-empty strings of `0-9a-fA-F` below 2³² -/
theorem token_hexadecimal (s : Bytes) (n : Nat) : parseUint32Hex s = some n ↔ Hexadecimal s ∧ hexValue s = n ∧ n < 2 ^ 32 :=
  parseUint32Hex_iff s n

/-- `strconv.ParseInt(s, 10, 32)` (vendor numbers, `encrypt=`, `octets[n]`): optional sign, digits, 32-bit range -/
theorem token_int32 (s : Bytes) (n : Int) : parseInt32 s = some n ↔ Int32Lit s n :=
  parseInt32_iff s n

/-- dotted numbers (fix #13: every component fits Go's int) -/
theorem token_oid (cfg : Cfg) (h13 : cfg.oidOverflowRejected = true) (s : Bytes) (o : List Int) :
    parseOID cfg s = some o ↔ ∃ comps, DottedNumber s comps ∧ (∀ c ∈ comps, decValue c < 2 ^ 63) ∧ o = oidOf comps :=
  parseOID_iff cfg h13 s o

/-- … in every configuration the syntax accepted is that of a dotted number -/
theorem token_oid_syntax (cfg : Cfg) (s : Bytes) (o : List Int) (h : parseOID cfg s = some o) : ∃ comps, DottedNumber s comps :=
  parseOID_dotted cfg s o h

/-- `strings.EqualFold` against the parser's lower-case constants -/
theorem token_fold (s t : Bytes) : foldEq s t = true ↔ FoldsTo s t := foldEq_iff s t

/-- type names in any letter case, and `octets[n]` -/
theorem token_type (t : Bytes) (ty : AttrType) (size : Option Int) : parseType t = .ok (ty, size) ↔ TypeTok t ty size :=
  parseType_iff t ty size

/-- the flag field: items separated by commas … -/
theorem token_flag_field (s : Bytes) (items : List Bytes) : splitComma s = items ↔ FlagField s items := splitComma_iff s items

/-- … each `has_tag`, `concat` or `encrypt=`+literal, no kind twice -/
theorem token_flags (items : List Bytes) (a a' : Attribute) :
    parseFlags items a = .ok a' ↔ ∃ fl, FlagItems items fl ∧ FlagsOnce a fl ∧ a' = fl.foldl applyFlag a :=
  parseFlags_iff items a a'

/-- (fix #12) `format=t,l` -/
theorem token_format (cfg : Cfg) (h12 : cfg.formatLenChecked = true) (f : Bytes) : formatOK cfg f = true ↔ ∃ t l, FormatTok f t l :=
  formatOK_iff cfg h12 f

/-- the arguments of ATTRIBUTE, VALUE, VENDOR -/
theorem attribute_args (cfg : Cfg) (h13 : cfg.oidOverflowRejected = true) (name oid typ : Bytes) (flags : Option Bytes) (a : Attribute) :
    parseAttribute cfg name oid typ flags = .ok a ↔ AttrArgs name oid typ flags a :=
  parseAttribute_iff cfg h13 name oid typ flags a

theorem value_args (attr name num : Bytes) (v : Value) : parseValue attr name num = .ok v ↔ ValueArgs attr name num v :=
  parseValue_iff attr name num v

theorem vendor_args (cfg : Cfg) (h12 : cfg.formatLenChecked = true) (name num : Bytes) (fmt : Option Bytes) (v : Vendor) :
    parseVendor cfg name num fmt = .ok v ↔ VendorArgs name num fmt v :=
  parseVendor_iff cfg h12 name num fmt v

/-! #### L2: lines -/

/-- the directive switch lets the fields of a line pass, with this change of (vendor block, dictionary),
    iff the line is a declaration of the grammar valid where it stands — or a `$INCLUDE` outside a
    vendor block that the include handler ran successfully (C15) -/
theorem line_accepted_iff (cfg : Cfg) (h12 : cfg.formatLenChecked = true) (h13 : cfg.oidOverflowRejected = true)
    (ign : Bool) (inc : IncludeHandler) (file : Bytes) (lineNo : Nat) (vb : Option Bytes) (st : St)
    (fields : List Bytes) (vb' : Option Bytes) (st' : St) :
    dispatch cfg ign inc file lineNo vb st fields = .next vb' st' ↔
      (LineDecl ign (vb, st.dict) fields (vb', st'.dict) ∧ st'.log = st.log) ∨
      (∃ n, fields = [kwINCLUDE, n] ∧ vb = none ∧ vb' = none ∧ inc n file lineNo st = (none, st')) :=
  dispatch_next_iff cfg h12 h13 ign inc file lineNo vb st fields vb' st'

/-- every other line is refused with a ParseError at this line -/
theorem line_refused (cfg : Cfg) (h12 : cfg.formatLenChecked = true) (h13 : cfg.oidOverflowRejected = true)
    (ign : Bool) (inc : IncludeHandler) (file : Bytes) (lineNo : Nat) (vb : Option Bytes) (st : St) (fields : List Bytes)
    (hno : ∀ s', ¬ LineDecl ign (vb, st.dict) fields s') (hinc : ∀ n, fields = [kwINCLUDE, n] → vb ≠ none) :
    ∃ c, dispatch cfg ign inc file lineNo vb st fields = .fail (.decl c file lineNo) st :=
  dispatch_fail_of_not_decl cfg h12 h13 ign inc file lineNo vb st fields hno hinc

/-- the field counts the switch lets through; everything else is UnknownLineError -/
theorem line_shape (cfg : Cfg) (ign : Bool) (inc : IncludeHandler) (file : Bytes) (lineNo : Nat) (vb : Option Bytes) (st : St)
    (fields : List Bytes) (h : shapeOK fields = false) :
    dispatch cfg ign inc file lineNo vb st fields = .fail (.decl .unknownLine file lineNo) st :=
  dispatch_unknown cfg ign inc file lineNo vb st fields h

/-! #### L3: texts -/

/-- EXACTNESS: the repaired parser succeeds on a text, returning `d`, iff the text is a text of the
    language that declares `d` -/
theorem accepts_exactly (ign : Bool) (text : Bytes) (d : Dictionary) :
    parseText Cfg.repaired ign text = (none, { dict := d, log := [] }) ↔ Accepts ign text d := by
  rw [parseText_ok_iff Cfg.repaired rfl rfl rfl ign text]
  simp

/-- … for every variant of the code that has the fixes #11 #12 #13, and any final state -/
theorem accepts_exactly_any (cfg : Cfg) (h11 : cfg.skipNoFields = true) (h12 : cfg.formatLenChecked = true)
    (h13 : cfg.oidOverflowRejected = true) (ign : Bool) (text : Bytes) (st : St) :
    parseText cfg ign text = (none, st) ↔ Accepts ign text st.dict ∧ st.log = [] :=
  parseText_ok_iff cfg h11 h12 h13 ign text st

/-- … in terms of the value `Parse` returns -/
theorem outcome_ok_iff (ign : Bool) (text : Bytes) (d : Dictionary) :
    outcome (parseText Cfg.repaired ign text) = .ok d ↔ Accepts ign text d := by
  rcases hr : parseText Cfg.repaired ign text with ⟨_ | e, st⟩
  · have := (parseText_ok_iff Cfg.repaired rfl rfl rfl ign text st).mp hr
    simp only [outcome, Except.ok.injEq]
    constructor
    · rintro rfl; exact this.1
    · intro h
      have h2 := (accepts_exactly ign text d).mpr h
      rw [hr] at h2
      injection h2 with _ h3
      rw [h3]
  · simp only [outcome, reduceCtorEq, false_iff]
    intro h
    have h2 := (accepts_exactly ign text d).mpr h
    rw [hr] at h2
    cases h2

/-- the language assigns one dictionary to a text -/
theorem accepted_dictionary_unique (ign : Bool) (text : Bytes) (d₁ d₂ : Dictionary)
    (h₁ : Accepts ign text d₁) (h₂ : Accepts ign text d₂) : d₁ = d₂ := by
  have e₁ := (accepts_exactly ign text d₁).mpr h₁
  have e₂ := (accepts_exactly ign text d₂).mpr h₂
  rw [e₁] at e₂
  injection e₂ with _ h
  injection h

/-- a text with a line of 64 KiB or more is not in the language (bufio.ErrTooLong) -/
theorem long_line_not_accepted (ign : Bool) (text : Bytes) (d : Dictionary) (h : (Lex.lines text).2 = true) :
    ¬ Accepts ign text d := by
  rintro ⟨h1, _⟩; rw [h] at h1; cases h1

/-- the two specifications agree: every rendering of a well-formed abstract dictionary is a text of
    the language, declaring the dictionary the abstract dictionary denotes -/
theorem render_accepted (ign : Bool) (ℓ : Layout) (ad : AD) (hwf : WF ad) (hlay : LayoutOK ℓ ad) :
    Accepts ign (render ℓ ad) (toDictionary ad) :=
  (accepts_exactly ign _ _).mp (parse_render ign ℓ ad hwf hlay)

/-- declarations are only ever appended: along an accepted text the top-level attribute and value
    lists and the vendor list (names, numbers) only grow at the end, in line order -/
theorem declarations_append_only (ign : Bool) (s s' : LState) (lines : List (List Bytes)) (h : LinesDecl ign s lines s') :
    Extends s.2 s'.2 :=
  linesDecl_extends h

/-! ### Rejections: one theorem per fault class, with the error class and the 1-based line.
    Shape: `ls` are the well-formed declaration lines before the fault (`GoodPrefix`), laid out by `ℓ`;
    the faulty line is laid out by `ll`; `R` is whatever follows.  The reported line is the number of
    physical lines of the prefix plus one. -/

/-- the line number the theorems report: number of physical lines before the faulty one, plus 1 -/
def faultLine (ℓ : Layout) (ls : List ALine) : Nat := (physFrom ℓ 0 ls).length + 1

theorem dup_attr_in_scope (cfg : Cfg) (ign : Bool) (ℓ : Layout) (ls : List ALine) (ll : LineLayout) (a : AAttr) (R : Bytes)
    (e : Attribute) (hp : GoodPrefix cfg ℓ ls) (hll : ll.ok = true) (ha : a.ok = true)
    (hshort : (ll.content (attrTokens ll.caseMask a)).length + 1 < maxTokenSize)
    (hdup : attributeByName (scopeAttrs (stateAfter ls).2 (stateAfter ls).1) a.name = some e)
    (hne : ¬ (ign = true ∧ a.toAttribute = e)) :
    (parseText cfg ign (textOfLines ℓ ls ++ ll.content (attrTokens ll.caseMask a) ++ 10 :: R)).1
      = some (.decl .duplicateAttribute [] (faultLine ℓ ls)) :=
  reject_line cfg ign ℓ ls ll _ R _ hp hll (by simp [attrTokens]) (attrTokens_ok _ a ha) hshort
    (fun inc file lineNo st hst => dispatch_attr_dup cfg ign inc file lineNo _ st _ a e ha (by rw [hst]; exact hdup) hne)

/-- with IgnoreIdenticalAttributes an identical repetition is skipped silently instead -/
theorem identical_attr_ignored (cfg : Cfg) (inc : IncludeHandler) (file : Bytes) (lineNo : Nat) (vb : Option Bytes) (st : St)
    (ll : LineLayout) (a : AAttr) (hll : ll.ok = true) (ha : a.ok = true)
    (hdup : attributeByName (scopeAttrs st.dict vb) a.name = some a.toAttribute) :
    stepLine cfg true inc file lineNo vb st (ll.content (attrTokens ll.caseMask a)) = .next vb st :=
  stepLine_attr_identical cfg inc file lineNo vb st ll a hll ha hdup

theorem dup_vendor_name_or_number (cfg : Cfg) (ign : Bool) (ℓ : Layout) (ls : List ALine) (ll : LineLayout) (v : AVendor)
    (R : Bytes) (hp : GoodPrefix cfg ℓ ls) (hll : ll.ok = true) (hv : v.ok = true)
    (hshort : (ll.content (vendorTokens v)).length + 1 < maxTokenSize)
    (hdup : ∃ w ∈ (stateAfter ls).2.vendors, w.name = v.name ∨ w.number = v.number) :
    (parseText cfg ign (textOfLines ℓ ls ++ ll.content (vendorTokens v) ++ 10 :: R)).1
      = some (.decl .duplicateVendor [] (faultLine ℓ ls)) := by
  obtain ⟨w, hw⟩ := vendorByNameOrNumber_some _ _ _ hdup
  exact reject_line cfg ign ℓ ls ll _ R _ hp hll (by simp [vendorTokens]) (vendorTokens_ok v hv) hshort
    (fun inc file lineNo st hst => dispatch_vendor_dup cfg ign inc file lineNo _ st v w hv (by rw [hst]; exact hw))

theorem unknown_vendor (cfg : Cfg) (ign : Bool) (ℓ : Layout) (ls : List ALine) (ll : LineLayout) (n R : Bytes)
    (hp : GoodPrefix cfg ℓ ls) (hll : ll.ok = true) (hn : tokenOK n = true)
    (hshort : (ll.content [kwBEGIN, n]).length + 1 < maxTokenSize)
    (htop : (stateAfter ls).1 = none) (hunk : vendorByName (stateAfter ls).2.vendors n = none) :
    (parseText cfg ign (textOfLines ℓ ls ++ ll.content [kwBEGIN, n] ++ 10 :: R)).1
      = some (.decl .unknownVendor [] (faultLine ℓ ls)) :=
  reject_line cfg ign ℓ ls ll _ R _ hp hll (by simp) (tokens_ok [] (.beginV n) hn) hshort
    (fun inc file lineNo st hst => by rw [htop]; exact dispatch_begin_unknown cfg ign inc file lineNo st n (by rw [hst]; exact hunk))

theorem nested_begin (cfg : Cfg) (ign : Bool) (ℓ : Layout) (ls : List ALine) (ll : LineLayout) (n v R : Bytes)
    (hp : GoodPrefix cfg ℓ ls) (hll : ll.ok = true) (hn : tokenOK n = true)
    (hshort : (ll.content [kwBEGIN, n]).length + 1 < maxTokenSize) (hin : (stateAfter ls).1 = some v) :
    (parseText cfg ign (textOfLines ℓ ls ++ ll.content [kwBEGIN, n] ++ 10 :: R)).1
      = some (.decl .nestedVendorBlock [] (faultLine ℓ ls)) :=
  reject_line cfg ign ℓ ls ll _ R _ hp hll (by simp) (tokens_ok [] (.beginV n) hn) hshort
    (fun inc file lineNo st _ => by rw [hin]; exact dispatch_begin_nested cfg ign inc file lineNo st n v)

theorem mismatched_end (cfg : Cfg) (ign : Bool) (ℓ : Layout) (ls : List ALine) (ll : LineLayout) (n v R : Bytes)
    (hp : GoodPrefix cfg ℓ ls) (hll : ll.ok = true) (hn : tokenOK n = true)
    (hshort : (ll.content [kwEND, n]).length + 1 < maxTokenSize) (hin : (stateAfter ls).1 = some v) (hne : v ≠ n) :
    (parseText cfg ign (textOfLines ℓ ls ++ ll.content [kwEND, n] ++ 10 :: R)).1
      = some (.decl .invalidEndVendor [] (faultLine ℓ ls)) :=
  reject_line cfg ign ℓ ls ll _ R _ hp hll (by simp) (tokens_ok [] (.endV n) hn) hshort
    (fun inc file lineNo st _ => by rw [hin]; exact dispatch_end_mismatch cfg ign inc file lineNo st n v hne)

theorem unmatched_end (cfg : Cfg) (ign : Bool) (ℓ : Layout) (ls : List ALine) (ll : LineLayout) (n R : Bytes)
    (hp : GoodPrefix cfg ℓ ls) (hll : ll.ok = true) (hn : tokenOK n = true)
    (hshort : (ll.content [kwEND, n]).length + 1 < maxTokenSize) (htop : (stateAfter ls).1 = none) :
    (parseText cfg ign (textOfLines ℓ ls ++ ll.content [kwEND, n] ++ 10 :: R)).1
      = some (.decl .unmatchedEndVendor [] (faultLine ℓ ls)) :=
  reject_line cfg ign ℓ ls ll _ R _ hp hll (by simp) (tokens_ok [] (.endV n) hn) hshort
    (fun inc file lineNo st _ => by rw [htop]; exact dispatch_end_unmatched cfg ign inc file lineNo st n)

/-- a block still open at the end of the text is reported at the last line of the text -/
theorem unclosed_block (cfg : Cfg) (ign : Bool) (ℓ : Layout) (ls : List ALine) (n : Bytes)
    (hp : GoodPrefix cfg ℓ ls) (hopen : (stateAfter ls).1 = some n) :
    (parseText cfg ign (textOfLines ℓ ls)).1 = some (.decl .unclosedVendorBlock [] (physFrom ℓ 0 ls).length) :=
  unclosed_after_lines cfg ign ℓ ls n hp hopen

/-- a type token that `strings.EqualFold` equates with none of the 17 names and that does not end in `]` -/
theorem unknown_type (cfg : Cfg) (ign : Bool) (ℓ : Layout) (ls : List ALine) (ll : LineLayout) (name ty R : Bytes)
    (oid : List Nat) (fl : Option Bytes) (hp : GoodPrefix cfg ℓ ls) (hll : ll.ok = true)
    (hname : tokenOK name = true) (hty : tokenOK ty = true) (hfl : ∀ x ∈ fl.toList, tokenOK x = true)
    (hoid : oid ≠ [] ∧ ∀ c ∈ oid, c < 2 ^ 63)
    (hshort : (ll.content ([kwATTRIBUTE, name, showOID oid, ty] ++ fl.toList)).length + 1 < maxTokenSize)
    (hunk : ∀ t, foldEq ty (typeName t) = false) (hbr : ty.getLast? ≠ some 93) :
    (parseText cfg ign (textOfLines ℓ ls ++ ll.content ([kwATTRIBUTE, name, showOID oid, ty] ++ fl.toList) ++ 10 :: R)).1
      = some (.decl .unknownAttributeType [] (faultLine ℓ ls)) :=
  reject_line cfg ign ℓ ls ll _ R _ hp hll (by simp)
    (by
      intro t ht
      simp only [List.mem_append, List.mem_cons, List.not_mem_nil, or_false] at ht
      rcases ht with (rfl | rfl | rfl | rfl) | ht
      · decide
      · exact hname
      · exact tokenOK_showOID _ hoid.1
      · exact hty
      · exact hfl t ht)
    hshort
    (fun inc file lineNo st _ => dispatch_attr_err cfg ign inc file lineNo _ st name _ ty fl _
      (by simp [parseAttribute, parseOID_showOID cfg oid hoid.1 hoid.2, parseType_unknown ty hunk hbr]))

/-- a flag that is none of `has_tag`, `concat`, `encrypt=…`, after the well-formed flags of `a` -/
theorem unknown_flag (cfg : Cfg) (ign : Bool) (ℓ : Layout) (ls : List ALine) (ll : LineLayout) (a : AAttr) (bad R : Bytes)
    (more : List Bytes) (hp : GoodPrefix cfg ℓ ls) (hll : ll.ok = true) (ha : a.ok = true)
    (hfield : tokenOK (Spec.intercalate 44 (a.flags.map flagToken ++ bad :: more)) = true)
    (hcomma : ∀ t ∈ bad :: more, t.all (· != 44) = true)
    (hshort : (ll.content [kwATTRIBUTE, a.name, showOID a.oid, typeToken ll.caseMask a,
        Spec.intercalate 44 (a.flags.map flagToken ++ bad :: more)]).length + 1 < maxTokenSize)
    (h1 : (bad.take 8 == kwEncrypt) = false) (h2 : bad ≠ kwHasTag) (h3 : bad ≠ kwConcat) :
    (parseText cfg ign (textOfLines ℓ ls ++ ll.content [kwATTRIBUTE, a.name, showOID a.oid, typeToken ll.caseMask a,
        Spec.intercalate 44 (a.flags.map flagToken ++ bad :: more)] ++ 10 :: R)).1
      = some (.decl .unknownAttributeFlag [] (faultLine ℓ ls)) :=
  reject_line cfg ign ℓ ls ll _ R _ hp hll (by simp) (attrLine_tokens_ok ll.caseMask a _ ha hfield) hshort
    (fun inc file lineNo st _ => dispatch_attr_err cfg ign inc file lineNo _ st _ _ _ (some _) _
      (by rw [parseAttribute_flags cfg _ a _ ha (by simp) hcomma]; exact parseFlags_unknown bad more _ h1 h2 h3))

/-- a flag of a kind that the preceding (well-formed) flags of `a` already contain -/
theorem repeated_flag (cfg : Cfg) (ign : Bool) (ℓ : Layout) (ls : List ALine) (ll : LineLayout) (a : AAttr) (f : Flag) (R : Bytes)
    (more : List Bytes) (hp : GoodPrefix cfg ℓ ls) (hll : ll.ok = true) (ha : a.ok = true)
    (hfield : tokenOK (Spec.intercalate 44 (a.flags.map flagToken ++ flagToken f :: more)) = true)
    (hcomma : ∀ t ∈ more, t.all (· != 44) = true)
    (hshort : (ll.content [kwATTRIBUTE, a.name, showOID a.oid, typeToken ll.caseMask a,
        Spec.intercalate 44 (a.flags.map flagToken ++ flagToken f :: more)]).length + 1 < maxTokenSize)
    (hrep : kindSet a.toAttribute f = true) :
    (parseText cfg ign (textOfLines ℓ ls ++ ll.content [kwATTRIBUTE, a.name, showOID a.oid, typeToken ll.caseMask a,
        Spec.intercalate 44 (a.flags.map flagToken ++ flagToken f :: more)] ++ 10 :: R)).1
      = some (.decl .duplicateAttributeFlag [] (faultLine ℓ ls)) :=
  reject_line cfg ign ℓ ls ll _ R _ hp hll (by simp) (attrLine_tokens_ok ll.caseMask a _ ha hfield) hshort
    (fun inc file lineNo st _ => dispatch_attr_err cfg ign inc file lineNo _ st _ _ _ (some _) _
      (by
        rw [parseAttribute_flags cfg _ a _ ha (by simp) (by
          intro t ht
          simp only [List.mem_cons] at ht
          rcases ht with rfl | ht
          · exact flagToken_noComma f
          · exact hcomma t ht)]
        exact parseFlags_repeated f more _ hrep))

/-- a "dotted number" containing a byte that is neither digit nor dot -/
theorem non_numeric_oid (cfg : Cfg) (ign : Bool) (ℓ : Layout) (ls : List ALine) (ll : LineLayout) (name oid ty R : Bytes)
    (fl : Option Bytes) (hp : GoodPrefix cfg ℓ ls) (hll : ll.ok = true)
    (htok : ∀ t ∈ [name, oid, ty] ++ fl.toList, tokenOK t = true)
    (hshort : (ll.content ([kwATTRIBUTE, name, oid, ty] ++ fl.toList)).length + 1 < maxTokenSize)
    (hbad : ∃ b ∈ oid, oidBad b = true) :
    (parseText cfg ign (textOfLines ℓ ls ++ ll.content ([kwATTRIBUTE, name, oid, ty] ++ fl.toList) ++ 10 :: R)).1
      = some (.decl .invalidOID [] (faultLine ℓ ls)) :=
  reject_line cfg ign ℓ ls ll _ R _ hp hll (by simp)
    (by
      intro t ht
      simp only [List.cons_append, List.nil_append, List.mem_cons] at ht htok
      rcases ht with rfl | ht
      · decide
      · exact htok t ht)
    hshort
    (fun inc file lineNo st _ => dispatch_attr_err cfg ign inc file lineNo _ st name oid ty fl _
      (by simp [parseAttribute, parseOID_bad cfg oid hbad]))

/-- (fix #13) a first OID component that does not fit Go's int -/
theorem oid_overflow_rejected (cfg : Cfg) (h13 : cfg.oidOverflowRejected = true) (ign : Bool) (ℓ : Layout) (ls : List ALine)
    (ll : LineLayout) (name ty R : Bytes) (n : Nat) (hp : GoodPrefix cfg ℓ ls) (hll : ll.ok = true)
    (hname : tokenOK name = true) (hty : tokenOK ty = true)
    (hshort : (ll.content [kwATTRIBUTE, name, showDec n, ty]).length + 1 < maxTokenSize) (hbig : 2 ^ 63 ≤ n) :
    (parseText cfg ign (textOfLines ℓ ls ++ ll.content [kwATTRIBUTE, name, showDec n, ty] ++ 10 :: R)).1
      = some (.decl .invalidOID [] (faultLine ℓ ls)) :=
  reject_line cfg ign ℓ ls ll _ R _ hp hll (by simp)
    (by
      intro t ht
      simp only [List.mem_cons, List.not_mem_nil, or_false] at ht
      rcases ht with rfl | rfl | rfl | rfl
      · decide
      · exact hname
      · exact (tokenOK_iff _).2 ⟨(showDec_spec n).2.1, plainAll_showDec n⟩
      · exact hty)
    hshort
    (fun inc file lineNo st _ => dispatch_attr_err cfg ign inc file lineNo _ st name _ ty none _
      (by
        have := parseOID_overflow_first cfg h13 n [] hbig
        simp only [List.append_nil] at this
        simp [parseAttribute, this]))

/-- a VALUE number (not `0x…`) containing a non-digit -/
theorem non_numeric_value (cfg : Cfg) (ign : Bool) (ℓ : Layout) (ls : List ALine) (ll : LineLayout) (a n num R : Bytes)
    (hp : GoodPrefix cfg ℓ ls) (hll : ll.ok = true) (htok : ∀ t ∈ [a, n, num], tokenOK t = true)
    (hshort : (ll.content [kwVALUE, a, n, num]).length + 1 < maxTokenSize)
    (h0x : (num.take 2 == kw0x) = false) (hbad : ∃ b ∈ num, isDigit b = false) :
    (parseText cfg ign (textOfLines ℓ ls ++ ll.content [kwVALUE, a, n, num] ++ 10 :: R)).1
      = some (.decl .strconv [] (faultLine ℓ ls)) :=
  reject_line cfg ign ℓ ls ll _ R _ hp hll (by simp)
    (by
      intro t ht
      simp only [List.mem_cons] at ht htok
      rcases ht with rfl | ht
      · decide
      · exact htok t ht)
    hshort
    (fun inc file lineNo st _ => dispatch_value_err cfg ign inc file lineNo _ st a n num _ (parseValue_bad a n num h0x hbad))

/-- a VENDOR number containing a byte that is neither digit nor sign -/
theorem non_numeric_vendor_number (cfg : Cfg) (ign : Bool) (ℓ : Layout) (ls : List ALine) (ll : LineLayout) (n num R : Bytes)
    (fmt : Option Bytes) (hp : GoodPrefix cfg ℓ ls) (hll : ll.ok = true)
    (htok : ∀ t ∈ [n, num] ++ fmt.toList, tokenOK t = true)
    (hshort : (ll.content ([kwVENDOR, n, num] ++ fmt.toList)).length + 1 < maxTokenSize)
    (hbad : ∃ b ∈ num, isDigit b = false ∧ b ≠ 43 ∧ b ≠ 45) :
    (parseText cfg ign (textOfLines ℓ ls ++ ll.content ([kwVENDOR, n, num] ++ fmt.toList) ++ 10 :: R)).1
      = some (.decl .strconv [] (faultLine ℓ ls)) :=
  reject_line cfg ign ℓ ls ll _ R _ hp hll (by simp)
    (by
      intro t ht
      simp only [List.cons_append, List.nil_append, List.mem_cons] at ht htok
      rcases ht with rfl | ht
      · decide
      · exact htok t ht)
    hshort
    (fun inc file lineNo st _ => dispatch_vendor_err cfg ign inc file lineNo _ st n num fmt _ (parseVendor_bad_number cfg n num fmt hbad))

/-- (fix #12) a fourth VENDOR field that is not `format=t,l` with t ∈ {1,2,4}, l ∈ {0,1,2} -/
theorem bad_vendor_format (cfg : Cfg) (h12 : cfg.formatLenChecked = true) (ign : Bool) (ℓ : Layout) (ls : List ALine)
    (ll : LineLayout) (n f R : Bytes) (num : Int) (hp : GoodPrefix cfg ℓ ls) (hll : ll.ok = true)
    (hn : tokenOK n = true) (hf : tokenOK f = true) (hnum : int32OK num = true)
    (hshort : (ll.content [kwVENDOR, n, showInt num, f]).length + 1 < maxTokenSize) (hbad : ¬ isFormatToken f) :
    (parseText cfg ign (textOfLines ℓ ls ++ ll.content [kwVENDOR, n, showInt num, f] ++ 10 :: R)).1
      = some (.decl .invalidVendorFormat [] (faultLine ℓ ls)) :=
  reject_line cfg ign ℓ ls ll _ R _ hp hll (by simp)
    (by
      intro t ht
      simp only [List.mem_cons, List.not_mem_nil, or_false] at ht
      rcases ht with rfl | rfl | rfl | rfl
      · decide
      · exact hn
      · exact (tokenOK_iff _).2 ⟨showInt_ne_nil _, plainAll_showInt _⟩
      · exact hf)
    hshort
    (fun inc file lineNo st _ => dispatch_vendor_err cfg ign inc file lineNo _ st n _ (some f) _
      (parseVendor_bad_format cfg h12 n num f hnum hbad))

/-! ### Rejections asked for by the audit: `encrypt=` values, `octets[n]`, field counts, keywords -/

/-- `encrypt=` followed by something that is no signed 32-bit decimal literal (non-numeric, empty,
    out of range), after the well-formed flags of `a`, none of which is an `encrypt=` -/
theorem bad_encrypt_value (cfg : Cfg) (ign : Bool) (ℓ : Layout) (ls : List ALine) (ll : LineLayout) (a : AAttr) (bad R : Bytes)
    (more : List Bytes) (hp : GoodPrefix cfg ℓ ls) (hll : ll.ok = true) (ha : a.ok = true)
    (hfield : tokenOK (Spec.intercalate 44 (a.flags.map flagToken ++ (kwEncrypt ++ bad) :: more)) = true)
    (hcomma : ∀ t ∈ (kwEncrypt ++ bad) :: more, t.all (· != 44) = true)
    (hshort : (ll.content [kwATTRIBUTE, a.name, showOID a.oid, typeToken ll.caseMask a,
        Spec.intercalate 44 (a.flags.map flagToken ++ (kwEncrypt ++ bad) :: more)]).length + 1 < maxTokenSize)
    (hfirst : a.toAttribute.encrypt = none) (hbad : ∀ n, ¬ Int32Lit bad n) :
    (parseText cfg ign (textOfLines ℓ ls ++ ll.content [kwATTRIBUTE, a.name, showOID a.oid, typeToken ll.caseMask a,
        Spec.intercalate 44 (a.flags.map flagToken ++ (kwEncrypt ++ bad) :: more)] ++ 10 :: R)).1
      = some (.decl .invalidAttributeEncryptType [] (faultLine ℓ ls)) :=
  reject_line cfg ign ℓ ls ll _ R _ hp hll (by simp) (attrLine_tokens_ok ll.caseMask a _ ha hfield) hshort
    (fun inc file lineNo st _ => dispatch_attr_err cfg ign inc file lineNo _ st _ _ _ (some _) _
      (by rw [parseAttribute_flags cfg _ a _ ha (by simp) hcomma]; exact parseFlags_bad_encrypt bad more _ hfirst hbad))

/-- the two cases the audit names: a byte that is neither digit nor sign … -/
theorem non_numeric_is_no_int32 (s : Bytes) (h : ∃ b ∈ s, isDigit b = false ∧ b ≠ 43 ∧ b ≠ 45) : ∀ n, ¬ Int32Lit s n :=
  not_int32Lit_of_nondigit s h

/-- … and a number outside −2³¹ … 2³¹−1 -/
theorem out_of_range_is_no_int32 (v : Nat) :
    (2 ^ 31 ≤ v → ∀ n, ¬ Int32Lit (showDec v) n) ∧ (2 ^ 31 < v → ∀ n, ¬ Int32Lit (45 :: showDec v) n) :=
  ⟨not_int32Lit_of_big v, not_int32Lit_of_small v⟩

/-- a type token that begins with `octets[` (any letter case) but is not `octets[` + signed 32-bit
    literal + `]`: the closing bracket is missing, or the size is empty, non-numeric or out of range -/
theorem malformed_octets_size (cfg : Cfg) (ign : Bool) (ℓ : Layout) (ls : List ALine) (ll : LineLayout) (name r R : Bytes)
    (oid : List Nat) (fl : Option Bytes) (hp : GoodPrefix cfg ℓ ls) (hll : ll.ok = true)
    (hname : tokenOK name = true) (hty : tokenOK (applyCase ll.caseMask kwOctetsBr ++ r) = true)
    (hfl : ∀ x ∈ fl.toList, tokenOK x = true) (hoid : oid ≠ [] ∧ ∀ c ∈ oid, c < 2 ^ 63)
    (hshort : (ll.content ([kwATTRIBUTE, name, showOID oid, applyCase ll.caseMask kwOctetsBr ++ r] ++ fl.toList)).length + 1
        < maxTokenSize)
    (hbad : ∀ lit n, r = lit ++ [93] → ¬ Int32Lit lit n) :
    (parseText cfg ign (textOfLines ℓ ls ++
        ll.content ([kwATTRIBUTE, name, showOID oid, applyCase ll.caseMask kwOctetsBr ++ r] ++ fl.toList) ++ 10 :: R)).1
      = some (.decl .unknownAttributeType [] (faultLine ℓ ls)) :=
  reject_line cfg ign ℓ ls ll _ R _ hp hll (by simp)
    (by
      intro t ht
      simp only [List.mem_append, List.mem_cons, List.not_mem_nil, or_false] at ht
      rcases ht with (rfl | rfl | rfl | rfl) | ht
      · decide
      · exact hname
      · exact tokenOK_showOID _ hoid.1
      · exact hty
      · exact hfl t ht)
    hshort
    (fun inc file lineNo st _ => dispatch_attr_err cfg ign inc file lineNo _ st name _ _ fl _
      (by simp [parseAttribute, parseOID_showOID cfg oid hoid.1 hoid.2, parseType_octetsBr_error ll.caseMask r hbad]))

/-- the missing bracket: what follows `octets[` does not end in `]` -/
theorem missing_bracket_is_malformed (r : Bytes) (h : r.getLast? ≠ some 93) : ∀ lit n, r = lit ++ [93] → ¬ Int32Lit lit n := by
  intro lit n hr
  rw [hr] at h
  simp at h

/-- the non-numeric (or empty, or out-of-range) size -/
theorem bad_size_is_malformed (lit : Bytes) (h : ∀ n, ¬ Int32Lit lit n) : ∀ lit' n, lit ++ [93] = lit' ++ [93] → ¬ Int32Lit lit' n := by
  intro lit' n hr
  have : lit = lit' := List.append_cancel_right hr
  rw [← this]; exact h n

/-- WRONG FIELD COUNTS: a line whose first field is a keyword but whose number of fields is not one the
    directive takes is an UnknownLineError (the `default:` of the switch). -/
theorem wrong_field_count (cfg : Cfg) (ign : Bool) (ℓ : Layout) (ls : List ALine) (ll : LineLayout) (kw : Bytes)
    (args : List Bytes) (R : Bytes) (hp : GoodPrefix cfg ℓ ls) (hll : ll.ok = true) (hkw : tokenOK kw = true)
    (hargs : ∀ t ∈ args, tokenOK t = true) (hshort : (ll.content (kw :: args)).length + 1 < maxTokenSize)
    (hshape : shapeOK (kw :: args) = false) :
    (parseText cfg ign (textOfLines ℓ ls ++ ll.content (kw :: args) ++ 10 :: R)).1
      = some (.decl .unknownLine [] (faultLine ℓ ls)) :=
  reject_line cfg ign ℓ ls ll _ R _ hp hll (by simp)
    (by
      intro t ht
      rcases List.mem_cons.mp ht with rfl | ht
      · exact hkw
      · exact hargs t ht)
    hshort
    (fun inc file lineNo st _ => dispatch_unknown cfg ign inc file lineNo _ st _ hshape)

/-- ATTRIBUTE takes 3 or 4 arguments -/
theorem attribute_wrong_field_count (cfg : Cfg) (ign : Bool) (ℓ : Layout) (ls : List ALine) (ll : LineLayout) (args : List Bytes)
    (R : Bytes) (hp : GoodPrefix cfg ℓ ls) (hll : ll.ok = true) (hargs : ∀ t ∈ args, tokenOK t = true)
    (hshort : (ll.content (kwATTRIBUTE :: args)).length + 1 < maxTokenSize) (hcount : args.length ≠ 3 ∧ args.length ≠ 4) :
    (parseText cfg ign (textOfLines ℓ ls ++ ll.content (kwATTRIBUTE :: args) ++ 10 :: R)).1
      = some (.decl .unknownLine [] (faultLine ℓ ls)) :=
  wrong_field_count cfg ign ℓ ls ll _ args R hp hll (by decide) hargs hshort (by rw [shapeOK_attribute]; simp [hcount.1, hcount.2])

/-- VALUE takes 3 arguments -/
theorem value_wrong_field_count (cfg : Cfg) (ign : Bool) (ℓ : Layout) (ls : List ALine) (ll : LineLayout) (args : List Bytes)
    (R : Bytes) (hp : GoodPrefix cfg ℓ ls) (hll : ll.ok = true) (hargs : ∀ t ∈ args, tokenOK t = true)
    (hshort : (ll.content (kwVALUE :: args)).length + 1 < maxTokenSize) (hcount : args.length ≠ 3) :
    (parseText cfg ign (textOfLines ℓ ls ++ ll.content (kwVALUE :: args) ++ 10 :: R)).1
      = some (.decl .unknownLine [] (faultLine ℓ ls)) :=
  wrong_field_count cfg ign ℓ ls ll _ args R hp hll (by decide) hargs hshort (by rw [shapeOK_value]; simp [hcount])

/-- VENDOR takes 2 or 3 arguments -/
theorem vendor_wrong_field_count (cfg : Cfg) (ign : Bool) (ℓ : Layout) (ls : List ALine) (ll : LineLayout) (args : List Bytes)
    (R : Bytes) (hp : GoodPrefix cfg ℓ ls) (hll : ll.ok = true) (hargs : ∀ t ∈ args, tokenOK t = true)
    (hshort : (ll.content (kwVENDOR :: args)).length + 1 < maxTokenSize) (hcount : args.length ≠ 2 ∧ args.length ≠ 3) :
    (parseText cfg ign (textOfLines ℓ ls ++ ll.content (kwVENDOR :: args) ++ 10 :: R)).1
      = some (.decl .unknownLine [] (faultLine ℓ ls)) :=
  wrong_field_count cfg ign ℓ ls ll _ args R hp hll (by decide) hargs hshort (by rw [shapeOK_vendor]; simp [hcount.1, hcount.2])

/-- BEGIN-VENDOR takes 1 argument -/
theorem begin_vendor_wrong_field_count (cfg : Cfg) (ign : Bool) (ℓ : Layout) (ls : List ALine) (ll : LineLayout) (args : List Bytes)
    (R : Bytes) (hp : GoodPrefix cfg ℓ ls) (hll : ll.ok = true) (hargs : ∀ t ∈ args, tokenOK t = true)
    (hshort : (ll.content (kwBEGIN :: args)).length + 1 < maxTokenSize) (hcount : args.length ≠ 1) :
    (parseText cfg ign (textOfLines ℓ ls ++ ll.content (kwBEGIN :: args) ++ 10 :: R)).1
      = some (.decl .unknownLine [] (faultLine ℓ ls)) :=
  wrong_field_count cfg ign ℓ ls ll _ args R hp hll (by decide) hargs hshort (by rw [shapeOK_begin]; simp [hcount])

/-- END-VENDOR takes 1 argument -/
theorem end_vendor_wrong_field_count (cfg : Cfg) (ign : Bool) (ℓ : Layout) (ls : List ALine) (ll : LineLayout) (args : List Bytes)
    (R : Bytes) (hp : GoodPrefix cfg ℓ ls) (hll : ll.ok = true) (hargs : ∀ t ∈ args, tokenOK t = true)
    (hshort : (ll.content (kwEND :: args)).length + 1 < maxTokenSize) (hcount : args.length ≠ 1) :
    (parseText cfg ign (textOfLines ℓ ls ++ ll.content (kwEND :: args) ++ 10 :: R)).1
      = some (.decl .unknownLine [] (faultLine ℓ ls)) :=
  wrong_field_count cfg ign ℓ ls ll _ args R hp hll (by decide) hargs hshort (by rw [shapeOK_end]; simp [hcount])

/-- $INCLUDE takes 1 argument -/
theorem include_wrong_field_count (cfg : Cfg) (ign : Bool) (ℓ : Layout) (ls : List ALine) (ll : LineLayout) (args : List Bytes)
    (R : Bytes) (hp : GoodPrefix cfg ℓ ls) (hll : ll.ok = true) (hargs : ∀ t ∈ args, tokenOK t = true)
    (hshort : (ll.content (kwINCLUDE :: args)).length + 1 < maxTokenSize) (hcount : args.length ≠ 1) :
    (parseText cfg ign (textOfLines ℓ ls ++ ll.content (kwINCLUDE :: args) ++ 10 :: R)).1
      = some (.decl .unknownLine [] (faultLine ℓ ls)) :=
  wrong_field_count cfg ign ℓ ls ll _ args R hp hll (by decide) hargs hshort (by rw [shapeOK_include']; simp [hcount])

/-- a first field that is none of the six keywords (keywords are case-sensitive: `attribute` is none) -/
theorem unknown_keyword (cfg : Cfg) (ign : Bool) (ℓ : Layout) (ls : List ALine) (ll : LineLayout) (kw : Bytes) (args : List Bytes)
    (R : Bytes) (hp : GoodPrefix cfg ℓ ls) (hll : ll.ok = true) (hkw : tokenOK kw = true) (hargs : ∀ t ∈ args, tokenOK t = true)
    (hshort : (ll.content (kw :: args)).length + 1 < maxTokenSize)
    (hno : kw ≠ kwATTRIBUTE ∧ kw ≠ kwVALUE ∧ kw ≠ kwVENDOR ∧ kw ≠ kwBEGIN ∧ kw ≠ kwEND ∧ kw ≠ kwINCLUDE) :
    (parseText cfg ign (textOfLines ℓ ls ++ ll.content (kw :: args) ++ 10 :: R)).1
      = some (.decl .unknownLine [] (faultLine ℓ ls)) :=
  wrong_field_count cfg ign ℓ ls ll kw args R hp hll hkw hargs hshort
    (shapeOK_unknown_keyword kw args hno.1 hno.2.1 hno.2.2.1 hno.2.2.2.1 hno.2.2.2.2.1 hno.2.2.2.2.2)

/-! ### History: the code as found (`Cfg.current`), before the fixes #11 #12 #13 -/

/-- defect #11: with the code as found the full statement is false … -/
theorem parse_render_current_counterexample : ¬ parse_render_full Cfg.current := by
  intro h
  have := h false { after := [{ ws := [32] }] } [] (by decide) ⟨by decide, by decide, by decide⟩
  revert this
  decide

/-- … the witness is a line holding one blank: UnknownLineError at line 1 -/
theorem whitespace_only_line_current : (parseText Cfg.current false [32, 10]).1 = some (.decl .unknownLine [] 1) := by
  decide

/-- … it holds for layouts without whitespace-only lines and indented comment lines -/
theorem parse_render_current_partial (ign : Bool) (ℓ : Layout) (ad : AD) (hwf : WF ad) (hlay : LayoutOK ℓ ad)
    (hno : NoIndentedFillers ℓ ad) :
    parseText Cfg.current ign (render ℓ ad) = (none, { dict := toDictionary ad, log := [] }) :=
  parseText_render Cfg.current ign ℓ ad hwf hlay (Or.inr hno)

/-- defect #12: `VENDOR x 1 format=1,9` was accepted with LengthOctets = 9 (`&&` for `||`) -/
theorem vendor_format_current_accepts :
    parseText Cfg.current false (kwVENDOR ++ [32, 120, 32, 49, 32] ++ kwFormat ++ [49, 44, 57, 10])
      = (none, { dict := { vendors := [{ name := [120], number := 1, typeOctets := some 1, lengthOctets := some 9 }] }, log := [] }) := by
  decide

set_option maxRecDepth 8000 in
/-- defect #13: the OID 99999999999999999999 was accepted as 7766279631452241919 (int wrap-around) -/
theorem oid_overflow_current_wraps :
    parseOID Cfg.current [57,57,57,57,57,57,57,57,57,57,57,57,57,57,57,57,57,57,57,57] = some [7766279631452241919]
    ∧ parseOID Cfg.repaired [57,57,57,57,57,57,57,57,57,57,57,57,57,57,57,57,57,57,57,57] = none := by
  constructor <;> decide

/-! ### Non-vacuity -/

/-- `ATTRIBUTE User-Password 2 octets[16] encrypt=1,has_tag` ; `VENDOR Acme 99 format=2,1` ;
    a block of Acme with an attribute and a hex VALUE -/
def sampleAD : AD :=
  [ .item (.attr { name := [85,115,101,114,45,80,97,115,115,119,111,114,100], oid := [2], typ := .octets, size := some 16,
                   flags := [.encrypt 1, .hasTag] }),
    .vendor { name := [65,99,109,101], number := 99, format := some (2, 1) },
    .block [65,99,109,101]
      [ .attr { name := [88], oid := [1, 2], typ := .integer },
        .value { attr := [88], name := [121], number := 31, hex := true } ] ]

/-- tabs, CRLF, comments, whitespace-only and indented comment lines, mixed-case type names, no final newline -/
def sampleLayout : Layout :=
  { line := fun k => { before := if k == 1 then [{ ws := [32, 9] }, { ws := [32], comment := some [99] }] else [],
                       lead := [9], seps := [[32, 32], [9]], trail := [32], comment := if k == 0 then some [33] else none,
                       crlf := k % 2 == 0, caseMask := [true, false, true] },
    after := [{ comment := some [] }], finalNewline := false }

example : WF sampleAD := by decide
example : toDictionary sampleAD =
    { attributes := [{ name := [85,115,101,114,45,80,97,115,115,119,111,114,100], oid := [2], typ := .octets, size := some 16,
                       encrypt := some 1, hasTag := some true }],
      vendors := [{ name := [65,99,109,101], number := 99, typeOctets := some 2, lengthOctets := some 1,
                    attributes := [{ name := [88], oid := [1, 2], typ := .integer }],
                    values := [{ attrName := [88], name := [121], number := 31 }] }] } := by decide
example : layoutOKFrom sampleLayout 0 (flatten sampleAD) = true := by decide
example : ¬ NoIndentedFillers sampleLayout sampleAD := by
  show ¬ (noIndentFrom sampleLayout 0 (flatten sampleAD) = true)
  decide
/-- a prefix that stops inside a vendor block (for the block rejection theorems) -/
example : (stateAfter [.vendor { name := [65], number := 1 }, .beginV [65]]).1 = some [65] := by decide
example : isFormatToken (kwFormat ++ [52, 44, 48]) := ⟨4, 0, by simp, by simp, by decide⟩
example : ¬ isFormatToken (kwFormat ++ [49, 44, 57]) := by
  rintro ⟨t, l, ht, hl, h⟩
  rcases ht with rfl | rfl | rfl <;> rcases hl with rfl | rfl | rfl <;> revert h <;> decide


/-! #### the exactness theorems and the new rejection theorems -/

/-- `VENDOR Acme 99 format=2,1` / blank / `BEGIN-VENDOR Acme` / `ATTRIBUTE X 1.2 OcTeTs[+16] encrypt=-1,has_tag`
    / `VALUE X y 0x1F # c` / `END-VENDOR Acme`, CRLF on one line, no final newline -/
def sampleText : Bytes :=
  bs "VENDOR Acme 99 format=2,1\n \t\nBEGIN-VENDOR Acme\r\nATTRIBUTE X 1.2 OcTeTs[+16] encrypt=-1,has_tag\nVALUE X y 0x1F # c\nEND-VENDOR Acme"

def sampleDict : Dictionary :=
  { vendors := [{ name := bs "Acme", number := 99, typeOctets := some 2, lengthOctets := some 1,
                  attributes := [{ name := [88], oid := [1, 2], typ := .octets, size := some 16, encrypt := some (-1),
                                   hasTag := some true }],
                  values := [{ attrName := [88], name := [121], number := 31 }] }] }

/-- the code with the fixes #11 #12 #13 but the include rule as found: its `parseText` is defined by
    structural recursion (fuel), so the kernel can evaluate it; `Accepts` does not depend on the
    configuration -/
def cfgEval : Cfg := ⟨true, true, true, false⟩

set_option maxRecDepth 20000 in
/-- a text of the language (membership obtained through the exactness theorem, the parse by evaluation) -/
example : Accepts false sampleText sampleDict :=
  ((accepts_exactly_any cfgEval rfl rfl rfl false sampleText { dict := sampleDict, log := [] }).mp (by decide +kernel)).1

set_option maxRecDepth 20000 in
/-- … hence the repaired parser returns exactly that dictionary on it -/
example : parseText Cfg.repaired false sampleText = (none, { dict := sampleDict, log := [] }) :=
  (accepts_exactly false sampleText sampleDict).mpr
    ((accepts_exactly_any cfgEval rfl rfl rfl false sampleText { dict := sampleDict, log := [] }).mp (by decide +kernel)).1

set_option maxRecDepth 20000 in
/-- a text that is not in the language (`encrypt=` without a number), for every dictionary -/
example (d : Dictionary) : ¬ Accepts false (bs "ATTRIBUTE x 1 string encrypt=\n") d := by
  intro h
  have h1 := (accepts_exactly_any cfgEval rfl rfl rfl false _ { dict := d, log := [] }).mpr ⟨h, rfl⟩
  have h2 : (parseText cfgEval false (bs "ATTRIBUTE x 1 string encrypt=\n")).1
      = some (.decl .invalidAttributeEncryptType [] 1) := by decide +kernel
  rw [h1] at h2
  cases h2

set_option maxRecDepth 20000 in
/-- what the language does NOT forbid (parser.go checks attribute NAMES only, lines 87-104): two
    attributes of one scope with the same OID are both declared -/
example : Accepts false (bs "ATTRIBUTE a 1 string\nATTRIBUTE b 1 string\n")
    { attributes := [{ name := [97], oid := [1], typ := .string }, { name := [98], oid := [1], typ := .string }] } :=
  ((accepts_exactly_any cfgEval rfl rfl rfl false _ { dict := _, log := [] }).mp (by decide +kernel)).1

/-- the grammar itself, without the parser: `ATTRIBUTE x 1.02 StRiNg has_tag` at top level -/
example : LineDecl false (none, {}) [kwATTRIBUTE, [120], [49, 46, 48, 50], [83, 116, 82, 105, 78, 103], kwHasTag]
    (none, { attributes := [{ name := [120], oid := [1, 2], typ := .string, hasTag := some true }] }) :=
  LineDecl.attr [120] [49, 46, 48, 50] [83, 116, 82, 105, 78, 103] (some kwHasTag) _
    ⟨[[49], [48, 50]], .string, none, [.hasTag], ⟨by decide, by decide, rfl⟩, by decide,
      Or.inl ⟨rfl, .upper 83 (by decide) (by decide) (.same 116 (.upper 82 (by decide) (by decide) (.same 105
        (.upper 78 (by decide) (by decide) (.same 103 .nil)))))⟩,
      ⟨[kwHasTag], ⟨by decide, by decide, rfl⟩, .cons .hasTag .nil⟩, (by unfold FlagsOnce; decide), rfl⟩
    rfl

theorem goodPrefix_nil (cfg : Cfg) : GoodPrefix cfg {} [] :=
  ⟨by decide, by decide, by decide, Or.inr (by decide)⟩

theorem showOID_one : showOID [1] = [49] := by
  simp [showOID, Spec.intercalate, showDec]

/-- `ATTRIBUTE x 1 string encrypt=a` -/
example : (parseText Cfg.repaired false (textOfLines {} [] ++ ({} : LineLayout).content [kwATTRIBUTE, [120], showOID [1],
      typeToken [] { name := [120], oid := [1], typ := .string }, Spec.intercalate 44 ([] ++ (kwEncrypt ++ [97]) :: [])] ++ 10 :: [])).1
    = some (.decl .invalidAttributeEncryptType [] 1) :=
  bad_encrypt_value Cfg.repaired false {} [] {} { name := [120], oid := [1], typ := .string } [97] [] []
    (goodPrefix_nil _) (by decide) (by decide) (by decide) (by decide) (by rw [showOID_one]; decide) (by decide)
    (non_numeric_is_no_int32 _ (by decide))

/-- `encrypt=2147483648` is out of range, `encrypt=-2147483648` is not -/
example : (∀ n, ¬ Int32Lit (showDec 2147483648) n) ∧ Int32Lit (45 :: showDec 2147483648) (-2147483648) :=
  ⟨(out_of_range_is_no_int32 _).1 (by decide), by
    have := int32Lit_showInt (-2147483648) (by decide)
    simpa [showInt] using this⟩

/-- `ATTRIBUTE x 1 octets[16` (no bracket) and `ATTRIBUTE x 1 OCTETS[1x]` (non-numeric size) -/
example : (parseText Cfg.repaired false (textOfLines {} [] ++ ({} : LineLayout).content ([kwATTRIBUTE, [120], showOID [1],
      applyCase [] kwOctetsBr ++ [49, 54]] ++ (none : Option Bytes).toList) ++ 10 :: [])).1
    = some (.decl .unknownAttributeType [] 1) :=
  malformed_octets_size Cfg.repaired false {} [] {} [120] [49, 54] [] [1] none (goodPrefix_nil _) (by decide) (by decide)
    (by decide) (by simp) ⟨by decide, by decide⟩ (by rw [showOID_one]; decide) (missing_bracket_is_malformed _ (by decide))

example : (parseText Cfg.repaired false (textOfLines {} [] ++ ({ caseMask := [true, true, true, true, true, true] } : LineLayout).content
      ([kwATTRIBUTE, [120], showOID [1], applyCase [true, true, true, true, true, true] kwOctetsBr ++ ([49, 120] ++ [93])]
        ++ (none : Option Bytes).toList) ++ 10 :: [])).1
    = some (.decl .unknownAttributeType [] 1) :=
  malformed_octets_size Cfg.repaired false {} [] { caseMask := [true, true, true, true, true, true] } [120] ([49, 120] ++ [93]) [] [1]
    none (goodPrefix_nil _) (by decide) (by decide) (by decide) (by simp) ⟨by decide, by decide⟩ (by rw [showOID_one]; decide)
    (bad_size_is_malformed [49, 120] (non_numeric_is_no_int32 _ (by decide)))

/-- `VALUE a b` (two arguments), `BEGIN-VENDOR` (none), `attribute x 1 string` (keywords are case-sensitive) -/
example : (parseText Cfg.repaired false (textOfLines {} [] ++ ({} : LineLayout).content (kwVALUE :: [[97], [98]]) ++ 10 :: [])).1
    = some (.decl .unknownLine [] 1) :=
  value_wrong_field_count Cfg.repaired false {} [] {} [[97], [98]] [] (goodPrefix_nil _) (by decide) (by decide) (by decide) (by decide)
example : (parseText Cfg.repaired false (textOfLines {} [] ++ ({} : LineLayout).content (kwBEGIN :: []) ++ 10 :: [])).1
    = some (.decl .unknownLine [] 1) :=
  begin_vendor_wrong_field_count Cfg.repaired false {} [] {} [] [] (goodPrefix_nil _) (by decide) (by decide) (by decide) (by decide)
example : (parseText Cfg.repaired false (textOfLines {} [] ++ ({} : LineLayout).content (bs "attribute" :: [[120], [49], nmString]) ++ 10 :: [])).1
    = some (.decl .unknownLine [] 1) :=
  unknown_keyword Cfg.repaired false {} [] {} (bs "attribute") [[120], [49], nmString] [] (goodPrefix_nil _) (by decide) (by decide)
    (by decide) (by decide) (by decide)

end RV.C16
