/-
  C14 — vendor-specific helpers (_V_AddVendor / _V_GetsVendor / _V_LookupVendor / _V_SetVendor /
  _V_DelVendor emitted by dictionarygen/vendor.go) on arbitrary packets, including hostile ones.

  Specification vocabulary (defined model-free in RV/Proofs/Vendor.lean):
    `vsaParse p`      = (well-formed prefix of the payload as (type, value) pairs, residue)
    `vsaRender ps`    = wire form of a list of pairs
    `isVendorAttr vid a` = a has type 26, at least 5 bytes, and its first 4 bytes are `vid`
    `vsaWithout typ p`   = render (pairs of type ≠ typ) ++ residue
    `othersView vid typ as` = everything a Set/Del of (vid, typ) must preserve, in packet order
  Model side (RV.Model.Vendor): vsaGets, vsaDel, getsVendor, lookupVendor, addVendor, delVendor,
  setVendor — the Go loops.  All of them are total functions defined by structural / well-founded
  recursion without fuel, so termination on every input is part of their definition.
-/
import RV.Model.Vendor
import RV.Proofs.Vendor
import RV.Proofs.HelperImp
namespace RV.C14
open RV

/-! ### 1. the decomposition is lossless -/

/-- pairs and residue together are the payload, byte for byte -/
theorem parse_lossless (p : Bytes) : vsaRender (vsaParse p).1 ++ (vsaParse p).2 = p :=
  vsaParse_lossless p

/-- every pair of the well-formed prefix carries 1..253 value bytes, and the residue is where the
    walk stops (fewer than 3 bytes, or a length octet < 3 or beyond the end) -/
theorem parse_pairs_ok (p : Bytes) :
    (∀ q ∈ (vsaParse p).1, 1 ≤ q.2.length ∧ q.2.length ≤ 253) ∧
    vsaParse (vsaParse p).2 = ([], (vsaParse p).2) :=
  ⟨vsaParse_subOK p, vsaParse_stuck p⟩

/-- conversely any list of such pairs followed by a stuck residue parses to itself -/
theorem parse_render (ps : List (UInt8 × Bytes)) (r : Bytes)
    (hps : ∀ q ∈ ps, 1 ≤ q.2.length ∧ q.2.length ≤ 253) (hr : vsaParse r = ([], r)) :
    vsaParse (vsaRender ps ++ r) = (ps, r) :=
  vsaParse_render ps r hps hr

/-! ### 2. Gets / Lookup return exactly the matching sub-attributes of that vendor, in order -/

/-- inside one payload -/
theorem gets_spec (typ : UInt8) (p : Bytes) :
    vsaGets typ p = ((vsaParse p).1.filter (fun q => q.1 = typ)).map (·.2) :=
  vsaGets_eq typ p

/-- over the packet: only attributes of type 26 with at least 5 bytes whose vendor id matches
    contribute, in packet order -/
theorem getsVendor_spec (vid : Nat) (typ : UInt8) (as : Attrs) :
    getsVendor vid typ as =
      (as.filter (fun a => decide (a.typ = 26) && decide (5 ≤ a.val.length) &&
                           decide (beNat (a.val.take 4) = vid))).flatMap
        (fun a => ((vsaParse (a.val.drop 4)).1.filter (fun q => q.1 = typ)).map (·.2)) := by
  rw [getsVendor_eq]; simp only [vsaGets_eq]; rfl

theorem lookup_spec (vid : Nat) (typ : UInt8) (as : Attrs) :
    lookupVendor vid typ as =
      ((as.filter (isVendorAttr vid)).flatMap
        (fun a => ((vsaParse (a.val.drop 4)).1.filter (fun q => q.1 = typ)).map (·.2))).head? := by
  rw [lookupVendor, getsVendor_eq]; simp only [vsaGets_eq]

/-- the recogniser the model uses is the specification's -/
theorem vendorPayload_spec (vid : Nat) (a : AVP) :
    vendorPayload vid a = if isVendorAttr vid a then some (a.val.drop 4) else none :=
  vendorPayload_eq vid a

/-! ### 3. Del inside one payload -/

theorem del_spec (typ : UInt8) (p : Bytes) :
    (vsaDel typ p).1 = vsaRender ((vsaParse p).1.filter (fun q => q.1 ≠ typ)) ++ (vsaParse p).2 ∧
    ((vsaDel typ p).2 = true ↔ ∃ q ∈ (vsaParse p).1, q.1 = typ) := by
  rw [vsaDel_eq]; simp

/-! ### 4. Add -/

/-- Add succeeds iff the value has 1..247 bytes (independently of the packet); otherwise it
    reports an error; it never panics -/
theorem add_ok_iff (vid : Nat) (typ : UInt8) (attr : Bytes) (as : Attrs) :
    (∃ as', addVendor vid typ attr as = .ok as') ↔ (1 ≤ attr.length ∧ attr.length ≤ 247) := by
  unfold addVendor; rw [vendorAttr_eq]
  by_cases h : 1 ≤ attr.length ∧ attr.length ≤ 247 <;> simp [h]

theorem add_err_iff (vid : Nat) (typ : UInt8) (attr : Bytes) (as : Attrs) :
    addVendor vid typ attr as = .err ↔ ¬ (1 ≤ attr.length ∧ attr.length ≤ 247) := by
  unfold addVendor; rw [vendorAttr_eq]
  by_cases h : 1 ≤ attr.length ∧ attr.length ≤ 247 <;> simp [h]

/-- Add appends exactly one attribute; it has type 26, at most 253 bytes, carries the vendor id,
    and its payload parses to exactly the one sub-attribute (typ, attr) with empty residue -/
theorem add_appends_wellformed (vid : Nat) (typ : UInt8) (attr : Bytes) (as as' : Attrs)
    (h : addVendor vid typ attr as = .ok as') :
    ∃ v, as' = as ++ [⟨26, v⟩] ∧ 5 ≤ v.length ∧ v.length ≤ 253 ∧ v.take 4 = beBytes 4 vid ∧
      v.drop 4 = vsaRender [(typ, attr)] ∧ vsaParse (v.drop 4) = ([(typ, attr)], []) ∧
      (vid < 2 ^ 32 → isVendorAttr vid ⟨26, v⟩ = true) := by
  unfold addVendor at h; rw [vendorAttr_eq] at h
  by_cases hl : 1 ≤ attr.length ∧ attr.length ≤ 247
  · rw [if_pos hl] at h
    simp only [Res.ok.injEq] at h
    obtain ⟨h1, h2, h3, h4, h5, h6⟩ := newVsa_props vid typ attr hl
    refine ⟨_, h.symm, h2, h1, h3, h4, h5, fun hv => ?_⟩
    rw [h6]; simp [Nat.mod_eq_of_lt hv]
  · rw [if_neg hl] at h; cases h

/-- after Add, Gets returns the former values followed by the new one; the reads of every other
    (vendor, type) are unchanged -/
theorem add_then_gets (vid : Nat) (typ : UInt8) (attr : Bytes) (as as' : Attrs) (hvid : vid < 2 ^ 32)
    (h : addVendor vid typ attr as = .ok as') :
    getsVendor vid typ as' = getsVendor vid typ as ++ [attr] ∧
    ∀ vid' typ', (vid', typ') ≠ (vid, typ) → getsVendor vid' typ' as' = getsVendor vid' typ' as := by
  unfold addVendor at h; rw [vendorAttr_eq] at h
  by_cases hl : 1 ≤ attr.length ∧ attr.length ≤ 247
  · rw [if_pos hl] at h
    simp only [Res.ok.injEq] at h
    subst h
    simp only [Attrs.add, getsVendor_append, vsaType]
    refine ⟨?_, fun vid' typ' hne => ?_⟩
    · rw [getsVendor_newVsa _ _ _ _ _ hl]; simp [Nat.mod_eq_of_lt hvid]
    · rw [getsVendor_newVsa _ _ _ _ _ hl, Nat.mod_eq_of_lt hvid, if_neg, List.append_nil]
      rintro ⟨rfl, rfl⟩; exact hne rfl
  · rw [if_neg hl] at h; cases h

/-! ### 5. Set / Del: effect on the reads -/

/-- Set succeeds iff the value has 1..247 bytes — independently of the packet.  (The pure `setVendor`
    returns `.err` without a packet; what the packet holds after a refused Set is the subject of
    `failure_leaves_unchanged` below, about the imperative mirror.) -/
theorem set_ok_iff (vid : Nat) (typ : UInt8) (attr : Bytes) (as : Attrs) :
    (∃ as', setVendor vid typ attr as = .ok as') ↔ (1 ≤ attr.length ∧ attr.length ≤ 247) := by
  unfold setVendor; rw [vendorAttr_eq]
  by_cases h : 1 ≤ attr.length ∧ attr.length ≤ 247 <;> simp [h]

theorem set_err_iff (vid : Nat) (typ : UInt8) (attr : Bytes) (as : Attrs) :
    setVendor vid typ attr as = .err ↔ ¬ (1 ≤ attr.length ∧ attr.length ≤ 247) := by
  unfold setVendor; rw [vendorAttr_eq]
  by_cases h : 1 ≤ attr.length ∧ attr.length ≤ 247 <;> simp [h]

/-! #### "on failure leave the packet unchanged" — imperative mirror (RV/Model/HelperImp.lean)

    `Imp.setVendorImp` / `Imp.addVendorImp` / `Imp.delVendorS` are state-passing mirrors of
    `_V_SetVendor` / `_V_AddVendor` / `_V_DelVendor` in the Go statement order; they return the result
    AND the packet's attribute list afterwards, also on error. -/

/-- refinement: on success the imperative mirror ends in exactly the pure model's list -/
theorem setImp_ok_iff (vid : Nat) (typ : UInt8) (attr : Bytes) (as as' : Attrs) :
    Imp.setVendorImp vid typ attr as = (.ok (), as') ↔ setVendor vid typ attr as = .ok as' := by
  rw [Imp.setVendorImp_eq]; exact Imp.outcome_ok_iff _ _ _

theorem addImp_ok_iff (vid : Nat) (typ : UInt8) (attr : Bytes) (as as' : Attrs) :
    Imp.addVendorImp vid typ attr as = (.ok (), as') ↔ addVendor vid typ attr as = .ok as' := by
  rw [Imp.addVendorImp_eq]; exact Imp.outcome_ok_iff _ _ _

theorem delImp_eq (vid : Nat) (typ : UInt8) (as : Attrs) :
    Imp.delVendorS vid typ as = (.ok (), delVendor vid typ as) := rfl

/-- refinement, outcome classes -/
theorem setImp_err_iff (vid : Nat) (typ : UInt8) (attr : Bytes) (as : Attrs) :
    ((Imp.setVendorImp vid typ attr as).1 = .err ↔ setVendor vid typ attr as = .err) ∧
    ((Imp.setVendorImp vid typ attr as).1 = .fault ↔ setVendor vid typ attr as = .fault) := by
  rw [Imp.setVendorImp_eq]; exact ⟨Imp.outcome_err_iff _ _, Imp.outcome_fault_iff _ _⟩

theorem addImp_err_iff (vid : Nat) (typ : UInt8) (attr : Bytes) (as : Attrs) :
    ((Imp.addVendorImp vid typ attr as).1 = .err ↔ addVendor vid typ attr as = .err) ∧
    ((Imp.addVendorImp vid typ attr as).1 = .fault ↔ addVendor vid typ attr as = .fault) := by
  rw [Imp.addVendorImp_eq]; exact ⟨Imp.outcome_err_iff _ _, Imp.outcome_fault_iff _ _⟩

/-- "… and on failure leave the packet unchanged": for every vendor, type, value and prior packet,
    Set and Add either refuse (value not of 1..247 bytes) and the attribute list after the call IS
    the list before the call, or succeed and end in the pure model's list; whenever the result is
    not success the state is the initial state -/
theorem failure_leaves_unchanged (vid : Nat) (typ : UInt8) (attr : Bytes) (as : Attrs) :
    ((Imp.setVendorImp vid typ attr as = (.err, as) ∧ ¬ (1 ≤ attr.length ∧ attr.length ≤ 247)) ∨
      (∃ as', Imp.setVendorImp vid typ attr as = (.ok (), as') ∧ setVendor vid typ attr as = .ok as' ∧
        (1 ≤ attr.length ∧ attr.length ≤ 247))) ∧
    ((Imp.addVendorImp vid typ attr as = (.err, as) ∧ ¬ (1 ≤ attr.length ∧ attr.length ≤ 247)) ∨
      (∃ as', Imp.addVendorImp vid typ attr as = (.ok (), as') ∧ addVendor vid typ attr as = .ok as' ∧
        (1 ≤ attr.length ∧ attr.length ≤ 247))) ∧
    ((Imp.setVendorImp vid typ attr as).1 ≠ .ok () → (Imp.setVendorImp vid typ attr as).2 = as) ∧
    ((Imp.addVendorImp vid typ attr as).1 ≠ .ok () → (Imp.addVendorImp vid typ attr as).2 = as) := by
  refine ⟨?_, ?_, ?_, ?_⟩
  · rw [Imp.setVendorImp_eq]
    by_cases h : 1 ≤ attr.length ∧ attr.length ≤ 247
    · obtain ⟨as', hs⟩ := (set_ok_iff vid typ attr as).2 h
      exact Or.inr ⟨as', by rw [hs]; rfl, hs, h⟩
    · have hs := (set_err_iff vid typ attr as).2 h
      exact Or.inl ⟨by rw [hs]; rfl, h⟩
  · rw [Imp.addVendorImp_eq]
    by_cases h : 1 ≤ attr.length ∧ attr.length ≤ 247
    · obtain ⟨as', hs⟩ := (add_ok_iff vid typ attr as).2 h
      exact Or.inr ⟨as', by rw [hs]; rfl, hs, h⟩
    · have hs := (add_err_iff vid typ attr as).2 h
      exact Or.inl ⟨by rw [hs]; rfl, h⟩
  · rw [Imp.setVendorImp_eq]; exact Imp.outcome_unchanged _ _
  · rw [Imp.addVendorImp_eq]; exact Imp.outcome_unchanged _ _

/-- negative control: `_V_SetVendor` in the statement order it had before the repair (removal first,
    then `_V_AddVendor`, whose encoding can fail).  After ANY refused Set the packet is the packet
    with the type's sub-attributes removed — so it differs from the initial one exactly when there
    was something to remove -/
theorem old_set_order_state_after_failure (vid : Nat) (typ : UInt8) (attr : Bytes) (as : Attrs)
    (h : ¬ (1 ≤ attr.length ∧ attr.length ≤ 247)) :
    Imp.setVendorOldImp vid typ attr as = (.err, delVendor vid typ as) := by
  rw [Imp.setVendorOldImp_eq, vendorAttr_eq, if_neg h]

/-- … concretely: one Vendor-Specific attribute holding the type, Set with an empty value -/
theorem old_set_order_changes_packet_on_failure :
    ∃ (vid : Nat) (typ : UInt8) (attr : Bytes) (as : Attrs),
      (Imp.setVendorOldImp vid typ attr as).1 = .err ∧ (Imp.setVendorOldImp vid typ attr as).2 ≠ as ∧
      Imp.setVendorImp vid typ attr as = (.err, as) :=
  ⟨9, 1, [], [⟨26, [0, 0, 0, 9, 1, 3, 0xAA, 2, 3, 0xBB]⟩],
    by decide +kernel, by decide +kernel, by decide +kernel⟩

/-- a successful Set is Del followed by Add of the same (already validated) attribute -/
theorem set_eq_del_add (vid : Nat) (typ : UInt8) (attr : Bytes) (as as' : Attrs)
    (h : setVendor vid typ attr as = .ok as') :
    addVendor vid typ attr (delVendor vid typ as) = .ok as' := by
  unfold setVendor at h; unfold addVendor
  cases hv : vendorAttr vid typ attr <;> simp_all

/-- neither Add nor Set ever panics -/
theorem never_faults (vid : Nat) (typ : UInt8) (attr : Bytes) (as : Attrs) :
    addVendor vid typ attr as ≠ .fault ∧ setVendor vid typ attr as ≠ .fault := by
  unfold addVendor setVendor; rw [vendorAttr_eq]
  by_cases h : 1 ≤ attr.length ∧ attr.length ≤ 247 <;> simp [h]

/-- Del removes every occurrence -/
theorem del_none_left (vid : Nat) (typ : UInt8) (as : Attrs) :
    getsVendor vid typ (delVendor vid typ as) = [] ∧ lookupVendor vid typ (delVendor vid typ as) = none := by
  have : getsVendor vid typ (delVendor vid typ as) = [] := by rw [getsVendor_delVendor]; simp
  exact ⟨this, by rw [lookupVendor, this]; rfl⟩

/-- Set leaves exactly one occurrence, holding the new value, whatever the packet held before -/
theorem set_exactly_one (vid : Nat) (typ : UInt8) (attr : Bytes) (as as' : Attrs) (hvid : vid < 2 ^ 32)
    (h : setVendor vid typ attr as = .ok as') :
    getsVendor vid typ as' = [attr] ∧ lookupVendor vid typ as' = some attr := by
  have h1 := (add_then_gets vid typ attr _ as' hvid (set_eq_del_add vid typ attr as as' h)).1
  rw [(del_none_left vid typ as).1] at h1
  exact ⟨h1, by rw [lookupVendor, h1]; rfl⟩

/-! ### 6. Set / Del preserve everything else, byte for byte and in order -/

/-- reads of every other (vendor, type) — same vendor and another type (sub-attributes sharing a
    Vendor-Specific attribute with a removed one), or another vendor — are unchanged by Del -/
theorem others_preserved_del (vid vid' : Nat) (typ typ' : UInt8) (as : Attrs)
    (hne : (vid', typ') ≠ (vid, typ)) :
    getsVendor vid' typ' (delVendor vid typ as) = getsVendor vid' typ' as := by
  rw [getsVendor_delVendor, if_neg]
  rintro ⟨rfl, rfl⟩; exact hne rfl

/-- … and by Set -/
theorem others_preserved_set (vid vid' : Nat) (typ typ' : UInt8) (attr : Bytes) (as as' : Attrs)
    (hvid : vid < 2 ^ 32) (hne : (vid', typ') ≠ (vid, typ))
    (h : setVendor vid typ attr as = .ok as') :
    getsVendor vid' typ' as' = getsVendor vid' typ' as := by
  rw [(add_then_gets vid typ attr _ as' hvid (set_eq_del_add vid typ attr as as' h)).2 vid' typ' hne]
  exact others_preserved_del vid vid' typ typ' as hne

/-- the whole preserved view (foreign attributes verbatim; this vendor's payloads with only the
    type's sub-attributes taken out, malformed residues included; relative order of all of them)
    is unchanged by Del -/
theorem view_preserved_del (vid : Nat) (typ : UInt8) (as : Attrs) :
    othersView vid typ (delVendor vid typ as) = othersView vid typ as :=
  othersView_delVendor vid typ as

/-- … and by Set -/
theorem view_preserved_set (vid : Nat) (typ : UInt8) (attr : Bytes) (as as' : Attrs)
    (hvid : vid < 2 ^ 32) (h : setVendor vid typ attr as = .ok as') :
    othersView vid typ as' = othersView vid typ as := by
  unfold setVendor at h; rw [vendorAttr_eq] at h
  by_cases hl : 1 ≤ attr.length ∧ attr.length ≤ 247
  · rw [if_pos hl] at h
    simp only [Res.ok.injEq] at h
    subst h
    rw [Attrs.add, othersView_append, othersView_delVendor, vsaType, othersView_newVsa vid typ attr hvid hl,
      List.append_nil]
  · rw [if_neg hl] at h; cases h

/-- corollary: every attribute that is not a Vendor-Specific attribute of this vendor is kept
    unchanged and in order -/
theorem foreign_attrs_kept_del (vid : Nat) (typ : UInt8) (as : Attrs) :
    (delVendor vid typ as).filter (fun a => (vendorPayload vid a).isNone) =
      as.filter (fun a => (vendorPayload vid a).isNone) := by
  have h := congrArg (List.filterMap (fun x => x.getLeft?)) (othersView_delVendor vid typ as)
  rw [othersView_lefts, othersView_lefts] at h
  have e : (fun a => (vendorPayload vid a).isNone) = (fun a => !isVendorAttr vid a) := by
    funext a; rw [vendorPayload_eq]; cases isVendorAttr vid a <;> rfl
  rw [e]; exact h

theorem foreign_attrs_kept_set (vid : Nat) (typ : UInt8) (attr : Bytes) (as as' : Attrs)
    (hvid : vid < 2 ^ 32) (h : setVendor vid typ attr as = .ok as') :
    as'.filter (fun a => (vendorPayload vid a).isNone) =
      as.filter (fun a => (vendorPayload vid a).isNone) := by
  have h := congrArg (List.filterMap (fun x => x.getLeft?)) (view_preserved_set vid typ attr as as' hvid h)
  rw [othersView_lefts, othersView_lefts] at h
  have e : (fun a => (vendorPayload vid a).isNone) = (fun a => !isVendorAttr vid a) := by
    funext a; rw [vendorPayload_eq]; cases isVendorAttr vid a <;> rfl
  rw [e]; exact h

/-- corollary: inside this vendor's attributes, the payloads with the type's sub-attributes
    removed (empty ones dropped) are the same list before and after -/
theorem vendor_payloads_kept_del (vid : Nat) (typ : UInt8) (as : Attrs) :
    (((delVendor vid typ as).filter (isVendorAttr vid)).map (fun a => vsaWithout typ (a.val.drop 4))).filter
        (fun k => k ≠ []) =
      ((as.filter (isVendorAttr vid)).map (fun a => vsaWithout typ (a.val.drop 4))).filter
        (fun k => k ≠ []) := by
  have h := congrArg (List.filterMap (fun x => x.getRight?)) (othersView_delVendor vid typ as)
  rwa [othersView_rights, othersView_rights] at h

theorem vendor_payloads_kept_set (vid : Nat) (typ : UInt8) (attr : Bytes) (as as' : Attrs)
    (hvid : vid < 2 ^ 32) (h : setVendor vid typ attr as = .ok as') :
    ((as'.filter (isVendorAttr vid)).map (fun a => vsaWithout typ (a.val.drop 4))).filter
        (fun k => k ≠ []) =
      ((as.filter (isVendorAttr vid)).map (fun a => vsaWithout typ (a.val.drop 4))).filter
        (fun k => k ≠ []) := by
  have h := congrArg (List.filterMap (fun x => x.getRight?)) (view_preserved_set vid typ attr as as' hvid h)
  rwa [othersView_rights, othersView_rights] at h

/-! ### 7. nothing stale or empty is left behind -/

/-- every attribute in the result of Del is either an attribute of the input kept verbatim — and
    then, if it is this vendor's, it held no sub-attribute of the type — or a rebuilt attribute of
    this vendor: type 26, same vendor-id bytes, at least 5 bytes (non-empty payload), payload =
    the original's without the type -/
theorem no_empty_left (vid : Nat) (typ : UInt8) (as : Attrs) (a : AVP) (h : a ∈ delVendor vid typ as) :
    (a ∈ as ∧ (isVendorAttr vid a = true → ∀ q ∈ (vsaParse (a.val.drop 4)).1, q.1 ≠ typ)) ∨
    (a.typ = 26 ∧ 5 ≤ a.val.length ∧ isVendorAttr vid a = true ∧
      ∃ b ∈ as, isVendorAttr vid b = true ∧ a.val.take 4 = b.val.take 4 ∧
        a.val.drop 4 = vsaWithout typ (b.val.drop 4)) := by
  rcases delVendor_mem vid typ as a h with ⟨h1, h2⟩ | h2
  · refine Or.inl ⟨h1, fun hv q hq => ?_⟩
    have := List.any_eq_false.1 (h2 hv) q hq
    simpa using this
  · exact Or.inr h2

/-- no attribute of this vendor in the result holds a sub-attribute of the deleted type in its
    well-formed prefix, and none has an empty payload -/
theorem no_stale_left (vid : Nat) (typ : UInt8) (as : Attrs) (a : AVP) (h : a ∈ delVendor vid typ as)
    (hv : isVendorAttr vid a = true) :
    (∀ q ∈ (vsaParse (a.val.drop 4)).1, q.1 ≠ typ) ∧ a.val.drop 4 ≠ [] := by
  refine ⟨?_, ?_⟩
  · rcases no_empty_left vid typ as a h with ⟨_, h2⟩ | ⟨_, _, _, b, _, _, _, hd⟩
    · exact h2 hv
    · rw [hd, vsaParse_without]
      intro q hq
      have := (List.mem_filter.1 hq).2
      simpa using this
  · simp only [isVendorAttr, Bool.and_eq_true, decide_eq_true_eq] at hv
    intro he
    have := congrArg List.length he
    simp only [List.length_drop, List.length_nil] at this
    omega

/-- an attribute of type 26 that is shorter than 5 bytes in the result was already in the input:
    Del never creates a Vendor-Specific attribute with an empty payload -/
theorem short_vsa_not_created (vid : Nat) (typ : UInt8) (as : Attrs) (a : AVP)
    (h : a ∈ delVendor vid typ as) (hs : a.val.length < 5) : a ∈ as := by
  rcases no_empty_left vid typ as a h with ⟨h1, _⟩ | ⟨_, h2, _⟩
  · exact h1
  · omega

/-! ### Non-vacuity: failure leaves the packet unchanged -/

/-- a refused Set (249-octet value) on a packet that holds the attribute: error, list unchanged -/
example : Imp.setVendorImp 9 1 (zeros 249) [⟨26, [0, 0, 0, 9, 1, 3, 0xAA]⟩] =
    (.err, [⟨26, [0, 0, 0, 9, 1, 3, 0xAA]⟩]) :=
  ((failure_leaves_unchanged 9 1 (zeros 249) [⟨26, [0, 0, 0, 9, 1, 3, 0xAA]⟩]).1.resolve_right
    (by rintro ⟨_, _, _, h⟩; rw [zeros_length] at h; omega)).1
example : ¬ (1 ≤ ([] : Bytes).length ∧ ([] : Bytes).length ≤ 247) := by decide

/-! ### Non-vacuity (tests): hostile payloads -/

/-- two sub-attributes, then a malformed length octet: residue kept -/
example : vsaParse [1, 3, 0xAA, 2, 4, 0xBB, 0xCC, 1, 9, 0] = ([(1, [0xAA]), (2, [0xBB, 0xCC])], [1, 9, 0]) := by
  simp [vsaParse_cons]
example : ∃ as', setVendor 9 1 [7] [⟨26, [0, 0, 0, 9, 1, 3, 0xAA, 2, 3, 0xBB]⟩, ⟨26, [0, 0]⟩] = .ok as' :=
  (set_ok_iff _ _ _ _).2 (by decide)
example : isVendorAttr 9 ⟨26, [0, 0, 0, 9, 1, 3, 0xAA]⟩ = true := by decide
example : addVendor 9 1 [] [] = .err := (add_err_iff _ _ _ _).2 (by decide)

end RV.C14
