/-
  C13 — Reading never writes; results do not alias the packet.

  Statements are about the heap model RV/Model/Prov.lean: a slice is a view (buffer, offset, length)
  into a heap of mutable buffers, re-slicing stays in the buffer, `make`/`append(nil,…)`/
  `hash.Sum(fresh)`/string conversion allocate, stores and in-capacity appends mutate in place.
  Every observer of the library is mirrored there with the slicing / copying / storing structure of
  the Go code.

    `PureObs m`   running `m` in any heap leaves every buffer that existed before the call
                  unchanged (it may allocate, and may store into what it allocated);
    `FreshObs m`  every slice contained in `m`'s result points into a buffer allocated by the call.

  `observer_pure` / `results_fresh` hold for ALL heaps, packets and arguments.  `History` shows the
  layer detects exactly the defect that was repaired: the previous tagged-integer getter, mirrored
  the same way, provably changes the packet.

  Helper lemmas live in RV/Proofs/Prov.lean; the value-level agreement of the `encrypt=`, vendor and
  concat mirrors with the total models (§5b: `lookup_agrees_all`, `repeat_lookup_same_all`) in
  RV/Proofs/ProvView.lean; the same for `X_Gets` (§5c: `gets_agrees_all`, `repeat_gets_same_all`,
  `repeat_gets_is_model` — values returned early are read in a heap that later rounds have extended)
  in RV/Proofs/ProvGets.lean, and for `X_Get` / `X_LookupString` / `X_GetString` / `X_GetStrings`
  (§5d: `get_agrees_all`, …) in RV/Proofs/ProvGet.lean.
-/
import RV.Model.Prov
import RV.Proofs.Prov
import RV.Proofs.ProvView
import RV.Proofs.ProvGets
import RV.Proofs.ProvGet
namespace RV.C13
open RV RV.Prov

/-! ### what purity and freshness mean -/

/-- a pure call leaves the packet value and every input slice exactly as they were -/
theorem pure_means {α} {m : M α} (hm : PureObs m) (h : Heap) (p : HPacket) (hp : p.below h.length)
    (input : Slice) (hi : input.buf < h.length) :
    p.view (m h).2 = p.view h ∧ (m h).2.read input = h.read input :=
  ⟨hm.packet_unchanged h p hp, hm.input_unchanged h input hi⟩

/-- writing through any slice of a fresh result cannot change the packet or any older slice -/
theorem write_result_preserves_packet {α} [HasSlices α] {m : M α} (hf : FreshObs m) (h : Heap)
    (s : Slice) (hs : s ∈ slices (m h).1) (i : Nat) (v : UInt8) (p : HPacket) (hp : p.below h.length)
    (old : Slice) (hold : old.buf < h.length) :
    p.view ((m h).2.write s i v) = p.view (m h).2 ∧ ((m h).2.write s i v).read old = (m h).2.read old :=
  hf.write_preserves h s hs i v p hp old hold

/-! ### 1. every observer is pure -/

theorem observer_pure (H : Hash) (d : Desc) (p : HPacket) (a b s s' : Slice) (auth : Bytes) (vid : Nat) (typ : UInt8) :
    -- packet.go
    PureObs (parseH b s) ∧ PureObs (marshalH p) ∧ PureObs (encodeH H p) ∧
    PureObs (isAuthenticResponseH H a b s) ∧ PureObs (isAuthenticRequestH H a s) ∧
    -- attribute.go
    PureObs (bytesH a) ∧ PureObs (stringH a) ∧ PureObs (integerH a) ∧ PureObs (integer64H a) ∧
    PureObs (shortH a) ∧ PureObs (dateH a) ∧ PureObs (ipAddrH a) ∧ PureObs (ipv6AddrH a) ∧ PureObs (ifidH a) ∧
    PureObs (vendorSpecificH a) ∧ PureObs (tlvH a) ∧ PureObs (ipv6PrefixH a) ∧
    PureObs (userPasswordH H a s auth) ∧ PureObs (tunnelPasswordH H a s auth) ∧
    -- generated code
    PureObs (getsVendorH vid typ p.attrs) ∧ PureObs (lookupVendorH vid typ p.attrs) ∧
    PureObs (decodeValueH H d a s' auth) ∧ PureObs (hLookupH H d p auth) ∧ PureObs (hGetsH H d p auth) ∧
    -- debug
    PureObs (dumpAttrsH H p p.attrs) :=
  ⟨pure_of_tr (fun n => tr_parseH n b s), pure_of_tr (fun n => tr_marshalH n p), pure_of_tr (fun n => tr_encodeH n H p),
   pure_of_tr (fun n => tr_isAuthenticResponseH n H a b s), pure_of_tr (fun n => tr_isAuthenticRequestH n H a s),
   pure_of_tr (fun n => tr_bytesH n a), pure_of_tr (fun n => tr_stringH n a),
   pure_of_tr (fun n => tr_scalar n a integer (fun _ => True) (fun _ => trivial)),
   pure_of_tr (fun n => tr_scalar n a integer64 (fun _ => True) (fun _ => trivial)),
   pure_of_tr (fun n => tr_scalar n a short (fun _ => True) (fun _ => trivial)),
   pure_of_tr (fun n => tr_scalar n a date (fun _ => True) (fun _ => trivial)),
   pure_of_tr (fun n => tr_copyDecH n ipAddr a), pure_of_tr (fun n => tr_copyDecH n ipv6Addr a),
   pure_of_tr (fun n => tr_copyDecH n ifid a),
   pure_of_tr (fun n => tr_vendorSpecificH n a), pure_of_tr (fun n => tr_tlvH n a), pure_of_tr (fun n => tr_ipv6PrefixH n a),
   pure_of_tr (fun n => tr_userPasswordH n H a s auth), pure_of_tr (fun n => tr_tunnelPasswordH n H a s auth),
   pure_of_tr (fun n => tr_getsVendorH n vid typ p.attrs), pure_of_tr (fun n => tr_lookupVendorH n vid typ p.attrs),
   pure_of_tr (fun n => tr_decodeValueH n H d a s' auth), pure_of_tr (fun n => tr_hLookupH n H d p auth),
   pure_of_tr (fun n => tr_hGetsH n H d p auth), pure_of_tr (fun n => tr_dumpAttrsH n H p p.attrs)⟩

/-! ### 2. typed decoders and generated getters return only fresh slices -/

theorem results_fresh (H : Hash) (d : Desc) (p : HPacket) (a s s' : Slice) (auth : Bytes) (vid : Nat) (typ : UInt8) :
    -- attribute.go: every decoder that returns bytes
    FreshObs (bytesH a) ∧ FreshObs (stringH a) ∧ FreshObs (ipAddrH a) ∧ FreshObs (ipv6AddrH a) ∧ FreshObs (ifidH a) ∧
    FreshObs (vendorSpecificH a) ∧ FreshObs (tlvH a) ∧ FreshObs (ipv6PrefixH a) ∧
    FreshObs (userPasswordH H a s auth) ∧ FreshObs (tunnelPasswordH H a s auth) ∧
    -- generated vendor walkers and getters, for every attribute descriptor
    FreshObs (getsVendorH vid typ p.attrs) ∧ FreshObs (lookupVendorH vid typ p.attrs) ∧
    FreshObs (decodeValueH H d a s' auth) ∧ FreshObs (hLookupH H d p auth) ∧ FreshObs (hGetsH H d p auth) ∧
    -- the encoders' output buffer
    FreshObs (marshalH p) ∧ FreshObs (encodeH H p) :=
  ⟨fresh_of_tr (fun n => tr_conseq (tr_bytesH n a) (fun s hs x hx => by simp at hx; subst hx; exact hs)),
   fresh_of_tr (fun n => tr_conseq (tr_stringH n a) (fun s hs x hx => by simp at hx; subst hx; exact hs)),
   fresh_of_tr (fun n => tr_copyDecH n ipAddr a), fresh_of_tr (fun n => tr_copyDecH n ipv6Addr a),
   fresh_of_tr (fun n => tr_copyDecH n ifid a),
   fresh_of_tr (fun n => tr_vendorSpecificH n a), fresh_of_tr (fun n => tr_tlvH n a), fresh_of_tr (fun n => tr_ipv6PrefixH n a),
   fresh_of_tr (fun n => tr_userPasswordH n H a s auth), fresh_of_tr (fun n => tr_tunnelPasswordH n H a s auth),
   fresh_of_tr (fun n => tr_getsVendorH n vid typ p.attrs), fresh_of_tr (fun n => tr_lookupVendorH n vid typ p.attrs),
   fresh_of_tr (fun n => tr_decodeValueH n H d a s' auth), fresh_of_tr (fun n => tr_hLookupH n H d p auth),
   fresh_of_tr (fun n => tr_hGetsH n H d p auth),
   fresh_of_tr (fun n => tr_marshalH n p), fresh_of_tr (fun n => tr_encodeH n H p)⟩

/-- instance: writing into what `X_Lookup` returned leaves the packet as it was -/
theorem write_lookup_result_preserves_packet (H : Hash) (d : Desc) (p : HPacket) (auth : Bytes) (h : Heap)
    (hp : p.below h.length) (s : Slice) (hs : s ∈ slices (hLookupH H d p auth h).1) (i : Nat) (v : UInt8) :
    p.view ((hLookupH H d p auth h).2.write s i v) = p.view h := by
  have hf := (results_fresh H d p s s s auth 0 0).2.2.2.2.2.2.2.2.2.2.2.2.2.1
  have hpure := (observer_pure H d p s s s s auth 0 0).2.2.2.2.2.2.2.2.2.2.2.2.2.2.2.2.2.2.2.2.2.2.1
  rw [(write_result_preserves_packet hf h s hs i v p hp p.secret hp.1).1]
  exact hpure.packet_unchanged h p hp

/-! ### 3. Parse does not alias the datagram buffer -/

/-- the parsed attributes live in new buffers (the secret is, by design, the caller's slice), so
    overwriting the datagram afterwards — as a server reusing its receive buffer does — changes no
    parsed attribute -/
theorem parse_no_alias (b secret : Slice) (h : Heap) (hb : b.buf < h.length) (p : HPacket)
    (hp : (parseH b secret h).1 = .ok p) (i : Nat) (v : UInt8) :
    p.secret = secret ∧ ∀ ts ∈ p.attrs, h.length ≤ ts.2.buf ∧ ts.2.buf ≠ b.buf ∧
      ((parseH b secret h).2.write b i v).read ts.2 = (parseH b secret h).2.read ts.2 := by
  have h1 := parseH_fresh b secret h p hp
  refine ⟨h1.1, fun ts hts => ?_⟩
  have h2 := parseH_no_alias b secret h hb p hp i v ts hts
  exact ⟨h1.2 ts hts, h2.1, h2.2⟩

/-! ### 4. repeated reads agree -/

/-- corollary of purity: after any observer the next call sees the same packet and the same inputs -/
theorem repeat_inputs_same {α} {m : M α} (hm : PureObs m) (h : Heap) (p : HPacket) (hp : p.below h.length)
    (input : Slice) (hi : input.buf < h.length) :
    p.view (m h).2 = p.view h ∧ (m h).2.read input = h.read input := pure_means hm h p hp input hi

/-- and where the mirror is tied to the total model at value level, the answers are equal -/
theorem repeat_read_same (typ : Int) (w : Nat) (p : HPacket) (a : Slice) (h : Heap) (hp : p.below h.length)
    (ha : a.buf < h.length) :
    (taggedIntLookupH typ w p (taggedIntLookupH typ w p h).2).1 = (taggedIntLookupH typ w p h).1 ∧
    (let r₁ := bytesH a h; let r₂ := bytesH a r₁.2; r₂.2.read r₂.1 = r₁.2.read r₁.1 ∧ r₂.1.buf ≠ r₁.1.buf) :=
  ⟨taggedIntLookupH_repeat typ w p h hp, bytesH_repeat a h ha⟩

/-! ### 5. value-level agreement with the total models -/

theorem values_agree (a : Slice) (p : HPacket) (h : Heap) (k : Int) (w : Nat) :
    (bytesH a h).2.read (bytesH a h).1 = bytesOf (h.read a) ∧
    viewRes (ipAddrH a h).2 (ipAddrH a h).1 = ipAddr (h.read a) ∧
    viewRes (ipv6AddrH a h).2 (ipv6AddrH a h).1 = ipv6Addr (h.read a) ∧
    viewRes (ifidH a h).2 (ifidH a h).1 = ifid (h.read a) ∧
    ((tagStripH (h.read a) a).2.buf = a.buf ∧
      ((tagStripH (h.read a) a).1, h.read (tagStripH (h.read a) a).2) =
        (if (h.read a).length ≥ 1 ∧ ((h.read a).getD 0 0).toNat ≤ 0x1F then ((h.read a).getD 0 0, (h.read a).drop 1)
         else (0, h.read a))) ∧
    (lookupRaw p.attrs k).map h.read = (p.view h).attrs.lookup k ∧
    (taggedIntLookupH k w p h).1 =
      (match lookupRaw p.attrs k with
       | none => .err
       | some a =>
         let av := h.read a
         let ta := if av.length ≥ 1 ∧ (av.getD 0 0).toNat ≤ 0x1F then (av.getD 0 0, (0 : UInt8) :: av.drop 1) else (0, av)
         if ta.2.length ≠ w then .err else .ok (ta.1, beNat ta.2)) :=
  ⟨bytesH_view a h, copyDecH_view _ a h, copyDecH_view _ a h, copyDecH_view _ a h, tagStripH_view a h,
   lookupRaw_view p h k, taggedIntLookupH_view k w p h⟩

/-- Parse in the heap model computes the total model's packet (datagram slice inside its buffer) -/
theorem parse_agrees (b secret : Slice) (h : Heap) (hv : b.valid h) (hs : secret.buf < h.length) :
    match (parseH b secret h).1 with
    | .ok p => RV.parse (h.read b) (h.read secret) = .ok (p.view (parseH b secret h).2)
    | .err => RV.parse (h.read b) (h.read secret) = .err
    | .fault => False :=
  parseH_view b secret h hv hs

/-- the body of every generated getter without `encrypt=`: what the caller reads through the
    returned slices is the total model's value, for every attribute descriptor -/
theorem decodeValue_agrees (H : Hash) (d : Desc) (henc : d.encrypt = 0) (a secret : Slice) (auth : Bytes) (h : Heap) :
    viewDec (decodeValueH H d a secret auth h).2 (decodeValueH H d a secret auth h).1 =
      decodeValue H d (h.read a) (h.read secret) auth :=
  decodeValueH_view H d henc a secret auth h

/-- `X_Lookup` of a plain attribute (not vendor, not concat, no `encrypt=`) -/
theorem lookup_agrees (H : Hash) (d : Desc) (henc : d.encrypt = 0) (hv : d.vendorID = 0) (hc : d.kind ≠ .concat)
    (p : HPacket) (auth : Bytes) (h : Heap) :
    (hLookupH H d p auth h).1.view (hLookupH H d p auth h).2 =
      hLookup H d (p.view h).attrs (h.read p.secret) auth :=
  hLookupH_view H d henc hv hc p auth h

/-- … hence two `X_Lookup` calls in a row show the caller the same value -/
theorem repeat_lookup_same (H : Hash) (d : Desc) (henc : d.encrypt = 0) (hv : d.vendorID = 0) (hc : d.kind ≠ .concat)
    (p : HPacket) (auth : Bytes) (h : Heap) (hp : p.below h.length) :
    let r₁ := hLookupH H d p auth h
    let r₂ := hLookupH H d p auth r₁.2
    r₂.1.view r₂.2 = r₁.1.view r₁.2 :=
  hLookupH_repeat H d henc hv hc p auth h hp

/-! ### 5b. value-level agreement for EVERY descriptor: `encrypt=1`, `encrypt=2`, vendor, concat

    The mirrors of `radius.UserPassword` (`dec = hash.Sum(dec)` appended in place, `dec[i+j] ^= b`
    stored in place, result `dec[:n]`), of `radius.TunnelPassword` (salt copy, plaintext buffer
    written in place, result `plaintext[1:1+n]`), of `_GetsVendor` / `_LookupVendor` (sub-slices of
    `radius.VendorSpecific`'s copy) and of the concat `X_Lookup` (`value = append(value, i...)`) compute,
    in buffers they allocate, exactly the bytes of the total models.  `hH`: the hash has 16-octet
    digests (MD5).  `hp`: the packet's slices point into existing buffers. -/

/-- the typed password decoders, read through the slice they return -/
theorem password_decoders_agree (H : Hash) (hH : ∀ x, (H x).length = 16) (a secret : Slice) (auth : Bytes) (h : Heap) :
    viewRes (userPasswordH H a secret auth h).2 (userPasswordH H a secret auth h).1 =
      userPassword H (h.read a) (h.read secret) auth ∧
    viewRes (tpPlainH H a secret auth h).2 (tpPlainH H a secret auth h).1 =
      tpPlain H (h.read a) (h.read secret) auth :=
  ⟨userPasswordH_view H hH a secret auth h, tpPlainH_view H hH a secret auth h⟩

/-- the body of every generated getter, every `encrypt=` -/
theorem decodeValue_agrees_all (H : Hash) (hH : ∀ x, (H x).length = 16) (d : Desc) (a secret : Slice)
    (auth : Bytes) (h : Heap) :
    viewDec (decodeValueH H d a secret auth h).2 (decodeValueH H d a secret auth h).1 =
      decodeValue H d (h.read a) (h.read secret) auth :=
  decodeValueH_view_all H hH d a secret auth h

/-- `_GetsVendor` / `_LookupVendor`: the returned slices, read after the call, are the model's values -/
theorem vendor_walkers_agree (vid : Nat) (typ : UInt8) (p : HPacket) (h : Heap) (hp : p.below h.length) :
    (getsVendorH vid typ p.attrs h).1.map (getsVendorH vid typ p.attrs h).2.read =
      getsVendor vid typ (p.view h).attrs ∧
    ((lookupVendorH vid typ p.attrs h).1).map (lookupVendorH vid typ p.attrs h).2.read =
      lookupVendor vid typ (p.view h).attrs := by
  obtain ⟨ext, he, hm, _⟩ := getsVendorH_view vid typ p.attrs h hp.2
  have h1 : (getsVendorH vid typ p.attrs h).1.map (getsVendorH vid typ p.attrs h).2.read =
      getsVendor vid typ (p.view h).attrs := by rw [he, hm]; rfl
  refine ⟨h1, ?_⟩
  unfold lookupVendor
  rw [← h1]
  show ((getsVendorH vid typ p.attrs h).1.head?).map (getsVendorH vid typ p.attrs h).2.read = _
  rw [List.head?_map]

/-- `X_Lookup` of EVERY attribute descriptor — vendor or not, `encrypt` 0 / 1 / 2, concat included:
    what the caller reads through the returned slices is the total model's answer -/
theorem lookup_agrees_all (H : Hash) (hH : ∀ x, (H x).length = 16) (d : Desc) (p : HPacket) (auth : Bytes)
    (h : Heap) (hp : p.below h.length) :
    (hLookupH H d p auth h).1.view (hLookupH H d p auth h).2 =
      hLookup H d (p.view h).attrs (h.read p.secret) auth :=
  hLookupH_view_all H hH d p auth h hp

/-- … hence two `X_Lookup` calls in a row show the caller the same value, for every descriptor -/
theorem repeat_lookup_same_all (H : Hash) (hH : ∀ x, (H x).length = 16) (d : Desc) (p : HPacket) (auth : Bytes)
    (h : Heap) (hp : p.below h.length) :
    let r₁ := hLookupH H d p auth h
    let r₂ := hLookupH H d p auth r₁.2
    r₂.1.view r₂.2 = r₁.1.view r₁.2 :=
  hLookupH_repeat_all H hH d p auth h hp

/-- … and the second answer is still the model's answer on the ORIGINAL packet -/
theorem repeat_lookup_is_model (H : Hash) (hH : ∀ x, (H x).length = 16) (d : Desc) (p : HPacket) (auth : Bytes)
    (h : Heap) (hp : p.below h.length) :
    let r₁ := hLookupH H d p auth h
    let r₂ := hLookupH H d p auth r₁.2
    r₂.1.view r₂.2 = hLookup H d (p.view h).attrs (h.read p.secret) auth := by
  intro r₁ r₂
  have := hLookupH_repeat_all H hH d p auth h hp
  simp only [] at this
  show (hLookupH H d p auth (hLookupH H d p auth h).2).1.view (hLookupH H d p auth (hLookupH H d p auth h).2).2 = _
  rw [this]
  exact hLookupH_view_all H hH d p auth h hp

/-! ### 5c. `X_Gets` for EVERY descriptor

    `X_Gets` decodes the stored values one after the other, and every round allocates.  The caller
    reads ALL returned values in the heap the call leaves, i.e. an early value is read after later
    rounds have run.  `hp`: the packet's slices point into existing buffers; `hH`: 16-octet digests. -/

/-- `X_Gets` of EVERY attribute descriptor — vendor or not, `encrypt` 0 / 1 / 2: the list of
    (tag, value) pairs the caller reads through the returned slices in the FINAL heap, and the success
    flag, are the total model's answer -/
theorem gets_agrees_all (H : Hash) (hH : ∀ x, (H x).length = 16) (d : Desc) (p : HPacket) (auth : Bytes)
    (h : Heap) (hp : p.below h.length) :
    ((hGetsH H d p auth h).1.1.map (fun tv => (tv.1, tv.2.view (hGetsH H d p auth h).2)),
      (hGetsH H d p auth h).1.2) =
      hGets H d (p.view h).attrs (h.read p.secret) auth :=
  hGetsH_view_all H hH d p auth h hp

/-- … hence two `X_Gets` calls in a row show the caller the same list, for every descriptor -/
theorem repeat_gets_same_all (H : Hash) (hH : ∀ x, (H x).length = 16) (d : Desc) (p : HPacket) (auth : Bytes)
    (h : Heap) (hp : p.below h.length) :
    let r₁ := hGetsH H d p auth h
    let r₂ := hGetsH H d p auth r₁.2
    (r₂.1.1.map (fun tv => (tv.1, tv.2.view r₂.2)), r₂.1.2) =
      (r₁.1.1.map (fun tv => (tv.1, tv.2.view r₁.2)), r₁.1.2) :=
  hGetsH_repeat_all H hH d p auth h hp

/-- … and the second list is still the model's answer on the ORIGINAL packet -/
theorem repeat_gets_is_model (H : Hash) (hH : ∀ x, (H x).length = 16) (d : Desc) (p : HPacket) (auth : Bytes)
    (h : Heap) (hp : p.below h.length) :
    let r₁ := hGetsH H d p auth h
    let r₂ := hGetsH H d p auth r₁.2
    (r₂.1.1.map (fun tv => (tv.1, tv.2.view r₂.2)), r₂.1.2) =
      hGets H d (p.view h).attrs (h.read p.secret) auth := by
  intro r₁ r₂
  exact (hGetsH_repeat_all H hH d p auth h hp).trans (hGetsH_view_all H hH d p auth h hp)

/-- every slice `X_Gets` (and the decode body) returns lies in a buffer that exists in the heap the
    call leaves — together with `results_fresh`: in a buffer the call allocated -/
theorem results_in_bounds (H : Hash) (d : Desc) (p : HPacket) (a s : Slice) (auth : Bytes) (h : Heap) :
    (∀ x ∈ slices (decodeValueH H d a s auth h).1, x.buf < (decodeValueH H d a s auth h).2.length) ∧
    (∀ x ∈ slices (hGetsH H d p auth h).1, x.buf < (hGetsH H d p auth h).2.length) :=
  ⟨decodeValueH_bound H d a s auth h, hGetsH_bound H d p auth h⟩

/-- monotonicity: a value whose slices lie in existing buffers reads the same in every later heap
    that left those buffers alone — in particular after any further pure observer -/
theorem value_stable_under_pure {α} (v : GValH) (g : Heap) (hv : ∀ s ∈ slices v, s.buf < g.length)
    (m : M α) (hm : PureObs m) : v.view (m g).2 = v.view g :=
  GValH.view_ext (hm g) v hv

/-- the list the FIRST `X_Gets` returned is not disturbed by any later pure observer (a second
    `X_Gets`, a `Parse`, an `Encode`, …): read afterwards, it shows the same values -/
theorem gets_result_stable {α} (H : Hash) (d : Desc) (p : HPacket) (auth : Bytes) (h : Heap)
    (m : M α) (hm : PureObs m) :
    let r₁ := hGetsH H d p auth h
    r₁.1.1.map (fun tv => (tv.1, tv.2.view (m r₁.2).2)) = r₁.1.1.map (fun tv => (tv.1, tv.2.view r₁.2)) := by
  intro r₁
  exact congrArg Prod.fst (hGetsH_first_stable H d p auth h m hm)

/-! ### 5d. `X_Get`, `X_LookupString`, `X_GetString`, `X_GetStrings`

    `X_Get` is emitted as `tag, value, _ = X_Lookup(p)`: the named results of `X_Lookup` at its
    `return`, error dropped.  `hGetH` mirrors exactly that (`none` = the zero value of the Go result
    type, which refers to no buffer); `getView` is what the caller sees.  The string flavours use
    `radius.String` / `string(b)` — a new immutable string per conversion. -/

/-- the new mirrors are pure observers and return only fresh slices -/
theorem getters_pure_and_fresh (H : Hash) (d : Desc) (p : HPacket) (a s : Slice) (auth : Bytes) :
    PureObs (lookupResultsH H d a s auth) ∧ PureObs (hGetH H d p auth) ∧
    PureObs (lookupStringBodyH H d a s auth) ∧ PureObs (hLookupStringH H d p auth) ∧
    PureObs (hGetStringH H d p auth) ∧ PureObs (hGetStringsH H d p auth) ∧
    FreshObs (lookupResultsH H d a s auth) ∧ FreshObs (hGetH H d p auth) ∧
    FreshObs (lookupStringBodyH H d a s auth) ∧ FreshObs (hLookupStringH H d p auth) ∧
    FreshObs (hGetStringH H d p auth) ∧ FreshObs (hGetStringsH H d p auth) :=
  ⟨pure_of_tr (fun n => tr_lookupResultsH n H d a s auth), pure_of_tr (fun n => tr_hGetH n H d p auth),
   pure_of_tr (fun n => tr_lookupStringBodyH n H d a s auth), pure_of_tr (fun n => tr_hLookupStringH n H d p auth),
   pure_of_tr (fun n => tr_hGetStringH n H d p auth), pure_of_tr (fun n => tr_hGetStringsH n H d p auth),
   fresh_of_tr (fun n => tr_lookupResultsH n H d a s auth), fresh_of_tr (fun n => tr_hGetH n H d p auth),
   fresh_of_tr (fun n => tr_lookupStringBodyH n H d a s auth), fresh_of_tr (fun n => tr_hLookupStringH n H d p auth),
   fresh_of_tr (fun n => tr_hGetStringH n H d p auth), fresh_of_tr (fun n => tr_hGetStringsH n H d p auth)⟩

/-- the named results of `X_Lookup` once the attribute was found (what `X_Get` hands on), every
    descriptor, error paths included -/
theorem lookupResults_agree_all (H : Hash) (hH : ∀ x, (H x).length = 16) (d : Desc) (a secret : Slice)
    (auth : Bytes) (h : Heap) :
    getView d.kind (lookupResultsH H d a secret auth h).2 (lookupResultsH H d a secret auth h).1 =
      lookupResults H d (h.read a) (h.read secret) auth :=
  lookupResultsH_view_all H hH d a secret auth h

/-- `X_Get` of EVERY attribute descriptor: what the caller reads is the total model's `hGet` — also
    when the attribute is absent or undecodable -/
theorem get_agrees_all (H : Hash) (hH : ∀ x, (H x).length = 16) (d : Desc) (p : HPacket) (auth : Bytes)
    (h : Heap) (hp : p.below h.length) :
    getView d.kind (hGetH H d p auth h).2 (hGetH H d p auth h).1 =
      hGet H d (p.view h).attrs (h.read p.secret) auth :=
  hGetH_view_all H hH d p auth h hp

theorem repeat_get_same_all (H : Hash) (hH : ∀ x, (H x).length = 16) (d : Desc) (p : HPacket) (auth : Bytes)
    (h : Heap) (hp : p.below h.length) :
    let r₁ := hGetH H d p auth h
    let r₂ := hGetH H d p auth r₁.2
    getView d.kind r₂.2 r₂.1 = getView d.kind r₁.2 r₁.1 :=
  hGetH_repeat_all H hH d p auth h hp

theorem repeat_get_is_model (H : Hash) (hH : ∀ x, (H x).length = 16) (d : Desc) (p : HPacket) (auth : Bytes)
    (h : Heap) (hp : p.below h.length) :
    let r₁ := hGetH H d p auth h
    let r₂ := hGetH H d p auth r₁.2
    getView d.kind r₂.2 r₂.1 = hGet H d (p.view h).attrs (h.read p.secret) auth := by
  intro r₁ r₂
  exact (hGetH_repeat_all H hH d p auth h hp).trans (hGetH_view_all H hH d p auth h hp)

/-- `X_LookupString` and `X_GetString`, every descriptor (they are emitted for string / octets /
    concat attributes; `""` is the zero value) -/
theorem string_getters_agree_all (H : Hash) (hH : ∀ x, (H x).length = 16) (d : Desc) (p : HPacket) (auth : Bytes)
    (h : Heap) (hp : p.below h.length) :
    (hLookupStringH H d p auth h).1.view (hLookupStringH H d p auth h).2 =
      hLookupString H d (p.view h).attrs (h.read p.secret) auth ∧
    getView .string (hGetStringH H d p auth h).2 (hGetStringH H d p auth h).1 =
      hGetString H d (p.view h).attrs (h.read p.secret) auth :=
  ⟨hLookupStringH_view_all H hH d p auth h hp, hGetStringH_view_all H hH d p auth h hp⟩

/-- `X_GetStrings` (text kinds): the list read in the final heap and the success flag -/
theorem get_strings_agrees_all (H : Hash) (hH : ∀ x, (H x).length = 16) (d : Desc)
    (hk : d.kind = .string ∨ d.kind = .octets ∨ d.kind = .concat) (p : HPacket) (auth : Bytes)
    (h : Heap) (hp : p.below h.length) :
    ((hGetStringsH H d p auth h).1.1.map (fun tv => (tv.1, tv.2.view (hGetStringsH H d p auth h).2)),
      (hGetStringsH H d p auth h).1.2) =
      hGetStrings H d (p.view h).attrs (h.read p.secret) auth :=
  hGetStringsH_view_all H hH d hk p auth h hp

/-- the string flavours answer the same when asked again -/
theorem repeat_string_getters_same_all (H : Hash) (hH : ∀ x, (H x).length = 16) (d : Desc) (p : HPacket)
    (auth : Bytes) (h : Heap) (hp : p.below h.length) :
    (let r₁ := hLookupStringH H d p auth h
     let r₂ := hLookupStringH H d p auth r₁.2
     r₂.1.view r₂.2 = r₁.1.view r₁.2) ∧
    (let r₁ := hGetStringH H d p auth h
     let r₂ := hGetStringH H d p auth r₁.2
     getView .string r₂.2 r₂.1 = getView .string r₁.2 r₁.1) ∧
    (d.kind = .string ∨ d.kind = .octets ∨ d.kind = .concat →
     let r₁ := hGetStringsH H d p auth h
     let r₂ := hGetStringsH H d p auth r₁.2
     (r₂.1.1.map (fun tv => (tv.1, tv.2.view r₂.2)), r₂.1.2) =
       (r₁.1.1.map (fun tv => (tv.1, tv.2.view r₁.2)), r₁.1.2)) :=
  ⟨hLookupStringH_repeat_all H hH d p auth h hp, hGetStringH_repeat_all H hH d p auth h hp,
   fun hk => hGetStringsH_repeat_all H hH d hk p auth h hp⟩

/-! ### History: the defect that was repaired is visible in this layer -/

/-- The PREVIOUS tagged-integer getter (`a[0] = 0x00` stored through the slice `p.Lookup` returned):
    there is a packet on which one `X_Lookup` call changes the packet. -/
theorem old_tagged_int_lookup_writes_packet :
    ∃ (h : Heap) (p : HPacket), p.below h.length ∧
      (oldTaggedIntLookupH 64 4 p h).1 = .ok (5, 7) ∧
      p.view (oldTaggedIntLookupH 64 4 p h).2 ≠ p.view h ∧
      (oldTaggedIntLookupH 64 4 p (oldTaggedIntLookupH 64 4 p h).2).1 = .ok (0, 7) :=
  ⟨histHeap, histPacket, histPacket_below, old_lookup_answer, old_lookup_changes_view, old_lookup_second_read⟩

/-- so the old getter is not a pure observer … -/
theorem old_tagged_int_lookup_not_pure : ¬ PureObs (oldTaggedIntLookupH 64 4 histPacket) := by
  intro hp
  exact old_lookup_changes_view (hp.packet_unchanged histHeap histPacket histPacket_below)

/-- … while the repaired one is, and answers the same on that packet, twice -/
theorem new_tagged_int_lookup_pure (typ : Int) (w : Nat) (p : HPacket) : PureObs (taggedIntLookupH typ w p) :=
  taggedIntLookupH_pure typ w p

example : (taggedIntLookupH 64 4 histPacket histHeap).1 = .ok (5, 7) := new_lookup_on_hist.1
example : (taggedIntLookupH 64 4 histPacket (taggedIntLookupH 64 4 histPacket histHeap).2).1 = .ok (5, 7) :=
  new_lookup_on_hist.2.2

/-- list `Get` / `Lookup` returns a view of the packet; that is allowed, and the model shows it -/
example : lookupRaw histPacket.attrs 64 = some ⟨1, 0, 4⟩ ∧
    histPacket.view (histHeap.write ⟨1, 0, 4⟩ 3 9) ≠ histPacket.view histHeap := raw_lookup_is_view

/-! ### Non-vacuity of 5b: concrete heaps -/

/-- toy hash with 16-octet digests -/
def zh : Hash := fun _ => zeros 16
theorem zh_len : ∀ x, (zh x).length = 16 := fun _ => by simp [zh, zeros]

/-- buffer 0: the secret; buffer 1: a Vendor-Specific attribute of vendor 9 with sub-attributes
    (1, AA BB) and (2, CC); buffer 2: a User-Password style attribute (type 2) holding "ab" under `zh`;
    buffers 3, 4: two chunks of a concat attribute (type 79) -/
def exHeap : Heap :=
  [[0x73], [0, 0, 0, 9, 1, 4, 0xAA, 0xBB, 2, 3, 0xCC], [0x61, 0x62, 0, 0, 0, 0, 0, 0, 0, 0, 0, 0, 0, 0, 0, 0],
   [1, 2], [3]]
def exPacket : HPacket :=
  ⟨1, 7, zeros 16, ⟨0, 0, 1⟩, [(26, ⟨1, 0, 11⟩), (2, ⟨2, 0, 16⟩), (79, ⟨3, 0, 2⟩), (79, ⟨4, 0, 1⟩)]⟩

theorem exPacket_below : exPacket.below exHeap.length := by
  refine ⟨by decide, ?_⟩
  intro ts hts
  simp only [exPacket, List.mem_cons, List.not_mem_nil, or_false] at hts
  rcases hts with rfl | rfl | rfl | rfl <;> decide

/-- a vendor attribute: the value is read out of `radius.VendorSpecific`'s copy -/
example : (hLookupH zh ⟨26, 9, 1, .octets, false, 0, none⟩ exPacket (zeros 16) exHeap).1.view
    (hLookupH zh ⟨26, 9, 1, .octets, false, 0, none⟩ exPacket (zeros 16) exHeap).2 =
    .val 0 (.bytes [0xAA, 0xBB]) := by
  rw [lookup_agrees_all zh zh_len _ _ _ _ exPacket_below]; decide +kernel

/-- an `encrypt=1` attribute: decrypted in a buffer of its own -/
example : (hLookupH zh ⟨2, 0, 0, .string, false, 1, none⟩ exPacket (zeros 16) exHeap).1.view
    (hLookupH zh ⟨2, 0, 0, .string, false, 1, none⟩ exPacket (zeros 16) exHeap).2 =
    .val 0 (.bytes [0x61, 0x62]) := by
  rw [lookup_agrees_all zh zh_len _ _ _ _ exPacket_below]; decide +kernel

/-- a concat attribute: all occurrences appended into a new buffer; the packet's buffers are as
    before, and storing through the result does not reach them -/
example : (hLookupH zh ⟨79, 0, 0, .concat, false, 0, none⟩ exPacket (zeros 16) exHeap).1.view
    (hLookupH zh ⟨79, 0, 0, .concat, false, 0, none⟩ exPacket (zeros 16) exHeap).2 =
    .val 0 (.bytes [1, 2, 3]) := by
  rw [lookup_agrees_all zh zh_len _ _ _ _ exPacket_below]; decide +kernel
example : (hLookupH zh ⟨79, 0, 0, .concat, false, 0, none⟩ exPacket (zeros 16) exHeap).2 =
    exHeap ++ [[1, 2, 3], [1, 2], [3]] := by decide +kernel
example : slices (hLookupH zh ⟨79, 0, 0, .concat, false, 0, none⟩ exPacket (zeros 16) exHeap).1 = [⟨5, 0, 3⟩] := by
  decide +kernel

/-! ### Non-vacuity of 5c / 5d on the same heap -/

/-- `X_Gets` over the two occurrences of attribute 79 read as plain octets: two values, each in a
    buffer of its own, both read in the final heap -/
example : ((hGetsH zh ⟨79, 0, 0, .octets, false, 0, none⟩ exPacket (zeros 16) exHeap).1.1.map
      (fun tv => (tv.1, tv.2.view (hGetsH zh ⟨79, 0, 0, .octets, false, 0, none⟩ exPacket (zeros 16) exHeap).2)),
    (hGetsH zh ⟨79, 0, 0, .octets, false, 0, none⟩ exPacket (zeros 16) exHeap).1.2) =
    ([(0, .bytes [1, 2]), (0, .bytes [3])], true) := by
  rw [gets_agrees_all zh zh_len _ _ _ _ exPacket_below]; decide +kernel
example : slices (hGetsH zh ⟨79, 0, 0, .octets, false, 0, none⟩ exPacket (zeros 16) exHeap).1 =
    [⟨5, 0, 2⟩, ⟨6, 0, 1⟩] := by decide +kernel

/-- `X_Gets` stops at the first undecodable value: `octets[2]` accepts the first occurrence only -/
example : ((hGetsH zh ⟨79, 0, 0, .octets, false, 0, some 2⟩ exPacket (zeros 16) exHeap).1.1.map
      (fun tv => (tv.1, tv.2.view (hGetsH zh ⟨79, 0, 0, .octets, false, 0, some 2⟩ exPacket (zeros 16) exHeap).2)),
    (hGetsH zh ⟨79, 0, 0, .octets, false, 0, some 2⟩ exPacket (zeros 16) exHeap).1.2) =
    ([(0, .bytes [1, 2])], false) := by
  rw [gets_agrees_all zh zh_len _ _ _ _ exPacket_below]; decide +kernel

/-- `X_Get` on an error path: a tagged integer of the wrong length — the tag octet stripped before
    the failing decode is kept, the value is 0; nothing in the packet was touched -/
example : getView .integer (hGetH zh ⟨79, 0, 0, .integer, true, 0, none⟩ exPacket (zeros 16) exHeap).2
    (hGetH zh ⟨79, 0, 0, .integer, true, 0, none⟩ exPacket (zeros 16) exHeap).1 = (1, .nat 0) :=
  (get_agrees_all zh zh_len ⟨79, 0, 0, .integer, true, 0, none⟩ exPacket (zeros 16) exHeap exPacket_below).trans
    (by decide +kernel)
example : exPacket.view (hGetH zh ⟨79, 0, 0, .integer, true, 0, none⟩ exPacket (zeros 16) exHeap).2 =
    exPacket.view exHeap := by decide +kernel

/-- `X_Get` of an absent attribute: the zero value (a nil `*net.IPNet`), no buffer -/
example : getView .ipv6prefix (hGetH zh ⟨5, 0, 0, .ipv6prefix, false, 0, none⟩ exPacket (zeros 16) exHeap).2
    (hGetH zh ⟨5, 0, 0, .ipv6prefix, false, 0, none⟩ exPacket (zeros 16) exHeap).1 = (0, .pfx none) :=
  (get_agrees_all zh zh_len ⟨5, 0, 0, .ipv6prefix, false, 0, none⟩ exPacket (zeros 16) exHeap exPacket_below).trans
    (by decide +kernel)
example : slices (hGetH zh ⟨5, 0, 0, .ipv6prefix, false, 0, none⟩ exPacket (zeros 16) exHeap).1 = [] := by
  decide +kernel

/-- `X_GetString` of an `encrypt=1` attribute: the decryption buffer, then a string made from it -/
example : getView .string (hGetStringH zh ⟨2, 0, 0, .string, false, 1, none⟩ exPacket (zeros 16) exHeap).2
    (hGetStringH zh ⟨2, 0, 0, .string, false, 1, none⟩ exPacket (zeros 16) exHeap).1 = (0, .bytes [0x61, 0x62]) := by
  rw [(string_getters_agree_all zh zh_len _ _ _ _ exPacket_below).2]; decide +kernel
example : slices (hGetStringH zh ⟨2, 0, 0, .string, false, 1, none⟩ exPacket (zeros 16) exHeap).1 = [⟨6, 0, 2⟩] := by
  decide +kernel

end RV.C13
