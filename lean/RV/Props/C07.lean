/-
  C07 — Graceful shutdown is complete, panic-free and deadlock-free under all interleavings.
  Theorems are about the transition system RV.Model.Server (variant `.fixed` = the code in the
  tree), for ANY numbers of Serve / Shutdown calls and datagrams and for EVERY schedule
  (`run` skips labels that are not enabled, so every `List Label` is a schedule).
  Data-race freedom and the Go scheduler below the granularity of the labels are outside the model.
-/
import RV.Model.Server
import RV.Proofs.Server
namespace RV.C07
open RV RV.Server

/-- states reachable in the repaired server -/
def reach (H : Hash) (cfg : Cfg) (conns : List Nat) (nD : Nat) (ls : List Label) : St := run H cfg (initWith conns nD) ls

def terminalServe : ServePc → Bool
  | .notStarted | .returned _ => true
  | _ => false

def isHandlerStart : Event → Bool
  | .handlerStart _ _ => true
  | _ => false

/-- The accounting invariant behind everything else: activeCount = counted Serve calls + live
    datagram goroutines − (1 once Shutdown's own decrement happened). -/
theorem active_invariant (H : Hash) (cfg : Cfg) (hv : cfg.variant = .fixed) (conns : List Nat) (nD : Nat) (ls : List Label) :
    let s := reach H cfg conns nD ls
    s.active = (countedServes s : Int) + (liveTasks s : Int) - (if s.sd then 1 else 0) := by
  exact (InvF_run H cfg hv conns nD ls).act

/-- No panic: `lastActive` is closed at most once, whatever the schedule. -/
theorem closes_le_one (H : Hash) (cfg : Cfg) (hv : cfg.variant = .fixed) (conns : List Nat) (nD : Nat) (ls : List Label) :
    (reach H cfg conns nD ls).closes ≤ 1 ∧ (reach H cfg conns nD ls).panicked = false := by
  have h := (InvF_run H cfg hv conns nD ls).cl1
  refine ⟨h, ?_⟩
  simp only [St.panicked, decide_eq_false_iff_not]
  unfold reach
  omega

/-- `lastActive` is closed exactly when shutdown was requested and nothing is active any more. -/
theorem closed_iff_drained (H : Hash) (cfg : Cfg) (hv : cfg.variant = .fixed) (conns : List Nat) (nD : Nat) (ls : List Label) :
    let s := reach H cfg conns nD ls
    s.closes = 1 ↔ (s.sd = true ∧ countedServes s = 0 ∧ liveTasks s = 0) := by
  exact (InvF_run H cfg hv conns nD ls).cl2

/-- Shutdown returns nil only after every Serve call has returned and every datagram goroutine
    (hence every started handler) has finished. -/
theorem nil_after_drain (H : Hash) (cfg : Cfg) (hv : cfg.variant = .fixed) (conns : List Nat) (nD : Nat) (ls : List Label)
    (j : Nat) (c : Bool) (h : (reach H cfg conns nD ls).downs[j]? = some ⟨.returned .nil, c⟩) :
    (∀ pc ∈ (reach H cfg conns nD ls).serves, terminalServe pc = true) ∧
    (∀ t ∈ (reach H cfg conns nD ls).tasks, t.pc = .done) := by
  have hI := InvF_run H cfg hv conns nD ls
  have hd := Drained_of_closed hI (hI.nil j c h)
  have hte : terminalServe = terminalS := by funext pc; cases pc <;> rfl
  rw [hte]
  exact ⟨hd.serves, hd.tasks⟩

/-- … and it stays so: after a nil return no handler ever starts (no extension of the schedule adds
    a `handlerStart` event). -/
theorem no_handler_after_nil (H : Hash) (cfg : Cfg) (hv : cfg.variant = .fixed) (conns : List Nat) (nD : Nat) (ls ls' : List Label)
    (j : Nat) (c : Bool) (h : (reach H cfg conns nD ls).downs[j]? = some ⟨.returned .nil, c⟩) :
    ((reach H cfg conns nD (ls ++ ls')).log.filter isHandlerStart) = ((reach H cfg conns nD ls).log.filter isHandlerStart) := by
  have hI := InvF_run H cfg hv conns nD ls
  have hd := Drained_of_closed hI (hI.nil j c h)
  have hhe : isHandlerStart = isHS := by funext e; cases e <;> rfl
  rw [hhe]
  unfold reach
  rw [run_append]
  exact (Drained_run H cfg ls' _ hd).2

/-- The caller's context error is returned only if that context ended. -/
theorem ctx_error_only_if_ctx_done (H : Hash) (cfg : Cfg) (conns : List Nat) (nD : Nat) (ls : List Label) (j : Nat) (c : Bool)
    (h : (reach H cfg conns nD ls).downs[j]? = some ⟨.returned .ctxErr, c⟩) : c = true := by
  exact (InvG_run H cfg conns nD ls).ctx j c h

/-- Shutdown closes every registered listener and cancels the request contexts. -/
theorem shutdown_closes_listeners (H : Hash) (cfg : Cfg) (hv : cfg.variant = .fixed) (conns : List Nat) (nD : Nat) (ls : List Label)
    (h : (reach H cfg conns nD ls).sd = true) :
    (reach H cfg conns nD ls).ctxCancelled = true ∧
    ∀ c, (reach H cfg conns nD ls).listeners.getD c 0 > 0 → (reach H cfg conns nD ls).connClosed.getD c 0 ≥ 1 := by
  exact (InvF_run H cfg hv conns nD ls).sdc h

/-- Once Shutdown has been requested a later Serve call returns ErrServerShutdown without
    registering, and a running Serve call returns ErrServerShutdown when its read fails. -/
theorem serve_after_shutdown (H : Hash) (cfg : Cfg) (s : St) (i : Nat) (hsd : s.sd = true)
    (hi : s.serves[i]? = some .notStarted) :
    ∃ s', step H cfg s (.serveEnter i) = some s' ∧ s'.serves[i]? = some (.returned .errShutdown) ∧
      s'.listeners = s.listeners ∧ s'.active = s.active := by
  refine ⟨_, serveEnter_shutdown hsd hi, ?_, rfl, rfl⟩
  simp [lt_of_getElem?_eq_some hi]

/-- The listener table counts the Serve calls per conn (several calls may share one conn): a conn is in
    the table exactly as long as some Serve call on it is registered and has not returned. -/
theorem listeners_count (H : Hash) (cfg : Cfg) (hv : cfg.variant = .fixed) (conns : List Nat) (nD : Nat) (ls : List Label) (c : Nat) :
    (reach H cfg conns nD ls).listeners.getD c 0 =
      ((List.range (reach H cfg conns nD ls).serves.length).filter (fun i =>
        (reach H cfg conns nD ls).serves[i]? == some .running && (reach H cfg conns nD ls).connOf.getD i 0 == c)).length := by
  exact (InvF_run H cfg hv conns nD ls).cnt c

/-- A read error that does not come from Shutdown's Close: once Shutdown has been requested the Serve
    call returns ErrServerShutdown whatever the error is; before that, a non-temporary network error
    ends this Serve call with that error (its listener registration and its count are released), and
    any other error is logged and the loop continues (nothing changes). -/
theorem read_failure (H : Hash) (cfg : Cfg) (s : St) (i : Nat) (k : ReadErrKind)
    (hi : s.serves[i]? = some .running) :
    ∃ s', step H cfg s (.serveReadFail i k) = some s' ∧
      (s.sd = true → s'.serves[i]? = some (.returned .errShutdown)) ∧
      (s.sd = false → k = .nonTemporary → s'.serves[i]? = some (.returned .readError) ∧
          s'.listeners.getD (s.connOf.getD i 0) 0 = s.listeners.getD (s.connOf.getD i 0) 0 - 1) ∧
      (s.sd = false → k = .other → s' = s) := by
  exact read_failure' H cfg s i k hi

/-- Deadlock freedom: from every reachable state in which shutdown has been requested, the threads
    can all run to completion — every Serve returned (or never started), every datagram goroutine
    done, `lastActive` closed, so that every waiting Shutdown can return nil.  (Handlers returning
    and read errors being delivered are steps of the environment; no step ever waits for a lock or
    a channel that nobody can release.) -/
theorem no_stuck_state (H : Hash) (cfg : Cfg) (hv : cfg.variant = .fixed) (conns : List Nat) (nD : Nat) (ls : List Label)
    (hsd : (reach H cfg conns nD ls).sd = true) :
    ∃ ls', let s' := reach H cfg conns nD (ls ++ ls')
      (∀ pc ∈ s'.serves, terminalServe pc = true) ∧ (∀ t ∈ s'.tasks, t.pc = .done) ∧ s'.closes = 1 ∧
      ∀ j c, s'.downs[j]? = some ⟨.waiting, c⟩ → (step H cfg s' (.downReturnNil j)).isSome = true := by
  have hI := InvF_run H cfg hv conns nD ls
  obtain ⟨ls', hsd', h1, h2⟩ := drain (H := H) hv (drainMeasure (reach H cfg conns nD ls)) _ hI hsd (Nat.le_refl _)
  refine ⟨ls', ?_⟩
  have hI' := InvF_run_from H cfg hv ls' _ hI
  unfold reach
  rw [run_append]
  have hd := Drained_of_counts hI' hsd' h1 h2
  have hc : (run H cfg (run H cfg (initWith conns nD) ls) ls').closes = 1 := hI'.cl2.mpr ⟨hsd', h1, h2⟩
  have hte : terminalServe = terminalS := by funext pc; cases pc <;> rfl
  rw [hte]
  refine ⟨hd.serves, hd.tasks, hc, ?_⟩
  intro j c hj
  simp only [step, hj, hc]
  rfl

/-! ### Progress under EVERY schedule (the ∀-side of `no_stuck_state`)

  `no_stuck_state` exhibits one draining schedule.  The statements below say that no schedule can
  avoid draining except by not scheduling the threads that are ready:
  the measure `drainMeasure` (running Serve calls + datagram goroutines that have not finished, the
  ones that have not yet run their pipeline counted twice) never grows once Shutdown has been
  requested, every step with a *drain label* (`serveReadErr`, `serveReadFail`, `taskRun`,
  `taskFinish`) strictly decreases it, and while the server is not drained such a step is enabled. -/

/-- running Serve calls + live datagram goroutines + those that have not yet run their pipeline -/
def measure (s : St) : Nat := drainMeasure s

theorem measure_eq (s : St) : measure s = countedServes s + liveTasks s + spawnedTasks s := rfl

/-- (a1) Not drained ⇒ some thread can move: in every reachable state in which Shutdown has been
    requested and `lastActive` is not yet closed, a step with a drain label is enabled and strictly
    decreases the measure. -/
theorem progress_enabled (H : Hash) (cfg : Cfg) (hv : cfg.variant = .fixed) (conns : List Nat) (nD : Nat)
    (ls : List Label) (hsd : (reach H cfg conns nD ls).sd = true) (hnd : (reach H cfg conns nD ls).closes = 0) :
    ∃ l s', isDrainLabel l = true ∧ step H cfg (reach H cfg conns nD ls) l = some s' ∧
      measure s' < measure (reach H cfg conns nD ls) := by
  have hI := InvF_run H cfg hv conns nD ls
  simp only [reach] at *
  have hm : countedServes (run H cfg (initWith conns nD) ls) + liveTasks (run H cfg (initWith conns nD) ls) ≠ 0 := by
    intro h0
    have := hI.cl2.mpr ⟨hsd, by omega, by omega⟩
    omega
  obtain ⟨l, s', hl, hs, _, hlt⟩ := drain_label_enabled (H := H) (cfg := cfg) hI hsd hm
  exact ⟨l, s', hl, hs, hlt⟩

/-- (a2) No enabled step undoes progress: from a reachable state in which Shutdown has been requested,
    EVERY enabled step (whatever its label — `serveRecv` is not enabled at all, the conns of the running
    Serve calls are closed) keeps shutdown requested and does not increase the measure; steps with a
    drain label decrease it strictly, all other steps (a Serve call arriving late, a handler writing a
    reply, Shutdown calls entering / returning, a caller's context ending) leave it unchanged. -/
theorem no_step_increases (H : Hash) (cfg : Cfg) (hv : cfg.variant = .fixed) (conns : List Nat) (nD : Nat)
    (ls : List Label) (hsd : (reach H cfg conns nD ls).sd = true) (l : Label) (s' : St)
    (hs : step H cfg (reach H cfg conns nD ls) l = some s') :
    s'.sd = true ∧ measure s' ≤ measure (reach H cfg conns nD ls) ∧
    (isDrainLabel l = true → measure s' < measure (reach H cfg conns nD ls)) ∧
    (isDrainLabel l = false → measure s' = measure (reach H cfg conns nD ls)) ∧
    (∀ i peer d, l ≠ .serveRecv i peer d) := by
  have hI := InvF_run H cfg hv conns nD ls
  simp only [reach] at *
  obtain ⟨h1, h2, h3, h4⟩ := step_drain_le hI hsd hs
  refine ⟨h1, h2, h3, h4, ?_⟩
  rintro i peer d rfl
  obtain ⟨hrun, hcl, _⟩ := step_serveRecv hs
  have hlp : (run H cfg (initWith conns nD) ls).listeners.getD ((run H cfg (initWith conns nD) ls).connOf.getD i 0) 0 > 0 := by
    rw [hI.cnt]; exact runOnL_pos hrun
  have := (hI.sdc hsd).2 _ hlp
  omega

/-- (a3) Hence every schedule drains within measure-many drain steps: for EVERY continuation `ls'` of a
    reachable state in which Shutdown has been requested, the number of enabled drain-labelled steps
    in `ls'` plus the measure afterwards is at most the measure before; if `ls'` is maximal (no
    drain-labelled step is enabled at its end) or takes measure-many drain steps, then at its end
    `lastActive` is closed — everything has returned. -/
theorem every_schedule_drains (H : Hash) (cfg : Cfg) (hv : cfg.variant = .fixed) (conns : List Nat) (nD : Nat)
    (ls ls' : List Label) (hsd : (reach H cfg conns nD ls).sd = true) :
    let s := reach H cfg conns nD ls
    let s' := reach H cfg conns nD (ls ++ ls')
    s'.sd = true ∧
    drainSteps H cfg s ls' + measure s' ≤ measure s ∧
    ((∀ l, isDrainLabel l = true → step H cfg s' l = none) → s'.closes = 1) ∧
    (measure s ≤ drainSteps H cfg s ls' → s'.closes = 1) := by
  have hI := InvF_run H cfg hv conns nD ls
  have hI' := InvF_run H cfg hv conns nD (ls ++ ls')
  obtain ⟨h1, h2⟩ := drain_bound H cfg hv ls' _ hI hsd
  simp only [reach, run_append]
  refine ⟨h1, h2, ?_, ?_⟩
  · intro hmax
    rw [← run_append]
    by_cases hm : countedServes (run H cfg (initWith conns nD) (ls ++ ls')) +
        liveTasks (run H cfg (initWith conns nD) (ls ++ ls')) = 0
    · exact hI'.cl2.mpr ⟨by rw [run_append]; exact h1, by omega, by omega⟩
    · obtain ⟨l, s'', hl, hs, _⟩ := drain_label_enabled (H := H) (cfg := cfg) hI' (by rw [run_append]; exact h1) hm
      rw [run_append] at hs
      rw [hmax l hl] at hs; cases hs
  · intro hge
    have h0 : drainMeasure (run H cfg (run H cfg (initWith conns nD) ls) ls') = 0 := by
      simp only [measure] at hge; omega
    rw [← run_append] at h0 h1 ⊢
    simp only [drainMeasure] at h0
    exact hI'.cl2.mpr ⟨h1, by omega, by omega⟩

/-- (b) Once drained, Shutdown returns: if `lastActive` is closed in a reachable state, then in EVERY
    continuation it stays closed; every Shutdown call waiting at its `select` can return nil at once;
    a Shutdown call made later passes the mutex region and then waits with `lastActive` already
    closed; and a call that was waiting is, in every continuation, still waiting (able to return nil)
    or has returned — nothing can put it back or disable its return, so none can hang. -/
theorem drained_shutdown_returns (H : Hash) (cfg : Cfg) (hv : cfg.variant = .fixed) (conns : List Nat) (nD : Nat)
    (ls ls' : List Label) (hc : (reach H cfg conns nD ls).closes = 1) :
    let s := reach H cfg conns nD ls
    let s' := reach H cfg conns nD (ls ++ ls')
    s'.closes = 1 ∧
    (∀ (j : Nat) (c : Bool), s'.downs[j]? = some (⟨.waiting, c⟩ : Down) →
      ∃ s'', step H cfg s' (.downReturnNil j) = some s'' ∧ s''.downs[j]? = some (⟨.returned .nil, c⟩ : Down)) ∧
    (∀ (j : Nat) (c : Bool), s'.downs[j]? = some (⟨.notStarted, c⟩ : Down) →
      ∃ s'', step H cfg s' (.downEnter j) = some s'' ∧ s''.downs[j]? = some (⟨.waiting, c⟩ : Down) ∧
        s''.closes = 1) ∧
    (∀ (j : Nat) (c : Bool), s.downs[j]? = some (⟨.waiting, c⟩ : Down) →
      (∃ c', s'.downs[j]? = some (⟨.waiting, c'⟩ : Down)) ∨
      (∃ r c', s'.downs[j]? = some (⟨.returned r, c'⟩ : Down))) := by
  have hI := InvF_run H cfg hv conns nD ls
  have hI' := InvF_run H cfg hv conns nD (ls ++ ls')
  have hd := Drained_of_closed hI (by unfold reach at hc; omega)
  have hd' := (Drained_run H cfg ls' _ hd).1
  obtain ⟨hc1, hc2⟩ := Drained_counts hd'
  have hcl : (run H cfg (initWith conns nD) (ls ++ ls')).closes = 1 := by
    rw [run_append]; rw [run_append] at hI'
    exact hI'.cl2.mpr ⟨hd'.sd, hc1, hc2⟩
  simp only [reach]
  refine ⟨hcl, ?_, ?_, ?_⟩
  · intro j c hj
    refine ⟨{ run H cfg (initWith conns nD) (ls ++ ls') with
        downs := (run H cfg (initWith conns nD) (ls ++ ls')).downs.set j ⟨.returned .nil, c⟩,
        log := (run H cfg (initWith conns nD) (ls ++ ls')).log ++ [.downReturned j .nil] }, ?_, ?_⟩
    · simp only [step, hj, hcl]; rfl
    · simp [lt_of_getElem?_eq_some hj]
  · intro j c hj
    have hsd : (run H cfg (initWith conns nD) (ls ++ ls')).sd = true := by rw [run_append]; exact hd'.sd
    refine ⟨{ run H cfg (initWith conns nD) (ls ++ ls') with
        downs := (run H cfg (initWith conns nD) (ls ++ ls')).downs.set j ⟨.waiting, c⟩ }, ?_, ?_, hcl⟩
    · simp only [step, hj, hsd, if_true]
    · simp [lt_of_getElem?_eq_some hj]
  · intro j c hj
    rw [run_append]
    obtain ⟨⟨pc, c'⟩, h1, h2⟩ := run_down_rank H cfg ls' _ j _ hj
    cases pc with
    | notStarted => simp [downRank] at h2
    | waiting => exact Or.inl ⟨c', h1⟩
    | returned r => exact Or.inr ⟨r, c', h1⟩

/-- Non-vacuity of `progress_enabled` / `no_step_increases` / `every_schedule_drains`: Shutdown has been
    requested while a Serve call reads, one handler runs and one datagram has not been looked at; the
    measure is 4 and `lastActive` is open.  Any order of the four drain steps closes it. -/
example :
    let s := reach (fun _ => zeros 16) { secretOf := fun _ => .secret [1] } [0] 1
      [.serveEnter 0, .serveRecv 0 0 ([1, 7, 0, 20] ++ zeros 16), .serveRecv 0 0 ([1, 7, 0, 20] ++ zeros 16),
       .taskRun 0, .downEnter 0]
    s.sd = true ∧ s.closes = 0 ∧ measure s = 4 := by
  simp only [reach, run, step, classify_example]
  decide

example :
    let s := reach (fun _ => zeros 16) { secretOf := fun _ => .secret [1] } [0] 1
      [.serveEnter 0, .serveRecv 0 0 ([1, 7, 0, 20] ++ zeros 16), .serveRecv 0 0 ([1, 7, 0, 20] ++ zeros 16),
       .taskRun 0, .downEnter 0, .serveReadErr 0, .taskFinish 0, .taskReply 0, .taskRun 1, .taskFinish 1]
    s.closes = 1 ∧ measure s = 0 := by
  simp only [reach, run, step, classify_example]
  decide

/-- Non-vacuity of `drained_shutdown_returns`: drained, one Shutdown waiting, one not yet called. -/
example :
    let s := reach (fun _ => []) { secretOf := fun _ => .error } [0] 2
      [.serveEnter 0, .downEnter 0, .serveReadErr 0]
    s.closes = 1 ∧ s.downs[0]? = some ⟨.waiting, false⟩ ∧ s.downs[1]? = some ⟨.notStarted, false⟩ := by
  decide

/-! ### The code as it was (variant `.current`): the window between registration and counting -/

def cfgCurrent : Cfg := { variant := .current, secretOf := fun _ => .error }

/-- counterexample 1: Shutdown returns nil while a registered Serve call is still running -/
theorem current_nil_while_serving :
    let s := run (fun _ => []) cfgCurrent (init 1 1) [.serveEnter 0, .downEnter 0, .downReturnNil 0]
    s.downs[0]? = some ⟨.returned .nil, false⟩ ∧ s.serves[0]? = some .registered := by
  decide

/-- counterexample 2: … and when that Serve call returns, `lastActive` is closed a second time (panic) -/
theorem current_double_close :
    (run (fun _ => []) cfgCurrent (init 1 1) [.serveEnter 0, .downEnter 0, .serveCount 0, .serveReadErr 0]).closes = 2 := by
  decide

/-- two Serve calls on ONE conn: when the first leaves through a read error the conn stays registered,
    Shutdown closes it, and the second call returns ErrServerShutdown (non-vacuity of the shared-conn model) -/
example :
    let s := run (fun _ => []) { secretOf := fun _ => .error } (initWith [0, 0] 1)
      [.serveEnter 0, .serveEnter 1, .serveReadFail 0 .nonTemporary, .downEnter 0, .serveReadErr 1, .downReturnNil 0]
    s.serves = [.returned .readError, .returned .errShutdown] ∧ s.connClosed = [1] ∧
      s.downs[0]? = some ⟨.returned .nil, false⟩ := by
  decide

/-! Non-vacuity: a schedule in which a handler runs, shutdown waits for it, and everything drains. -/
example : (reach (fun _ => zeros 16) { secretOf := fun _ => .secret [1] } [0] 1
    [.serveEnter 0, .serveRecv 0 0 ([1, 7, 0, 20] ++ zeros 16), .taskRun 0, .downEnter 0, .downReturnNil 0,
     .taskFinish 0, .serveReadErr 0, .downReturnNil 0]).downs[0]? = some ⟨.returned .nil, false⟩ := by
  simp only [reach, run, step, classify_example]
  decide

end RV.C07
