/-
  C07 — Graceful shutdown is complete, panic-free and deadlock-free under all interleavings.
  Theorems are about the transition system RV.Model.Server (variant `.fixed` = the code in the
  tree), for ANY numbers of Serve / Shutdown calls and datagrams and for EVERY schedule
  (`run` skips labels that are not enabled, so every `List Label` is a schedule).
  Data-race freedom and the Go scheduler below the granularity of the labels are outside the model.
-/
import RV.Model.Server
import RV.Proofs.Server
namespace RV.C07
open RV RV.Server

/-- states reachable in the repaired server -/
def reach (H : Hash) (cfg : Cfg) (conns : List Nat) (nD : Nat) (ls : List Label) : St := run H cfg (initWith conns nD) ls

def terminalServe : ServePc → Bool
  | .notStarted | .returned _ => true
  | _ => false

def isHandlerStart : Event → Bool
  | .handlerStart _ _ => true
  | _ => false

/-- The accounting invariant behind everything else: activeCount = counted Serve calls + live
    datagram goroutines − (1 once Shutdown's own decrement happened). -/
theorem active_invariant (H : Hash) (cfg : Cfg) (hv : cfg.variant = .fixed) (conns : List Nat) (nD : Nat) (ls : List Label) :
    let s := reach H cfg conns nD ls
    s.active = (countedServes s : Int) + (liveTasks s : Int) - (if s.sd then 1 else 0) := by
  exact (InvF_run H cfg hv conns nD ls).act

/-- No panic: `lastActive` is closed at most once, whatever the schedule. -/
theorem closes_le_one (H : Hash) (cfg : Cfg) (hv : cfg.variant = .fixed) (conns : List Nat) (nD : Nat) (ls : List Label) :
    (reach H cfg conns nD ls).closes ≤ 1 ∧ (reach H cfg conns nD ls).panicked = false := by
  have h := (InvF_run H cfg hv conns nD ls).cl1
  refine ⟨h, ?_⟩
  simp only [St.panicked, decide_eq_false_iff_not]
  unfold reach
  omega

/-- `lastActive` is closed exactly when shutdown was requested and nothing is active any more. -/
theorem closed_iff_drained (H : Hash) (cfg : Cfg) (hv : cfg.variant = .fixed) (conns : List Nat) (nD : Nat) (ls : List Label) :
    let s := reach H cfg conns nD ls
    s.closes = 1 ↔ (s.sd = true ∧ countedServes s = 0 ∧ liveTasks s = 0) := by
  exact (InvF_run H cfg hv conns nD ls).cl2

/-- Shutdown returns nil only after every Serve call has returned and every datagram goroutine
    (hence every started handler) has finished. -/
theorem nil_after_drain (H : Hash) (cfg : Cfg) (hv : cfg.variant = .fixed) (conns : List Nat) (nD : Nat) (ls : List Label)
    (j : Nat) (c : Bool) (h : (reach H cfg conns nD ls).downs[j]? = some ⟨.returned .nil, c⟩) :
    (∀ pc ∈ (reach H cfg conns nD ls).serves, terminalServe pc = true) ∧
    (∀ t ∈ (reach H cfg conns nD ls).tasks, t.pc = .done) := by
  have hI := InvF_run H cfg hv conns nD ls
  have hd := Drained_of_closed hI (hI.nil j c h)
  have hte : terminalServe = terminalS := by funext pc; cases pc <;> rfl
  rw [hte]
  exact ⟨hd.serves, hd.tasks⟩

/-- … and it stays so: after a nil return no handler ever starts (no extension of the schedule adds
    a `handlerStart` event). -/
theorem no_handler_after_nil (H : Hash) (cfg : Cfg) (hv : cfg.variant = .fixed) (conns : List Nat) (nD : Nat) (ls ls' : List Label)
    (j : Nat) (c : Bool) (h : (reach H cfg conns nD ls).downs[j]? = some ⟨.returned .nil, c⟩) :
    ((reach H cfg conns nD (ls ++ ls')).log.filter isHandlerStart) = ((reach H cfg conns nD ls).log.filter isHandlerStart) := by
  have hI := InvF_run H cfg hv conns nD ls
  have hd := Drained_of_closed hI (hI.nil j c h)
  have hhe : isHandlerStart = isHS := by funext e; cases e <;> rfl
  rw [hhe]
  unfold reach
  rw [run_append]
  exact (Drained_run H cfg ls' _ hd).2

/-- The caller's context error is returned only if that context ended. -/
theorem ctx_error_only_if_ctx_done (H : Hash) (cfg : Cfg) (conns : List Nat) (nD : Nat) (ls : List Label) (j : Nat) (c : Bool)
    (h : (reach H cfg conns nD ls).downs[j]? = some ⟨.returned .ctxErr, c⟩) : c = true := by
  exact (InvG_run H cfg conns nD ls).ctx j c h

/-- Shutdown closes every registered listener and cancels the request contexts. -/
theorem shutdown_closes_listeners (H : Hash) (cfg : Cfg) (hv : cfg.variant = .fixed) (conns : List Nat) (nD : Nat) (ls : List Label)
    (h : (reach H cfg conns nD ls).sd = true) :
    (reach H cfg conns nD ls).ctxCancelled = true ∧
    ∀ c, (reach H cfg conns nD ls).listeners.getD c 0 > 0 → (reach H cfg conns nD ls).connClosed.getD c 0 ≥ 1 := by
  exact (InvF_run H cfg hv conns nD ls).sdc h

/-- Once Shutdown has been requested a later Serve call returns ErrServerShutdown without
    registering, and a running Serve call returns ErrServerShutdown when its read fails. -/
theorem serve_after_shutdown (H : Hash) (cfg : Cfg) (s : St) (i : Nat) (hsd : s.sd = true)
    (hi : s.serves[i]? = some .notStarted) :
    ∃ s', step H cfg s (.serveEnter i) = some s' ∧ s'.serves[i]? = some (.returned .errShutdown) ∧
      s'.listeners = s.listeners ∧ s'.active = s.active := by
  refine ⟨_, serveEnter_shutdown hsd hi, ?_, rfl, rfl⟩
  simp [lt_of_getElem?_eq_some hi]

/-- The listener table counts the Serve calls per conn (several calls may share one conn): a conn is in
    the table exactly as long as some Serve call on it is registered and has not returned. -/
theorem listeners_count (H : Hash) (cfg : Cfg) (hv : cfg.variant = .fixed) (conns : List Nat) (nD : Nat) (ls : List Label) (c : Nat) :
    (reach H cfg conns nD ls).listeners.getD c 0 =
      ((List.range (reach H cfg conns nD ls).serves.length).filter (fun i =>
        (reach H cfg conns nD ls).serves[i]? == some .running && (reach H cfg conns nD ls).connOf.getD i 0 == c)).length := by
  exact (InvF_run H cfg hv conns nD ls).cnt c

/-- A read error that does not come from Shutdown's Close: once Shutdown has been requested the Serve
    call returns ErrServerShutdown whatever the error is; before that, a non-temporary network error
    ends this Serve call with that error (its listener registration and its count are released), and
    any other error is logged and the loop continues (nothing changes). -/
theorem read_failure (H : Hash) (cfg : Cfg) (s : St) (i : Nat) (k : ReadErrKind)
    (hi : s.serves[i]? = some .running) :
    ∃ s', step H cfg s (.serveReadFail i k) = some s' ∧
      (s.sd = true → s'.serves[i]? = some (.returned .errShutdown)) ∧
      (s.sd = false → k = .nonTemporary → s'.serves[i]? = some (.returned .readError) ∧
          s'.listeners.getD (s.connOf.getD i 0) 0 = s.listeners.getD (s.connOf.getD i 0) 0 - 1) ∧
      (s.sd = false → k = .other → s' = s) := by
  exact read_failure' H cfg s i k hi

/-- Deadlock freedom: from every reachable state in which shutdown has been requested, the threads
    can all run to completion — every Serve returned (or never started), every datagram goroutine
    done, `lastActive` closed, so that every waiting Shutdown can return nil.  (Handlers returning
    and read errors being delivered are steps of the environment; no step ever waits for a lock or
    a channel that nobody can release.) -/
theorem no_stuck_state (H : Hash) (cfg : Cfg) (hv : cfg.variant = .fixed) (conns : List Nat) (nD : Nat) (ls : List Label)
    (hsd : (reach H cfg conns nD ls).sd = true) :
    ∃ ls', let s' := reach H cfg conns nD (ls ++ ls')
      (∀ pc ∈ s'.serves, terminalServe pc = true) ∧ (∀ t ∈ s'.tasks, t.pc = .done) ∧ s'.closes = 1 ∧
      ∀ j c, s'.downs[j]? = some ⟨.waiting, c⟩ → (step H cfg s' (.downReturnNil j)).isSome = true := by
  have hI := InvF_run H cfg hv conns nD ls
  obtain ⟨ls', hsd', h1, h2⟩ := drain (H := H) hv (drainMeasure (reach H cfg conns nD ls)) _ hI hsd (Nat.le_refl _)
  refine ⟨ls', ?_⟩
  have hI' := InvF_run_from H cfg hv ls' _ hI
  unfold reach
  rw [run_append]
  have hd := Drained_of_counts hI' hsd' h1 h2
  have hc : (run H cfg (run H cfg (initWith conns nD) ls) ls').closes = 1 := hI'.cl2.mpr ⟨hsd', h1, h2⟩
  have hte : terminalServe = terminalS := by funext pc; cases pc <;> rfl
  rw [hte]
  refine ⟨hd.serves, hd.tasks, hc, ?_⟩
  intro j c hj
  simp only [step, hj, hc]
  rfl

/-! ### The code as it was (variant `.current`): the window between registration and counting -/

def cfgCurrent : Cfg := { variant := .current, secretOf := fun _ => .error }

/-- counterexample 1: Shutdown returns nil while a registered Serve call is still running -/
theorem current_nil_while_serving :
    let s := run (fun _ => []) cfgCurrent (init 1 1) [.serveEnter 0, .downEnter 0, .downReturnNil 0]
    s.downs[0]? = some ⟨.returned .nil, false⟩ ∧ s.serves[0]? = some .registered := by
  decide

/-- counterexample 2: … and when that Serve call returns, `lastActive` is closed a second time (panic) -/
theorem current_double_close :
    (run (fun _ => []) cfgCurrent (init 1 1) [.serveEnter 0, .downEnter 0, .serveCount 0, .serveReadErr 0]).closes = 2 := by
  decide

/-- two Serve calls on ONE conn: when the first leaves through a read error the conn stays registered,
    Shutdown closes it, and the second call returns ErrServerShutdown (non-vacuity of the shared-conn model) -/
example :
    let s := run (fun _ => []) { secretOf := fun _ => .error } (initWith [0, 0] 1)
      [.serveEnter 0, .serveEnter 1, .serveReadFail 0 .nonTemporary, .downEnter 0, .serveReadErr 1, .downReturnNil 0]
    s.serves = [.returned .readError, .returned .errShutdown] ∧ s.connClosed = [1] ∧
      s.downs[0]? = some ⟨.returned .nil, false⟩ := by
  decide

/-! Non-vacuity: a schedule in which a handler runs, shutdown waits for it, and everything drains. -/
example : (reach (fun _ => zeros 16) { secretOf := fun _ => .secret [1] } [0] 1
    [.serveEnter 0, .serveRecv 0 0 ([1, 7, 0, 20] ++ zeros 16), .taskRun 0, .downEnter 0, .downReturnNil 0,
     .taskFinish 0, .serveReadErr 0, .downReturnNil 0]).downs[0]? = some ⟨.returned .nil, false⟩ := by
  simp only [reach, run, step, classify_example]
  decide

end RV.C07
