/-
  C07 — Graceful shutdown is complete, panic-free and deadlock-free under all interleavings.
  Theorems are about the transition system RV.Model.Server (variant `.fixed` = the code in the
  tree), for ANY numbers of Serve / Shutdown calls and datagrams and for EVERY schedule
  (`run` skips labels that are not enabled, so every `List Label` is a schedule).
  Data-race freedom and the Go scheduler below the granularity of the labels are outside the model.

  Second audit.  The label `serveRecv` of that machine is three code steps (`ReadFrom` returns, `activeAdd`,
  `go`).  The section "The read loop at the granularity of the code" below states the invariants for the
  machine RV.Model.Server2 in which they are separate steps (`serveRead`, `serveSpawn`; theorems `fine_…`,
  `spawn_after_shutdown_is_counted`, two negative controls) and the refinement between the two machines
  (`coarse_is_fine_with_adjacent_pairs`).  The section "Progress does not depend on the environment" has
  `shutdown_unblocks_every_serve` and the progress theorems with the environment's `serveReadFail` removed
  from the drain labels.
-/
import RV.Model.Server
import RV.Model.Server2
import RV.Proofs.Server
import RV.Proofs.Server2
namespace RV.C07
open RV RV.Server

/-- states reachable in the repaired server -/
def reach (H : Hash) (cfg : Cfg) (conns : List Nat) (nD : Nat) (ls : List Label) : St := run H cfg (initWith conns nD) ls

def terminalServe : ServePc → Bool
  | .notStarted | .returned _ => true
  | _ => false

def isHandlerStart : Event → Bool
  | .handlerStart _ _ => true
  | _ => false

/-- The accounting invariant behind everything else: activeCount = counted Serve calls + live
    datagram goroutines − (1 once Shutdown's own decrement happened). -/
theorem active_invariant (H : Hash) (cfg : Cfg) (hv : cfg.variant = .fixed) (conns : List Nat) (nD : Nat) (ls : List Label) :
    let s := reach H cfg conns nD ls
    s.active = (countedServes s : Int) + (liveTasks s : Int) - (if s.sd then 1 else 0) := by
  exact (InvF_run H cfg hv conns nD ls).act

/-- No panic: `lastActive` is closed at most once, whatever the schedule. -/
theorem closes_le_one (H : Hash) (cfg : Cfg) (hv : cfg.variant = .fixed) (conns : List Nat) (nD : Nat) (ls : List Label) :
    (reach H cfg conns nD ls).closes ≤ 1 ∧ (reach H cfg conns nD ls).panicked = false := by
  have h := (InvF_run H cfg hv conns nD ls).cl1
  refine ⟨h, ?_⟩
  simp only [St.panicked, decide_eq_false_iff_not]
  unfold reach
  omega

/-- `lastActive` is closed exactly when shutdown was requested and nothing is active any more. -/
theorem closed_iff_drained (H : Hash) (cfg : Cfg) (hv : cfg.variant = .fixed) (conns : List Nat) (nD : Nat) (ls : List Label) :
    let s := reach H cfg conns nD ls
    s.closes = 1 ↔ (s.sd = true ∧ countedServes s = 0 ∧ liveTasks s = 0) := by
  exact (InvF_run H cfg hv conns nD ls).cl2

/-- Shutdown returns nil only after every Serve call has returned and every datagram goroutine
    (hence every started handler) has finished. -/
theorem nil_after_drain (H : Hash) (cfg : Cfg) (hv : cfg.variant = .fixed) (conns : List Nat) (nD : Nat) (ls : List Label)
    (j : Nat) (c : Bool) (h : (reach H cfg conns nD ls).downs[j]? = some ⟨.returned .nil, c⟩) :
    (∀ pc ∈ (reach H cfg conns nD ls).serves, terminalServe pc = true) ∧
    (∀ t ∈ (reach H cfg conns nD ls).tasks, t.pc = .done) := by
  have hI := InvF_run H cfg hv conns nD ls
  have hd := Drained_of_closed hI (hI.nil j c h)
  have hte : terminalServe = terminalS := by funext pc; cases pc <;> rfl
  rw [hte]
  exact ⟨hd.serves, hd.tasks⟩

/-- … and it stays so: after a nil return no handler ever starts (no extension of the schedule adds
    a `handlerStart` event). -/
theorem no_handler_after_nil (H : Hash) (cfg : Cfg) (hv : cfg.variant = .fixed) (conns : List Nat) (nD : Nat) (ls ls' : List Label)
    (j : Nat) (c : Bool) (h : (reach H cfg conns nD ls).downs[j]? = some ⟨.returned .nil, c⟩) :
    ((reach H cfg conns nD (ls ++ ls')).log.filter isHandlerStart) = ((reach H cfg conns nD ls).log.filter isHandlerStart) := by
  have hI := InvF_run H cfg hv conns nD ls
  have hd := Drained_of_closed hI (hI.nil j c h)
  have hhe : isHandlerStart = isHS := by funext e; cases e <;> rfl
  rw [hhe]
  unfold reach
  rw [run_append]
  exact (Drained_run H cfg ls' _ hd).2

/-- The caller's context error is returned only if that context ended. -/
theorem ctx_error_only_if_ctx_done (H : Hash) (cfg : Cfg) (conns : List Nat) (nD : Nat) (ls : List Label) (j : Nat) (c : Bool)
    (h : (reach H cfg conns nD ls).downs[j]? = some ⟨.returned .ctxErr, c⟩) : c = true := by
  exact (InvG_run H cfg conns nD ls).ctx j c h

/-- Shutdown closes every registered listener and cancels the request contexts. -/
theorem shutdown_closes_listeners (H : Hash) (cfg : Cfg) (hv : cfg.variant = .fixed) (conns : List Nat) (nD : Nat) (ls : List Label)
    (h : (reach H cfg conns nD ls).sd = true) :
    (reach H cfg conns nD ls).ctxCancelled = true ∧
    ∀ c, (reach H cfg conns nD ls).listeners.getD c 0 > 0 → (reach H cfg conns nD ls).connClosed.getD c 0 ≥ 1 := by
  exact (InvF_run H cfg hv conns nD ls).sdc h

/-- Once Shutdown has been requested a later Serve call returns ErrServerShutdown without
    registering, and a running Serve call returns ErrServerShutdown when its read fails. -/
theorem serve_after_shutdown (H : Hash) (cfg : Cfg) (s : St) (i : Nat) (hsd : s.sd = true)
    (hi : s.serves[i]? = some .notStarted) :
    ∃ s', step H cfg s (.serveEnter i) = some s' ∧ s'.serves[i]? = some (.returned .errShutdown) ∧
      s'.listeners = s.listeners ∧ s'.active = s.active := by
  refine ⟨_, serveEnter_shutdown hsd hi, ?_, rfl, rfl⟩
  simp [lt_of_getElem?_eq_some hi]

/-- The listener table counts the Serve calls per conn (several calls may share one conn): a conn is in
    the table exactly as long as some Serve call on it is registered and has not returned. -/
theorem listeners_count (H : Hash) (cfg : Cfg) (hv : cfg.variant = .fixed) (conns : List Nat) (nD : Nat) (ls : List Label) (c : Nat) :
    (reach H cfg conns nD ls).listeners.getD c 0 =
      ((List.range (reach H cfg conns nD ls).serves.length).filter (fun i =>
        (reach H cfg conns nD ls).serves[i]? == some .running && (reach H cfg conns nD ls).connOf.getD i 0 == c)).length := by
  exact (InvF_run H cfg hv conns nD ls).cnt c

/-- A read error that does not come from Shutdown's Close: once Shutdown has been requested the Serve
    call returns ErrServerShutdown whatever the error is; before that, a non-temporary network error
    ends this Serve call with that error (its listener registration and its count are released), and
    any other error is logged and the loop continues (nothing changes).

    Linearisation point.  In the code the failing `ReadFrom` (server-packet.go:133), the atomic load of
    `shutdownRequested` (:135), the `Temporary()` test (:139) and the `return` (:136 / :140) with its
    deferred cleanup are separate instructions; here they are ONE step, whose linearisation point is the
    atomic load at :135 — the value of `s.sd` in the state the step is taken in is the value that load
    returns.  A Shutdown whose CompareAndSwap comes after that load is ordered after the whole step: the
    Serve call then returns the read error (or retries) although, in wall-clock terms, Shutdown may already
    have started when Serve returns.  "Every running Serve call returns ErrServerShutdown once Shutdown
    has been requested" is proved — and true of the code — for reads that fail after the CompareAndSwap;
    the deferred cleanup touches `listeners` under `s.mu` and `activeCount` atomically, so running it in
    the same step hides no interleaving that the invariants could see (`InvF_serveLeave`). -/
theorem read_failure (H : Hash) (cfg : Cfg) (s : St) (i : Nat) (k : ReadErrKind)
    (hi : s.serves[i]? = some .running) :
    ∃ s', step H cfg s (.serveReadFail i k) = some s' ∧
      (s.sd = true → s'.serves[i]? = some (.returned .errShutdown)) ∧
      (s.sd = false → k = .nonTemporary → s'.serves[i]? = some (.returned .readError) ∧
          s'.listeners.getD (s.connOf.getD i 0) 0 = s.listeners.getD (s.connOf.getD i 0) 0 - 1) ∧
      (s.sd = false → k = .other → s' = s) := by
  exact read_failure' H cfg s i k hi

/-- Deadlock freedom: from every reachable state in which shutdown has been requested, the threads
    can all run to completion — every Serve returned (or never started), every datagram goroutine
    done, `lastActive` closed, so that every waiting Shutdown can return nil.  (Handlers returning
    and read errors being delivered are steps of the environment; no step ever waits for a lock or
    a channel that nobody can release.) -/
theorem no_stuck_state (H : Hash) (cfg : Cfg) (hv : cfg.variant = .fixed) (conns : List Nat) (nD : Nat) (ls : List Label)
    (hsd : (reach H cfg conns nD ls).sd = true) :
    ∃ ls', let s' := reach H cfg conns nD (ls ++ ls')
      (∀ pc ∈ s'.serves, terminalServe pc = true) ∧ (∀ t ∈ s'.tasks, t.pc = .done) ∧ s'.closes = 1 ∧
      ∀ j c, s'.downs[j]? = some ⟨.waiting, c⟩ → (step H cfg s' (.downReturnNil j)).isSome = true := by
  have hI := InvF_run H cfg hv conns nD ls
  obtain ⟨ls', hsd', h1, h2⟩ := drain (H := H) hv (drainMeasure (reach H cfg conns nD ls)) _ hI hsd (Nat.le_refl _)
  refine ⟨ls', ?_⟩
  have hI' := InvF_run_from H cfg hv ls' _ hI
  unfold reach
  rw [run_append]
  have hd := Drained_of_counts hI' hsd' h1 h2
  have hc : (run H cfg (run H cfg (initWith conns nD) ls) ls').closes = 1 := hI'.cl2.mpr ⟨hsd', h1, h2⟩
  have hte : terminalServe = terminalS := by funext pc; cases pc <;> rfl
  rw [hte]
  refine ⟨hd.serves, hd.tasks, hc, ?_⟩
  intro j c hj
  simp only [step, hj, hc]
  rfl

/-! ### Progress under EVERY schedule (the ∀-side of `no_stuck_state`)

  `no_stuck_state` exhibits one draining schedule.  The statements below say that no schedule can
  avoid draining except by not scheduling the threads that are ready:
  the measure `drainMeasure` (running Serve calls + datagram goroutines that have not finished, the
  ones that have not yet run their pipeline counted twice) never grows once Shutdown has been
  requested, every step with a *drain label* (`serveReadErr`, `serveReadFail`, `taskRun`,
  `taskFinish`) strictly decreases it, and while the server is not drained such a step is enabled. -/

/-- running Serve calls + live datagram goroutines + those that have not yet run their pipeline -/
def measure (s : St) : Nat := drainMeasure s

theorem measure_eq (s : St) : measure s = countedServes s + liveTasks s + spawnedTasks s := rfl

/-- (a1) Not drained ⇒ some thread can move: in every reachable state in which Shutdown has been
    requested and `lastActive` is not yet closed, a step with a drain label is enabled and strictly
    decreases the measure. -/
theorem progress_enabled (H : Hash) (cfg : Cfg) (hv : cfg.variant = .fixed) (conns : List Nat) (nD : Nat)
    (ls : List Label) (hsd : (reach H cfg conns nD ls).sd = true) (hnd : (reach H cfg conns nD ls).closes = 0) :
    ∃ l s', isDrainLabel l = true ∧ step H cfg (reach H cfg conns nD ls) l = some s' ∧
      measure s' < measure (reach H cfg conns nD ls) := by
  have hI := InvF_run H cfg hv conns nD ls
  simp only [reach] at *
  have hm : countedServes (run H cfg (initWith conns nD) ls) + liveTasks (run H cfg (initWith conns nD) ls) ≠ 0 := by
    intro h0
    have := hI.cl2.mpr ⟨hsd, by omega, by omega⟩
    omega
  obtain ⟨l, s', hl, hs, _, hlt⟩ := drain_label_enabled (H := H) (cfg := cfg) hI hsd hm
  exact ⟨l, s', hl, hs, hlt⟩

/-- (a2) No enabled step undoes progress: from a reachable state in which Shutdown has been requested,
    EVERY enabled step (whatever its label — `serveRecv` is not enabled at all, the conns of the running
    Serve calls are closed; this is a statement about the coarse label, which includes `ReadFrom` returning
    a datagram: in the code a Serve call whose `ReadFrom` returned BEFORE Shutdown still does its
    `activeAdd` and `go` afterwards — see `fine_no_step_increases`, where `serveSpawn` is enabled after
    Shutdown and is a drain step, and `spawn_after_shutdown_is_counted` for why that is safe)
    keeps shutdown requested and does not increase the measure; steps with a
    drain label decrease it strictly, all other steps (a Serve call arriving late, a handler writing a
    reply, Shutdown calls entering / returning, a caller's context ending) leave it unchanged. -/
theorem no_step_increases (H : Hash) (cfg : Cfg) (hv : cfg.variant = .fixed) (conns : List Nat) (nD : Nat)
    (ls : List Label) (hsd : (reach H cfg conns nD ls).sd = true) (l : Label) (s' : St)
    (hs : step H cfg (reach H cfg conns nD ls) l = some s') :
    s'.sd = true ∧ measure s' ≤ measure (reach H cfg conns nD ls) ∧
    (isDrainLabel l = true → measure s' < measure (reach H cfg conns nD ls)) ∧
    (isDrainLabel l = false → measure s' = measure (reach H cfg conns nD ls)) ∧
    (∀ i peer d, l ≠ .serveRecv i peer d) := by
  have hI := InvF_run H cfg hv conns nD ls
  simp only [reach] at *
  obtain ⟨h1, h2, h3, h4⟩ := step_drain_le hI hsd hs
  refine ⟨h1, h2, h3, h4, ?_⟩
  rintro i peer d rfl
  obtain ⟨hrun, hcl, _⟩ := step_serveRecv hs
  have hlp : (run H cfg (initWith conns nD) ls).listeners.getD ((run H cfg (initWith conns nD) ls).connOf.getD i 0) 0 > 0 := by
    rw [hI.cnt]; exact runOnL_pos hrun
  have := (hI.sdc hsd).2 _ hlp
  omega

/-- (a3) Hence every schedule drains within measure-many drain steps: for EVERY continuation `ls'` of a
    reachable state in which Shutdown has been requested, the number of enabled drain-labelled steps
    in `ls'` plus the measure afterwards is at most the measure before; if `ls'` is maximal (no
    drain-labelled step is enabled at its end) or takes measure-many drain steps, then at its end
    `lastActive` is closed — everything has returned. -/
theorem every_schedule_drains (H : Hash) (cfg : Cfg) (hv : cfg.variant = .fixed) (conns : List Nat) (nD : Nat)
    (ls ls' : List Label) (hsd : (reach H cfg conns nD ls).sd = true) :
    let s := reach H cfg conns nD ls
    let s' := reach H cfg conns nD (ls ++ ls')
    s'.sd = true ∧
    drainSteps H cfg s ls' + measure s' ≤ measure s ∧
    ((∀ l, isDrainLabel l = true → step H cfg s' l = none) → s'.closes = 1) ∧
    (measure s ≤ drainSteps H cfg s ls' → s'.closes = 1) := by
  have hI := InvF_run H cfg hv conns nD ls
  have hI' := InvF_run H cfg hv conns nD (ls ++ ls')
  obtain ⟨h1, h2⟩ := drain_bound H cfg hv ls' _ hI hsd
  simp only [reach, run_append]
  refine ⟨h1, h2, ?_, ?_⟩
  · intro hmax
    rw [← run_append]
    by_cases hm : countedServes (run H cfg (initWith conns nD) (ls ++ ls')) +
        liveTasks (run H cfg (initWith conns nD) (ls ++ ls')) = 0
    · exact hI'.cl2.mpr ⟨by rw [run_append]; exact h1, by omega, by omega⟩
    · obtain ⟨l, s'', hl, hs, _⟩ := drain_label_enabled (H := H) (cfg := cfg) hI' (by rw [run_append]; exact h1) hm
      rw [run_append] at hs
      rw [hmax l hl] at hs; cases hs
  · intro hge
    have h0 : drainMeasure (run H cfg (run H cfg (initWith conns nD) ls) ls') = 0 := by
      simp only [measure] at hge; omega
    rw [← run_append] at h0 h1 ⊢
    simp only [drainMeasure] at h0
    exact hI'.cl2.mpr ⟨h1, by omega, by omega⟩

/-- (b) Once drained, Shutdown returns: if `lastActive` is closed in a reachable state, then in EVERY
    continuation it stays closed; every Shutdown call waiting at its `select` can return nil at once;
    a Shutdown call made later passes the mutex region and then waits with `lastActive` already
    closed; and a call that was waiting is, in every continuation, still waiting (able to return nil)
    or has returned — nothing can put it back or disable its return, so none can hang. -/
theorem drained_shutdown_returns (H : Hash) (cfg : Cfg) (hv : cfg.variant = .fixed) (conns : List Nat) (nD : Nat)
    (ls ls' : List Label) (hc : (reach H cfg conns nD ls).closes = 1) :
    let s := reach H cfg conns nD ls
    let s' := reach H cfg conns nD (ls ++ ls')
    s'.closes = 1 ∧
    (∀ (j : Nat) (c : Bool), s'.downs[j]? = some (⟨.waiting, c⟩ : Down) →
      ∃ s'', step H cfg s' (.downReturnNil j) = some s'' ∧ s''.downs[j]? = some (⟨.returned .nil, c⟩ : Down)) ∧
    (∀ (j : Nat) (c : Bool), s'.downs[j]? = some (⟨.notStarted, c⟩ : Down) →
      ∃ s'', step H cfg s' (.downEnter j) = some s'' ∧ s''.downs[j]? = some (⟨.waiting, c⟩ : Down) ∧
        s''.closes = 1) ∧
    (∀ (j : Nat) (c : Bool), s.downs[j]? = some (⟨.waiting, c⟩ : Down) →
      (∃ c', s'.downs[j]? = some (⟨.waiting, c'⟩ : Down)) ∨
      (∃ r c', s'.downs[j]? = some (⟨.returned r, c'⟩ : Down))) := by
  have hI := InvF_run H cfg hv conns nD ls
  have hI' := InvF_run H cfg hv conns nD (ls ++ ls')
  have hd := Drained_of_closed hI (by unfold reach at hc; omega)
  have hd' := (Drained_run H cfg ls' _ hd).1
  obtain ⟨hc1, hc2⟩ := Drained_counts hd'
  have hcl : (run H cfg (initWith conns nD) (ls ++ ls')).closes = 1 := by
    rw [run_append]; rw [run_append] at hI'
    exact hI'.cl2.mpr ⟨hd'.sd, hc1, hc2⟩
  simp only [reach]
  refine ⟨hcl, ?_, ?_, ?_⟩
  · intro j c hj
    refine ⟨{ run H cfg (initWith conns nD) (ls ++ ls') with
        downs := (run H cfg (initWith conns nD) (ls ++ ls')).downs.set j ⟨.returned .nil, c⟩,
        log := (run H cfg (initWith conns nD) (ls ++ ls')).log ++ [.downReturned j .nil] }, ?_, ?_⟩
    · simp only [step, hj, hcl]; rfl
    · simp [lt_of_getElem?_eq_some hj]
  · intro j c hj
    have hsd : (run H cfg (initWith conns nD) (ls ++ ls')).sd = true := by rw [run_append]; exact hd'.sd
    refine ⟨{ run H cfg (initWith conns nD) (ls ++ ls') with
        downs := (run H cfg (initWith conns nD) (ls ++ ls')).downs.set j ⟨.waiting, c⟩ }, ?_, ?_, hcl⟩
    · simp only [step, hj, hsd, if_true]
    · simp [lt_of_getElem?_eq_some hj]
  · intro j c hj
    rw [run_append]
    obtain ⟨⟨pc, c'⟩, h1, h2⟩ := run_down_rank H cfg ls' _ j _ hj
    cases pc with
    | notStarted => simp [downRank] at h2
    | waiting => exact Or.inl ⟨c', h1⟩
    | returned r => exact Or.inr ⟨r, c', h1⟩

/-- Non-vacuity of `progress_enabled` / `no_step_increases` / `every_schedule_drains`: Shutdown has been
    requested while a Serve call reads, one handler runs and one datagram has not been looked at; the
    measure is 4 and `lastActive` is open.  Any order of the four drain steps closes it. -/
example :
    let s := reach (fun _ => zeros 16) { secretOf := fun _ => .secret [1] } [0] 1
      [.serveEnter 0, .serveRecv 0 0 ([1, 7, 0, 20] ++ zeros 16), .serveRecv 0 0 ([1, 7, 0, 20] ++ zeros 16),
       .taskRun 0, .downEnter 0]
    s.sd = true ∧ s.closes = 0 ∧ measure s = 4 := by
  simp only [reach, run, step, spawn, classify_example]
  decide

example :
    let s := reach (fun _ => zeros 16) { secretOf := fun _ => .secret [1] } [0] 1
      [.serveEnter 0, .serveRecv 0 0 ([1, 7, 0, 20] ++ zeros 16), .serveRecv 0 0 ([1, 7, 0, 20] ++ zeros 16),
       .taskRun 0, .downEnter 0, .serveReadErr 0, .taskFinish 0, .taskReply 0 2 [], .taskRun 1, .taskFinish 1]
    s.closes = 1 ∧ measure s = 0 := by
  simp only [reach, run, step, spawn, classify_example]
  decide

/-- Non-vacuity of `drained_shutdown_returns`: drained, one Shutdown waiting, one not yet called. -/
example :
    let s := reach (fun _ => []) { secretOf := fun _ => .error } [0] 2
      [.serveEnter 0, .downEnter 0, .serveReadErr 0]
    s.closes = 1 ∧ s.downs[0]? = some ⟨.waiting, false⟩ ∧ s.downs[1]? = some ⟨.notStarted, false⟩ := by
  decide

/-! ### Progress does not depend on the environment (second audit, item 2)

  `isDrainLabel` contains the environment's `serveReadFail`, so `progress_enabled`, `every_schedule_drains`
  and `no_stuck_state` would stay true of a Shutdown that forgot `listener.Close()` (Serve blocked in
  `ReadFrom` for ever) as long as the environment is kind enough to fail the read.  The theorems of this
  section use `isOwnDrainLabel` = {`serveReadErr` (the read fails BECAUSE the conn was closed), `taskRun`,
  `taskFinish`} only. -/

/-- Shutdown unblocks every Serve call: in every reachable state in which Shutdown has been requested,
    the conn of every Serve call that is in its read loop HAS been closed (by Shutdown's
    `listener.Close()` loop — nothing else closes conns in the model), so its blocked `ReadFrom` fails:
    the step `serveReadErr i` is enabled and makes the call return ErrServerShutdown.  No cooperation of
    the environment (`serveReadFail`) is needed. -/
theorem shutdown_unblocks_every_serve (H : Hash) (cfg : Cfg) (hv : cfg.variant = .fixed) (conns : List Nat) (nD : Nat)
    (ls : List Label) (i : Nat) (hsd : (reach H cfg conns nD ls).sd = true)
    (hi : (reach H cfg conns nD ls).serves[i]? = some .running) :
    (reach H cfg conns nD ls).connClosed.getD ((reach H cfg conns nD ls).connOf.getD i 0) 0 ≥ 1 ∧
    ∃ s', step H cfg (reach H cfg conns nD ls) (.serveReadErr i) = some s' ∧
      s'.serves[i]? = some (.returned .errShutdown) := by
  have hI := InvF_run H cfg hv conns nD ls
  simp only [reach] at *
  have hlp : (run H cfg (initWith conns nD) ls).listeners.getD ((run H cfg (initWith conns nD) ls).connOf.getD i 0) 0 > 0 := by
    rw [hI.cnt]; exact runOnL_pos hi
  have hcc := (hI.sdc hsd).2 _ hlp
  obtain ⟨s', hs'⟩ := serveReadErr_enabled (H := H) (cfg := cfg) hi hcc hsd
  refine ⟨hcc, s', hs', ?_⟩
  obtain ⟨_, _, _, rfl⟩ := step_serveReadErr hs'
  simp [lt_of_getElem?_eq_some hi]

/-- `progress_enabled` with the server's own steps only: not drained ⇒ one of `serveReadErr`, `taskRun`,
    `taskFinish` is enabled and strictly decreases the measure. -/
theorem progress_enabled_without_environment_faults (H : Hash) (cfg : Cfg) (hv : cfg.variant = .fixed)
    (conns : List Nat) (nD : Nat) (ls : List Label) (hsd : (reach H cfg conns nD ls).sd = true)
    (hnd : (reach H cfg conns nD ls).closes = 0) :
    ∃ l s', isOwnDrainLabel l = true ∧ step H cfg (reach H cfg conns nD ls) l = some s' ∧
      measure s' < measure (reach H cfg conns nD ls) := by
  have hI := InvF_run H cfg hv conns nD ls
  simp only [reach] at *
  have hm : countedServes (run H cfg (initWith conns nD) ls) + liveTasks (run H cfg (initWith conns nD) ls) ≠ 0 := by
    intro h0
    have := hI.cl2.mpr ⟨hsd, by omega, by omega⟩
    omega
  obtain ⟨l, s', hl, hs, _, hlt⟩ := own_drain_label_enabled (H := H) (cfg := cfg) hI hsd hm
  exact ⟨l, s', hl, hs, hlt⟩

/-- `every_schedule_drains` with the server's own steps only: the number of enabled `serveReadErr` /
    `taskRun` / `taskFinish` steps of a continuation plus the measure afterwards is at most the measure
    before; a continuation at whose end none of THESE steps is enabled (whatever the environment could
    still do), or that takes measure-many of them, ends with `lastActive` closed. -/
theorem every_schedule_drains_without_environment_faults (H : Hash) (cfg : Cfg) (hv : cfg.variant = .fixed)
    (conns : List Nat) (nD : Nat) (ls ls' : List Label) (hsd : (reach H cfg conns nD ls).sd = true) :
    let s := reach H cfg conns nD ls
    let s' := reach H cfg conns nD (ls ++ ls')
    s'.sd = true ∧
    ownDrainSteps H cfg s ls' + measure s' ≤ measure s ∧
    ((∀ l, isOwnDrainLabel l = true → step H cfg s' l = none) → s'.closes = 1) ∧
    (measure s ≤ ownDrainSteps H cfg s ls' → s'.closes = 1) := by
  have hI := InvF_run H cfg hv conns nD ls
  have hI' := InvF_run H cfg hv conns nD (ls ++ ls')
  obtain ⟨h1, h2⟩ := drain_bound H cfg hv ls' _ hI hsd
  have h3 := ownDrainSteps_le H cfg ls' (run H cfg (initWith conns nD) ls)
  simp only [reach, run_append]
  refine ⟨h1, by simp only [measure]; omega, ?_, ?_⟩
  · intro hmax
    rw [← run_append]
    by_cases hm : countedServes (run H cfg (initWith conns nD) (ls ++ ls')) +
        liveTasks (run H cfg (initWith conns nD) (ls ++ ls')) = 0
    · exact hI'.cl2.mpr ⟨by rw [run_append]; exact h1, by omega, by omega⟩
    · obtain ⟨l, s'', hl, hs, _⟩ := own_drain_label_enabled (H := H) (cfg := cfg) hI' (by rw [run_append]; exact h1) hm
      rw [run_append] at hs
      rw [hmax l hl] at hs; cases hs
  · intro hge
    have h0 : drainMeasure (run H cfg (run H cfg (initWith conns nD) ls) ls') = 0 := by
      simp only [measure] at hge; omega
    rw [← run_append] at h0 h1 ⊢
    simp only [drainMeasure] at h0
    exact hI'.cl2.mpr ⟨h1, by omega, by omega⟩

/-- `no_stuck_state` with a witness made of the server's own steps only: the draining continuation
    consists of `serveReadErr`, `taskRun`, `taskFinish` steps (handlers returning is the only thing asked
    of the user's code; nothing is asked of the network). -/
theorem no_stuck_state_without_environment_faults (H : Hash) (cfg : Cfg) (hv : cfg.variant = .fixed)
    (conns : List Nat) (nD : Nat) (ls : List Label) (hsd : (reach H cfg conns nD ls).sd = true) :
    ∃ ls', (∀ l ∈ ls', isOwnDrainLabel l = true) ∧
      let s' := reach H cfg conns nD (ls ++ ls')
      (∀ pc ∈ s'.serves, terminalServe pc = true) ∧ (∀ t ∈ s'.tasks, t.pc = .done) ∧ s'.closes = 1 ∧
      ∀ j c, s'.downs[j]? = some ⟨.waiting, c⟩ → (step H cfg s' (.downReturnNil j)).isSome = true := by
  have hI := InvF_run H cfg hv conns nD ls
  obtain ⟨ls', hown, hsd', h1, h2⟩ :=
    drain_own (H := H) hv (drainMeasure (reach H cfg conns nD ls)) _ hI hsd (Nat.le_refl _)
  refine ⟨ls', hown, ?_⟩
  have hI' := InvF_run_from H cfg hv ls' _ hI
  unfold reach
  rw [run_append]
  have hd := Drained_of_counts hI' hsd' h1 h2
  have hc : (run H cfg (run H cfg (initWith conns nD) ls) ls').closes = 1 := hI'.cl2.mpr ⟨hsd', h1, h2⟩
  have hte : terminalServe = terminalS := by funext pc; cases pc <;> rfl
  rw [hte]
  refine ⟨hd.serves, hd.tasks, hc, ?_⟩
  intro j c hj
  simp only [step, hj, hc]
  rfl

/-- Non-vacuity of `shutdown_unblocks_every_serve`: Shutdown requested while a Serve call reads. -/
example :
    let s := reach (fun _ => []) { secretOf := fun _ => .error } [0] 1 [.serveEnter 0, .downEnter 0]
    s.sd = true ∧ s.serves[0]? = some .running ∧ s.connClosed = [1] := by
  decide

/-! ### The read loop at the granularity of the code (second audit, item 1): machine RV.Model.Server2

  Route taken: a REFINEMENT LAYER.  `Server2` has `serveRead i peer d` (`ReadFrom` returned a datagram; the
  Serve call holds it) and `serveSpawn i` (`activeAdd` + `go`) as separate labels, so that a Shutdown — or
  any other step — can fall between them; all other steps are those of the coarse machine.  The coarse
  machine is the fine one restricted to schedules in which the pair is adjacent
  (`coarse_is_fine_with_adjacent_pairs`); the safety invariants and the progress theorems are proved
  DIRECTLY for every schedule of the fine machine (`fine_…`), the theorem that carries the argument is
  `spawn_after_shutdown_is_counted`, and two variant machines show that it is needed. -/

/-- states reachable in the fine machine (variant of `cfg`; `.fixed` = the tree) -/
def reach2 (H : Hash) (cfg : Cfg) (conns : List Nat) (nD : Nat) (ls : List Label2) : St2 :=
  run2 H cfg (initWith2 conns nD) ls

/-- Refinement: a schedule of the coarse machine, with every `serveRecv` replaced by the adjacent pair
    `serveRead`, `serveSpawn`, drives the fine machine to the same state with no datagram held.  So every
    state reachable in the coarse machine is reachable in the fine one, and every `fine_…` theorem below
    specialises to the coarse machine. -/
theorem coarse_is_fine_with_adjacent_pairs (H : Hash) (cfg : Cfg) (conns : List Nat) (nD : Nat) (ls : List Label) :
    reach2 H cfg conns nD (refine ls) =
      { base := reach H cfg conns nD ls, held := List.replicate conns.length none } := by
  have := refine_run H cfg ls (initWith conns nD)
  simp only [reach, reach2, initWith2]
  have hl : (initWith conns nD).serves.length = conns.length := by simp [initWith]
  rw [hl] at this
  exact this

/-- Simulation, for ALL schedules of the fine machine in which every `serveRead` is immediately followed by
    the `serveSpawn` of the same Serve call (`PairsAdjacent`): the fine machine reaches exactly the state
    the coarse machine reaches under the coarsened schedule (each pair read as one `serveRecv`), with no
    datagram held.  The coarse machine is the fine machine restricted to these schedules; what the fine
    machine adds is precisely the schedules in which something falls between a read and its spawn. -/
theorem fine_with_adjacent_pairs_is_coarse (H : Hash) (cfg : Cfg) (conns : List Nat) (nD : Nat) (ls : List Label2)
    (hadj : PairsAdjacent ls) :
    reach2 H cfg conns nD ls =
      { base := reach H cfg conns nD (coarsen ls), held := List.replicate conns.length none } := by
  have := adjacent_run H cfg hadj (initWith conns nD)
  simp only [reach, reach2, initWith2]
  have hl : (initWith conns nD).serves.length = conns.length := by simp [initWith]
  rw [hl] at this
  exact this

/-- THE ARGUMENT.  In every reachable state of the fine machine, a Serve call that holds a
    read-but-not-yet-spawned datagram is itself in its read loop and therefore counted in `activeCount`
    (it counted itself under `s.mu` when it registered and gives the count back only in its deferred
    cleanup, after the loop); hence `activeCount` has not reached -1: `lastActive` is not closed, no
    Shutdown call has returned nil — and its `serveSpawn` step is enabled, whether or not Shutdown has
    been requested and its conn closed in the meantime, so the late `activeAdd` happens while the count
    is still ≥ 0 (≥ 1 before Shutdown). -/
theorem spawn_after_shutdown_is_counted (H : Hash) (cfg : Cfg) (hv : cfg.variant = .fixed) (conns : List Nat) (nD : Nat)
    (ls : List Label2) (i : Nat) (x : Nat × Bytes) (hh : (reach2 H cfg conns nD ls).holds i = some x) :
    let s := reach2 H cfg conns nD ls
    s.base.serves[i]? = some .running ∧ countedServes s.base ≥ 1 ∧
    s.base.active ≥ (if s.base.sd then 0 else 1) ∧ s.base.closes = 0 ∧
    (∀ (j : Nat) (c : Bool), s.base.downs[j]? ≠ some (⟨.returned .nil, c⟩ : Down)) ∧
    step2 H cfg s (.serveSpawn i) =
      some { base := spawn H cfg s.base i x.1 x.2, held := s.held.set i none } := by
  have h2 := Inv2_run H cfg conns nD ls
  have hI := InvF_run2 H cfg hv conns nD ls
  obtain ⟨a, b, c, d, e⟩ := held_is_counted h2 hI hh
  exact ⟨a, b, c, d, e, serveSpawn_enabled hh⟩

/-- the accounting invariant, for every schedule of the fine machine -/
theorem fine_active_invariant (H : Hash) (cfg : Cfg) (hv : cfg.variant = .fixed) (conns : List Nat) (nD : Nat)
    (ls : List Label2) :
    let s := (reach2 H cfg conns nD ls).base
    s.active = (countedServes s : Int) + (liveTasks s : Int) - (if s.sd then 1 else 0) :=
  (InvF_run2 H cfg hv conns nD ls).act

/-- no panic in the fine machine -/
theorem fine_closes_le_one (H : Hash) (cfg : Cfg) (hv : cfg.variant = .fixed) (conns : List Nat) (nD : Nat)
    (ls : List Label2) :
    (reach2 H cfg conns nD ls).base.closes ≤ 1 ∧ (reach2 H cfg conns nD ls).base.panicked = false := by
  have h := (InvF_run2 H cfg hv conns nD ls).cl1
  refine ⟨h, ?_⟩
  simp only [St.panicked, decide_eq_false_iff_not]
  unfold reach2
  omega

theorem fine_closed_iff_drained (H : Hash) (cfg : Cfg) (hv : cfg.variant = .fixed) (conns : List Nat) (nD : Nat)
    (ls : List Label2) :
    let s := (reach2 H cfg conns nD ls).base
    s.closes = 1 ↔ (s.sd = true ∧ countedServes s = 0 ∧ liveTasks s = 0) :=
  (InvF_run2 H cfg hv conns nD ls).cl2

/-- nil only after everything has drained — and then no Serve call holds a datagram either -/
theorem fine_nil_after_drain (H : Hash) (cfg : Cfg) (hv : cfg.variant = .fixed) (conns : List Nat) (nD : Nat)
    (ls : List Label2) (j : Nat) (c : Bool)
    (h : (reach2 H cfg conns nD ls).base.downs[j]? = some ⟨.returned .nil, c⟩) :
    (∀ pc ∈ (reach2 H cfg conns nD ls).base.serves, terminalServe pc = true) ∧
    (∀ t ∈ (reach2 H cfg conns nD ls).base.tasks, t.pc = .done) ∧
    (∀ i, (reach2 H cfg conns nD ls).holds i = none) := by
  have hI := InvF_run2 H cfg hv conns nD ls
  have h2 := Inv2_run H cfg conns nD ls
  have hd := Drained2_of_closed h2 hI (hI.nil j c h)
  have hte : terminalServe = terminalS := by funext pc; cases pc <;> rfl
  rw [hte]
  exact ⟨hd.base.serves, hd.base.tasks, hd.held⟩

/-- … and after a nil return no handler ever starts, in the fine machine: in particular no `serveSpawn`
    is left over from a read that came before Shutdown. -/
theorem fine_no_handler_after_nil (H : Hash) (cfg : Cfg) (hv : cfg.variant = .fixed) (conns : List Nat) (nD : Nat)
    (ls ls' : List Label2) (j : Nat) (c : Bool)
    (h : (reach2 H cfg conns nD ls).base.downs[j]? = some ⟨.returned .nil, c⟩) :
    ((reach2 H cfg conns nD (ls ++ ls')).base.log.filter isHandlerStart) =
      ((reach2 H cfg conns nD ls).base.log.filter isHandlerStart) ∧
    (reach2 H cfg conns nD (ls ++ ls')).base.tasks.length = (reach2 H cfg conns nD ls).base.tasks.length := by
  have hI := InvF_run2 H cfg hv conns nD ls
  have h2 := Inv2_run H cfg conns nD ls
  have hd := Drained2_of_closed h2 hI (hI.nil j c h)
  have hhe : isHandlerStart = isHS := by funext e; cases e <;> rfl
  rw [hhe]
  unfold reach2
  rw [run2_append]
  obtain ⟨hd', hl⟩ := Drained2_run H cfg ls' _ hd
  exact ⟨hl, Drained2_run_tasks H cfg ls' _ hd⟩

theorem fine_ctx_error_only_if_ctx_done (H : Hash) (cfg : Cfg) (conns : List Nat) (nD : Nat) (ls : List Label2)
    (j : Nat) (c : Bool) (h : (reach2 H cfg conns nD ls).base.downs[j]? = some ⟨.returned .ctxErr, c⟩) : c = true :=
  (InvG_run2 H cfg conns nD ls).ctx j c h

theorem fine_shutdown_closes_listeners (H : Hash) (cfg : Cfg) (hv : cfg.variant = .fixed) (conns : List Nat) (nD : Nat)
    (ls : List Label2) (h : (reach2 H cfg conns nD ls).base.sd = true) :
    (reach2 H cfg conns nD ls).base.ctxCancelled = true ∧
    ∀ c, (reach2 H cfg conns nD ls).base.listeners.getD c 0 > 0 →
      (reach2 H cfg conns nD ls).base.connClosed.getD c 0 ≥ 1 :=
  (InvF_run2 H cfg hv conns nD ls).sdc h

/-- the listener table counts the Serve calls in their read loop per conn — a call that holds a
    datagram is one of them (`.running`) -/
theorem fine_listeners_count (H : Hash) (cfg : Cfg) (hv : cfg.variant = .fixed) (conns : List Nat) (nD : Nat)
    (ls : List Label2) (c : Nat) :
    (reach2 H cfg conns nD ls).base.listeners.getD c 0 =
      ((List.range (reach2 H cfg conns nD ls).base.serves.length).filter (fun i =>
        (reach2 H cfg conns nD ls).base.serves[i]? == some .running &&
        (reach2 H cfg conns nD ls).base.connOf.getD i 0 == c)).length :=
  (InvF_run2 H cfg hv conns nD ls).cnt c


/-! #### progress of the fine machine (drain labels: the server's own steps only) -/

/-- the measure of the fine machine: the coarse measure of `base`, plus 3 for every held datagram (its
    `serveSpawn` adds a goroutine that has not run its pipeline, which weighs 2) -/
def fineMeasure (s : St2) : Nat := measure2 s

theorem fineMeasure_eq (s : St2) : fineMeasure s = measure s.base + 3 * heldCount s := rfl

/-- Shutdown unblocks every Serve call, in the fine machine: once Shutdown has been requested, the conn of a
    Serve call in its read loop has been closed, and the call can move: if it holds a datagram its
    `serveSpawn` is enabled (after which it holds none), otherwise its `ReadFrom` fails (`serveReadErr`)
    and it returns ErrServerShutdown.  `serveRead` — a new datagram — is not enabled for it. -/
theorem fine_shutdown_unblocks_every_serve (H : Hash) (cfg : Cfg) (hv : cfg.variant = .fixed) (conns : List Nat)
    (nD : Nat) (ls : List Label2) (i : Nat) (hsd : (reach2 H cfg conns nD ls).base.sd = true)
    (hi : (reach2 H cfg conns nD ls).base.serves[i]? = some .running) :
    let s := reach2 H cfg conns nD ls
    s.base.connClosed.getD (s.base.connOf.getD i 0) 0 ≥ 1 ∧
    (∀ peer d, step2 H cfg s (.serveRead i peer d) = none) ∧
    ((∃ x s', s.holds i = some x ∧ step2 H cfg s (.serveSpawn i) = some s' ∧ s'.holds i = none ∧
        s'.base.serves[i]? = some .running) ∨
     (s.holds i = none ∧ ∃ s', step2 H cfg s (.base (.serveReadErr i)) = some s' ∧
        s'.base.serves[i]? = some (.returned .errShutdown))) := by
  have hI := InvF_run2 H cfg hv conns nD ls
  have h2 := Inv2_run H cfg conns nD ls
  simp only [reach2] at *
  have hlp : (run2 H cfg (initWith2 conns nD) ls).base.listeners.getD
      ((run2 H cfg (initWith2 conns nD) ls).base.connOf.getD i 0) 0 > 0 := by
    rw [hI.cnt]; exact runOnL_pos hi
  have hcc := (hI.sdc hsd).2 _ hlp
  refine ⟨hcc, ?_, ?_⟩
  · intro peer d
    rw [step2_serveRead_eq, if_neg]
    rintro ⟨_, _, h0⟩; omega
  · cases hh : (run2 H cfg (initWith2 conns nD) ls).holds i with
    | some x =>
      left
      have hil : i < (run2 H cfg (initWith2 conns nD) ls).held.length := by
        rw [h2.len]; exact lt_of_getElem?_eq_some hi
      refine ⟨x, _, rfl, serveSpawn_enabled hh, ?_, hi⟩
      rw [holds_mk_set, if_pos ⟨rfl, hil⟩]
    | none =>
      right
      refine ⟨rfl, ?_⟩
      obtain ⟨b, hb⟩ := serveReadErr_enabled (H := H) (cfg := cfg) hi hcc hsd
      refine ⟨{ run2 H cfg (initWith2 conns nD) ls with base := b }, ?_, ?_⟩
      · rw [step2_base_eq (by intro i' hi'; cases hi'; exact hh), hb]; rfl
      · obtain ⟨_, _, _, rfl⟩ := step_serveReadErr hb
        simp [lt_of_getElem?_eq_some hi]

/-- No enabled step of the fine machine undoes progress once Shutdown has been requested: shutdown stays
    requested, the measure does not grow, steps with a drain label (`serveSpawn`, and the coarse drain
    labels) decrease it strictly, all others leave it unchanged; `serveRead` is not enabled.  Unlike the
    coarse `no_step_increases`, this does NOT claim that no goroutine is spawned after Shutdown: a
    `serveSpawn` for a datagram read earlier is enabled, and is progress. -/
theorem fine_no_step_increases (H : Hash) (cfg : Cfg) (hv : cfg.variant = .fixed) (conns : List Nat) (nD : Nat)
    (ls : List Label2) (hsd : (reach2 H cfg conns nD ls).base.sd = true) (l : Label2) (s' : St2)
    (hs : step2 H cfg (reach2 H cfg conns nD ls) l = some s') :
    s'.base.sd = true ∧ fineMeasure s' ≤ fineMeasure (reach2 H cfg conns nD ls) ∧
    (isDrainLabel2 l = true → fineMeasure s' < fineMeasure (reach2 H cfg conns nD ls)) ∧
    (isDrainLabel2 l = false → fineMeasure s' = fineMeasure (reach2 H cfg conns nD ls)) ∧
    (∀ i peer d, l ≠ .serveRead i peer d) :=
  step2_drain_le (Inv2_run H cfg conns nD ls) (InvF_run2 H cfg hv conns nD ls) hsd hs

/-- Not drained ⇒ one of the server's OWN steps (`serveSpawn`, `serveReadErr`, `taskRun`, `taskFinish`) is
    enabled in the fine machine and strictly decreases the measure. -/
theorem fine_progress_enabled (H : Hash) (cfg : Cfg) (hv : cfg.variant = .fixed) (conns : List Nat) (nD : Nat)
    (ls : List Label2) (hsd : (reach2 H cfg conns nD ls).base.sd = true)
    (hnd : (reach2 H cfg conns nD ls).base.closes = 0) :
    ∃ l s', isOwnDrainLabel2 l = true ∧ step2 H cfg (reach2 H cfg conns nD ls) l = some s' ∧
      fineMeasure s' < fineMeasure (reach2 H cfg conns nD ls) := by
  have hI := InvF_run2 H cfg hv conns nD ls
  have h2 := Inv2_run H cfg conns nD ls
  simp only [reach2] at *
  have hm : countedServes (run2 H cfg (initWith2 conns nD) ls).base +
      liveTasks (run2 H cfg (initWith2 conns nD) ls).base ≠ 0 := by
    intro h0
    have := hI.cl2.mpr ⟨hsd, by omega, by omega⟩
    omega
  obtain ⟨l, s', hl, hs, _, hlt⟩ := own_drain_label_enabled2 (H := H) (cfg := cfg) h2 hI hsd hm
  exact ⟨l, s', hl, hs, hlt⟩

/-- Every schedule of the fine machine drains within measure-many of the server's own drain steps. -/
theorem fine_every_schedule_drains (H : Hash) (cfg : Cfg) (hv : cfg.variant = .fixed) (conns : List Nat) (nD : Nat)
    (ls ls' : List Label2) (hsd : (reach2 H cfg conns nD ls).base.sd = true) :
    let s := reach2 H cfg conns nD ls
    let s' := reach2 H cfg conns nD (ls ++ ls')
    s'.base.sd = true ∧
    ownDrainSteps2 H cfg s ls' + fineMeasure s' ≤ fineMeasure s ∧
    ((∀ l, isOwnDrainLabel2 l = true → step2 H cfg s' l = none) → s'.base.closes = 1) ∧
    (fineMeasure s ≤ ownDrainSteps2 H cfg s ls' → s'.base.closes = 1) := by
  have hI := InvF_run2 H cfg hv conns nD ls
  have h2 := Inv2_run H cfg conns nD ls
  have hI' := InvF_run2 H cfg hv conns nD (ls ++ ls')
  have h2' := Inv2_run H cfg conns nD (ls ++ ls')
  obtain ⟨h1, hb⟩ := drain2_bound H cfg hv ls' _ h2 hI hsd
  simp only [reach2, run2_append] at *
  refine ⟨h1, hb, ?_, ?_⟩
  · intro hmax
    by_cases hm : countedServes (run2 H cfg (run2 H cfg (initWith2 conns nD) ls) ls').base +
        liveTasks (run2 H cfg (run2 H cfg (initWith2 conns nD) ls) ls').base = 0
    · exact hI'.cl2.mpr ⟨h1, by omega, by omega⟩
    · obtain ⟨l, s'', hl, hs, _⟩ := own_drain_label_enabled2 (H := H) (cfg := cfg) h2' hI' h1 hm
      rw [hmax l hl] at hs; cases hs
  · intro hge
    have h0 : measure2 (run2 H cfg (run2 H cfg (initWith2 conns nD) ls) ls') = 0 := by
      simp only [fineMeasure] at hge hb; omega
    obtain ⟨a, b⟩ := measure2_zero h0
    exact hI'.cl2.mpr ⟨h1, a, b⟩

/-- Deadlock freedom of the fine machine, with a witness made of the server's own steps: from every
    reachable state in which Shutdown has been requested — also one in which a Serve call holds a datagram
    it read before Shutdown — the threads can all run to completion. -/
theorem fine_no_stuck_state (H : Hash) (cfg : Cfg) (hv : cfg.variant = .fixed) (conns : List Nat) (nD : Nat)
    (ls : List Label2) (hsd : (reach2 H cfg conns nD ls).base.sd = true) :
    ∃ ls', (∀ l ∈ ls', isOwnDrainLabel2 l = true) ∧
      let s' := reach2 H cfg conns nD (ls ++ ls')
      (∀ pc ∈ s'.base.serves, terminalServe pc = true) ∧ (∀ t ∈ s'.base.tasks, t.pc = .done) ∧
      (∀ i, s'.holds i = none) ∧ s'.base.closes = 1 ∧
      ∀ j c, s'.base.downs[j]? = some ⟨.waiting, c⟩ →
        (step2 H cfg s' (.base (.downReturnNil j))).isSome = true := by
  have hI := InvF_run2 H cfg hv conns nD ls
  have h2 := Inv2_run H cfg conns nD ls
  obtain ⟨ls', hown, hsd', h1, h2c⟩ :=
    drain2_own (H := H) hv (measure2 (reach2 H cfg conns nD ls)) _ h2 hI hsd (Nat.le_refl _)
  refine ⟨ls', hown, ?_⟩
  obtain ⟨h2', hI'⟩ := InvF_run2_from H cfg hv ls' _ h2 hI
  unfold reach2 at *
  rw [run2_append]
  have hd := Drained_of_counts hI' hsd' h1 h2c
  have hc : (run2 H cfg (run2 H cfg (initWith2 conns nD) ls) ls').base.closes = 1 := hI'.cl2.mpr ⟨hsd', h1, h2c⟩
  have hte : terminalServe = terminalS := by funext pc; cases pc <;> rfl
  rw [hte]
  refine ⟨hd.serves, hd.tasks, no_held_of_drained h2' hd, hc, ?_⟩
  intro j c hj
  rw [step2_base_eq (by intro i hi; cases hi)]
  simp only [step, hj, hc]
  rfl

/-- `read_failure` in the fine machine: a read of Serve call `i` can fail only while `i` is in `ReadFrom` —
    not between `ReadFrom` and `go`, where it holds a datagram —, and then exactly as in the coarse machine
    (same linearisation point: the atomic load of `shutdownRequested`); the held datagrams are untouched. -/
theorem fine_read_failure (H : Hash) (cfg : Cfg) (s : St2) (i : Nat) (k : ReadErrKind)
    (hi : s.base.serves[i]? = some .running) :
    (∀ x, s.holds i = some x → step2 H cfg s (.base (.serveReadFail i k)) = none ∧
        step2 H cfg s (.base (.serveReadErr i)) = none) ∧
    (s.holds i = none →
      ∃ s', step2 H cfg s (.base (.serveReadFail i k)) = some s' ∧ s'.held = s.held ∧
        (s.base.sd = true → s'.base.serves[i]? = some (.returned .errShutdown)) ∧
        (s.base.sd = false → k = .nonTemporary → s'.base.serves[i]? = some (.returned .readError) ∧
            s'.base.listeners.getD (s.base.connOf.getD i 0) 0 = s.base.listeners.getD (s.base.connOf.getD i 0) 0 - 1) ∧
        (s.base.sd = false → k = .other → s' = s)) := by
  constructor
  · intro x hx
    simp [step2, Label.readLoopOf, hx]
  · intro hn
    obtain ⟨b, hb, h1, h2, h3⟩ := read_failure H cfg s.base i k hi
    refine ⟨{ s with base := b }, ?_, rfl, h1, h2, ?_⟩
    · rw [step2_base_eq (by intro i' hi'; cases hi'; exact hn), hb]; rfl
    · intro hsd hk; rw [h3 hsd hk]

/-- `serve_after_shutdown` in the fine machine -/
theorem fine_serve_after_shutdown (H : Hash) (cfg : Cfg) (s : St2) (i : Nat) (hsd : s.base.sd = true)
    (hi : s.base.serves[i]? = some .notStarted) :
    ∃ s', step2 H cfg s (.base (.serveEnter i)) = some s' ∧ s'.base.serves[i]? = some (.returned .errShutdown) ∧
      s'.base.listeners = s.base.listeners ∧ s'.base.active = s.base.active ∧ s'.held = s.held := by
  obtain ⟨b, hb, h1, h2, h3⟩ := serve_after_shutdown H cfg s.base i hsd hi
  refine ⟨{ s with base := b }, ?_, h1, h2, h3, rfl⟩
  rw [step2_base_eq (by intro i' hi'; cases hi'), hb]; rfl

/-- Once drained, the fine machine stays drained and every waiting Shutdown can return nil at once. -/
theorem fine_drained_shutdown_returns (H : Hash) (cfg : Cfg) (hv : cfg.variant = .fixed) (conns : List Nat)
    (nD : Nat) (ls ls' : List Label2) (hc : (reach2 H cfg conns nD ls).base.closes = 1) :
    let s' := reach2 H cfg conns nD (ls ++ ls')
    s'.base.closes = 1 ∧ (∀ i, s'.holds i = none) ∧
    ∀ (j : Nat) (c : Bool), s'.base.downs[j]? = some (⟨.waiting, c⟩ : Down) →
      ∃ s'', step2 H cfg s' (.base (.downReturnNil j)) = some s'' ∧
        s''.base.downs[j]? = some (⟨.returned .nil, c⟩ : Down) := by
  have hI := InvF_run2 H cfg hv conns nD ls
  have h2 := Inv2_run H cfg conns nD ls
  have hI' := InvF_run2 H cfg hv conns nD (ls ++ ls')
  have hd := Drained2_of_closed h2 hI (by unfold reach2 at hc; omega)
  have hd' := (Drained2_run H cfg ls' _ hd).1
  obtain ⟨hc1, hc2⟩ := Drained_counts hd'.base
  simp only [reach2, run2_append] at *
  have hcl : (run2 H cfg (run2 H cfg (initWith2 conns nD) ls) ls').base.closes = 1 :=
    hI'.cl2.mpr ⟨hd'.base.sd, hc1, hc2⟩
  refine ⟨hcl, hd'.held, ?_⟩
  intro j c hj
  refine ⟨{ run2 H cfg (run2 H cfg (initWith2 conns nD) ls) ls' with
      base := { (run2 H cfg (run2 H cfg (initWith2 conns nD) ls) ls').base with
        downs := (run2 H cfg (run2 H cfg (initWith2 conns nD) ls) ls').base.downs.set j ⟨.returned .nil, c⟩,
        log := (run2 H cfg (run2 H cfg (initWith2 conns nD) ls) ls').base.log ++ [.downReturned j .nil] } }, ?_, ?_⟩
  · rw [step2_base_eq (by intro i hi; cases hi)]
    simp only [step, hj, hcl]; rfl
  · simp [lt_of_getElem?_eq_some hj]

/-! #### non-vacuity and negative controls for the fine machine

  One Serve call on conn 0; constant hash, secret `[1]` for every peer; the Access-Request of
  `classify_example`.  `auditSchedule`: the Serve call registers, its `ReadFrom` returns the datagram,
  THEN Shutdown runs (closes the conn, drops its count) and tries to return nil, then the Serve call does
  its `activeAdd` + `go`, and the goroutine reaches the handler. -/

/-- the datagram of the examples (an Access-Request, identifier 7, no attributes) -/
def exDgram : Bytes := [1, 7, 0, 20] ++ zeros 16
/-- the packet it parses to under the secret `[1]` -/
def exPacket : Packet := ⟨1, 7, zeros 16, [1], []⟩
def exCfg : Cfg := { secretOf := fun _ => .secret [1] }
def exHash : Hash := fun _ => zeros 16

/-- read — Shutdown — (nil?) — spawn — handler -/
def auditSchedule : List Label2 :=
  [.base (.serveEnter 0), .serveRead 0 0 exDgram, .base (.downEnter 0), .base (.downReturnNil 0),
   .serveSpawn 0, .base (.taskRun 0)]

/-- The code (the tree's variant), on the audit schedule: after the read and Shutdown the Serve call
    holds the datagram, `shutdownRequested` is set, its conn is closed, `activeCount` is 0 (its own count)
    and `lastActive` is open — the hypotheses of `spawn_after_shutdown_is_counted`,
    `fine_shutdown_unblocks_every_serve`, `fine_progress_enabled` hold in a reachable state. -/
theorem audit_schedule_state_after_shutdown :
    let s := reach2 exHash exCfg [0] 1 (auditSchedule.take 3)
    s.holds 0 = some (0, exDgram) ∧ s.base.sd = true ∧ s.base.connClosed = [1] ∧ s.base.active = 0 ∧
    s.base.closes = 0 ∧ s.base.serves = [.running] ∧ fineMeasure s = 4 ∧ Cfg.variant exCfg = .fixed := by
  decide +kernel

/-- … Shutdown's nil return is NOT enabled there, the spawn after Shutdown IS (the goroutine is counted:
    `activeCount` = 1), the handler starts, and Shutdown is still waiting. -/
theorem audit_schedule_in_the_code :
    let s := reach2 exHash exCfg [0] 1 auditSchedule
    s.base.downs[0]? = some ⟨.waiting, false⟩ ∧ s.base.closes = 0 ∧ s.base.active = 1 ∧ s.holds 0 = none ∧
    s.base.log = [.listenerClosed 0, .recv 0 0 0 exDgram, .request 0 exPacket 0 0 .server, .handlerStart 0 (0, 7)] := by
  decide +kernel

/-- … and the rest of the run: the handler returns, the read fails, `lastActive` is closed once, Shutdown
    returns nil after the handler has finished and the Serve call has returned. -/
theorem audit_schedule_drains :
    let s := reach2 exHash exCfg [0] 1
      (auditSchedule ++ [.base (.taskFinish 0), .base (.serveReadErr 0), .base (.downReturnNil 0)])
    s.base.downs[0]? = some ⟨.returned .nil, false⟩ ∧ s.base.closes = 1 ∧ s.base.active = -1 ∧
    s.base.log = [.listenerClosed 0, .recv 0 0 0 exDgram, .request 0 exPacket 0 0 .server, .handlerStart 0 (0, 7),
      .handlerEnd 0, .serveReturned 0, .downReturned 0 .nil] := by
  decide +kernel

/-- NEGATIVE CONTROL 1 (`step2NoSelfCount`: the Serve call does not count itself).  On the SAME schedule
    Shutdown's decrement takes `activeCount` from 0 to -1 while the Serve call holds the datagram:
    Shutdown returns nil, THEN the goroutine is spawned and a handler starts. -/
theorem without_self_count_nil_then_handler_starts :
    let s := runWith (step2NoSelfCount exHash exCfg) (initWith2 [0] 1) auditSchedule
    s.base.downs[0]? = some ⟨.returned .nil, false⟩ ∧
    s.base.log = [.listenerClosed 0, .downReturned 0 .nil, .recv 0 0 0 exDgram,
      .request 0 exPacket 0 0 .server, .handlerStart 0 (0, 7)] := by
  decide +kernel

/-- … and when that handler returns `lastActive` is closed a second time (panic). -/
theorem without_self_count_double_close :
    (runWith (step2NoSelfCount exHash exCfg) (initWith2 [0] 1)
      (auditSchedule ++ [.base (.taskFinish 0)])).base.closes = 2 := by
  decide +kernel

/-- read — Shutdown — (back from the read) — nil? : a datagram the read had taken when Shutdown closed the conn -/
def lateReadSchedule : List Label2 :=
  [.base (.serveEnter 0), .serveRead 0 0 exDgram, .base (.downEnter 0), .serveSpawn 0, .base (.downReturnNil 0)]

/-- The code, on that schedule: the datagram is handed to a goroutine although Shutdown has been requested, and
    Shutdown keeps waiting (its nil return is not enabled) … -/
theorem late_read_schedule_in_the_code :
    let s := reach2 exHash exCfg [0] 1 lateReadSchedule
    s.base.downs[0]? = some ⟨.waiting, false⟩ ∧
    s.base.log = [.listenerClosed 0, .recv 0 0 0 exDgram] := by
  decide +kernel

/-- … until the handler has run and returned and the Serve call has seen its closed conn: exactly one handler for
    the datagram, then `nil`. -/
theorem late_read_schedule_drains :
    let s := reach2 exHash exCfg [0] 1
      (lateReadSchedule ++ [.base (.taskRun 0), .base (.taskFinish 0), .base (.serveReadErr 0), .base (.downReturnNil 0)])
    s.base.downs[0]? = some ⟨.returned .nil, false⟩ ∧
    s.base.log = [.listenerClosed 0, .recv 0 0 0 exDgram, .request 0 exPacket 0 0 .server, .handlerStart 0 (0, 7),
      .handlerEnd 0, .serveReturned 0, .downReturned 0 .nil] := by
  decide +kernel

/-- NEGATIVE CONTROL 3 (`step2FlagAfterRead`: the read loop tests `shutdownRequested` after every `ReadFrom`, before
    it looks at the error — seeded change C06-r9-3).  On the SAME schedule the Serve call returns
    `ErrServerShutdown` holding the datagram, Shutdown returns nil, and the datagram that was received is never
    handed to a handler: "exactly once for each received valid datagram" fails.  The lab replays this window
    (a datagram fed after the Close, `D=serve-returned`). -/
theorem flag_after_read_drops_a_received_datagram :
    let s := runWith (step2FlagAfterRead exHash exCfg) (initWith2 [0] 1) lateReadSchedule
    s.base.downs[0]? = some ⟨.returned .nil, false⟩ ∧ s.base.serves = [.returned .errShutdown] ∧
    s.holds 0 = none ∧ s.base.tasks = [] ∧
    s.base.log = [.listenerClosed 0, .serveReturned 0, .downReturned 0 .nil] := by
  decide +kernel


/-- NEGATIVE CONTROL 2 (`step2LateAdd`: `activeAdd` is the goroutine's first statement instead of the Serve
    call's last before `go`).  Read, spawn (uncounted), Shutdown, the read fails and the Serve call returns
    — `activeCount` reaches -1 with the goroutine alive —, Shutdown returns nil, THEN the handler starts. -/
theorem late_activeAdd_nil_then_handler_starts :
    let s := runWith (step2LateAdd exHash exCfg) (initWith2 [0] 1)
      [.base (.serveEnter 0), .serveRead 0 0 exDgram, .serveSpawn 0, .base (.downEnter 0),
       .base (.serveReadErr 0), .base (.downReturnNil 0), .base (.taskRun 0)]
    s.base.downs[0]? = some ⟨.returned .nil, false⟩ ∧
    s.base.log = [.recv 0 0 0 exDgram, .listenerClosed 0, .serveReturned 0, .downReturned 0 .nil,
      .request 0 exPacket 0 0 .server, .handlerStart 0 (0, 7)] := by
  decide +kernel

/-- the same schedule in the code: Shutdown's nil return is not enabled while the goroutine is alive -/
theorem late_activeAdd_schedule_in_the_code :
    let s := reach2 exHash exCfg [0] 1
      [.base (.serveEnter 0), .serveRead 0 0 exDgram, .serveSpawn 0, .base (.downEnter 0),
       .base (.serveReadErr 0), .base (.downReturnNil 0), .base (.taskRun 0)]
    s.base.downs[0]? = some ⟨.waiting, false⟩ ∧ s.base.closes = 0 ∧ s.base.active = 0 := by
  decide +kernel

/-- `runWith (step2 …)` is `run2`: the controls differ from the code's machine in the step function only -/
theorem runWith_step2 (H : Hash) (cfg : Cfg) (s : St2) (ls : List Label2) :
    runWith (step2 H cfg) s ls = run2 H cfg s ls := by
  induction ls generalizing s with
  | nil => rfl
  | cons l ls ih =>
    simp only [runWith, run2]
    split <;> exact ih _

/-! ### The code as it was (variant `.current`): the window between registration and counting -/

def cfgCurrent : Cfg := { variant := .current, secretOf := fun _ => .error }

/-- counterexample 1: Shutdown returns nil while a registered Serve call is still running -/
theorem current_nil_while_serving :
    let s := run (fun _ => []) cfgCurrent (init 1 1) [.serveEnter 0, .downEnter 0, .downReturnNil 0]
    s.downs[0]? = some ⟨.returned .nil, false⟩ ∧ s.serves[0]? = some .registered := by
  decide

/-- counterexample 2: … and when that Serve call returns, `lastActive` is closed a second time (panic) -/
theorem current_double_close :
    (run (fun _ => []) cfgCurrent (init 1 1) [.serveEnter 0, .downEnter 0, .serveCount 0, .serveReadErr 0]).closes = 2 := by
  decide

/-- two Serve calls on ONE conn: when the first leaves through a read error the conn stays registered,
    Shutdown closes it, and the second call returns ErrServerShutdown (non-vacuity of the shared-conn model) -/
example :
    let s := run (fun _ => []) { secretOf := fun _ => .error } (initWith [0, 0] 1)
      [.serveEnter 0, .serveEnter 1, .serveReadFail 0 .nonTemporary, .downEnter 0, .serveReadErr 1, .downReturnNil 0]
    s.serves = [.returned .readError, .returned .errShutdown] ∧ s.connClosed = [1] ∧
      s.downs[0]? = some ⟨.returned .nil, false⟩ := by
  decide

/-! Non-vacuity: a schedule in which a handler runs, shutdown waits for it, and everything drains. -/
example : (reach (fun _ => zeros 16) { secretOf := fun _ => .secret [1] } [0] 1
    [.serveEnter 0, .serveRecv 0 0 ([1, 7, 0, 20] ++ zeros 16), .taskRun 0, .downEnter 0, .downReturnNil 0,
     .taskFinish 0, .serveReadErr 0, .downReturnNil 0]).downs[0]? = some ⟨.returned .nil, false⟩ := by
  simp only [reach, run, step, spawn, classify_example]
  decide

end RV.C07
