/-
  C03 — Authenticators are generated and verified exactly per RFC 2865 / 2866 / 5176.
  All theorems hold for an arbitrary hash `H` (the driver instantiates MD5); no cryptographic
  strength is assumed: "a tampered datagram is rejected" is stated as what the code guarantees —
  acceptance ⇔ the carried authenticator equals `H` of the covered bytes, and two datagrams that
  differ in a covered byte have different hash inputs.
-/
import RV.Model.Auth
import RV.Proofs.Auth
import RV.Proofs.AuthRfc
import RV.Model.MD5
namespace RV.C03
open RV

/-- 1. The per-code switch of `Encode` / `IsAuthenticRequest` is the RFC table, for every code
    (all Go ints, not only 0..255). -/
theorem encodeClass_rfc (c : Int) : encodeClass c = Rfc.encClass c := by
  exact encodeClass_eq_rfc c

theorem requestClass_rfc (c : Nat) : requestClass c = Rfc.reqClass c := by
  exact requestClass_eq_rfc c

/-- Unknown codes are refused (whatever the attributes). -/
theorem encode_refuses_unknown (H : Hash) (p : Packet) (h : Rfc.encClass p.code = .refused) :
    ∀ w, encode H p ≠ .ok w := by
  exact encode_refused H p h

/-- Encode succeeds iff the code is known and MarshalBinary succeeds; it never panics. -/
theorem encode_ok_iff (H : Hash) (p : Packet) :
    (∃ w, encode H p = .ok w) ↔ (Rfc.encClass p.code ≠ .refused ∧ ∃ b, marshal p = .ok b) := by
  exact encode_ok_iff_cond H p

theorem encode_never_faults (H : Hash) (p : Packet) : encode H p ≠ .fault := by
  exact encode_ne_fault H p

/-- 2. The authenticator field of an encoded packet is the RFC formula over the emitted datagram:
    the packet's own authenticator for Access-Request / Status-Server, the hash over sixteen zero
    octets for Accounting, Disconnect and CoA requests, the hash over the request authenticator for
    every reply code; every other octet is MarshalBinary's. -/
theorem encode_auth (H : Hash) (hH : ∀ x, (H x).length = 16) (p : Packet) (w : Bytes)
    (ha : p.auth.length = 16) (h : encode H p = .ok w) :
    (w.drop 4).take 16 =
      (match Rfc.encClass p.code with
       | .verbatim => p.auth
       | .hashZero => Rfc.replyAuth H w (zeros 16) p.secret
       | .hashReqAuth => Rfc.replyAuth H w p.auth p.secret
       | .refused => []) ∧
    ∃ b, marshal p = .ok b ∧ w.take 4 = b.take 4 ∧ w.drop 20 = b.drop 20 ∧ w.length = b.length := by
  exact encode_auth_field H hH p w ha h

/-- 3. The response predicate is true iff both datagrams have at least 20 bytes, the secret is
    non-empty and the response authenticator equals the formula over the given request. -/
theorem isAuthenticResponse_iff (H : Hash) (r q s : Bytes) :
    isAuthenticResponse H r q s = true ↔
      20 ≤ r.length ∧ 20 ≤ q.length ∧ s ≠ [] ∧
      (r.drop 4).take 16 = Rfc.replyAuth H r ((q.drop 4).take 16) s := by
  exact isAuthenticResponse_iff_rfc H r q s

/-- The request predicate: Access-Request / Status-Server always, Accounting, Disconnect and CoA requests
    iff the zero-authenticator formula holds, any other code never. -/
theorem isAuthenticRequest_iff (H : Hash) (q s : Bytes) :
    isAuthenticRequest H q s = true ↔
      20 ≤ q.length ∧ s ≠ [] ∧
      (match Rfc.reqClass (q.getD 0 0).toNat with
       | .always => True
       | .hashZero => (q.drop 4).take 16 = Rfc.replyAuth H q (zeros 16) s
       | .never => False) := by
  exact isAuthenticRequest_iff_rfc H q s

/-- 4. Encode and the predicates are mutually consistent: a reply built from a request
    (`Response`, any attributes) and encoded verifies against that request's datagram … -/
theorem response_verifies (H : Hash) (hH : ∀ x, (H x).length = 16)
    (req : Packet) (reqWire : Bytes) (code : Int) (attrs : Attrs) (w : Bytes)
    (hq : 20 ≤ reqWire.length) (hqa : (reqWire.drop 4).take 16 = req.auth) (ha : req.auth.length = 16)
    (hs : req.secret ≠ [])
    (hc : Rfc.encClass code = .hashReqAuth)
    (h : encode H { response req code with attrs := attrs } = .ok w) :
    isAuthenticResponse H w reqWire req.secret = true := by
  exact response_verifies_aux H hH req reqWire code attrs w hq hqa ha hs hc h

/-- … and an encoded Accounting, Disconnect and CoA requests, Access-Request or Status-Server verifies
    as a request. -/
theorem request_verifies (H : Hash) (hH : ∀ x, (H x).length = 16) (p : Packet) (w : Bytes)
    (ha : p.auth.length = 16) (hs : p.secret ≠ [])
    (hc : Rfc.encClass p.code = .hashZero ∨ Rfc.encClass p.code = .verbatim)
    (hcode : 0 ≤ p.code ∧ p.code ≤ 255)
    (h : encode H p = .ok w) :
    isAuthenticRequest H w p.secret = true := by
  exact request_verifies_aux H hH p w ha hs hc hcode h

/-- 5. Tampering: the bytes covered by the response authenticator determine the hash input
    injectively — two (response, request authenticator, secret) triples with 16-byte request
    authenticators and equal-length secrets that differ anywhere outside the response's own
    authenticator field have different hash inputs, so acceptance of an altered datagram is
    exactly a collision of `H` on distinct inputs. -/
theorem covered_injective (r r' a a' s s' : Bytes)
    (hr : 20 ≤ r.length) (hr' : 20 ≤ r'.length) (ha : a.length = 16) (ha' : a'.length = 16)
    (hs : s.length = s'.length)
    (h : authInput r a s = authInput r' a' s') :
    r.take 4 = r'.take 4 ∧ a = a' ∧ r.drop 20 = r'.drop 20 ∧ s = s' := by
  exact authInput_injective r r' a a' s s' hr hr' ha ha' hs h

/-- 6. `New` takes the identifier and the authenticator from the 17 random bytes. -/
theorem new_uses_entropy (rnd : Bytes) (c : Int) (s : Bytes) (h : rnd.length = 17) :
    (newPacket rnd c s).id = rnd.getD 0 0 ∧ (newPacket rnd c s).auth = rnd.drop 1 ∧
    (newPacket rnd c s).auth.length = 16 ∧ (newPacket rnd c s).code = c ∧
    (newPacket rnd c s).secret = s ∧ (newPacket rnd c s).attrs = [] := by
  exact newPacket_fields rnd c s h

/-!
  ## Strengthening (audit round 4)

  The theorems above compare the model with `Rfc.replyAuth`, which is the model's own `authInput`
  over byte offsets.  Below the comparison is with the INDEPENDENT field-level specification
  RV/Spec/Authenticator.lean (`RV.Rfc2865`, `RV.Rfc2866`, `RV.Rfc5176`, `RV.RfcAuth`), written from the
  RFC texts over the fields Code, Identifier, Length, Authenticator, Attributes.  The link "byte
  offsets ↔ fields" is `wireFields`, justified three ways: it is what `parse` reads (`parse_fields`),
  it inverts the RFC's layout `Rfc2865.serialize` (`wireFields_serialize`, `serialize_wireFields`),
  and it is what `Encode` emits (`encode_fields`).
-/
open RfcAuth

/-! ### 7. The datagram ↔ field link -/

/-- `parse` returns exactly the fields `wireFields` names: code, identifier, authenticator, and the
    attribute region (which parses to the packet's attributes and is their encoding); the region is
    delimited by the Length field. -/
theorem parse_fields (w s : Bytes) (p : Packet) (h : parse w s = .ok p) :
    p.code = ((wireFields w).code.toNat : Int) ∧ p.id = (wireFields w).identifier ∧
      p.auth = (wireFields w).authenticator ∧
      parseAttrs (wireFields w).attributes = .ok p.attrs ∧
      encodeBytes p.attrs = (wireFields w).attributes ∧
      (wireFields w).length = lengthField w := by
  exact parse_fields_aux w s p h

/-- `wireFields` is the inverse of the RFC's packet layout: laying fields out and reading them back
    gives the same fields, and the Length field transmitted is the RFC's Length … -/
theorem wireFields_serialize (f : Rfc2865.Fields) (ha : f.authenticator.length = 16)
    (hl : f.length < 65536) :
    wireFields (Rfc2865.serialize f) = f ∧ lengthField (Rfc2865.serialize f) = f.length ∧
      (Rfc2865.serialize f).length = f.length := by
  exact ⟨RV.wireFields_serialize f ha hl, lengthField_serialize f hl, serialize_length f ha⟩

/-- … and a datagram without padding is the layout of its fields. -/
theorem serialize_wireFields (w : Bytes) (h0 : 20 ≤ w.length) (h : lengthField w = w.length) :
    Rfc2865.serialize (wireFields w) = w := by
  exact RV.serialize_wireFields w h0 h

/-! ### 8. The code switch against the per-RFC classification -/

/-- `Encode` sends the authenticator verbatim / hashes over the request authenticator / hashes over
    sixteen zero octets exactly for the codes of the packet types to which the RFCs give that rule;
    it refuses exactly the codes that are no packet type's. -/
theorem encodeClass_per_rfc (c : Int) :
    (encodeClass c = .verbatim ↔ ∃ k : Kind, (k.code : Int) = c ∧ Rule k .unpredictable) ∧
    (encodeClass c = .hashReqAuth ↔ ∃ k : Kind, (k.code : Int) = c ∧ Rule k .overRequestAuthenticator) ∧
    (encodeClass c = .hashZero ↔ ∃ k : Kind, (k.code : Int) = c ∧ Rule k .overZeroOctets) ∧
    (encodeClass c = .refused ↔ ∀ k : Kind, (k.code : Int) ≠ c) := by
  exact ⟨encodeClass_eq_classOf_iff c .unpredictable, encodeClass_eq_classOf_iff c .overRequestAuthenticator,
    encodeClass_eq_classOf_iff c .overZeroOctets, encodeClass_refused_iff c⟩

/-- `IsAuthenticRequest`'s switch: always for the unpredictable-authenticator requests, the hash
    test for the zero-octet requests, never for replies and unassigned codes. -/
theorem requestClass_per_rfc (n : Nat) :
    (requestClass n = .always ↔ ∃ k : Kind, k.code = n ∧ Rule k .unpredictable) ∧
    (requestClass n = .hashZero ↔ ∃ k : Kind, k.code = n ∧ Rule k .overZeroOctets) ∧
    (requestClass n = .never ↔ ∀ k : Kind, k.code = n → IsReply k) := by
  exact ⟨requestClass_iff n .unpredictable (by simp), requestClass_iff n .overZeroOctets (by simp),
    requestClass_never_iff n⟩

/-- the classification is a function on packet types, total, and the codes are distinct — so the
    three cases above are exclusive and exhaustive over the assigned codes -/
theorem rule_is_a_function :
    (∀ k r r', Rule k r → Rule k r' → r = r') ∧ (∀ k, ∃ r, Rule k r) ∧
    (∀ k k' : Kind, k.code = k'.code → k = k') ∧ (∀ k : Kind, 1 ≤ k.code ∧ k.code ≤ 45) := by
  exact ⟨rule_functional, rule_total, kind_code_injective, kind_code_range⟩

/-- the two RFCs that define a hashed Request Authenticator give the same formula, and the three
    that define a Response Authenticator give the same formula -/
theorem rfc_formulas_agree (H : Hash) (f : Rfc2865.Fields) (a s : Bytes) :
    Rfc5176.requestAuth H f s = Rfc2866.requestAuth H f s ∧
    Rfc2866.responseAuth H f a s = Rfc2865.responseAuth H f a s ∧
    Rfc5176.responseAuth H f a s = Rfc2865.responseAuth H f a s := by
  exact ⟨rfl, rfl, rfl⟩

/-! ### 9. (a) Encode, field by field -/

/-- A datagram `Encode` emits is, for the packet type `k` whose code the packet carries, the RFC
    layout (`Rfc2865.serialize`, no padding) of the fields: Code = `k`'s code, Identifier = the
    packet's, Length = 20 + the attribute region, Attributes = the encoding of the packet's
    attributes (`encodeBytes`: C01), Authenticator = what the RFC prescribes for `k` — the packet's own
    sixteen octets (Access-Request, Status-Server), `Rfc2865.responseAuth` over these fields and the
    packet's authenticator as Request Authenticator (every reply type), `Rfc2866.requestAuth` over
    these fields (Accounting-, Disconnect-, CoA-Request). -/
theorem encode_fields (H : Hash) (hH : ∀ x, (H x).length = 16) (p : Packet) (w : Bytes)
    (ha : p.auth.length = 16) (h : encode H p = .ok w) :
    ∃ k r, (k.code : Int) = p.code ∧ Rule k r ∧
      lengthField w = w.length ∧ w.length = 20 + (encodeBytes p.attrs).length ∧
      (wireFields w).code = UInt8.ofNat k.code ∧
      (wireFields w).identifier = p.id ∧
      (wireFields w).length = 20 + (encodeBytes p.attrs).length ∧
      (wireFields w).authenticator = authenticatorFor H r (wireFields w) p.auth p.secret ∧
      (wireFields w).attributes = encodeBytes p.attrs ∧
      w = Rfc2865.serialize (wireFields w) := by
  exact encode_fields_aux H hH p w ha h

/-! ### 10. (b) the response predicate on a datagram without padding -/

/-- For a datagram whose Length field equals its size, `IsAuthenticResponse` is true iff the secret
    is non-empty, both datagrams have at least 20 octets and the Authenticator field equals the RFC's
    Response Authenticator over the datagram's fields and the request's Authenticator field. -/
theorem isAuthenticResponse_iff_fields (H : Hash) (w req s : Bytes) (hpad : lengthField w = w.length) :
    isAuthenticResponse H w req s = true ↔
      s ≠ [] ∧ 20 ≤ w.length ∧ 20 ≤ req.length ∧
      (wireFields w).authenticator =
        Rfc2865.responseAuth H (wireFields w) (wireFields req).authenticator s := by
  exact isAuthenticResponse_fields H w req s hpad

/-- the same, stated on fields: for every reply laid out per RFC -/
theorem isAuthenticResponse_serialize (H : Hash) (f : Rfc2865.Fields) (req s : Bytes)
    (ha : f.authenticator.length = 16) (hl : f.length < 65536) :
    isAuthenticResponse H (Rfc2865.serialize f) req s = true ↔
      s ≠ [] ∧ 20 ≤ req.length ∧
      f.authenticator = Rfc2865.responseAuth H f (wireFields req).authenticator s := by
  have hlf := lengthField_serialize f hl
  have hlen := serialize_length f ha
  rw [isAuthenticResponse_fields H _ req s (by rw [hlf, hlen]), RV.wireFields_serialize f ha hl, hlen]
  have : 20 ≤ f.length := by simp [Rfc2865.Fields.length]
  constructor
  · rintro ⟨h1, _, h2, h3⟩; exact ⟨h1, h2, h3⟩
  · rintro ⟨h1, h2, h3⟩; exact ⟨h1, this, h2, h3⟩

/-! ### 11. (c) what the code does with octets beyond Length -/

/-- DEVIATION FROM THE RFC TEXT, kept visible: RFC 2865 §3 computes the Response Authenticator over
    the packet, i.e. `Length` octets, and says octets outside the range of the Length field MUST be
    treated as padding and ignored.  `IsAuthenticResponse` hashes `response[20:]`, the WHOLE rest of
    the datagram: the attribute region FOLLOWED BY THE PADDING (and the Length octets as transmitted).
    Stated for every datagram whose Length field is in range (20 ≤ Length ≤ size). -/
theorem padding_is_hashed (H : Hash) (w req s : Bytes)
    (h1 : 20 ≤ lengthField w) (h2 : lengthField w ≤ w.length) :
    isAuthenticResponse H w req s = true ↔
      s ≠ [] ∧ 20 ≤ req.length ∧
      (wireFields w).authenticator =
        H ([(wireFields w).code] ++ [(wireFields w).identifier] ++
            Rfc2865.lengthOctets (wireFields w).length ++ (wireFields req).authenticator ++
            ((wireFields w).attributes ++ padding w) ++ s) := by
  exact isAuthenticResponse_padding H w req s h1 h2

/-- Consequence: appending padding to a reply leaves its fields (and its `parse`, C01
    `parse_ignores_padding`) unchanged, but the padded datagram is accepted iff its Authenticator is the
    hash of the input WITH the padding — so a reply that is authentic per RFC stops verifying once
    padded unless `H` collides on the two inputs, and `Client.Exchange` counts it as non-authentic. -/
theorem padded_reply (H : Hash) (w pad req s : Bytes) (hw : 20 ≤ w.length)
    (hpad : lengthField w = w.length) :
    wireFields (w ++ pad) = wireFields w ∧ padding (w ++ pad) = pad ∧
    (isAuthenticResponse H (w ++ pad) req s = true ↔
      s ≠ [] ∧ 20 ≤ req.length ∧
      (wireFields w).authenticator =
        H ([(wireFields w).code] ++ [(wireFields w).identifier] ++
            Rfc2865.lengthOctets (wireFields w).length ++ (wireFields req).authenticator ++
            ((wireFields w).attributes ++ pad) ++ s)) := by
  obtain ⟨e1, e2, e3⟩ := wireFields_append w pad (by omega) (by omega)
  have e2' : padding (w ++ pad) = pad := by rw [e2, padding_nil w hpad, List.nil_append]
  refine ⟨e1, e2', ?_⟩
  rw [isAuthenticResponse_padding H (w ++ pad) req s (by omega) (by rw [e3]; simp; omega), e1, e2']

/-! ### 12. (d) the request predicate per packet type -/

/-- For a datagram without padding, `IsAuthenticRequest` is true iff the secret is non-empty, the
    datagram has at least 20 octets and its Code is that of a packet type whose Request Authenticator
    is unpredictable (Access-Request, Status-Server: nothing to check), or of one whose Request
    Authenticator is the hash over sixteen zero octets (Accounting-, Disconnect-, CoA-Request) and the
    Authenticator field equals `Rfc2866.requestAuth` (= `Rfc5176.requestAuth`) over the fields.
    Reply codes and unassigned codes are never authentic requests. -/
theorem isAuthenticRequest_iff_fields (H : Hash) (q s : Bytes) (hpad : lengthField q = q.length) :
    isAuthenticRequest H q s = true ↔
      s ≠ [] ∧ 20 ≤ q.length ∧
      ∃ k : Kind, k.code = (wireFields q).code.toNat ∧
        (Rule k .unpredictable ∨
         (Rule k .overZeroOctets ∧
          (wireFields q).authenticator = Rfc2866.requestAuth H (wireFields q) s)) := by
  exact isAuthenticRequest_fields H q s hpad

/-- … and with padding: hashed too, as in `padding_is_hashed`. -/
theorem request_padding_is_hashed (H : Hash) (q s : Bytes)
    (h1 : 20 ≤ lengthField q) (h2 : lengthField q ≤ q.length) :
    isAuthenticRequest H q s = true ↔
      s ≠ [] ∧
      ∃ k : Kind, k.code = (wireFields q).code.toNat ∧
        (Rule k .unpredictable ∨
         (Rule k .overZeroOctets ∧
          (wireFields q).authenticator =
            H ([(wireFields q).code] ++ [(wireFields q).identifier] ++
                Rfc2865.lengthOctets (wireFields q).length ++
                [0, 0, 0, 0, 0, 0, 0, 0, 0, 0, 0, 0, 0, 0, 0, 0] ++
                ((wireFields q).attributes ++ padding q) ++ s))) := by
  exact isAuthenticRequest_padding H q s h1 h2

/-! ### 13. Tampering: what is rejected, and under which hypothesis on `H`

  Nothing can be proved for an arbitrary `H` beyond the following: a constant `H` verifies everything
  (`hash_hypothesis_needed` below).  So each theorem says (i) the hash INPUT of the altered triple
  differs from the original's, and (ii) if `H` does not collide on exactly THAT pair of inputs, the
  altered triple is rejected.  Alterations of the authenticator field itself, and truncations below
  20 octets, are rejected without any hypothesis on `H`. -/

/-- the authenticator field altered (anything in octets 4..19; the rest kept): rejected outright -/
theorem tamper_authenticator_field (H : Hash) (r r' q s : Bytes)
    (hok : isAuthenticResponse H r q s = true)
    (h4 : r'.take 4 = r.take 4) (h20 : r'.drop 20 = r.drop 20)
    (hne : (r'.drop 4).take 16 ≠ (r.drop 4).take 16) :
    isAuthenticResponse H r' q s = false := by
  exact tamper_authfield_aux H r r' q s hok h4 h20 hne

/-- one octet of the authenticator field altered: rejected outright -/
theorem tamper_authenticator_octet (H : Hash) (r q s : Bytes) (i : Nat) (b : UInt8)
    (hok : isAuthenticResponse H r q s = true) (hi : i < r.length) (h4 : 4 ≤ i) (h20 : i < 20)
    (hb : b ≠ r[i]) :
    isAuthenticResponse H (r.set i b) q s = false := by
  exact tamper_authfield_aux H r _ q s hok (set_take4_same r i b h4) (set_drop20_same r i b h20)
    (set_authfield_differs r i b hi hb h4 h20)

/-- covered octets altered in any way (authenticator field kept; sizes may differ: corruptions,
    truncations to ≥ 20 octets, extensions): the hash input differs, and the altered datagram is
    rejected unless `H` collides on the two inputs -/
theorem tamper_covered (H : Hash) (r r' q s : Bytes)
    (hok : isAuthenticResponse H r q s = true) (hr' : 20 ≤ r'.length)
    (hauth : (r'.drop 4).take 16 = (r.drop 4).take 16)
    (hne : r'.take 4 ≠ r.take 4 ∨ r'.drop 20 ≠ r.drop 20) :
    authInput r' ((q.drop 4).take 16) s ≠ authInput r ((q.drop 4).take 16) s ∧
    (H (authInput r' ((q.drop 4).take 16) s) ≠ H (authInput r ((q.drop 4).take 16) s) →
      isAuthenticResponse H r' q s = false) := by
  exact tamper_covered_aux H r r' q s hok hr' hauth hne

/-- one covered octet altered (Code, Identifier, Length, any attribute or padding octet) -/
theorem tamper_covered_octet (H : Hash) (r q s : Bytes) (i : Nat) (b : UInt8)
    (hok : isAuthenticResponse H r q s = true) (hi : i < r.length) (hcov : i < 4 ∨ 20 ≤ i)
    (hb : b ≠ r[i]) :
    authInput (r.set i b) ((q.drop 4).take 16) s ≠ authInput r ((q.drop 4).take 16) s ∧
    (H (authInput (r.set i b) ((q.drop 4).take 16) s) ≠ H (authInput r ((q.drop 4).take 16) s) →
      isAuthenticResponse H (r.set i b) q s = false) := by
  have hlen : 20 ≤ (r.set i b).length := by
    rw [List.length_set]
    exact ((isAuthenticResponse_eq_true_iff H r q s).1 hok).1
  exact tamper_covered_aux H r _ q s hok hlen (set_authfield_same r i b hcov)
    (set_covered_differs r i b hi hb hcov)

/-- truncation: below 20 octets rejected outright; otherwise the input differs (shorter) -/
theorem tamper_truncation (H : Hash) (r q s : Bytes) (n : Nat)
    (hok : isAuthenticResponse H r q s = true) (hn : n < r.length) :
    (n < 20 → isAuthenticResponse H (r.take n) q s = false) ∧
    (20 ≤ n →
      authInput (r.take n) ((q.drop 4).take 16) s ≠ authInput r ((q.drop 4).take 16) s ∧
      (H (authInput (r.take n) ((q.drop 4).take 16) s) ≠ H (authInput r ((q.drop 4).take 16) s) →
        isAuthenticResponse H (r.take n) q s = false)) := by
  constructor
  · intro h
    exact short_rejected_aux H _ q s (Or.inl (by simp; omega))
  · intro h
    apply tamper_covered_aux H r _ q s hok (by simp; omega) (auth_take r n h)
    right
    intro heq
    have := congrArg List.length heq
    simp at this
    omega

/-- extension by any non-empty suffix -/
theorem tamper_extension (H : Hash) (r q s ext : Bytes)
    (hok : isAuthenticResponse H r q s = true) (hne : ext ≠ []) :
    authInput (r ++ ext) ((q.drop 4).take 16) s ≠ authInput r ((q.drop 4).take 16) s ∧
    (H (authInput (r ++ ext) ((q.drop 4).take 16) s) ≠ H (authInput r ((q.drop 4).take 16) s) →
      isAuthenticResponse H (r ++ ext) q s = false) := by
  have hr := ((isAuthenticResponse_eq_true_iff H r q s).1 hok).1
  apply tamper_covered_aux H r _ q s hok (by simp; omega) (auth_append r ext hr)
  right
  intro heq
  have := congrArg List.length heq
  have hl : 0 < ext.length := List.length_pos_iff.2 hne
  simp at this
  omega

/-- another secret — ANY other secret, of the same or of another length (the secret is the last
    component of the hash input); the empty secret is rejected outright -/
theorem tamper_secret (H : Hash) (r q s s' : Bytes)
    (hok : isAuthenticResponse H r q s = true) (hne : s' ≠ s) :
    authInput r ((q.drop 4).take 16) s' ≠ authInput r ((q.drop 4).take 16) s ∧
    (H (authInput r ((q.drop 4).take 16) s') ≠ H (authInput r ((q.drop 4).take 16) s) →
      isAuthenticResponse H r q s' = false) ∧
    (s' = [] → isAuthenticResponse H r q s' = false) := by
  obtain ⟨h1, h2⟩ := tamper_secret_aux H r q s s' hok hne
  exact ⟨h1, h2, fun h => short_rejected_aux H r q s' (Or.inr (Or.inr h))⟩

/-- another request authenticator (a reply to another request); a request shorter than 20 octets is
    rejected outright -/
theorem tamper_request_authenticator (H : Hash) (r q q' s : Bytes)
    (hok : isAuthenticResponse H r q s = true)
    (hne : (q'.drop 4).take 16 ≠ (q.drop 4).take 16) :
    (q'.length < 20 → isAuthenticResponse H r q' s = false) ∧
    (20 ≤ q'.length →
      authInput r ((q'.drop 4).take 16) s ≠ authInput r ((q.drop 4).take 16) s ∧
      (H (authInput r ((q'.drop 4).take 16) s) ≠ H (authInput r ((q.drop 4).take 16) s) →
        isAuthenticResponse H r q' s = false)) := by
  exact ⟨fun h => short_rejected_aux H r q' s (Or.inr (Or.inl h)),
    fun h => tamper_reqauth_aux H r q q' s hok h hne⟩

/-- What is NOT covered: of the request only octets 4..19 are looked at — its code, identifier,
    length and attributes do not influence the verdict. -/
theorem request_only_authenticator_covered (H : Hash) (r q q' s : Bytes)
    (hq : 20 ≤ q.length) (hq' : 20 ≤ q'.length)
    (he : (q'.drop 4).take 16 = (q.drop 4).take 16) :
    isAuthenticResponse H r q' s = isAuthenticResponse H r q s := by
  exact request_rest_not_covered_aux H r q q' s hq hq' he

/-- `covered_injective` without the equal-length hypothesis on the secrets, for datagrams without
    padding: the Length field (covered) delimits the attributes, so the boundary between attributes
    and secret is determined and the covered data determine the hash input injectively.  (With
    padding the boundary is ambiguous: `covered_boundary_ambiguous`.) -/
theorem covered_injective_nopad (r r' a a' s s' : Bytes)
    (hr : 20 ≤ r.length) (hr' : 20 ≤ r'.length) (ha : a.length = 16) (ha' : a'.length = 16)
    (hp : lengthField r = r.length) (hp' : lengthField r' = r'.length)
    (h : authInput r a s = authInput r' a' s') :
    r.take 4 = r'.take 4 ∧ a = a' ∧ r.drop 20 = r'.drop 20 ∧ s = s' := by
  exact authInput_injective_nopad r r' a a' s s' hr hr' ha ha' hp hp' h

/-- with padding and secrets of different lengths the hypothesis `s.length = s'.length` of
    `covered_injective` cannot be dropped: a padding octet and a secret octet are interchangeable -/
theorem covered_boundary_ambiguous :
    authInput ([2, 7, 0, 20] ++ zeros 16 ++ [9]) (zeros 16) [5] =
      authInput ([2, 7, 0, 20] ++ zeros 16) (zeros 16) [9, 5] := by
  decide

/-- Why the hypothesis `H inp' ≠ H inp` is there: for the constant hash every alteration of covered
    octets, of the secret and of the request authenticator is accepted. -/
theorem hash_hypothesis_needed :
    let H : Hash := fun _ => zeros 16
    let r : Bytes := [2, 7, 0, 20] ++ zeros 16
    let q : Bytes := [1, 7, 0, 20] ++ zeros 16
    isAuthenticResponse H r q [115] = true ∧
    isAuthenticResponse H (r.set 0 3) q [115] = true ∧          -- Code altered
    isAuthenticResponse H (r ++ [1, 3, 97]) q [115] = true ∧   -- extended
    isAuthenticResponse H r q [116, 1] = true ∧                 -- another secret
    isAuthenticResponse H r (q.set 5 1) [115] = true ∧          -- another request authenticator
    isAuthenticResponse H (r.set 4 1) q [115] = false := by     -- authenticator field: rejected anyway
  decide

/-! ### 14. New and the entropy source

  `newFrom src code secret` is `New` on a source (`crypto/rand.Reader`) that can still yield the
  octets `src`; it returns the packet and the unread rest.  (The harness checks the same against a
  scripted `crypto/rand.Reader`.) -/

/-- `New` consumes exactly 17 octets of the source and uses all of them and nothing else:
    the consumed prefix is Identifier :: Authenticator. -/
theorem new_consumes_exactly_17 (src : Bytes) (c : Int) (s : Bytes) (p : Packet) (rest : Bytes) :
    newFrom src c s = .ok (p, rest) ↔
      src = (p.id :: p.auth) ++ rest ∧ p.auth.length = 16 ∧ p.code = c ∧ p.secret = s ∧
        p.attrs = [] := by
  exact newFrom_ok_iff src c s p rest

/-- the result does not depend on anything beyond the first 17 octets, and leaves them unread -/
theorem new_ignores_rest (src more : Bytes) (c : Int) (s : Bytes) (p : Packet) (rest : Bytes)
    (h : newFrom src c s = .ok (p, rest)) :
    newFrom (src.take 17 ++ more) c s = .ok (p, more) := by
  exact newFrom_prefix src more c s p rest h

/-- if the source yields fewer than 17 octets `New` panics (and only then); it never returns an error -/
theorem new_panics_iff_short (src : Bytes) (c : Int) (s : Bytes) :
    (newFrom src c s = .fault ↔ src.length < 17) ∧ newFrom src c s ≠ .err := by
  exact ⟨newFrom_fault_iff src c s, newFrom_ne_err src c s⟩

/-- the earlier `newPacket` on exactly 17 octets is this function -/
theorem new_eq_newPacket (rnd : Bytes) (c : Int) (s : Bytes) (h : rnd.length = 17) :
    newFrom rnd c s = .ok (newPacket rnd c s, []) := by
  exact newFrom_eq_newPacket rnd c s h

/-- Successive calls on one source: call number `k` gets the window of stream positions
    `17 k … 17 k + 16` (`newStream`), the source is advanced by 17 octets per call, and all calls
    succeed only if the source yields 17 octets for each. -/
theorem new_calls_take_successive_windows (calls : List (Int × Bytes)) (src : Bytes)
    (ps : List Packet) (rest : Bytes) (h : newMany calls src = .ok (ps, rest)) :
    ps.length = calls.length ∧ rest = src.drop (17 * calls.length) ∧
      17 * calls.length ≤ src.length ∧
      ∀ k (hk : k < calls.length), ∃ p, ps[k]? = some p ∧
        newStream src k calls[k].1 calls[k].2 = .ok p := by
  exact newMany_ok calls src ps rest h

/-- packet `k`'s Identifier is stream octet `17 k` and octet `j` of its Authenticator is stream
    octet `17 k + 1 + j` … -/
theorem newStream_window (src : Bytes) (k : Nat) (c : Int) (s : Bytes) (p : Packet)
    (h : newStream src k c s = .ok p) :
    17 * k + 17 ≤ src.length ∧
    p.id = src.getD (17 * k) 0 ∧ p.auth = (src.drop (17 * k + 1)).take 16 ∧
      (∀ j, j < 16 → p.auth.getD j 0 = src.getD (17 * k + 1 + j) 0) ∧
      p.auth.length = 16 ∧ p.code = c ∧ p.secret = s ∧ p.attrs = [] := by
  exact newStream_ok src k c s p h

/-- … and call `k` panics iff the source ends before position `17 k + 17`. -/
theorem newStream_panics_iff (src : Bytes) (k : Nat) (c : Int) (s : Bytes) :
    newStream src k c s = .fault ↔ src.length < 17 * k + 17 := by
  exact newStream_fault_iff src k c s

/-- No stream octet is ever reused: the windows of two different calls are disjoint, and within a
    window each octet goes to one field position (offset 0 = Identifier, offset 1 + j =
    Authenticator octet j).  Stream position `17 k + a` (a < 17) determines both `k` and `a`. -/
theorem windows_disjoint (j k a b : Nat) (ha : a < 17) (hb : b < 17)
    (h : 17 * j + a = 17 * k + b) : j = k ∧ a = b := by
  omega

/-- SHORT READS.  The entropy source is an `io.Reader`: one `Read` may deliver fewer octets than asked for, without
    an error.  `newFromReader lims` is `New` on a source whose successive `Read` calls deliver at most `lims[0]`,
    `lims[1]`, … octets (at least one each), read until the 17 are complete (`io.ReadFull`, which is what
    `crypto/rand.Read` does with a replaced `Reader`).  However the source cuts its answers, the packet and the
    unread rest are those of `newFrom`: every theorem of this section holds for every such source, and no octet of
    the 17 is ever left at its zero value because a `Read` came back short.  (`17 ≤ lims.length`: `lims` describes
    enough calls - at most 17 are made.)  The harness replays this with a source that delivers 1, 5, 16 or 17 octets
    per `Read` (op `newstream` with a negative second argument). -/
theorem new_reads_until_complete (lims : List Nat) (src : Bytes) (c : Int) (s : Bytes) (hl : 17 ≤ lims.length) :
    newFromReader lims src c s = newFrom src c s := by
  exact newFromReader_eq lims src c s hl

/-- what `readFull` returns is the prefix of the source, whatever the limits; it fails exactly when the source holds
    too little (given enough calls) -/
theorem readFull_is_the_prefix (lims : List Nat) (need : Nat) (src got rest : Bytes)
    (h : readFull lims need src = some (got, rest)) : got = src.take need ∧ rest = src.drop need := by
  exact readFull_some lims need src got rest h

/-- non-vacuity: a source that answers 5, 5, 5, 2 octets; one that delivers a single octet per call -/
example : newFromReader [5, 5, 5, 5] ((List.range 20).map UInt8.ofNat) 1 [0x73] =
    .ok (newPacket ((List.range 17).map UInt8.ofNat) 1 [0x73], [17, 18, 19]) := by decide
example : (readFull (List.replicate 17 1) 17 ((List.range 17).map UInt8.ofNat)).isSome = true := by decide
/-- a reader model that stopped after the first short answer (the mutant) would differ: only 5 octets read -/
example : readFull [5] 17 ((List.range 20).map UInt8.ofNat) = none := by decide

/-! ### Non-vacuity (tests, evaluated by the kernel with the repo's MD5 model `RV.MD5.md5`) -/
section examples
open RV.MD5 (md5)

/-- Access-Request id 7, authenticator 1..16, secret "s", User-Name "a" -/
def exReq : Packet := ⟨1, 7, [1, 2, 3, 4, 5, 6, 7, 8, 9, 10, 11, 12, 13, 14, 15, 16], [115], [⟨1, [97]⟩]⟩
def exReqWire : Bytes := [1, 7, 0, 23, 1, 2, 3, 4, 5, 6, 7, 8, 9, 10, 11, 12, 13, 14, 15, 16, 1, 3, 97]
/-- the Access-Accept to it, with Reply-Message "hi" -/
def exReplyWire : Bytes :=
  [2, 7, 0, 24, 96, 32, 227, 248, 207, 183, 56, 123, 91, 19, 117, 218, 171, 156, 167, 112, 18, 4, 104, 105]
/-- Accounting-Request id 9, secret "s", Acct-Status-Type 1 -/
def exAcct : Packet := ⟨4, 9, zeros 16, [115], [⟨40, [0, 0, 0, 1]⟩]⟩
def exAcctWire : Bytes :=
  [4, 9, 0, 26, 186, 40, 13, 247, 133, 243, 229, 131, 157, 179, 91, 9, 14, 124, 32, 27, 40, 6, 0, 0, 0, 1]

example : encode md5 exReq = .ok exReqWire := by decide +kernel
/-- every hypothesis of `response_verifies` holds of a concrete reply (with MD5) … -/
example :
    20 ≤ exReqWire.length ∧ (exReqWire.drop 4).take 16 = exReq.auth ∧ exReq.auth.length = 16 ∧
    exReq.secret ≠ [] ∧ Rfc.encClass 2 = .hashReqAuth ∧
    encode md5 { response exReq 2 with attrs := [⟨18, [104, 105]⟩] } = .ok exReplyWire := by
  decide +kernel
/-- … and so does its conclusion, evaluated directly -/
example : isAuthenticResponse md5 exReplyWire exReqWire [115] = true := by decide +kernel
/-- `request_verifies`: hypotheses and conclusion on an Accounting-Request and on the Access-Request -/
example :
    exAcct.auth.length = 16 ∧ exAcct.secret ≠ [] ∧ Rfc.encClass exAcct.code = .hashZero ∧
    (0 ≤ exAcct.code ∧ exAcct.code ≤ 255) ∧ encode md5 exAcct = .ok exAcctWire ∧
    isAuthenticRequest md5 exAcctWire [115] = true := by
  decide +kernel
example : Rfc.encClass exReq.code = .verbatim ∧ isAuthenticRequest md5 exReqWire [115] = true := by
  decide +kernel
/-- `isAuthenticResponse_iff_fields`: the hypothesis and every conjunct of the right-hand side -/
example :
    lengthField exReplyWire = exReplyWire.length ∧ ([115] : Bytes) ≠ [] ∧ 20 ≤ exReplyWire.length ∧
    20 ≤ exReqWire.length ∧
    (wireFields exReplyWire).authenticator =
      Rfc2865.responseAuth md5 (wireFields exReplyWire) (wireFields exReqWire).authenticator [115] := by
  decide +kernel
/-- `isAuthenticRequest_iff_fields`: hypothesis and right-hand side, with the witness packet type -/
example :
    lengthField exAcctWire = exAcctWire.length ∧ 20 ≤ exAcctWire.length ∧
    Kind.accountingRequest.code = (wireFields exAcctWire).code.toNat ∧
    (wireFields exAcctWire).authenticator = Rfc2866.requestAuth md5 (wireFields exAcctWire) [115] := by
  decide +kernel
/-- `encode_fields`: the emitted datagram is the RFC layout of the fields -/
example :
    exReplyWire = Rfc2865.serialize ⟨2, 7, Rfc2865.responseAuth md5 ⟨2, 7, [], [18, 4, 104, 105]⟩ exReq.auth [115],
      [18, 4, 104, 105]⟩ := by
  decide +kernel
/-- `padding_is_hashed` is not vacuous and the deviation is real: the padded reply still parses to the
    same packet but no longer verifies; a reply whose sender hashed the padding too does verify -/
example :
    parse (exReplyWire ++ [0, 0]) [115] = parse exReplyWire [115] ∧
    (parse exReplyWire [115]).isOk = true ∧
    20 ≤ lengthField (exReplyWire ++ [0, 0]) ∧ lengthField (exReplyWire ++ [0, 0]) ≤ (exReplyWire ++ [0, 0]).length ∧
    padding (exReplyWire ++ [0, 0]) = [0, 0] ∧
    isAuthenticResponse md5 (exReplyWire ++ [0, 0]) exReqWire [115] = false ∧
    isAuthenticResponse md5
      (putAuth (exReplyWire ++ [0, 0]) (md5 (authInput (exReplyWire ++ [0, 0]) exReq.auth [115])))
      exReqWire [115] = true := by
  decide +kernel
/-- the tamper theorems' hypotheses hold with MD5 on concrete alterations, and so do their conclusions -/
example :
    md5 (authInput (exReplyWire.set 22 72) ((exReqWire.drop 4).take 16) [115]) ≠
      md5 (authInput exReplyWire ((exReqWire.drop 4).take 16) [115]) ∧
    isAuthenticResponse md5 (exReplyWire.set 22 72) exReqWire [115] = false ∧
    isAuthenticResponse md5 (exReplyWire.set 1 8) exReqWire [115] = false ∧
    isAuthenticResponse md5 (exReplyWire.set 4 97) exReqWire [115] = false ∧
    isAuthenticResponse md5 exReplyWire exReqWire [115, 1] = false ∧
    isAuthenticResponse md5 exReplyWire exReqWire [116] = false ∧
    isAuthenticResponse md5 exReplyWire (exReqWire.set 4 2) [115] = false ∧
    isAuthenticResponse md5 exReplyWire (exReqWire.set 1 8) [115] = true ∧
    isAuthenticResponse md5 (exReplyWire.take 22) exReqWire [115] = false := by
  decide +kernel
/-- entropy: two calls on a 34-octet stream take octets 0..16 and 17..33; a 33-octet stream makes
    the second call panic -/
example :
    newMany [(1, [115]), (4, [116])] ((List.range 34).map UInt8.ofNat) =
      .ok ([⟨1, 0, (List.range 16).map (fun i => UInt8.ofNat (i + 1)), [115], []⟩,
            ⟨4, 17, (List.range 16).map (fun i => UInt8.ofNat (i + 18)), [116], []⟩], []) ∧
    newMany [(1, [115]), (4, [116])] ((List.range 33).map UInt8.ofNat) = .fault ∧
    newFrom (zeros 16) 1 [115] = .fault := by
  decide +kernel

end examples

/-! Non-vacuity (tests): a concrete reply meets the hypotheses of `response_verifies`. -/
example : Rfc.encClass 2 = .hashReqAuth ∧ Rfc.encClass 4 = .hashZero ∧ Rfc.encClass 13 = .refused := by
  exact ⟨rfl, rfl, rfl⟩

/-! ### 15. Tampering with REQUESTS (second audit: the tamper theorems covered the response predicate only)

For Accounting-, Disconnect- and CoA-Request the request predicate is the response predicate against sixteen zero
octets (`hashed_request_is_a_reply_to_zeros`), so every tamper theorem of §13 transfers; the Code octet is treated
separately because it selects the rule. -/

/-- for the hashed request codes the request predicate IS the response predicate against a request whose
    authenticator is sixteen zero octets -/
theorem hashed_request_is_a_reply_to_zeros (H : Hash) (q s : Bytes) (hc : Rfc.reqClass (q.getD 0 0).toNat = .hashZero) :
    isAuthenticRequest H q s = isAuthenticResponse H q (zeros 20) s := by
  unfold isAuthenticRequest isAuthenticResponse
  rw [requestClass_rfc, hc]
  have hz : ((zeros 20).drop 4).take 16 = zeros 16 := by decide
  have hl : (zeros 20).length = 20 := by decide
  simp [hz, hl]

theorem getD0_set (q : Bytes) (i : Nat) (b : UInt8) (hi : 1 ≤ i) : (q.set i b).getD 0 0 = q.getD 0 0 := by
  cases q with
  | nil => simp
  | cons x xs =>
    cases i with
    | zero => omega
    | succ j => simp

/-- a hashed request (Accounting-, Disconnect-, CoA-Request) with one octet of its authenticator field altered is
    rejected outright -/
theorem tamper_request_authenticator_octet (H : Hash) (q s : Bytes) (i : Nat) (b : UInt8)
    (hc : Rfc.reqClass (q.getD 0 0).toNat = .hashZero)
    (hok : isAuthenticRequest H q s = true) (hi : i < q.length) (h4 : 4 ≤ i) (h20 : i < 20) (hb : b ≠ q[i]) :
    isAuthenticRequest H (q.set i b) s = false := by
  rw [hashed_request_is_a_reply_to_zeros H q s hc] at hok
  rw [hashed_request_is_a_reply_to_zeros H _ s (by rw [getD0_set q i b (by omega)]; exact hc)]
  exact tamper_authenticator_octet H q (zeros 20) s i b hok hi h4 h20 hb

/-- … with any other octet but the Code altered (Identifier, Length, an attribute or padding octet): the hash input
    differs, rejected unless `H` collides on the two inputs -/
theorem tamper_request_covered_octet (H : Hash) (q s : Bytes) (i : Nat) (b : UInt8)
    (hc : Rfc.reqClass (q.getD 0 0).toNat = .hashZero)
    (hok : isAuthenticRequest H q s = true) (hi : i < q.length) (hcov : (1 ≤ i ∧ i < 4) ∨ 20 ≤ i) (hb : b ≠ q[i]) :
    authInput (q.set i b) (zeros 16) s ≠ authInput q (zeros 16) s ∧
    (H (authInput (q.set i b) (zeros 16) s) ≠ H (authInput q (zeros 16) s) →
      isAuthenticRequest H (q.set i b) s = false) := by
  rw [hashed_request_is_a_reply_to_zeros H q s hc] at hok
  rw [hashed_request_is_a_reply_to_zeros H _ s (by rw [getD0_set q i b (by omega)]; exact hc)]
  have hz : ((zeros 20).drop 4).take 16 = zeros 16 := by decide
  have := tamper_covered_octet H q (zeros 20) s i b hok hi (by omega) hb
  rwa [hz] at this

/-- … checked under any other secret -/
theorem tamper_request_secret (H : Hash) (q s s' : Bytes)
    (hc : Rfc.reqClass (q.getD 0 0).toNat = .hashZero)
    (hok : isAuthenticRequest H q s = true) (hne : s' ≠ s) :
    authInput q (zeros 16) s' ≠ authInput q (zeros 16) s ∧
    (H (authInput q (zeros 16) s') ≠ H (authInput q (zeros 16) s) → isAuthenticRequest H q s' = false) ∧
    (s' = [] → isAuthenticRequest H q s' = false) := by
  rw [hashed_request_is_a_reply_to_zeros H q s hc] at hok
  rw [hashed_request_is_a_reply_to_zeros H q s' hc]
  have hz : ((zeros 20).drop 4).take 16 = zeros 16 := by decide
  have := tamper_secret H q (zeros 20) s s' hok hne
  rwa [hz] at this

/-- the Code octet altered into a code of another class: Access-Request / Status-Server are accepted whatever the
    authenticator (nothing protects them at this layer - Message-Authenticator is not implemented), every code
    that is not a request is rejected outright -/
theorem tamper_request_code (H : Hash) (q s : Bytes) (hq : 20 ≤ q.length) (hs : s ≠ []) :
    (Rfc.reqClass (q.getD 0 0).toNat = .always → isAuthenticRequest H q s = true) ∧
    (Rfc.reqClass (q.getD 0 0).toNat = .never → isAuthenticRequest H q s = false) := by
  constructor
  · intro h
    rw [isAuthenticRequest_iff]
    exact ⟨hq, hs, by rw [h]; trivial⟩
  · intro h
    cases hr : isAuthenticRequest H q s with
    | false => rfl
    | true =>
      have := (isAuthenticRequest_iff H q s).1 hr
      rw [h] at this
      exact absurd this.2.2 (by simp)

end RV.C03
