/-
  C03 — Authenticators are generated and verified exactly per RFC 2865 / 2866 / 5176.
  All theorems hold for an arbitrary hash `H` (the driver instantiates MD5); no cryptographic
  strength is assumed: "a tampered datagram is rejected" is stated as what the code guarantees —
  acceptance ⇔ the carried authenticator equals `H` of the covered bytes, and two datagrams that
  differ in a covered byte have different hash inputs.
-/
import RV.Model.Auth
import RV.Proofs.Auth
namespace RV.C03
open RV

/-- 1. The per-code switch of `Encode` / `IsAuthenticRequest` is the RFC table, for every code
    (all Go ints, not only 0..255). -/
theorem encodeClass_rfc (c : Int) : encodeClass c = Rfc.encClass c := by
  exact encodeClass_eq_rfc c

theorem requestClass_rfc (c : Nat) : requestClass c = Rfc.reqClass c := by
  exact requestClass_eq_rfc c

/-- Unknown codes are refused (whatever the attributes). -/
theorem encode_refuses_unknown (H : Hash) (p : Packet) (h : Rfc.encClass p.code = .refused) :
    ∀ w, encode H p ≠ .ok w := by
  exact encode_refused H p h

/-- Encode succeeds iff the code is known and MarshalBinary succeeds; it never panics. -/
theorem encode_ok_iff (H : Hash) (p : Packet) :
    (∃ w, encode H p = .ok w) ↔ (Rfc.encClass p.code ≠ .refused ∧ ∃ b, marshal p = .ok b) := by
  exact encode_ok_iff_cond H p

theorem encode_never_faults (H : Hash) (p : Packet) : encode H p ≠ .fault := by
  exact encode_ne_fault H p

/-- 2. The authenticator field of an encoded packet is the RFC formula over the emitted datagram:
    the packet's own authenticator for Access-Request / Status-Server, the hash over sixteen zero
    octets for Accounting, Disconnect and CoA requests, the hash over the request authenticator for
    every reply code; every other octet is MarshalBinary's. -/
theorem encode_auth (H : Hash) (hH : ∀ x, (H x).length = 16) (p : Packet) (w : Bytes)
    (ha : p.auth.length = 16) (h : encode H p = .ok w) :
    (w.drop 4).take 16 =
      (match Rfc.encClass p.code with
       | .verbatim => p.auth
       | .hashZero => Rfc.replyAuth H w (zeros 16) p.secret
       | .hashReqAuth => Rfc.replyAuth H w p.auth p.secret
       | .refused => []) ∧
    ∃ b, marshal p = .ok b ∧ w.take 4 = b.take 4 ∧ w.drop 20 = b.drop 20 ∧ w.length = b.length := by
  exact encode_auth_field H hH p w ha h

/-- 3. The response predicate is true iff both datagrams have at least 20 bytes, the secret is
    non-empty and the response authenticator equals the formula over the given request. -/
theorem isAuthenticResponse_iff (H : Hash) (r q s : Bytes) :
    isAuthenticResponse H r q s = true ↔
      20 ≤ r.length ∧ 20 ≤ q.length ∧ s ≠ [] ∧
      (r.drop 4).take 16 = Rfc.replyAuth H r ((q.drop 4).take 16) s := by
  exact isAuthenticResponse_iff_rfc H r q s

/-- The request predicate: Access-Request / Status-Server always, Accounting, Disconnect and CoA requests
    iff the zero-authenticator formula holds, any other code never. -/
theorem isAuthenticRequest_iff (H : Hash) (q s : Bytes) :
    isAuthenticRequest H q s = true ↔
      20 ≤ q.length ∧ s ≠ [] ∧
      (match Rfc.reqClass (q.getD 0 0).toNat with
       | .always => True
       | .hashZero => (q.drop 4).take 16 = Rfc.replyAuth H q (zeros 16) s
       | .never => False) := by
  exact isAuthenticRequest_iff_rfc H q s

/-- 4. Encode and the predicates are mutually consistent: a reply built from a request
    (`Response`, any attributes) and encoded verifies against that request's datagram … -/
theorem response_verifies (H : Hash) (hH : ∀ x, (H x).length = 16)
    (req : Packet) (reqWire : Bytes) (code : Int) (attrs : Attrs) (w : Bytes)
    (hq : 20 ≤ reqWire.length) (hqa : (reqWire.drop 4).take 16 = req.auth) (ha : req.auth.length = 16)
    (hs : req.secret ≠ [])
    (hc : Rfc.encClass code = .hashReqAuth)
    (h : encode H { response req code with attrs := attrs } = .ok w) :
    isAuthenticResponse H w reqWire req.secret = true := by
  exact response_verifies_aux H hH req reqWire code attrs w hq hqa ha hs hc h

/-- … and an encoded Accounting, Disconnect and CoA requests, Access-Request or Status-Server verifies
    as a request. -/
theorem request_verifies (H : Hash) (hH : ∀ x, (H x).length = 16) (p : Packet) (w : Bytes)
    (ha : p.auth.length = 16) (hs : p.secret ≠ [])
    (hc : Rfc.encClass p.code = .hashZero ∨ Rfc.encClass p.code = .verbatim)
    (hcode : 0 ≤ p.code ∧ p.code ≤ 255)
    (h : encode H p = .ok w) :
    isAuthenticRequest H w p.secret = true := by
  exact request_verifies_aux H hH p w ha hs hc hcode h

/-- 5. Tampering: the bytes covered by the response authenticator determine the hash input
    injectively — two (response, request authenticator, secret) triples with 16-byte request
    authenticators and equal-length secrets that differ anywhere outside the response's own
    authenticator field have different hash inputs, so acceptance of an altered datagram is
    exactly a collision of `H` on distinct inputs. -/
theorem covered_injective (r r' a a' s s' : Bytes)
    (hr : 20 ≤ r.length) (hr' : 20 ≤ r'.length) (ha : a.length = 16) (ha' : a'.length = 16)
    (hs : s.length = s'.length)
    (h : authInput r a s = authInput r' a' s') :
    r.take 4 = r'.take 4 ∧ a = a' ∧ r.drop 20 = r'.drop 20 ∧ s = s' := by
  exact authInput_injective r r' a a' s s' hr hr' ha ha' hs h

/-- 6. `New` takes the identifier and the authenticator from the 17 random bytes. -/
theorem new_uses_entropy (rnd : Bytes) (c : Int) (s : Bytes) (h : rnd.length = 17) :
    (newPacket rnd c s).id = rnd.getD 0 0 ∧ (newPacket rnd c s).auth = rnd.drop 1 ∧
    (newPacket rnd c s).auth.length = 16 ∧ (newPacket rnd c s).code = c ∧
    (newPacket rnd c s).secret = s ∧ (newPacket rnd c s).attrs = [] := by
  exact newPacket_fields rnd c s h

/-! Non-vacuity (tests): a concrete reply meets the hypotheses of `response_verifies`. -/
example : Rfc.encClass 2 = .hashReqAuth ∧ Rfc.encClass 4 = .hashZero ∧ Rfc.encClass 13 = .refused := by
  exact ⟨rfl, rfl, rfl⟩

end RV.C03
