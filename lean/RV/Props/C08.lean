/-
  C08 — Exchange always returns: with the reply as soon as an acceptable one arrives, with the
  context's own error promptly after the context is cancelled or its deadline passes — however the
  peer behaves — or with the network error.  While it waits it retransmits the byte-identical request
  at the configured interval and never when the interval is zero or negative; after it returns it
  sends nothing more, its socket is closed and no goroutine it started survives.

  The theorems are about the logic machine `RV.Exchange.step` (client.go:46-130 as reactions to the
  events dial result / ticker / context / read completion / helper scheduling), for every hash, every
  configuration, every request and EVERY event sequence (induction over the sequence).  Events that
  cannot occur in a state (a tick before the dial, a datagram on a closed conn) are no-ops, so
  quantifying over all sequences over-approximates the real schedules.

  What the machine cannot exhibit, and what is therefore NOT proved here but validated on traces of
  the real code by the harness (see `level_note`): that the Go runtime eventually schedules the helper
  after `ctx.Done()` is closed (event `helperObservesCtx`), that closing the conn makes the blocked
  `conn.Read` fail (event `readError`), how long both take ("promptly"), that `conn.Close()` releases
  the descriptor, that the helper goroutine really exits, and ICMP behaviour.  `ctx_wins` and
  `returns_under_fairness` say exactly which runtime events the guarantees need.
-/
import RV.Model.Client
import RV.Proofs.Client
import RV.Proofs.ClientTimed
namespace RV.C08
open RV RV.Client RV.Exchange

variable (H : Hash) (P : Params)

/-- 1. Resend verbatim: everything ever written to the conn is the one byte string `Encode` produced
    before the dial — the first write and every retransmission alike. -/
theorem resend_verbatim (evs : List Event) :
    (∀ x, x ∈ (reach H P evs).sent → x = P.wireBytes) ∧
    (∀ x, x ∈ (reach H P evs).sent → some x = (reach H P evs).sent.head?) := by
  have h := (RV.Exchange.inv_run H P evs).sent_wire
  refine ⟨h, ?_⟩
  intro x hx
  have hx' := h x hx
  unfold reach at hx ⊢
  cases hs : (run H P (init P) evs).sent with
  | nil => rw [hs] at hx; cases hx
  | cons y ys =>
    have hy : y = P.wireBytes := h y (by rw [hs]; simp)
    simp [hx', hy]

/-- 2. No resend without retry: with `Retry ≤ 0` at most the initial write ever happens. -/
theorem no_resend_without_retry (hr : P.retry ≤ 0) (evs : List Event) :
    (reach H P evs).sent.length ≤ 1 := by
  exact (RV.Exchange.inv_run H P evs).no_retry_one hr

/-- … and with `Retry > 0` a resend happens on every tick while the call waits (and `sent` grows by at
    most one element, `wire`, per event: `RV.Exchange.step_sent`). -/
theorem resend_on_tick (hr : P.retry > 0) (s : State) (hw : s.phase = .waiting) (ha : s.helperAlive = true) :
    (step H P s .tick).sent = s.sent ++ [P.wireBytes] := by
  rcases s with ⟨phase, sent, cc, h, cd, ec⟩
  simp only at hw ha
  subst hw; subst ha
  unfold step
  simp [hr]

theorem sent_grows_by_wire_only (s : State) (e : Event) :
    (step H P s e).sent = s.sent ∨ (step H P s e).sent = s.sent ++ [P.wireBytes] := by
  exact RV.Exchange.step_sent H P s e

/-- 3. Silent after return: once the call has returned, no event changes what was sent (or the
    result). -/
theorem silent_after_return (pre post : List Event) (r : Result)
    (h : (reach H P pre).phase = .returned r) :
    (reach H P (pre ++ post)).sent = (reach H P pre).sent ∧
    (reach H P (pre ++ post)).phase = .returned r := by
  have := RV.Exchange.run_returned H P (reach H P pre) post r h
  rw [RV.Exchange.reach_append]
  exact ⟨this.2, this.1⟩

/-- 4a. ctx wins on a read error: when the context is done, a failing `conn.Read` returns the
    context's own error — whatever the error counter and the budget are, whatever was received. -/
theorem ctx_wins_on_read_error (s : State) (hw : s.phase = .waiting) (hc : s.ctxDone = true) :
    (step H P s .readError).phase = .returned .ctxErr := by
  rw [RV.Exchange.step_readError H P s hw, hc]
  rfl

/-- 4b. ctx wins: once the context is done and the helper has observed it (it closes the conn),
    no datagram is delivered any more — whatever is queued (`mid` is arbitrary), whatever the budget —
    nothing more is sent, and the read completion that does happen (the error of the closed conn)
    returns the context's error.
    Needed from the runtime for "promptly": (R1) the helper goroutine runs after `ctx.Done()` closes
    (`helperObservesCtx`); (R2) `conn.Close()` makes the blocked `Read` return an error (`readError`). -/
theorem ctx_wins (pre mid post : List Event)
    (hw : (reach H P pre).phase = .waiting)
    (hmid : ∀ e, e ∈ mid → e ≠ .readError) :
    (reach H P (pre ++ [.ctxDone, .helperObservesCtx] ++ mid)).phase = .waiting ∧
    (reach H P (pre ++ [.ctxDone, .helperObservesCtx] ++ mid)).sent = (reach H P pre).sent ∧
    (reach H P (pre ++ [.ctxDone, .helperObservesCtx] ++ mid ++ .readError :: post)).phase = .returned .ctxErr := by
  have hinv : RV.Exchange.Inv P (reach H P pre) := RV.Exchange.inv_run H P pre
  have h1 := RV.Exchange.step_ctxDone_waiting H P _ hw
  have h1f := RV.Exchange.step_ctxDone_flag H P (reach H P pre)
  have hinv1 := RV.Exchange.inv_step H P _ .ctxDone hinv
  have h2 := RV.Exchange.step_helper_closes H P _ hinv1 h1.1 h1f
  have e0 : reach H P (pre ++ [.ctxDone, .helperObservesCtx]) =
      step H P (step H P (reach H P pre) .ctxDone) .helperObservesCtx := by
    rw [RV.Exchange.reach_append]; rfl
  refine ⟨?_, ?_, ?_⟩
  · rw [RV.Exchange.reach_append, e0]
    exact (RV.Exchange.run_ctxClosed H P _ mid hmid h2.1).1
  · rw [RV.Exchange.reach_append, e0, RV.Exchange.run_ctxClosed_sent H P _ mid h2.1, h2.2, h1.2]
  · rw [List.append_assoc, RV.Exchange.reach_append, e0]
    exact RV.Exchange.ctxClosed_readError H P _ mid post h2.1 hmid

/-- 4c. What the code does NOT guarantee (and the statement does not demand): between the
    cancellation and the helper closing the conn, a datagram that `Read` has already delivered is
    processed exactly as if the context were alive — it can still be returned as the reply, or exhaust
    the error budget.  Only a read ERROR consults the context. -/
theorem ctx_window_processes_datagrams (s : State) (d : Bytes) (hw : s.phase = .waiting) :
    (step H P { s with ctxDone := true } (.datagram d)).phase = (step H P s (.datagram d)).phase := by
  rcases s with ⟨phase, sent, cc, ha, cd, ec⟩
  simp only at hw
  subst hw
  cases cc
  · rw [RV.Exchange.step_datagram_open H P _ d rfl rfl, RV.Exchange.step_datagram_open H P _ d rfl rfl]
    simp only
    cases stepDatagram H P.cfg P.wireBytes P.secret ec d <;> rfl
  · rw [RV.Exchange.step_datagram_closed H P _ d rfl rfl, RV.Exchange.step_datagram_closed H P _ d rfl rfl]

/-- 5. Returns under fairness.  (a) A failed dial returns.  (b) After the dial, any read error
    returns.  (c) After a successful dial, an acceptable datagram delivered while the helper has not
    closed the conn returns — with that datagram's parse if the call was still waiting.
    (d) After the dial, `ctxDone` followed by `helperObservesCtx` and the induced read error
    returns, and with the context's error unless something returned earlier. -/
theorem returns_under_fairness :
    -- (a): a failed dial
    (∀ a c : List Event, .dialOk ∉ a → isReturned (reach H P (a ++ .dialFail :: c)) = true) ∧
    -- (b): a dial result followed, any time later, by a read error
    (∀ a b c : List Event, ∀ dial : Event, dial = .dialOk ∨ dial = .dialFail →
      isReturned (reach H P (a ++ dial :: b ++ .readError :: c)) = true) ∧
    -- (c): an acceptable datagram while the conn is open
    (∀ pre post : List Event, ∀ d : Bytes,
      .dialOk ∈ pre → .helperObservesCtx ∉ pre →
      Spec.acceptable H P.cfg P.wireBytes P.secret d = true →
      isReturned (reach H P (pre ++ .datagram d :: post)) = true ∧
      ((reach H P pre).phase = .waiting →
        ∃ p, parse (readBuf d) P.secret = .ok p ∧
          (reach H P (pre ++ .datagram d :: post)).phase = .returned (.reply p))) ∧
    -- (d): the context chain
    (∀ a b c d e : List Event, ∀ dial : Event, dial = .dialOk ∨ dial = .dialFail →
      (∀ x, x ∈ d → x ≠ .readError) →
      isReturned (reach H P (a ++ dial :: b ++ .ctxDone :: c ++ .helperObservesCtx :: d ++ .readError :: e)) = true ∧
      ((reach H P (a ++ dial :: b ++ .ctxDone :: c)).phase = .waiting →
        (reach H P (a ++ dial :: b ++ .ctxDone :: c ++ .helperObservesCtx :: d ++ .readError :: e)).phase
          = .returned .ctxErr)) := by
  have hre : ∀ (pre c : List Event), (reach H P pre).phase ≠ .dialing →
      isReturned (reach H P (pre ++ .readError :: c)) = true := by
    intro pre c hp
    rw [RV.Exchange.reach_append, RV.Exchange.run_cons]
    exact RV.Exchange.run_isReturned H P _ c (RV.Exchange.step_readError_returned H P _ hp)
  refine ⟨?_, ?_, ?_, ?_⟩
  · intro a c hna
    rw [RV.Exchange.reach_append, RV.Exchange.run_cons]
    exact RV.Exchange.run_isReturned H P _ c
      (RV.Exchange.step_dialFail_returned H P _ (RV.Exchange.run_no_dialOk H P a hna))
  · intro a b c dial hd
    exact hre (a ++ dial :: b) c (RV.Exchange.run_past_dial H P a b dial hd)
  · intro pre post d hdo hno hacc
    have hpast : (reach H P pre).phase ≠ .dialing := by
      obtain ⟨a, b, rfl⟩ := List.append_of_mem hdo
      exact RV.Exchange.run_past_dial H P a b .dialOk (Or.inl rfl)
    have hopen : (reach H P pre).phase = .waiting → (reach H P pre).connClosed = false :=
      RV.Exchange.run_open_until_helper H P pre hno
    obtain ⟨p, hstep, hparse⟩ :=
      step_of_acceptable H P.cfg P.wireBytes P.secret (reach H P pre).errCount d hacc
    have hstepd : (reach H P pre).phase = .waiting →
        (step H P (reach H P pre) (.datagram d)).phase = .returned (.reply p) := by
      intro hw
      rw [RV.Exchange.step_datagram_open H P _ d hw (hopen hw), hstep]
      rfl
    constructor
    · rw [RV.Exchange.reach_append, RV.Exchange.run_cons]
      apply RV.Exchange.run_isReturned
      cases hph : (reach H P pre).phase with
      | dialing => exact absurd hph hpast
      | waiting => exact (RV.Exchange.isReturned_iff _).2 ⟨_, hstepd hph⟩
      | returned r =>
        exact (RV.Exchange.isReturned_iff _).2 ⟨r, (RV.Exchange.step_returned H P _ _ r hph).1⟩
    · intro hw
      refine ⟨p, hparse, ?_⟩
      rw [RV.Exchange.reach_append, RV.Exchange.run_cons]
      exact (RV.Exchange.run_returned H P _ post _ (hstepd hw)).1
  · intro a b c d e dial hd hnd
    constructor
    · have : a ++ dial :: b ++ Event.ctxDone :: c ++ Event.helperObservesCtx :: d ++ Event.readError :: e
          = a ++ dial :: (b ++ Event.ctxDone :: c ++ Event.helperObservesCtx :: d) ++ Event.readError :: e := by
        simp
      rw [this]
      exact hre _ e (RV.Exchange.run_past_dial H P a _ dial hd)
    · intro hw
      have hflag : (reach H P (a ++ dial :: b ++ Event.ctxDone :: c)).ctxDone = true := by
        rw [RV.Exchange.reach_append, RV.Exchange.run_cons]
        exact RV.Exchange.run_ctxDone_sticky H P _ c (RV.Exchange.step_ctxDone_flag H P _)
      have hinv : RV.Exchange.Inv P (reach H P (a ++ dial :: b ++ Event.ctxDone :: c)) :=
        RV.Exchange.inv_run H P _
      have h2 := RV.Exchange.step_helper_closes H P _ hinv hw hflag
      have : a ++ dial :: b ++ Event.ctxDone :: c ++ Event.helperObservesCtx :: d ++ Event.readError :: e
          = (a ++ dial :: b ++ Event.ctxDone :: c) ++ Event.helperObservesCtx :: (d ++ Event.readError :: e) := by
        simp
      rw [this, RV.Exchange.reach_append, RV.Exchange.run_cons]
      exact RV.Exchange.ctxClosed_readError H P _ d e h2.1 hnd

/-- 6. Cleanup: when the call has returned its socket is closed (every close is recorded: the
    helper's and the deferred one) and stays closed; the context the helper waits on is done (the
    deferred `cancel()`), so the helper's exit is enabled; once the helper has taken that step it is
    gone for good. -/
theorem cleanup (evs : List Event) (h : isReturned (reach H P evs) = true) :
    (reach H P evs).connClosed = true ∧
    helperCtxDone (reach H P evs) = true ∧
    (∀ post, (reach H P (evs ++ .helperObservesCtx :: post)).helperAlive = false) ∧
    (∀ post, (reach H P (evs ++ post)).connClosed = true) := by
  have hinv : RV.Exchange.Inv P (reach H P evs) := RV.Exchange.inv_run H P evs
  obtain ⟨r, hr⟩ := (RV.Exchange.isReturned_iff _).1 h
  refine ⟨hinv.returned_closed h, ?_, ?_, ?_⟩
  · simp [helperCtxDone, hr]
  · intro post
    rw [RV.Exchange.reach_append, RV.Exchange.run_cons]
    apply RV.Exchange.run_helper_dead
    · rw [(RV.Exchange.step_returned H P _ .helperObservesCtx r hr).1]; simp
    · exact RV.Exchange.step_helper_exit H P _ r hr
  · intro post
    have hret : isReturned (reach H P (evs ++ post)) = true := by
      rw [RV.Exchange.reach_append]
      exact RV.Exchange.run_isReturned H P _ post h
    exact (RV.Exchange.inv_run H P (evs ++ post)).returned_closed hret

/-- The helper exists only after a successful dial, and only while the conn it will close exists. -/
theorem helper_only_after_dial (evs : List Event) (h : .dialOk ∉ evs) :
    (reach H P evs).helperAlive = false ∧ (reach H P evs).sent = [] := by
  have key := RV.Exchange.run_induction_on H P
    (fun s => s.phase ≠ .waiting ∧ s.helperAlive = false ∧ s.sent = []) (fun e => e ≠ .dialOk)
    (by
      intro s e he ⟨h1, h2, h3⟩
      rcases s with ⟨phase, sent, cc, ha, cd, ec⟩
      simp only at h1 h2 h3
      subst h2; subst h3
      cases phase with
      | waiting => exact absurd rfl h1
      | dialing => cases e <;> first | exact absurd rfl he | (unfold step; simp)
      | returned r => cases e <;> (unfold step; simp))
    (init P) evs (fun e he heq => h (heq ▸ he))
    (by unfold init; cases P.wire <;> simp)
  exact key.2

/-- An Encode refusal returns before anything happens: nothing is dialled, nothing sent, no helper. -/
theorem encode_error_returns_first (hw : ∀ w, P.wire ≠ .ok w) (evs : List Event) :
    (reach H P evs).phase = .returned .encodeErr ∧ (reach H P evs).sent = [] ∧
    (reach H P evs).helperAlive = false := by
  have h0 : (init P).phase = .returned .encodeErr ∧ (init P).sent = [] ∧ (init P).helperAlive = false := by
    unfold init
    cases hp : P.wire with
    | ok w => exact absurd hp (hw w)
    | err => simp
    | fault => simp
  have hr := RV.Exchange.run_returned H P (init P) evs _ h0.1
  refine ⟨hr.1, by unfold reach; rw [hr.2]; exact h0.2.1, ?_⟩
  exact RV.Exchange.run_helper_dead H P (init P) evs (by rw [h0.1]; simp) h0.2.2

/-! ### Non-vacuity (tests, evaluated by the kernel on a toy hash) -/
section examples

def toyH : Hash := fun x => (x ++ zeros 16).take 16
def reqWire : Bytes := [1, 7, 0, 20, 1, 2, 3, 4, 5, 6, 7, 8, 9, 10, 11, 12, 13, 14, 15, 16]
def goodReply : Bytes := [2, 7, 0, 20, 2, 7, 0, 20, 1, 2, 3, 4, 5, 6, 7, 8, 9, 10, 11, 12]
def garbage : Bytes := [1, 2, 3]
def P1 (retry maxErr : Int) : Params := ⟨⟨maxErr, false⟩, retry, .ok reqWire, [115]⟩

def isReply : Phase → Bool
  | .returned (.reply _) => true
  | _ => false

/-- silent peer, two retransmissions, cancellation: three identical datagrams, then the context's error -/
example : (run toyH (P1 5 0) (init (P1 5 0))
    [.dialOk, .tick, .tick, .ctxDone, .helperObservesCtx, .tick, .readError, .tick]).phase = .returned .ctxErr := by
  decide +kernel
example : (run toyH (P1 5 0) (init (P1 5 0))
    [.dialOk, .tick, .tick, .ctxDone, .helperObservesCtx, .tick, .readError, .tick]).sent = [reqWire, reqWire, reqWire] := by
  decide +kernel
/-- Retry = 0: ticks do nothing -/
example : (run toyH (P1 0 0) (init (P1 0 0)) [.dialOk, .tick, .tick, .datagram garbage, .tick]).sent = [reqWire] := by
  decide +kernel
/-- late reply after garbage -/
example : isReply (run toyH (P1 5 0) (init (P1 5 0)) [.dialOk, .tick, .datagram garbage, .datagram goodReply]).phase = true := by
  decide +kernel
/-- the window of 4c is real: the reply is returned although the context is already done -/
example : isReply (run toyH (P1 5 0) (init (P1 5 0)) [.dialOk, .ctxDone, .datagram goodReply]).phase = true := by
  decide +kernel
/-- … and so is the budget error -/
example : (run toyH (P1 5 1) (init (P1 5 1)) [.dialOk, .ctxDone, .datagram garbage]).phase = .returned (.pktErr .parseErr) := by
  decide +kernel
/-- closed port: the read error is returned as it is when the context is alive -/
example : (run toyH (P1 5 0) (init (P1 5 0)) [.dialOk, .readError]).phase = .returned .netErr := by
  decide +kernel
/-- already cancelled context: the dial fails and the context's error is preferred -/
example : (run toyH (P1 5 0) (init (P1 5 0)) [.ctxDone, .dialFail]).phase = .returned .ctxErr := by
  decide +kernel
example : (run toyH (P1 5 0) (init (P1 5 0)) [.dialFail]).phase = .returned .dialErr := by
  decide +kernel

end examples
end RV.C08

/-! ## The timed layer: "… at the configured interval"

  `RV.Exchange.Timed` (Model/ClientTimed.lean) refines the machine above with time stamps and with
  `time.Ticker` as client.go uses it: created at `dialOk` (instant `t0`) iff `Retry > 0`; firing number
  k is due at `t0 + k·d`; the runtime sends it on a channel of capacity 1 at some instant ≥ its due time
  (event `fire k`; a send into a full channel is dropped, late firings may be skipped); the helper
  receives it at some instant ≥ the send (event `ev .tick`).  `wellTimed` = a time-stamped sequence obeys
  these rules.  Theorems for EVERY well-timed sequence (induction, no bound on the length):
  the refinement, and WHEN writes can happen.  `writes` is the ghost list (instant, firing number) of
  every `conn.Write`, parallel to `sent`; `writes[0]` is the first write, `writes[i]` for i ≥ 1 the i-th
  retransmission.

  What is NOT here: how late the runtime and the scheduler are.  The upper bounds (never early, never
  more than one per interval) need nothing; the lower bound is conditional on an explicit latency
  hypothesis (`responsive`, `settled`).
-/
namespace RV.C08
open RV RV.Client RV.Exchange RV.Exchange.Timed

variable (H : Hash) (P : Params)

/-- T0. Refinement: forgetting time stamps and deliveries, a timed run IS a run of the untimed machine —
    so every theorem above holds of the logical part of every timed run. -/
theorem timed_refines (evs : List TEvent) :
    (treach H P evs).logic = reach H P (erase evs) ∧
    (treach H P evs).writes.length = (treach H P evs).logic.sent.length :=
  ⟨RV.Exchange.Timed.timed_refines H P evs, RV.Exchange.Timed.writes_parallel_sent H P evs⟩

/-- T1. Never early: the i-th retransmission does not happen before `t0 + i·d`. -/
theorem resend_not_early (evs : List TEvent) (hw : wellTimed H P evs = true)
    (i : Nat) (h : i < (treach H P evs).writes.length) :
    (treach H P evs).t0 + i * period P ≤ ((treach H P evs).writes[i]).1 :=
  RV.Exchange.Timed.resend_not_early H P evs hw i h

/-- T2. Never more than one per interval: a write that has happened by `T` has index ≤ `(T - t0) / d`;
    at most `1 + (T - t0) / d` writes have happened by `T`; and so for everything sent, at any instant
    not before the last event.  (With `Retry ≤ 0`, `d = 0` and `x / 0 = 0`: at most the first write.) -/
theorem resend_count_le (evs : List TEvent) (hw : wellTimed H P evs = true) (T : Nat) :
    (∀ i (h : i < (treach H P evs).writes.length), ((treach H P evs).writes[i]).1 ≤ T →
      i ≤ (T - (treach H P evs).t0) / period P) ∧
    (treach H P evs).writes.countP (fun w => decide (w.1 ≤ T)) ≤ 1 + (T - (treach H P evs).t0) / period P ∧
    ((treach H P evs).now ≤ T →
      (treach H P evs).logic.sent.length ≤ 1 + (T - (treach H P evs).t0) / period P) :=
  ⟨fun i h hT => RV.Exchange.Timed.resend_index_le H P evs hw T i h hT,
   RV.Exchange.Timed.resend_count_le H P evs hw T,
   RV.Exchange.Timed.sent_length_le H P evs hw T⟩

/-- T3. Spacing: consecutive writes are caused by different firings, the later with the larger number;
    each write is not before its firing was due; hence the next write is at least one interval after
    the DUE time of the previous one's tick, i.e. at least `d` minus the previous write's lateness after
    the previous write.  (Not `d` after the previous write: see `late_receive_then_quick_resend`.) -/
theorem resend_spacing_or_late (evs : List TEvent) (hw : wellTimed H P evs = true)
    (i : Nat) (h : i + 1 < (treach H P evs).writes.length) :
    let s := treach H P evs
    let a := s.writes[i]
    let b := s.writes[i + 1]
    a.2 < b.2 ∧ a.1 ≤ b.1 ∧ due P s a.2 ≤ a.1 ∧ due P s a.2 + period P ≤ b.1 ∧
      a.1 + period P ≤ b.1 + (a.1 - due P s a.2) :=
  RV.Exchange.Timed.resend_spacing_or_late H P evs hw i h

/-- T4. Lower bound under a latency hypothesis: positive interval, `L < d`; along the run nothing (the
    next firing, the tick in the channel) is ever overdue by more than `L` when something happens and no
    firing is skipped; the call still waits, its helper runs; at the instant `T` of the observation the
    deadline of what is outstanding has not been reached.  Then no tick was lost and at least
    `(T - t0 - L) / d` retransmissions have happened. -/
theorem resend_count_ge_under_latency (hr : P.retry > 0) (L : Nat) (hL : L < period P)
    (evs : List TEvent) (hw : wellTimed H P evs = true) (hresp : responsive H P L evs = true)
    (T : Nat) (hset : settled P L (treach H P evs) T = true)
    (hwait : (treach H P evs).logic.phase = .waiting)
    (halive : (treach H P evs).logic.helperAlive = true) :
    (∀ tk, (treach H P evs).ticker = some tk → tk.lost = 0) ∧
    (T - (treach H P evs).t0 - L) / period P ≤ (treach H P evs).logic.sent.length - 1 :=
  RV.Exchange.Timed.resend_count_ge_under_latency H P hr L hL evs hw hresp T hset hwait halive

/-- T5. `Retry ≤ 0`: no ticker exists, no delivery and no receive is ever enabled, no well-timed
    sequence contains one, at most the first write happens (`no_resend_without_retry` through T0). -/
theorem no_resend_without_retry_timed (hr : P.retry ≤ 0) (evs : List TEvent) (hw : wellTimed H P evs = true) :
    (treach H P evs).ticker = none ∧
    (∀ t k, enabled P (treach H P evs) (t, .fire k) = false) ∧
    (∀ t, enabled P (treach H P evs) (t, .ev .tick) = false) ∧
    (∀ te, te ∈ evs → te.2 ≠ .ev .tick ∧ ∀ k, te.2 ≠ .fire k) ∧
    (treach H P evs).logic.sent.length ≤ 1 :=
  RV.Exchange.Timed.no_resend_without_retry_timed H P hr evs hw

/-- T6. Tie to the observation: whatever is SEEN of a well-timed run — each write at an instant not before
    it happened, the end not before the last event, on a clock whose origin is not after `t0` —
    satisfies the two predicates `RV.Driver.c08` evaluates on the harness's raw numbers, with any
    allowance. -/
theorem observation_within_model_bounds (evs : List TEvent) (hw : wellTimed H P evs = true)
    (c : Nat) (hc : c ≤ (treach H P evs).t0) (arr : List Nat) (fin tol : Nat)
    (hlen : arr.length = (treach H P evs).writes.length)
    (harr : ∀ i (h1 : i < arr.length) (h2 : i < (treach H P evs).writes.length),
      ((treach H P evs).writes[i]).1 ≤ c + arr[i])
    (hfin : (treach H P evs).now ≤ c + fin) :
    obsNotEarly (period P) tol arr = true ∧ obsCountOk (period P) tol fin arr = true :=
  RV.Exchange.Timed.observation_within_model_bounds H P evs hw c hc arr fin tol hlen harr hfin

/-- T6'. The same for a LOSSY observer: UDP may lose datagrams, and a peer that goes away (`vanish`, `deaf`)
    sees a prefix only.  `ws` is any subsequence of the writes (what reached the observer, in order), `arr`
    the instants at which it was seen.  The i-th observed datagram is write number ≥ i, hence not before
    `i·d`; fewer observations than writes: both predicates of the driver still hold. -/
theorem observation_within_model_bounds_lossy (evs : List TEvent) (hw : wellTimed H P evs = true)
    (c : Nat) (hc : c ≤ (treach H P evs).t0) (ws : List (Nat × Nat)) (arr : List Nat) (fin tol : Nat)
    (hsub : ws.Sublist (treach H P evs).writes)
    (hlen : arr.length = ws.length)
    (harr : ∀ i (h1 : i < arr.length) (h2 : i < ws.length), (ws[i]).1 ≤ c + arr[i])
    (hfin : (treach H P evs).now ≤ c + fin) :
    obsNotEarly (period P) tol arr = true ∧ obsCountOk (period P) tol fin arr = true :=
  RV.Exchange.Timed.observation_within_model_bounds_lossy H P evs hw c hc ws arr fin tol hsub hlen harr hfin

/-- … with the observer given as a strictly increasing index map (observation `i` is write number `f i`). -/
theorem observation_within_model_bounds_lossy_idx (evs : List TEvent) (hw : wellTimed H P evs = true)
    (c : Nat) (hc : c ≤ (treach H P evs).t0) (arr : List Nat) (f : Nat → Nat) (fin tol : Nat)
    (hmono : ∀ i j, i < j → j < arr.length → f i < f j)
    (hrange : ∀ i, i < arr.length → f i < (treach H P evs).writes.length)
    (harr : ∀ i (h1 : i < arr.length) (h2 : f i < (treach H P evs).writes.length),
      ((treach H P evs).writes[f i]).1 ≤ c + arr[i])
    (hfin : (treach H P evs).now ≤ c + fin) :
    obsNotEarly (period P) tol arr = true ∧ obsCountOk (period P) tol fin arr = true :=
  RV.Exchange.Timed.observation_within_model_bounds_lossy_idx H P evs hw c hc arr f fin tol hmono hrange harr hfin

/-- T7. The LOWER bound on an observation — what would be asserted on a quiet machine; a theorem only, the
    driver does not evaluate `obsCountGe` (a loaded sandbox does not meet the latency hypothesis; a ticker
    that is merely slower than `Retry` is caught by the regenerated fact `tickerPeriodIsRetry`,
    Facts/TieC08.lean).  Under the hypotheses of T4, a LOSSLESS observer whose estimate `t0'` of the first
    write is not before it (e.g. the first arrival) and who looks at `c + fin ≤ T` has seen at least
    `1 + (fin - t0' - L) / d` datagrams. -/
theorem observation_lower_bound_under_latency (hr : P.retry > 0) (L : Nat) (hL : L < period P)
    (evs : List TEvent) (hw : wellTimed H P evs = true) (hresp : responsive H P L evs = true)
    (T : Nat) (hset : settled P L (treach H P evs) T = true)
    (hwait : (treach H P evs).logic.phase = .waiting)
    (halive : (treach H P evs).logic.helperAlive = true)
    (c t0' fin : Nat) (arr : List Nat)
    (hlen : arr.length = (treach H P evs).writes.length)
    (ht0 : (treach H P evs).t0 ≤ c + t0')
    (hfin : c + fin ≤ T) :
    obsCountGe (period P) L t0' fin arr = true :=
  RV.Exchange.Timed.observation_lower_bound_under_latency H P hr L hL evs hw hresp T hset hwait halive
    c t0' fin arr hlen ht0 hfin

/-! ### Non-vacuity of the timed layer (interval 5, toy hash, evaluated by the kernel) -/
section timed_examples

/-- a punctual run: three firings, each received within 2 -/
def punctualRun : List TEvent :=
  [(10, .ev .dialOk), (15, .fire 1), (16, .ev .tick), (20, .fire 2), (22, .ev .tick), (25, .fire 3), (25, .ev .tick)]

example : wellTimed toyH (P1 5 0) punctualRun = true := by decide +kernel
example : (treach toyH (P1 5 0) punctualRun).writes = [(10, 0), (16, 1), (22, 2), (25, 3)] := by decide +kernel
example : (treach toyH (P1 5 0) punctualRun).logic.sent = [reqWire, reqWire, reqWire, reqWire] := by decide +kernel
/-- the hypotheses of T4 are satisfiable, and its bound is attained: (29 - 10 - 2) / 5 = 3 retransmissions -/
example : responsive toyH (P1 5 0) 2 punctualRun = true ∧ settled (P1 5 0) 2 (treach toyH (P1 5 0) punctualRun) 29 = true ∧
    (treach toyH (P1 5 0) punctualRun).logic.phase = .waiting ∧
    (treach toyH (P1 5 0) punctualRun).logic.helperAlive = true ∧
    (29 - (treach toyH (P1 5 0) punctualRun).t0 - 2) / period (P1 5 0) = 3 := by decide +kernel
/-- … and the upper bound T2 is attained as well: 4 writes = 1 + (25 - 10) / 5 -/
example : (treach toyH (P1 5 0) punctualRun).logic.sent.length = 1 + (25 - 10) / period (P1 5 0) := by decide +kernel

/-- a dropped tick: firing 2 finds firing 1 still in the channel; the helper receives firing 1 late (at 12)
    and firing 3 at once (at 15) -/
def lateRun : List TEvent :=
  [(0, .ev .dialOk), (5, .fire 1), (10, .fire 2), (12, .ev .tick), (15, .fire 3), (15, .ev .tick)]

example : wellTimed toyH (P1 5 0) lateRun = true := by decide +kernel
example : (treach toyH (P1 5 0) lateRun).ticker = some { next := 4, chan := none, taken := 2, lost := 1 } := by
  decide +kernel
/-- two retransmissions only 3 < 5 apart (T3 allows it: the first was 7 late) -/
theorem late_receive_then_quick_resend :
    wellTimed toyH (P1 5 0) lateRun = true ∧
    (treach toyH (P1 5 0) lateRun).writes = [(0, 0), (12, 1), (15, 3)] := by decide +kernel
/-- … and this run is not `responsive` for any latency below the interval -/
example : responsive toyH (P1 5 0) 4 lateRun = false := by decide +kernel

/-- the runtime skips firings 1 and 2 -/
example : wellTimed toyH (P1 5 0) [(0, .ev .dialOk), (17, .fire 3), (17, .ev .tick)] = true ∧
    (treach toyH (P1 5 0) [(0, .ev .dialOk), (17, .fire 3), (17, .ev .tick)]).writes = [(0, 0), (17, 3)] := by
  decide +kernel

/-- what `wellTimed` rules out: a receive with nothing in the channel, a delivery before it is due, a delivery
    out of order, time running backwards, a delivery after the return, anything of the ticker when `Retry ≤ 0` -/
example : wellTimed toyH (P1 5 0) [(0, .ev .dialOk), (7, .ev .tick)] = false := by decide +kernel
example : wellTimed toyH (P1 5 0) [(0, .ev .dialOk), (4, .fire 1)] = false := by decide +kernel
example : wellTimed toyH (P1 5 0) [(0, .ev .dialOk), (10, .fire 2), (10, .fire 1)] = false := by decide +kernel
example : wellTimed toyH (P1 5 0) [(3, .ev .dialOk), (2, .ev .ctxDone)] = false := by decide +kernel
example : wellTimed toyH (P1 5 0) [(0, .ev .dialOk), (1, .ev .readError), (5, .fire 1)] = false := by decide +kernel
example : wellTimed toyH (P1 5 0) [(0, .ev .dialOk), (5, .fire 1), (6, .ev .tick), (6, .ev .tick)] = false := by
  decide +kernel
example : wellTimed toyH (P1 0 0) [(0, .ev .dialOk), (5, .fire 1)] = false := by decide +kernel
example : wellTimed toyH (P1 0 0) [(0, .ev .dialOk), (5, .ev .tick)] = false := by decide +kernel
example : wellTimed toyH (P1 (-1) 0) [(0, .ev .dialOk), (5, .ev .tick)] = false := by decide +kernel
/-- a tick received after the return writes nothing (the conn is closed), and the helper then exits -/
example : wellTimed toyH (P1 5 0)
      [(0, .ev .dialOk), (5, .fire 1), (6, .ev .readError), (7, .ev .tick), (8, .ev .helperObservesCtx)] = true ∧
    (treach toyH (P1 5 0)
      [(0, .ev .dialOk), (5, .fire 1), (6, .ev .readError), (7, .ev .tick), (8, .ev .helperObservesCtx)]).writes = [(0, 0)] := by
  decide +kernel
/-- erasure -/
example : erase lateRun = [.dialOk, .tick, .tick] := by decide +kernel
/-- the driver's predicates on numbers: on time, one millisecond early, one too many -/
example : obsNotEarly 5 0 [0, 5, 11, 15] = true ∧ obsCountOk 5 0 15 [0, 5, 11, 15] = true := by decide
example : obsNotEarly 5 0 [0, 5, 9] = false ∧ obsNotEarly 5 1 [0, 5, 9] = true := by decide
example : obsCountOk 5 0 14 [0, 5, 11, 14] = false := by decide

/-- a lossy observer of `punctualRun` (clock origin 10 = t0): the second write (at 16) is lost; what it saw
    of the others — at 10, 22, 25, i.e. 0, 12, 15 on its clock — is a subsequence of the writes, each seen
    not before it happened, and satisfies the driver's predicates with no allowance (T6') -/
example : [(10, 0), (22, 2), (25, 3)].Sublist (treach toyH (P1 5 0) punctualRun).writes ∧
    obsNotEarly 5 0 [0, 12, 15] = true ∧ obsCountOk 5 0 15 [0, 12, 15] = true := by decide +kernel
/-- … whereas an observer that sees the third datagram before 2·d after losing nothing is refused -/
example : obsNotEarly 5 0 [0, 6, 9] = false := by decide
/-- the lower bound on numbers (T7): `punctualRun` seen without loss at 29 with latency 2 — 1 + (29-10-2)/5 = 4
    datagrams are demanded and 4 were seen; one fewer is refused -/
example : obsCountGe 5 2 10 29 [10, 16, 22, 25] = true ∧ obsCountGe 5 2 10 29 [10, 16, 22] = false := by decide

end timed_examples
end RV.C08
