/-
  C10 — Typed value codecs round-trip, reject the unrepresentable, stay in bounds.
  One block of theorems per codec: `*_roundtrip` (decode ∘ encode = canonical value, with the size
  bound of the emitted value), `*_enc_ok_iff` (the encoder errs iff the value is unrepresentable),
  `*_dec_ok_iff` (the decoder accepts exactly the wire format).
-/
import RV.Model.Codec
import RV.Proofs.Codec
namespace RV.C10
open RV

/-! ### 16/32/64-bit integers (the Go encoders take uintN, so the domain is `v < 2^N`) -/
theorem short_roundtrip (v : Nat) (h : v < 2 ^ 16) : (newShort v).length = 2 ∧ short (newShort v) = .ok v := by
  exact ⟨beBytes_length _ _, short_newShort v h⟩
theorem integer_roundtrip (v : Nat) (h : v < 2 ^ 32) : (newInteger v).length = 4 ∧ integer (newInteger v) = .ok v := by
  exact ⟨beBytes_length _ _, integer_newInteger v h⟩
theorem integer64_roundtrip (v : Nat) (h : v < 2 ^ 64) : (newInteger64 v).length = 8 ∧ integer64 (newInteger64 v) = .ok v := by
  exact ⟨beBytes_length _ _, integer64_newInteger64 v h⟩
theorem short_dec_ok_iff (a : Bytes) : (∃ v, short a = .ok v) ↔ a.length = 2 := by
  unfold short; split <;> simp_all
theorem integer_dec_ok_iff (a : Bytes) : (∃ v, integer a = .ok v) ↔ a.length = 4 := by
  unfold integer; split <;> simp_all
theorem integer64_dec_ok_iff (a : Bytes) : (∃ v, integer64 a = .ok v) ↔ a.length = 8 := by
  unfold integer64; split <;> simp_all
/-- the decoders are injective on their wire format: re-encoding the decoded value gives the bytes back -/
theorem integer_enc_dec (a : Bytes) (v : Nat) (h : integer a = .ok v) : v < 2 ^ 32 ∧ newInteger v = a := by
  exact integer_enc_dec' a v h
theorem short_enc_dec (a : Bytes) (v : Nat) (h : short a = .ok v) : v < 2 ^ 16 ∧ newShort v = a := by
  exact short_enc_dec' a v h
theorem integer64_enc_dec (a : Bytes) (v : Nat) (h : integer64 a = .ok v) : v < 2 ^ 64 ∧ newInteger64 v = a := by
  exact integer64_enc_dec' a v h

/-! ### text and octets -/
theorem string_enc_ok_iff (s : Bytes) : (∃ a, newString s = .ok a) ↔ s.length ≤ 253 := by
  unfold newString; split <;> simp_all <;> omega
theorem string_roundtrip (s a : Bytes) (h : newString s = .ok a) : a.length ≤ 253 ∧ stringOf a = s := by
  unfold newString at h; split at h <;> simp_all [stringOf] <;> omega
theorem bytes_enc_ok_iff (s : Bytes) : (∃ a, newBytes s = .ok a) ↔ s.length ≤ 253 := by
  unfold newBytes; split <;> simp_all <;> omega
theorem bytes_roundtrip (s a : Bytes) (h : newBytes s = .ok a) : a.length ≤ 253 ∧ bytesOf a = s := by
  unfold newBytes at h; split at h <;> simp_all [bytesOf] <;> omega

/-! ### IPv4 / IPv6 addresses (equality is Go's `IP.Equal`: a 4-byte address equals its v4-mapped form) -/
theorem ipaddr_enc_ok_iff (ip : Bytes) :
    (∃ a, newIPAddr ip = .ok a) ↔ (ip.length = 4 ∨ (ip.length = 16 ∧ ip.take 12 = v4InV6Prefix)) := by
  unfold newIPAddr to4
  by_cases h4 : ip.length = 4 <;> by_cases h16 : (ip.length = 16 ∧ ip.take 12 = v4InV6Prefix) <;> simp [h4, h16]
theorem ipaddr_roundtrip (ip a : Bytes) (h : newIPAddr ip = .ok a) :
    a.length = 4 ∧ ∃ d, ipAddr a = .ok d ∧ ipEqual d ip = true := by
  exact ipaddr_roundtrip' ip a h
theorem ipaddr_dec_ok_iff (a : Bytes) : (∃ d, ipAddr a = .ok d) ↔ a.length = 4 := by
  unfold ipAddr; split <;> simp_all
theorem ipv6addr_enc_ok_iff (ip : Bytes) : (∃ a, newIPv6Addr ip = .ok a) ↔ (ip.length = 4 ∨ ip.length = 16) := by
  unfold newIPv6Addr to16
  by_cases h4 : ip.length = 4 <;> by_cases h16 : ip.length = 16 <;> simp [h4, h16]
theorem ipv6addr_roundtrip (ip a : Bytes) (h : newIPv6Addr ip = .ok a) :
    a.length = 16 ∧ ∃ d, ipv6Addr a = .ok d ∧ ipEqual d ip = true := by
  exact ipv6addr_roundtrip' ip a h
theorem ipv6addr_dec_ok_iff (a : Bytes) : (∃ d, ipv6Addr a = .ok d) ↔ a.length = 16 := by
  unfold ipv6Addr; split <;> simp_all

/-! ### interface-id -/
theorem ifid_enc_ok_iff (x : Bytes) : (∃ a, newIFID x = .ok a) ↔ x.length = 8 := by
  unfold newIFID; split <;> simp_all
theorem ifid_roundtrip (x a : Bytes) (h : newIFID x = .ok a) : a.length = 8 ∧ ifid a = .ok x := by
  unfold newIFID at h; split at h <;> simp_all [ifid]
theorem ifid_dec_ok_iff (a : Bytes) : (∃ d, ifid a = .ok d) ↔ a.length = 8 := by
  unfold ifid; split <;> simp_all

/-! ### date (seconds since 1970 as an unsigned 32-bit number) -/
theorem date_enc_ok_iff (u : Int) : (∃ a, newDate u = .ok a) ↔ (0 ≤ u ∧ u < 2 ^ 32) := by
  unfold newDate; repeat' split
  all_goals simp_all
  all_goals omega
theorem date_roundtrip (u : Int) (a : Bytes) (h : newDate u = .ok a) : a.length = 4 ∧ date a = .ok u := by
  exact date_roundtrip' u a h
theorem date_dec_ok_iff (a : Bytes) : (∃ d, date a = .ok d) ↔ a.length = 4 := by
  unfold date; split <;> simp_all

/-! ### vendor-specific -/
theorem vsa_enc_ok_iff (id : Nat) (v : Bytes) :
    (∃ a, newVendorSpecific id v = .ok a) ↔ (1 ≤ v.length ∧ v.length ≤ 249) := by
  unfold newVendorSpecific; repeat' split
  all_goals simp_all [-List.length_eq_zero_iff]
  all_goals omega
theorem vsa_roundtrip (id : Nat) (v a : Bytes) (hid : id < 2 ^ 32) (h : newVendorSpecific id v = .ok a) :
    a.length ≤ 253 ∧ vendorSpecific a = .ok (id, v) := by
  exact vsa_roundtrip' id v a hid h
theorem vsa_dec_ok_iff (a : Bytes) : (∃ r, vendorSpecific a = .ok r) ↔ 5 ≤ a.length := by
  unfold vendorSpecific; split <;> simp_all <;> omega

/-! ### TLV -/
theorem tlv_enc_ok_iff (t : UInt8) (v : Bytes) :
    (∃ a, newTLV t v = .ok a) ↔ (1 ≤ v.length ∧ v.length ≤ 253) := by
  unfold newTLV; split
  all_goals simp_all [-List.length_eq_zero_iff]
  all_goals omega
theorem tlv_roundtrip (t : UInt8) (v a : Bytes) (h : newTLV t v = .ok a) :
    a.length ≤ 255 ∧ tlv a = .ok (t, v) := by
  exact tlv_roundtrip' t v a h
theorem tlv_dec_ok_iff (a : Bytes) :
    (∃ r, tlv a = .ok r) ↔ (3 ≤ a.length ∧ a.length ≤ 255 ∧ (a.getD 1 0).toNat = a.length) := by
  unfold tlv; split <;> simp_all <;> omega

/-! ### IPv6 prefix -/

/-- `ip` with every bit beyond the first `n` cleared -/
def maskIP (ip : Bytes) (n : Nat) : Bytes :=
  (List.range ip.length).map fun i =>
    if (i + 1) * 8 ≤ n then ip.getD i 0
    else if i * 8 ≥ n then 0
    else clearFrom (ip.getD i 0) (n - i * 8)

theorem prefix_nil_refused : newIPv6Prefix none = .err := by
  rfl
/-- representable ⇔ a 16-byte address with a 16-byte ones-then-zeros mask -/
theorem prefix_enc_ok_iff (ip mask : Bytes) :
    (∃ a, newIPv6Prefix (some (ip, mask)) = .ok a) ↔
      (ip.length = 16 ∧ mask.length = 16 ∧ (maskOnes mask).isSome = true) := by
  exact prefix_enc_ok_iff' ip mask
/-- round trip: the address comes back with its host bits cleared, under the same mask; the emitted
    value is at most 18 bytes -/
theorem prefix_roundtrip (ip mask a : Bytes) (n : Nat) (hn : maskOnes mask = some n)
    (h : newIPv6Prefix (some (ip, mask)) = .ok a) :
    a.length ≤ 18 ∧ ipv6Prefix a = .ok (maskIP ip n, mask) := by
  exact prefix_roundtrip' ip mask a n hn h
/-- the decoder accepts exactly: 2..18 bytes, prefix length ≤ 128, every bit beyond the prefix
    length zero (the reserved first octet is not inspected) -/
theorem prefix_dec_ok_iff (a : Bytes) :
    (∃ r, ipv6Prefix a = .ok r) ↔
      (2 ≤ a.length ∧ a.length ≤ 18 ∧ (a.getD 1 0).toNat ≤ 128 ∧
       hostBitsZero (a.drop 2 ++ zeros (16 - (a.length - 2))) (a.getD 1 0).toNat = true) := by
  exact prefix_dec_ok_iff' a

/-! ### no decoder or encoder panics -/
theorem never_faults (a : Bytes) :
    short a ≠ .fault ∧ integer a ≠ .fault ∧ integer64 a ≠ .fault ∧ ipAddr a ≠ .fault ∧ ipv6Addr a ≠ .fault ∧
    ifid a ≠ .fault ∧ date a ≠ .fault ∧ vendorSpecific a ≠ .fault ∧ tlv a ≠ .fault ∧ ipv6Prefix a ≠ .fault := by
  exact never_faults' a

/-! Non-vacuity (tests) -/
example : newDate 1700000000 = .ok [0x65, 0x53, 0xf1, 0x00] := by
  decide
example : ∃ a, newIPv6Prefix (some (List.replicate 16 0xff, cidrMask 61)) = .ok a := by
  exact (prefix_enc_ok_iff _ _).2 ⟨by decide, by decide, by decide⟩

end RV.C10
