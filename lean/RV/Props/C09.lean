/-
  C09 — the attribute list behaves as an ordered multimap and encodes in list order.
  The model functions (`Attrs.del`, `Attrs.set`, …) are the Go loops of attributes.go (index walk
  with in-place removal); the `Spec.*` functions are the ordered-multimap reading of the statement.
-/
import RV.Model.Wire
import RV.Proofs.Wire
namespace RV.C09
open RV

/-- operations of the list API -/
inductive Op where
  | add (k : Int) (v : Bytes)
  | del (k : Int)
  | set (k : Int) (v : Bytes)

def Op.key : Op → Int
  | .add k _ => k
  | .del k => k
  | .set k _ => k

def stepModel (as : Attrs) : Op → Attrs
  | .add k v => as.add k v
  | .del k => as.del k
  | .set k v => as.set k v

def stepSpec (as : Attrs) : Op → Attrs
  | .add k v => as ++ [⟨k, v⟩]
  | .del k => Spec.del as k
  | .set k v => Spec.set as k v

/-- Add appends. -/
theorem add_spec (as : Attrs) (k : Int) (v : Bytes) : as.add k v = as ++ [⟨k, v⟩] := by
  rfl

/-- Del (the in-place loop) removes exactly the attributes of the type. -/
theorem del_spec (as : Attrs) (k : Int) : as.del k = as.filter (fun a => a.typ ≠ k) := by
  exact del_eq_filter as k

/-- Set (the in-place loop) replaces the first occurrence, removes the others, appends when absent. -/
theorem set_spec (as : Attrs) (k : Int) (v : Bytes) : as.set k v = Spec.set as k v := by
  exact set_eq_spec as k v

/-- Lookup / Get return the first attribute of the type, or report absence. -/
theorem lookup_spec (as : Attrs) (k : Int) :
    as.lookup k = (as.find? (fun a => a.typ = k)).map (·.val) := by
  exact lookup_eq_find as k

theorem get_spec (as : Attrs) (k : Int) :
    as.get k = ((as.find? (fun a => a.typ = k)).map (·.val)).getD [] := by
  rw [Attrs.get, lookup_eq_find]

/-- Set leaves exactly one attribute of the type, carrying the new value. -/
theorem set_exactly_one (as : Attrs) (k : Int) (v : Bytes) :
    (as.set k v).filter (fun a => a.typ = k) = [⟨k, v⟩] := by
  rw [set_eq_spec]; exact specSet_filter_eq as k v

theorem set_then_lookup (as : Attrs) (k : Int) (v : Bytes) : (as.set k v).lookup k = some v := by
  rw [lookup_of_filter, set_eq_spec, specSet_filter_eq]; rfl

/-- Del removes every attribute of the type. -/
theorem del_none_left (as : Attrs) (k : Int) : (as.del k).lookup k = none := by
  rw [lookup_of_filter, del_eq_filter, List.filter_filter]; simp

/-- None of the operations changes the value or relative order of attributes of other types. -/
theorem others_untouched (as : Attrs) (o : Op) :
    (stepModel as o).filter (fun a => a.typ ≠ o.key) = as.filter (fun a => a.typ ≠ o.key) := by
  cases o with
  | add k v => simp [stepModel, Op.key, Attrs.add]
  | del k => simp only [stepModel, Op.key, del_eq_filter]; exact filter_ne_idem as k
  | set k v => simp only [stepModel, Op.key, set_eq_spec]; exact specSet_filter_ne as k v

/-- Any operation sequence: the Go loops and the ordered-multimap specification agree. -/
theorem ops_refine_spec (as : Attrs) (ops : List Op) :
    ops.foldl stepModel as = ops.foldl stepSpec as := by
  induction ops generalizing as with
  | nil => rfl
  | cons o ops ih =>
    have h : stepModel as o = stepSpec as o := by
      cases o <;> simp [stepModel, stepSpec, Attrs.add, del_eq_filter, set_eq_spec, Spec.del]
    simp only [List.foldl_cons, h, ih]

/-- The wire form lists, in list order, exactly the attributes whose type is within 0-255, and the
    reported length equals the bytes written. -/
theorem wire_form (as : Attrs) (n : Nat) (h : encodedLen as = .ok n) :
    encodeTo as (zeros n) = .ok (((as.filter validType).map avpBytes).flatten) ∧
      (((as.filter validType).map avpBytes).flatten).length = n := by
  rw [← encodeBytes_eq_flatten]; exact encodeTo_of_encodedLen as n h

/-! Non-vacuity (tests) -/
example : Attrs.del [⟨1, [1]⟩, ⟨2, []⟩, ⟨1, [2]⟩, ⟨1, [3]⟩] 1 = [⟨2, []⟩] := by
  simp [del_eq_filter]
example : Attrs.set [⟨1, [1]⟩, ⟨2, []⟩, ⟨1, [2]⟩] 1 [9] = [⟨1, [9]⟩, ⟨2, []⟩] := by
  rw [set_eq_spec]; simp [Spec.set, Spec.setAux]

end RV.C09
