/-
  C09 — the attribute list behaves as an ordered multimap and encodes in list order.
  The model functions (`Attrs.del`, `Attrs.set`, …) are the Go loops of attributes.go (index walk
  with in-place removal); the `Spec.*` functions are the ordered-multimap reading of the statement.
-/
import RV.Model.Wire
import RV.Proofs.Wire
namespace RV.C09
open RV

/-- operations of the list API -/
inductive Op where
  | add (k : Int) (v : Bytes)
  | del (k : Int)
  | set (k : Int) (v : Bytes)

def Op.key : Op → Int
  | .add k _ => k
  | .del k => k
  | .set k _ => k

def stepModel (as : Attrs) : Op → Attrs
  | .add k v => as.add k v
  | .del k => as.del k
  | .set k v => as.set k v

def stepSpec (as : Attrs) : Op → Attrs
  | .add k v => as ++ [⟨k, v⟩]
  | .del k => Spec.del as k
  | .set k v => Spec.set as k v

/-- Add appends. -/
theorem add_spec (as : Attrs) (k : Int) (v : Bytes) : as.add k v = as ++ [⟨k, v⟩] := by
  rfl

/-- Del (the in-place loop) removes exactly the attributes of the type. -/
theorem del_spec (as : Attrs) (k : Int) : as.del k = as.filter (fun a => a.typ ≠ k) := by
  exact del_eq_filter as k

/-- Set (the in-place loop) replaces the first occurrence, removes the others, appends when absent. -/
theorem set_spec (as : Attrs) (k : Int) (v : Bytes) : as.set k v = Spec.set as k v := by
  exact set_eq_spec as k v

/-- Lookup / Get return the first attribute of the type, or report absence. -/
theorem lookup_spec (as : Attrs) (k : Int) :
    as.lookup k = (as.find? (fun a => a.typ = k)).map (·.val) := by
  exact lookup_eq_find as k

theorem get_spec (as : Attrs) (k : Int) :
    as.get k = ((as.find? (fun a => a.typ = k)).map (·.val)).getD [] := by
  rw [Attrs.get, lookup_eq_find]

/-- Set leaves exactly one attribute of the type, carrying the new value. -/
theorem set_exactly_one (as : Attrs) (k : Int) (v : Bytes) :
    (as.set k v).filter (fun a => a.typ = k) = [⟨k, v⟩] := by
  rw [set_eq_spec]; exact specSet_filter_eq as k v

theorem set_then_lookup (as : Attrs) (k : Int) (v : Bytes) : (as.set k v).lookup k = some v := by
  rw [lookup_of_filter, set_eq_spec, specSet_filter_eq]; rfl

/-- Del removes every attribute of the type. -/
theorem del_none_left (as : Attrs) (k : Int) : (as.del k).lookup k = none := by
  rw [lookup_of_filter, del_eq_filter, List.filter_filter]; simp

/-- None of the operations changes the value or relative order of attributes of other types. -/
theorem others_untouched (as : Attrs) (o : Op) :
    (stepModel as o).filter (fun a => a.typ ≠ o.key) = as.filter (fun a => a.typ ≠ o.key) := by
  cases o with
  | add k v => simp [stepModel, Op.key, Attrs.add]
  | del k => simp only [stepModel, Op.key, del_eq_filter]; exact filter_ne_idem as k
  | set k v => simp only [stepModel, Op.key, set_eq_spec]; exact specSet_filter_ne as k v

/-- Any operation sequence: the Go loops and the ordered-multimap specification agree. -/
theorem ops_refine_spec (as : Attrs) (ops : List Op) :
    ops.foldl stepModel as = ops.foldl stepSpec as := by
  induction ops generalizing as with
  | nil => rfl
  | cons o ops ih =>
    have h : stepModel as o = stepSpec as o := by
      cases o <;> simp [stepModel, stepSpec, Attrs.add, del_eq_filter, set_eq_spec, Spec.del]
    simp only [List.foldl_cons, h, ih]

/-- The wire form lists, in list order, exactly the attributes whose type is within 0-255, and the
    reported length equals the bytes written. -/
theorem wire_form (as : Attrs) (n : Nat) (h : encodedLen as = .ok n) :
    encodeTo as (zeros n) = .ok (((as.filter validType).map avpBytes).flatten) ∧
      (((as.filter validType).map avpBytes).flatten).length = n := by
  rw [← encodeBytes_eq_flatten]; exact encodeTo_of_encodedLen as n h

/-! ### Algebraic laws (corollaries; every one is a statement about the Go loops) -/

theorem del_idem (as : Attrs) (k : Int) : (as.del k).del k = as.del k := by
  simp only [del_eq_filter]; exact filter_ne_idem as k

theorem del_comm (as : Attrs) (j k : Int) : (as.del j).del k = (as.del k).del j := by
  simp only [del_eq_filter, List.filter_filter]
  congr 1; funext a; exact Bool.and_comm _ _

theorem add_then_del (as : Attrs) (k : Int) (v : Bytes) : (as.add k v).del k = as.del k := by
  simp [del_eq_filter, Attrs.add]

theorem set_after_del (as : Attrs) (k : Int) (v : Bytes) :
    (as.del k).set k v = as.del k ++ [⟨k, v⟩] := by
  rw [set_eq_spec, del_eq_filter]; unfold Spec.set
  have : (as.filter (fun a => a.typ ≠ k)).any (fun a => a.typ = k) = false := by
    simp [List.any_filter]
  rw [this]; simp

theorem del_after_set (as : Attrs) (k : Int) (v : Bytes) : (as.set k v).del k = as.del k := by
  rw [del_eq_filter, del_eq_filter, set_eq_spec]; exact specSet_filter_ne as k v

theorem del_length_le (as : Attrs) (k : Int) : (as.del k).length ≤ as.length := by
  rw [del_eq_filter]; exact List.length_filter_le _ _

/-- Set twice: the second value wins and the position is the same as a single Set. -/
theorem set_set (as : Attrs) (k : Int) (v w : Bytes) : (as.set k v).set k w = as.set k w := by
  simp only [set_eq_spec]
  unfold Spec.set
  by_cases h : as.any (fun a => a.typ = k) = true
  · rw [if_pos h, if_pos (setAux_any k v as h), if_pos h, setAux_setAux]
  · have h' : as.any (fun a => a.typ = k) = false := by simpa using h
    rw [if_neg h]
    have : (as ++ [(⟨k, v⟩ : AVP)]).any (fun a => a.typ = k) = true := by simp
    rw [if_pos this, setAux_append_absent k v w as h', if_neg h]

theorem set_idem (as : Attrs) (k : Int) (v : Bytes) : (as.set k v).set k v = as.set k v :=
  set_set as k v v

/-- Set and Del of one type leave every other type's first value as it was. -/
theorem lookup_other (as : Attrs) (o : Op) (j : Int) (hj : j ≠ o.key) :
    (stepModel as o).lookup j = as.lookup j :=
  lookup_other_of_filter_ne as (stepModel as o) j o.key hj (others_untouched as o)

/-- Add never shadows a value that is already there: the first value of the type stays the first. -/
theorem add_keeps_first (as : Attrs) (k : Int) (v x : Bytes) (h : as.lookup k = some x) :
    (as.add k v).lookup k = some x := by
  rw [lookup_eq_find] at h ⊢
  simp only [Attrs.add, List.find?_append]
  cases hf : as.find? (fun a => a.typ = k) with
  | none => rw [hf] at h; cases h
  | some a => rw [hf] at h; simpa using h

/-- Any operation sequence that never names type `j` leaves the attributes of type `j` — their
    values, their number and their order — exactly as they were. -/
theorem untouched_by_sequence (as : Attrs) (ops : List Op) (j : Int) (h : ∀ o ∈ ops, o.key ≠ j) :
    (ops.foldl stepModel as).filter (fun a => a.typ = j) = as.filter (fun a => a.typ = j) := by
  induction ops generalizing as with
  | nil => rfl
  | cons o ops ih =>
    rw [List.foldl_cons, ih _ (fun o' ho' => h o' (List.mem_cons_of_mem _ ho'))]
    exact attrsFilter_eq_of_filter_ne as (stepModel as o) j o.key
      (fun e => h o List.mem_cons_self e.symm) (others_untouched as o)

/-- After any operation sequence, the value `Lookup` reports for a type is decided by the LAST
    `Set`/`Del` of that type only when one exists: a trailing `Set` always wins. -/
theorem last_set_wins (as : Attrs) (ops : List Op) (k : Int) (v : Bytes) :
    ((ops ++ [Op.set k v]).foldl stepModel as).lookup k = some v := by
  rw [List.foldl_append]; exact set_then_lookup _ k v

theorem last_del_wins (as : Attrs) (ops : List Op) (k : Int) :
    ((ops ++ [Op.del k]).foldl stepModel as).lookup k = none := by
  rw [List.foldl_append]; exact del_none_left _ k

/-! Non-vacuity (tests) -/
example : Attrs.del [⟨1, [1]⟩, ⟨2, []⟩, ⟨1, [2]⟩, ⟨1, [3]⟩] 1 = [⟨2, []⟩] := by
  simp [del_eq_filter]
example : Attrs.set [⟨1, [1]⟩, ⟨2, []⟩, ⟨1, [2]⟩] 1 [9] = [⟨1, [9]⟩, ⟨2, []⟩] := by
  rw [set_eq_spec]; simp [Spec.set, Spec.setAux]

example : Attrs.set (Attrs.set [⟨1, [1]⟩, ⟨2, []⟩, ⟨1, [2]⟩] 1 [9]) 1 [7] = [⟨1, [7]⟩, ⟨2, []⟩] := by
  rw [set_set, set_eq_spec]; simp [Spec.set, Spec.setAux]

end RV.C09
