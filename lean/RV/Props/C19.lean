/-
  C19 — MS-CHAPv2 and MPPE key derivation compute exactly RFC 2759 / RFC 3079 / RFC 2548.

  `Model.MSCHAP.*` mirrors the Go code, `Spec.*` transcribes the RFCs; both over arbitrary primitives
  `P` (SHA-1, MD4, DES) with the right output lengths (`P.WF`; `Prims.concrete_wf` shows the Lean
  implementations written from the standards are such primitives).  Said plainly: the `*_eq_spec`
  theorems are thin (the Go code is a direct transcription of the RFC pseudo-code); the one with
  content is the DES key expansion, proved for all 2^56 keys.  The weight of C19 rests on the
  correspondence run: Go's crypto/sha1, x/crypto/md4, crypto/des, x/text UTF-16 encoder and the Go
  composition against the independent Lean implementations on generated inputs.
-/
import RV.Model.MSCHAP
import RV.Proofs.MSCHAP
namespace RV.C19
open RV Model.MSCHAP

/-! ### 1. The Go composition equals the RFC definition -/

/-- ToUTF16: on valid UTF-8 the result is the UTF-16LE form (RFC 3629 → RFC 2781). -/
theorem toUTF16_eq_spec (pw u : Bytes) (h : UTF16.Spec.utf16le? pw = some u) : toUTF16 pw = .ok u := by
  exact toUTF16_of_valid pw u h

/-- (Observation, outside the property's domain) ToUTF16 never returns an error: the x/text encoder
    replaces every offending octet by U+FFFD. -/
theorem toUTF16_never_fails (pw : Bytes) : ∃ u, toUTF16 pw = .ok u := ⟨_, rfl⟩

/-- ChallengeHash = RFC 2759 §8.2. -/
theorem challengeHash_eq_spec (P : Prims) (peer auth user : Bytes) :
    challengeHash P peer auth user = Spec.Rfc2759.challengeHash P peer auth user := rfl

/-- NTPasswordHash = RFC 2759 §8.3 (and §8.4 when applied to a hash). -/
theorem ntPasswordHash_eq_spec (P : Prims) (pwU : Bytes) :
    ntPasswordHash P pwU = Spec.Rfc2759.ntPasswordHash P pwU ∧
    ntPasswordHash P pwU = Spec.Rfc2759.hashNtPasswordHash P pwU := ⟨rfl, rfl⟩

/-- parityPadDESKey, the Go shift-and-mask code over a 64-bit accumulator, is the bit-wise key
    expansion of RFC 2759 §8.6 for EVERY 7-octet key. -/
theorem parityPad_eq_spec (k : Bytes) (h : k.length = 7) :
    parityPadDESKey k = Spec.Rfc2759.expandKey k := by
  exact parityPad_eq_expandKey k h

/-- … stated directly: octet `i` of the result holds the `i`-th 7-bit group of the 56-bit key
    (big-endian value `beNat k`) in its upper seven bits, and has odd parity. -/
theorem parityPad_spec (k : Bytes) (h : k.length = 7) (i : Nat) (hi : i < 8) :
    (parityPadDESKey k).length = 8 ∧
    ((parityPadDESKey k).getD i 0).toNat / 2 = beNat k / 2 ^ (7 * (7 - i)) % 128 ∧
    popCount ((parityPadDESKey k).getD i 0) % 2 = 1 := by
  exact parityPad_upper_odd k h i hi

/-- … and in the RFC's own terms: bit `j` (from the left) of octet `i` is key bit `7i+j`. -/
theorem expandKey_bits (k : Bytes) (i j : Nat) (hi : i < 8) (hj : j < 7) :
    (Spec.Rfc2759.expandKey k).length = 8 ∧
    ∃ g : List Bool, g.length = 7 ∧ g.getD j false = Spec.Rfc2759.bitAt k (7 * i + j) ∧
      (Spec.Rfc2759.expandKey k).getD i 0 = Spec.Rfc2759.byteOfBits (g ++ [Spec.Rfc2759.oddParityBit g]) := by
  exact expandKey_bitwise k i j hi hj

/-- DESCrypt with a 7-octet key = RFC 2759 §8.6 DesEncrypt; an 8-octet key is used unchanged; it
    panics exactly for other key lengths or a clear text shorter than a block. -/
theorem desCrypt_eq_spec (P : Prims) (key clear : Bytes) (hk : key.length = 7) (hc : clear.length = 8) :
    desCrypt P key clear = .ok (Spec.Rfc2759.desEncrypt P clear key) := by
  exact desCrypt_seven P key clear hk hc

theorem desCrypt_8_octet_key (P : Prims) (key clear : Bytes) (hk : key.length = 8) (hc : clear.length = 8) :
    desCrypt P key clear = .ok (P.des key clear) := by
  exact desCrypt_eight P key clear hk hc

theorem desCrypt_panics_iff (P : Prims) (key clear : Bytes) :
    desCrypt P key clear = .fault ↔ (key.length ≠ 7 ∧ key.length ≠ 8) ∨ clear.length < 8 := by
  exact desCrypt_fault_iff P key clear

/-- ChallengeResponse = RFC 2759 §8.5 on its domain (8-octet challenge, 16-octet hash). -/
theorem challengeResponse_eq_spec (P : Prims) (ch ph : Bytes) (hc : ch.length = 8) (hp : ph.length = 16) :
    challengeResponse P ch ph = .ok (Spec.Rfc2759.challengeResponse P ch ph) := by
  exact challengeResponse_eq P ch ph hc hp

/-- GenerateNTResponse = RFC 2759 §8.1 for every challenge, user name and valid-UTF-8 password. -/
theorem generateNTResponse_eq_spec (P : Prims) (hP : P.WF) (auth peer user pw r : Bytes)
    (h : Spec.Rfc2759.generateNTResponse P auth peer user pw = some r) :
    generateNTResponse P auth peer user pw = .ok r := by
  exact generateNTResponse_eq P hP auth peer user pw r h

/-- GenerateAuthenticatorResponse = RFC 2759 §8.7 (lower-case hex then `ToUpper` = upper-case hex). -/
theorem generateAuthenticatorResponse_eq_spec (P : Prims) (auth peer ntr user pw : Bytes) (s : List Char)
    (h : Spec.Rfc2759.generateAuthenticatorResponse P auth peer ntr user pw = some s) :
    generateAuthenticatorResponse P auth peer ntr user pw = .ok s := by
  exact generateAuthenticatorResponse_eq P auth peer ntr user pw s h

/-- GetMasterKey = RFC 3079 §3.4. -/
theorem getMasterKey_eq_spec (P : Prims) (phh ntr : Bytes) :
    getMasterKey P phh ntr = Spec.Rfc3079.getMasterKey P phh ntr := by
  exact getMasterKey_eq P phh ntr

/-- GetAsymmetricStartKey = RFC 3079 §3.4 on the SERVER side (send ⇒ Magic3, receive ⇒ Magic2),
    truncated to the session key length, for every length up to the 20 octets of the digest. -/
theorem getAsymmetricStartKey_eq_spec (P : Prims) (hP : P.WF) (mk : Bytes) (n : Nat) (isSend : Bool)
    (hm : mk.length = 16) (hn : n ≤ 20) :
    getAsymmetricStartKey P mk n isSend = .ok (Spec.Rfc3079.getAsymmetricStartKey P mk n isSend true) := by
  exact getAsymmetricStartKey_eq P hP mk n isSend hm hn

/-- MakeKey = RFC 2548 §2.4.2 (128-bit server-side start key of the session) for a 24-octet NT
    response and a valid-UTF-8 password. -/
theorem makeKey_eq_spec (P : Prims) (hP : P.WF) (ntr pw k : Bytes) (isSend : Bool) (hn : ntr.length = 24)
    (h : Spec.Rfc2548.mppeKey P ntr pw isSend = some k) :
    makeKey P ntr pw isSend = .ok k := by
  exact makeKey_eq P hP ntr pw k isSend hn h

/-! ### 2. Shapes -/

/-- a challenge response, whenever one is returned, is 24 octets -/
theorem challengeResponse_length (P : Prims) (hP : P.WF) (ch ph r : Bytes)
    (h : challengeResponse P ch ph = .ok r) : r.length = 24 := by
  exact challengeResponse_ok_length P hP ch ph r h

theorem generateNTResponse_length (P : Prims) (hP : P.WF) (auth peer user pw r : Bytes)
    (h : generateNTResponse P auth peer user pw = .ok r) : r.length = 24 := by
  exact generateNTResponse_ok_length P hP auth peer user pw r h

/-- GenerateNTResponse never panics and never errs (for ANY password octets) -/
theorem generateNTResponse_total (P : Prims) (hP : P.WF) (auth peer user pw : Bytes) :
    ∃ r, generateNTResponse P auth peer user pw = .ok r := by
  exact generateNTResponse_ok P hP auth peer user pw

/-- the authenticator response is "S=" followed by 40 upper-case hexadecimal digits -/
theorem authenticatorResponse_shape (P : Prims) (hP : P.WF) (auth peer ntr user pw : Bytes) :
    ∃ digits : List Char,
      generateAuthenticatorResponse P auth peer ntr user pw = .ok ('S' :: '=' :: digits) ∧
      digits.length = 40 ∧ ∀ c ∈ digits, c ∈ Spec.Rfc2759.upperHexDigits := by
  exact generateAuthenticatorResponse_shape P hP auth peer ntr user pw

theorem masterKey_length (P : Prims) (hP : P.WF) (phh ntr : Bytes) : (getMasterKey P phh ntr).length = 16 := by
  exact getMasterKey_length P hP phh ntr

theorem startKey_length (P : Prims) (hP : P.WF) (mk k : Bytes) (n : Nat) (isSend : Bool) (hn : n ≤ 20)
    (h : getAsymmetricStartKey P mk n isSend = .ok k) : k.length = n := by
  exact startKey_ok_length P hP mk k n isSend hn h

theorem makeKey_length (P : Prims) (hP : P.WF) (ntr pw k : Bytes) (isSend : Bool)
    (h : makeKey P ntr pw isSend = .ok k) : k.length = 16 := by
  exact makeKey_ok_length P hP ntr pw k isSend h

/-! ### 3. Refusals -/

/-- a master key that is not 16 octets is refused with an error (and only such a key is) -/
theorem startKey_refuses_iff (P : Prims) (mk : Bytes) (n : Nat) (isSend : Bool) :
    getAsymmetricStartKey P mk n isSend = .err ↔ mk.length ≠ 16 := by
  exact startKey_err_iff P mk n isSend

/-- an NT response that is not 24 octets is refused with an error by MakeKey (and only such a one is) -/
theorem makeKey_refuses_iff (P : Prims) (hP : P.WF) (ntr pw : Bytes) (isSend : Bool) :
    makeKey P ntr pw isSend = .err ↔ ntr.length ≠ 24 := by
  exact makeKey_err_iff P hP ntr pw isSend

/-- "Wrong-sized master keys and NT responses are refused with an error": the two functions that HAVE a size contract
    and an error result are `GetAsymmetricStartKey` (master key) and `MakeKey` (NT response).  The other two
    functions that take an NT response hash whatever they are given, as RFC 2759 §8.7 / RFC 3079 §3.4 write them:
    `GenerateAuthenticatorResponse` errs only with the UTF-16 conversion (never, for this encoder) and
    `GetMasterKey` has no error result at all.  Stated here so that the reading of the clause (DESIGN §5c) is a
    theorem about the model and not a silence of the oracle. -/
theorem nt_response_size_is_checked_by_makeKey_only (P : Prims) (hP : P.WF) (auth peer ntr user pw phh : Bytes) (isSend : Bool) :
    (makeKey P ntr pw isSend = .err ↔ ntr.length ≠ 24) ∧
    (∃ r, generateAuthenticatorResponse P auth peer ntr user pw = .ok r) ∧
    (getMasterKey P phh ntr).length = 16 := by
  refine ⟨makeKey_err_iff P hP ntr pw isSend, ?_, getMasterKey_length P hP phh ntr⟩
  obtain ⟨d, h, _⟩ := generateAuthenticatorResponse_shape P hP auth peer ntr user pw
  exact ⟨_, h⟩

/-! ### Non-vacuity: the hypotheses are satisfiable and the statements speak about real values -/

example : Prims.concrete.WF := Prims.concrete_wf
-- … so every theorem above speaks about the primitives the driver runs, e.g.
example (auth peer user pw r : Bytes) (h : generateNTResponse Prims.concrete auth peer user pw = .ok r) :
    r.length = 24 := generateNTResponse_length _ Prims.concrete_wf auth peer user pw r h
-- a 7-octet key, its expansion (the repository's own test vector) and a 56-bit group
example : parityPadDESKey [0x61, 0xee, 0x8b, 0x50, 0x74, 0x8f, 0x5e] = [0x61, 0xf7, 0xa2, 0x6b, 0x07, 0xa4, 0x3d, 0xbc] := by
  decide +kernel
example : ([0x61, 0xee, 0x8b, 0x50, 0x74, 0x8f, 0x5e] : Bytes).length = 7 := rfl
-- valid UTF-8 with a surrogate pair and a 3-octet form; an invalid string has no specification value
example : UTF16.Spec.utf16le? [0x61, 0xf0, 0x9f, 0x98, 0x80, 0xe2, 0x82, 0xac] = some [0x61, 0, 0x3d, 0xd8, 0x00, 0xde, 0xac, 0x20] := by
  decide +kernel
example : UTF16.Spec.utf16le? [0x61, 0xff] = none := by decide +kernel
example : toUTF16 [0x61, 0xff] = .ok [0x61, 0, 0xfd, 0xff] := by decide +kernel
-- refusals and non-refusals exist for abstract primitives
example (P : Prims) : getAsymmetricStartKey P (zeros 15) 16 true = .err := by simp [getAsymmetricStartKey, zeros]
example (P : Prims) (hP : P.WF) : ∃ k, getAsymmetricStartKey P (zeros 16) 16 true = .ok k ∧ k.length = 16 := by
  refine ⟨_, getAsymmetricStartKey_eq P hP (zeros 16) 16 true (by simp [zeros]) (by omega), ?_⟩
  simp [Spec.Rfc3079.getAsymmetricStartKey, hP.sha1_len]
example (P : Prims) : makeKey P (zeros 23) [] true = .err := by simp [makeKey, zeros]
example : desCrypt Prims.concrete (zeros 6) (zeros 8) = .fault := by simp [desCrypt, zeros]
example : Spec.Rfc2759.hexUpper [0x4a, 0xf0] = ['4', 'A', 'F', '0'] := by decide

end RV.C19
