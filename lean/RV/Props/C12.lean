/-
  C12 — laws of the generated attribute helpers (X_Add / X_Set / X_Del / X_Get / X_Lookup / X_Gets
  emitted by dictionarygen/attributes.go), for every descriptor the generator accepts (`Desc.wf`),
  top-level and vendor attributes alike, and for an arbitrary hash `H` with 16-byte output.

  Vocabulary (RV/Proofs/Helper.lean):
    `Desc.wf d`            the flag combinations the generator emits code for
    `valueOK d tag v`      = `valueTyped` (Go parameter type / width; tag 0 when the helper has no
                             tag parameter) ∧ three exclusions that correspond to known findings:
                             `tagInRange` (tag ≤ 0x1F), `tagIntFits` (tagged integer < 2^24),
                             `nulFree` (no NUL octet in an encrypt=1 text value)
    `canon d v`            the value a getter returns (addresses in 4- or 16-byte form, prefix with its
                             host bits cleared)
    `Desc.indep d d'`      the two descriptors address different storage
    `isWrite H d as as'`   as' is the result of a successful Set or Add of d on as, or of Del
    `encodeRefused …`      explicit refusal predicate of the encoding half of a setter
  The full-strength versions without each exclusion are stated as `…_full` and refuted.

  Further vocabulary:
    `Imp.hSetImp` / `Imp.hAddImp` / `Imp.hDelImp`   state-passing mirrors of the setters in the Go statement
                             order (RV/Model/HelperImp.lean): result AND attribute list afterwards,
                             also on error — §6 "refusal leaves the packet unchanged", §11 negative control
    `AcceptsAs` / `Refuses`  outcome of Set and Add for an address value — §6 address-family table, §12
    `hGet`, `hGetString`, `hLookupString`, `hGetStrings`, `lookupResults`   X_Get & the string flavours — §2b, §14
    `Gen.valueConsts`, `Gen.stringsMap`, `Gen.valueString`, `Gen.lastWins`  value constants / `String()` — §13
-/
import RV.Model.Helper
import RV.Proofs.Helper
import RV.Proofs.HelperImp
import RV.Proofs.HelperGet
import RV.Proofs.ValueConsts
import RV.Props.C01
import RV.Props.C10
namespace RV.C12
open RV

section
variable (H : Hash)

/-! ### 1. values survive encode → decode -/

/-- reading back what a setter stored gives the tag and the (canonical) value -/
theorem decode_encode (hH : ∀ x, (H x).length = 16) (d : Desc) (hwf : d.wf) (tag : UInt8) (v : GVal)
    (secret auth salt a : Bytes) (hv : valueOK d tag v)
    (he : encodeValue H d tag v secret auth salt = .ok a) :
    decodeValue H d a secret auth = .ok (tag, canon d v) :=
  decode_encode_all H hH d hwf tag v secret auth salt a hv he

/-- `canon` uses the same host-bit clearing as C10's prefix round trip -/
theorem canon_prefix_is_C10 (ip : Bytes) (n : Nat) : maskIP' ip n = C10.maskIP ip n := rfl

/-! ### 2. Set then Get / Lookup / Gets -/

/-- after a successful X_Set(p, v), X_Lookup returns v with its tag — whatever the packet held -/
theorem set_lookup (hH : ∀ x, (H x).length = 16) (d : Desc) (hwf : d.wf) (hk : d.kind ≠ .concat)
    (as as' : Attrs) (tag : UInt8) (v : GVal) (secret auth salt : Bytes) (hv : valueOK d tag v)
    (h : hSet H d as tag v secret auth salt = .ok as') :
    hLookup H d as' secret auth = .val tag (canon d v) := by
  obtain ⟨a, he, hr⟩ := rawValues_hSet H d hwf hk as as' tag v secret auth salt h
  exact hLookup_of_raw_single H d hk as' secret auth a [] _ hr
    (decode_encode_all H hH d hwf tag v secret auth salt a hv he)

/-- … and X_Gets returns exactly [v] -/
theorem set_gets_single (hH : ∀ x, (H x).length = 16) (d : Desc) (hwf : d.wf) (hk : d.kind ≠ .concat)
    (as as' : Attrs) (tag : UInt8) (v : GVal) (secret auth salt : Bytes) (hv : valueOK d tag v)
    (h : hSet H d as tag v secret auth salt = .ok as') :
    hGets H d as' secret auth = ([(tag, canon d v)], true) := by
  obtain ⟨a, he, hr⟩ := rawValues_hSet H d hwf hk as as' tag v secret auth salt h
  rw [hGets_eq, hr, hGets_go_cons_ok H d secret auth a [] _
    (decode_encode_all H hH d hwf tag v secret auth salt a hv he)]
  rfl

/-- exactly one stored occurrence is left -/
theorem set_stores_one (d : Desc) (hwf : d.wf) (hk : d.kind ≠ .concat)
    (as as' : Attrs) (tag : UInt8) (v : GVal) (secret auth salt : Bytes)
    (h : hSet H d as tag v secret auth salt = .ok as') :
    ∃ a, encodeValue H d tag v secret auth salt = .ok a ∧ rawValues d as' = [a] :=
  rawValues_hSet H d hwf hk as as' tag v secret auth salt h

/-! ### 2b. X_Get, X_GetString(s), X_LookupString

    The templates emit `X_Get` as `tag, value, _ = X_Lookup(p)`: `hGet` is the pair of named results
    of `X_Lookup` at its `return` (`lookupResults`), the error dropped. -/

/-- X_Get against X_Lookup, in each of the three outcomes of X_Lookup: the reported value; the zero
    value (and tag 0) when the attribute is absent; and on a decoding error the results the failing
    decode left — the zero value for every kind but string / octets (there: the decrypted value of
    the wrong fixed size, or nil after a failed decryption; the stripped tag in either case) -/
theorem get_eq_lookup (d : Desc) (as : Attrs) (secret auth : Bytes) :
    match hLookup H d as secret auth with
    | .val t v => hGet H d as secret auth = (t, v)
    | .noAttr => hGet H d as secret auth = (0, GVal.zero d.kind)
    | .err => ∃ a, (rawValues d as).head? = some a ∧
        hGet H d as secret auth = lookupResults H d a secret auth ∧
        (d.kind ≠ .string ∧ d.kind ≠ .octets → (hGet H d as secret auth).2 = GVal.zero d.kind) := by
  cases h : hLookup H d as secret auth with
  | val t v => exact hGet_of_lookup_val H d as secret auth t v h
  | noAttr => exact hGet_of_lookup_noAttr H d as secret auth h
  | err => exact hGet_of_lookup_err H d as secret auth h

/-- after a successful X_Set(p, v), X_Get returns v with its tag — whatever the packet held -/
theorem set_get (hH : ∀ x, (H x).length = 16) (d : Desc) (hwf : d.wf) (hk : d.kind ≠ .concat)
    (as as' : Attrs) (tag : UInt8) (v : GVal) (secret auth salt : Bytes) (hv : valueOK d tag v)
    (h : hSet H d as tag v secret auth salt = .ok as') :
    hGet H d as' secret auth = (tag, canon d v) :=
  hGet_of_lookup_val H d as' secret auth _ _ (set_lookup H hH d hwf hk as as' tag v secret auth salt hv h)

/-- … and X_GetString (text attributes) returns it as a string -/
theorem set_getString (hH : ∀ x, (H x).length = 16) (d : Desc) (hwf : d.wf)
    (hk : d.kind = .string ∨ d.kind = .octets)
    (as as' : Attrs) (tag : UInt8) (v : GVal) (secret auth salt : Bytes) (hv : valueOK d tag v)
    (h : hSet H d as tag v secret auth salt = .ok as') :
    hGetString H d as' secret auth = (tag, canon d v) ∧
    hLookupString H d as' secret auth = .val tag (canon d v) ∧
    hGetStrings H d as' secret auth = ([(tag, canon d v)], true) := by
  have hc : d.kind ≠ .concat := by rcases hk with h | h <;> simp [h]
  have hk3 : d.kind = .string ∨ d.kind = .octets ∨ d.kind = .concat := by
    rcases hk with h | h
    · exact Or.inl h
    · exact Or.inr (Or.inl h)
  rw [hGetString_eq H d hk3, hLookupString_eq H d hk3, hGetStrings_eq]
  exact ⟨set_get H hH d hwf hc as as' tag v secret auth salt hv h,
    set_lookup H hH d hwf hc as as' tag v secret auth salt hv h,
    set_gets_single H hH d hwf hc as as' tag v secret auth salt hv h⟩

/-- the string flavours are the byte flavours (Go's `string(b)` / `[]byte(s)` keep the bytes):
    X_LookupString = X_Lookup, X_GetString = X_Get, X_GetStrings = X_Gets, X_SetString = X_Set,
    X_AddString = X_Add -/
theorem string_variants_agree (d : Desc) (hk : d.kind = .string ∨ d.kind = .octets ∨ d.kind = .concat)
    (as : Attrs) (tag : UInt8) (s secret auth salt : Bytes) :
    hLookupString H d as secret auth = hLookup H d as secret auth ∧
    hGetString H d as secret auth = hGet H d as secret auth ∧
    hGetStrings H d as secret auth = hGets H d as secret auth ∧
    hSetString H d as tag s secret auth salt = hSet H d as tag (.bytes s) secret auth salt ∧
    hAddString H d as tag s secret auth salt = hAdd H d as tag (.bytes s) secret auth salt :=
  ⟨hLookupString_eq H d hk as secret auth, hGetString_eq H d hk as secret auth,
   hGetStrings_eq H d as secret auth, rfl, rfl⟩

/-- after X_Del, X_Get returns the zero value -/
theorem del_get (d : Desc) (as : Attrs) (secret auth : Bytes) :
    hGet H d (hDel d as) secret auth = (0, GVal.zero d.kind) :=
  hGet_of_lookup_noAttr H d _ secret auth
    (hLookup_of_raw_nil H d _ secret auth (rawValues_hDel d as))

/-! ### 3. Add appends -/

/-- X_Add appends one stored value after the existing ones -/
theorem add_appends (d : Desc) (hwf : d.wf) (as as' : Attrs) (tag : UInt8) (v : GVal)
    (secret auth salt : Bytes) (h : hAdd H d as tag v secret auth salt = .ok as') :
    ∃ a, encodeValue H d tag v secret auth salt = .ok a ∧ rawValues d as' = rawValues d as ++ [a] :=
  rawValues_hAdd H d hwf as as' tag v secret auth salt h

/-- X_Gets after X_Add = X_Gets before, followed by the added value (when the earlier values decode) -/
theorem add_gets_append (hH : ∀ x, (H x).length = 16) (d : Desc) (hwf : d.wf)
    (as as' : Attrs) (tag : UInt8) (v : GVal) (secret auth salt : Bytes) (hv : valueOK d tag v)
    (vs : List (UInt8 × GVal)) (hg : hGets H d as secret auth = (vs, true))
    (h : hAdd H d as tag v secret auth salt = .ok as') :
    hGets H d as' secret auth = (vs ++ [(tag, canon d v)], true) := by
  obtain ⟨a, he, hr⟩ := rawValues_hAdd H d hwf as as' tag v secret auth salt h
  rw [hGets_eq] at hg ⊢
  rw [hr, hGets_go_append_ok H d secret auth _ [a] vs hg,
    hGets_go_cons_ok H d secret auth a [] _ (decode_encode_all H hH d hwf tag v secret auth salt a hv he)]
  rfl

/-- when an earlier stored value does not decode, X_Gets keeps reporting that error -/
theorem add_gets_earlier_error (d : Desc) (hwf : d.wf)
    (as as' : Attrs) (tag : UInt8) (v : GVal) (secret auth salt : Bytes)
    (vs : List (UInt8 × GVal)) (hg : hGets H d as secret auth = (vs, false))
    (h : hAdd H d as tag v secret auth salt = .ok as') :
    hGets H d as' secret auth = (vs, false) := by
  obtain ⟨a, _, hr⟩ := rawValues_hAdd H d hwf as as' tag v secret auth salt h
  rw [hGets_eq] at hg ⊢
  rw [hr, hGets_go_append_fail H d secret auth _ [a] vs hg]

/-- a sequence of X_Add calls (tag, value, salt drawn for that call) -/
def addAll (d : Desc) (secret auth : Bytes) : Attrs → List (UInt8 × GVal × Bytes) → Res Attrs
  | as, [] => .ok as
  | as, (tag, v, salt) :: rest =>
    match hAdd H d as tag v secret auth salt with
    | .ok as' => addAll d secret auth as' rest
    | .err => .err
    | .fault => .fault

/-- X_Gets returns all added values, in the order they were added -/
theorem adds_gets_all (hH : ∀ x, (H x).length = 16) (d : Desc) (hwf : d.wf) (secret auth : Bytes)
    (ops : List (UInt8 × GVal × Bytes)) (hops : ∀ o ∈ ops, valueOK d o.1 o.2.1)
    (as as' : Attrs) (vs : List (UInt8 × GVal)) (hg : hGets H d as secret auth = (vs, true))
    (h : addAll H d secret auth as ops = .ok as') :
    hGets H d as' secret auth = (vs ++ ops.map (fun o => (o.1, canon d o.2.1)), true) := by
  induction ops generalizing as vs with
  | nil => simp only [addAll, Res.ok.injEq] at h; subst h; simpa using hg
  | cons o ops ih =>
    obtain ⟨tag, v, salt⟩ := o
    simp only [addAll] at h
    cases h1 : hAdd H d as tag v secret auth salt with
    | err => simp [h1] at h
    | fault => simp [h1] at h
    | ok as1 =>
      simp only [h1] at h
      have hv : valueOK d tag v := hops (tag, v, salt) (List.mem_cons_self)
      have := add_gets_append H hH d hwf as as1 tag v secret auth salt hv vs hg h1
      rw [ih (fun o ho => hops o (List.mem_cons_of_mem _ ho)) as1 _ this h]
      simp

/-! ### 4. Del removes every occurrence -/

theorem del_lookup_none (d : Desc) (as : Attrs) (secret auth : Bytes) :
    rawValues d (hDel d as) = [] ∧
    hLookup H d (hDel d as) secret auth = .noAttr ∧
    hGets H d (hDel d as) secret auth = ([], true) := by
  have hr := rawValues_hDel d as
  refine ⟨hr, hLookup_of_raw_nil H d _ secret auth hr, ?_⟩
  rw [hGets_eq, hr]; rfl

/-! ### 5. an operation on one attribute never alters another -/

/-- every write of `d` (successful Set or Add, or Del) leaves every read of an independent `d'`
    unchanged: stored values, Lookup, Gets -/
theorem noninterference (d d' : Desc) (hwf : d.wf) (hi : d.indep d') (as as' : Attrs)
    (hw : isWrite H d as as') (secret auth : Bytes) :
    rawValues d' as' = rawValues d' as ∧
    hLookup H d' as' secret auth = hLookup H d' as secret auth ∧
    hGets H d' as' secret auth = hGets H d' as secret auth := by
  have hr := rawValues_indep H d d' hwf hi as as' hw
  exact ⟨hr, hLookup_congr H d' as as' secret auth hr, hGets_congr H d' as as' secret auth hr⟩

/-- a top-level write keeps every attribute of another type verbatim and in order -/
theorem top_write_keeps_others (d : Desc) (h0 : d.vendorID = 0) (as as' : Attrs)
    (hw : isWrite H d as as') :
    as'.filter (fun a => a.typ ≠ d.typ) = as.filter (fun a => a.typ ≠ d.typ) :=
  write_top_filter H d h0 as as' hw

/-- a vendor write keeps the C14 view (foreign attributes verbatim, the vendor's other
    sub-attributes and residues byte for byte, all in order) -/
theorem vendor_write_keeps_view (d : Desc) (hwf : d.wf) (h0 : d.vendorID ≠ 0) (as as' : Attrs)
    (hw : isWrite H d as as') :
    othersView d.vendorID d.vendorType as' = othersView d.vendorID d.vendorType as :=
  (write_vendor H d hwf h0 as as' hw).1

/-! ### 6. refusals -/

/-- setters return an error or a new packet, never panic.  (The pure `.err` carries no packet; what
    the packet holds after a refusal is stated about the imperative mirror in
    `refusal_leaves_unchanged` / `setImp_refusal_unchanged` below.) -/
theorem never_faults (d : Desc) (as : Attrs) (tag : UInt8) (v : GVal) (secret auth salt : Bytes) :
    hSet H d as tag v secret auth salt ≠ .fault ∧ hAdd H d as tag v secret auth salt ≠ .fault :=
  ⟨hSet_ne_fault H d as tag v secret auth salt, hAdd_ne_fault H d as tag v secret auth salt⟩

/-! #### the packet after a refusal — imperative mirror (RV/Model/HelperImp.lean)

    The pure `hSet` / `hAdd` return `.err` without a packet, so about them "unchanged on failure"
    says nothing.  `Imp.hSetImp` / `Imp.hAddImp` / `Imp.hDelImp` are state-passing mirrors of the same
    templates in the Go statement order: they return the result AND the attribute list the packet
    holds afterwards, also on error, and a mutation executed before a failing statement stays
    visible (see `old_vendor_set_order_changes_packet_on_refusal`). -/

/-- refinement: a successful imperative Set ends in exactly the list the pure model returns -/
theorem setImp_ok_iff (d : Desc) (as as' : Attrs) (tag : UInt8) (v : GVal) (secret auth salt : Bytes) :
    Imp.hSetImp H d tag v secret auth salt as = (.ok (), as') ↔ hSet H d as tag v secret auth salt = .ok as' := by
  rw [Imp.hSetImp_eq]; exact Imp.outcome_ok_iff _ _ _

theorem addImp_ok_iff (d : Desc) (as as' : Attrs) (tag : UInt8) (v : GVal) (secret auth salt : Bytes) :
    Imp.hAddImp H d tag v secret auth salt as = (.ok (), as') ↔ hAdd H d as tag v secret auth salt = .ok as' := by
  rw [Imp.hAddImp_eq]; exact Imp.outcome_ok_iff _ _ _

/-- Del never fails and ends in the pure model's list -/
theorem delImp_eq (d : Desc) (as : Attrs) : Imp.hDelImp d as = (.ok (), hDel d as) := Imp.hDelImp_eq d as

/-- refinement, outcome classes: the imperative mirror reports an error (a panic) exactly when the
    pure model does -/
theorem setImp_err_iff (d : Desc) (as : Attrs) (tag : UInt8) (v : GVal) (secret auth salt : Bytes) :
    ((Imp.hSetImp H d tag v secret auth salt as).1 = .err ↔ hSet H d as tag v secret auth salt = .err) ∧
    ((Imp.hSetImp H d tag v secret auth salt as).1 = .fault ↔ hSet H d as tag v secret auth salt = .fault) := by
  rw [Imp.hSetImp_eq]; exact ⟨Imp.outcome_err_iff _ _, Imp.outcome_fault_iff _ _⟩

theorem addImp_err_iff (d : Desc) (as : Attrs) (tag : UInt8) (v : GVal) (secret auth salt : Bytes) :
    ((Imp.hAddImp H d tag v secret auth salt as).1 = .err ↔ hAdd H d as tag v secret auth salt = .err) ∧
    ((Imp.hAddImp H d tag v secret auth salt as).1 = .fault ↔ hAdd H d as tag v secret auth salt = .fault) := by
  rw [Imp.hAddImp_eq]; exact ⟨Imp.outcome_err_iff _ _, Imp.outcome_fault_iff _ _⟩

/-- THE property: whenever the imperative Set / Add does not succeed, the attribute list it leaves
    behind is the one it found — for every descriptor (well-formed or not), tag, value, secret,
    authenticator, salt and prior packet -/
theorem setImp_refusal_unchanged (d : Desc) (as : Attrs) (tag : UInt8) (v : GVal) (secret auth salt : Bytes)
    (h : (Imp.hSetImp H d tag v secret auth salt as).1 ≠ .ok ()) :
    (Imp.hSetImp H d tag v secret auth salt as).2 = as := by
  rw [Imp.hSetImp_eq] at h ⊢; exact Imp.outcome_unchanged _ _ h

theorem addImp_refusal_unchanged (d : Desc) (as : Attrs) (tag : UInt8) (v : GVal) (secret auth salt : Bytes)
    (h : (Imp.hAddImp H d tag v secret auth salt as).1 ≠ .ok ()) :
    (Imp.hAddImp H d tag v secret auth salt as).2 = as := by
  rw [Imp.hAddImp_eq] at h ⊢; exact Imp.outcome_unchanged _ _ h

/-- "Setters refuse … with an error and leave the packet unchanged": Set and Add end in an error or
    in success, never in a panic (first two conjuncts, about the pure model, as before); the
    imperative mirrors reach the same verdict; and when that verdict is an error, the packet's
    attribute list after the call equals the list before the call -/
theorem refusal_leaves_unchanged (d : Desc) (as : Attrs) (tag : UInt8) (v : GVal) (secret auth salt : Bytes) :
    (hSet H d as tag v secret auth salt = .err ∨ ∃ as', hSet H d as tag v secret auth salt = .ok as') ∧
    (hAdd H d as tag v secret auth salt = .err ∨ ∃ as', hAdd H d as tag v secret auth salt = .ok as') ∧
    ((Imp.hSetImp H d tag v secret auth salt as = (.err, as) ∧ hSet H d as tag v secret auth salt = .err) ∨
      ∃ as', Imp.hSetImp H d tag v secret auth salt as = (.ok (), as') ∧ hSet H d as tag v secret auth salt = .ok as') ∧
    ((Imp.hAddImp H d tag v secret auth salt as = (.err, as) ∧ hAdd H d as tag v secret auth salt = .err) ∨
      ∃ as', Imp.hAddImp H d tag v secret auth salt as = (.ok (), as') ∧ hAdd H d as tag v secret auth salt = .ok as') ∧
    ((Imp.hSetImp H d tag v secret auth salt as).1 = .err → (Imp.hSetImp H d tag v secret auth salt as).2 = as) ∧
    ((Imp.hAddImp H d tag v secret auth salt as).1 = .err → (Imp.hAddImp H d tag v secret auth salt as).2 = as) := by
  have h := never_faults H d as tag v secret auth salt
  refine ⟨?_, ?_, ?_, ?_, ?_, ?_⟩
  · cases hs : hSet H d as tag v secret auth salt with
    | ok as' => exact Or.inr ⟨as', rfl⟩
    | err => exact Or.inl rfl
    | fault => exact absurd hs h.1
  · cases hs : hAdd H d as tag v secret auth salt with
    | ok as' => exact Or.inr ⟨as', rfl⟩
    | err => exact Or.inl rfl
    | fault => exact absurd hs h.2
  · rw [Imp.hSetImp_eq]
    cases hs : hSet H d as tag v secret auth salt with
    | ok as' => exact Or.inr ⟨as', rfl, rfl⟩
    | err => exact Or.inl ⟨rfl, rfl⟩
    | fault => exact absurd hs h.1
  · rw [Imp.hAddImp_eq]
    cases hs : hAdd H d as tag v secret auth salt with
    | ok as' => exact Or.inr ⟨as', rfl, rfl⟩
    | err => exact Or.inl ⟨rfl, rfl⟩
    | fault => exact absurd hs h.2
  · intro he; exact setImp_refusal_unchanged H d as tag v secret auth salt (by rw [he]; simp)
  · intro he; exact addImp_refusal_unchanged H d as tag v secret auth salt (by rw [he]; simp)

/-- the encoding half of a setter errs exactly on the explicit refusal predicate -/
theorem encode_refused_iff (hH : ∀ x, (H x).length = 16) (d : Desc) (hwf : d.wf) (tag : UInt8)
    (v : GVal) (secret auth salt : Bytes) :
    encodeValue H d tag v secret auth salt = .err ↔ encodeRefused d tag v secret auth salt :=
  encodeValue_err_iff H hH d hwf tag v secret auth salt

/-- X_Set is refused exactly when the value cannot be encoded or (vendor attribute) its encoding is
    empty or longer than 247 bytes; the condition does not mention the packet -/
theorem set_refused_iff (hH : ∀ x, (H x).length = 16) (d : Desc) (hwf : d.wf) (as : Attrs) (tag : UInt8)
    (v : GVal) (secret auth salt : Bytes) :
    hSet H d as tag v secret auth salt = .err ↔
      if d.kind = .concat then (∀ b, v ≠ .bytes b)
      else encodeRefused d tag v secret auth salt ∨
        (d.vendorID ≠ 0 ∧ ∃ a, encodeValue H d tag v secret auth salt = .ok a ∧
          (a.length = 0 ∨ 247 < a.length)) :=
  hSet_err_iff H hH d hwf as tag v secret auth salt

theorem add_refused_iff (hH : ∀ x, (H x).length = 16) (d : Desc) (hwf : d.wf) (as : Attrs) (tag : UInt8)
    (v : GVal) (secret auth salt : Bytes) :
    hAdd H d as tag v secret auth salt = .err ↔
      d.kind = .concat ∨ encodeRefused d tag v secret auth salt ∨
        (d.vendorID ≠ 0 ∧ ∃ a, encodeValue H d tag v secret auth salt = .ok a ∧
          (a.length = 0 ∨ 247 < a.length)) :=
  hAdd_err_iff H hH d hwf as tag v secret auth salt

/-- instances of the refusal predicate named in the property -/
theorem refuses_wrong_fixed_size (hH : ∀ x, (H x).length = 16) (d : Desc) (hwf : d.wf)
    (hk : d.kind = .string ∨ d.kind = .octets) (n : Nat) (hs : d.size = some n) (b : Bytes)
    (hb : b.length ≠ n) (as : Attrs) (tag : UInt8) (secret auth salt : Bytes) :
    hSet H d as tag (.bytes b) secret auth salt = .err ∧ hAdd H d as tag (.bytes b) secret auth salt = .err := by
  have hr : encodeRefused d tag (.bytes b) secret auth salt := by
    rcases hk with h | h <;> simp only [encodeRefused, h] <;> left <;> simp [hs] <;> omega
  have hc : d.kind ≠ .concat := by rcases hk with h | h <;> simp [h]
  exact ⟨(hSet_err_iff H hH d hwf as tag _ secret auth salt).2 (by rw [if_neg hc]; exact Or.inl hr),
    (hAdd_err_iff H hH d hwf as tag _ secret auth salt).2 (Or.inr (Or.inl hr))⟩

theorem refuses_wrong_address_family (hH : ∀ x, (H x).length = 16) (d : Desc) (hwf : d.wf)
    (ip : Bytes) (hk : (d.kind = .ipaddr ∧ to4 ip = none) ∨ (d.kind = .ipv6addr ∧ to16 ip = none))
    (as : Attrs) (tag : UInt8) (secret auth salt : Bytes) :
    hSet H d as tag (.bytes ip) secret auth salt = .err := by
  have hr : encodeRefused d tag (.bytes ip) secret auth salt := by
    rcases hk with ⟨h, h4⟩ | ⟨h, h4⟩ <;> simp only [encodeRefused, h] <;> exact Or.inl h4
  have hc : d.kind ≠ .concat := by rcases hk with ⟨h, _⟩ | ⟨h, _⟩ <;> simp [h]
  exact (hSet_err_iff H hH d hwf as tag _ secret auth salt).2 (by rw [if_neg hc]; exact Or.inl hr)

/-! #### address families: every combination of value shape × attribute kind

    `net.IP` is a byte slice of length 4 (IPv4) or 16 (IPv6, or IPv4 in its v4-mapped form
    `::ffff:a.b.c.d` — which is what `net.ParseIP("a.b.c.d")` and `net.IPv4(a,b,c,d)` return).
    `radius.NewIPAddr` uses `To4()`, `radius.NewIPv6Addr` uses `To16()`; both CONVERT between the two
    representations of an IPv4 address instead of refusing.  The model (`to4` / `to16` of
    RV/Model/Codec.lean) mirrors that.  Table, proved below for X_Set and X_Add, top-level and vendor
    attributes (`encrypt` absent, so that no key material is needed for an acceptance):

      value handed to the setter         | ipaddr attribute           | ipv6addr attribute
      -----------------------------------+----------------------------+---------------------------------
      4 octets                           | ACCEPT, stored as given    | ACCEPT (!), stored ::ffff:a.b.c.d
      16 octets, v4-mapped               | ACCEPT, stored last 4      | ACCEPT (!), stored as given
      16 octets, not v4-mapped           | refuse                     | ACCEPT, stored as given
      any other length (nil included)    | refuse                     | refuse

    (!) = an IPv4 address is accepted by an IPv6 attribute although the property text says setters
    refuse the "wrong address family"; see `ipv6_setter_accepts_ipv4_as_mapped`,
    `ipv6_setter_accepts_v4mapped` and `wrong_family_accepted_witness`. -/

/-- the 16-octet value is the v4-mapped form of an IPv4 address -/
def isV4Mapped (ip : Bytes) : Prop := ip.length = 16 ∧ ip.take 12 = v4InV6Prefix

instance (ip : Bytes) : Decidable (isV4Mapped ip) := by unfold isV4Mapped; infer_instance

/-- the encoding half for the two address kinds, any `encrypt` -/
theorem encode_ipaddr (d : Desc) (hk : d.kind = .ipaddr) (tag : UInt8) (ip secret auth salt : Bytes) :
    encodeValue H d tag (.bytes ip) secret auth salt =
      match to4 ip with
      | some b => obfuscate H d b secret auth salt
      | none => .err := by
  unfold encodeValue; simp only [hk, newIPAddr]
  cases to4 ip <;> rfl

theorem encode_ipv6addr (d : Desc) (hk : d.kind = .ipv6addr) (tag : UInt8) (ip secret auth salt : Bytes) :
    encodeValue H d tag (.bytes ip) secret auth salt =
      match to16 ip with
      | some b => obfuscate H d b secret auth salt
      | none => .err := by
  unfold encodeValue; simp only [hk, newIPv6Addr]
  cases to16 ip <;> rfl

/-- once the encoding half yields `a` (1..247 octets), Set stores exactly `a` and Add appends it -/
theorem set_add_of_encode (d : Desc) (hwf : d.wf) (hk : d.kind ≠ .concat) (tag : UInt8) (v : GVal)
    (secret auth salt a : Bytes) (he : encodeValue H d tag v secret auth salt = .ok a)
    (hl : 1 ≤ a.length ∧ a.length ≤ 247) (as : Attrs) :
    (∃ as', hSet H d as tag v secret auth salt = .ok as' ∧ rawValues d as' = [a]) ∧
    (∃ as', hAdd H d as tag v secret auth salt = .ok as' ∧ rawValues d as' = rawValues d as ++ [a]) := by
  have hs : ∃ as', hSet H d as tag v secret auth salt = .ok as' := by
    unfold hSet; rw [if_neg hk, he]; simp only []
    by_cases hv : d.vendorID = 0
    · rw [if_pos hv]; exact ⟨_, rfl⟩
    · rw [if_neg hv, setVendor_eq, if_pos hl]; exact ⟨_, rfl⟩
  have ha : ∃ as', hAdd H d as tag v secret auth salt = .ok as' := by
    unfold hAdd; rw [if_neg hk, he]; simp only []
    by_cases hv : d.vendorID = 0
    · rw [if_pos hv]; exact ⟨_, rfl⟩
    · rw [if_neg hv, addVendor_eq, if_pos hl]; exact ⟨_, rfl⟩
  obtain ⟨as1, h1⟩ := hs
  obtain ⟨as2, h2⟩ := ha
  obtain ⟨a1, e1, r1⟩ := rawValues_hSet H d hwf hk as as1 tag v secret auth salt h1
  obtain ⟨a2, e2, r2⟩ := rawValues_hAdd H d hwf as as2 tag v secret auth salt h2
  rw [he] at e1 e2; cases e1; cases e2
  exact ⟨⟨as1, h1, r1⟩, ⟨as2, h2, r2⟩⟩

/-- what "accepted, stored as `b`" means: Set succeeds and leaves exactly the stored value `b`,
    Add succeeds and appends `b`, and Lookup after the Set returns `b` -/
def AcceptsAs (d : Desc) (as : Attrs) (tag : UInt8) (ip secret auth salt b : Bytes) : Prop :=
  (∃ as', hSet H d as tag (.bytes ip) secret auth salt = .ok as' ∧ rawValues d as' = [b] ∧
    hLookup H d as' secret auth = .val 0 (.bytes b)) ∧
  (∃ as', hAdd H d as tag (.bytes ip) secret auth salt = .ok as' ∧ rawValues d as' = rawValues d as ++ [b])

/-- what "refused" means: Set and Add return an error, and (imperative mirror) the packet's
    attribute list is unchanged -/
def Refuses (d : Desc) (as : Attrs) (tag : UInt8) (ip secret auth salt : Bytes) : Prop :=
  hSet H d as tag (.bytes ip) secret auth salt = .err ∧ hAdd H d as tag (.bytes ip) secret auth salt = .err ∧
  Imp.hSetImp H d tag (.bytes ip) secret auth salt as = (.err, as) ∧
  Imp.hAddImp H d tag (.bytes ip) secret auth salt as = (.err, as)

theorem refuses_of_encode_err (d : Desc) (hk : d.kind ≠ .concat) (as : Attrs) (tag : UInt8)
    (ip secret auth salt : Bytes) (he : encodeValue H d tag (.bytes ip) secret auth salt = .err) :
    Refuses H d as tag ip secret auth salt := by
  have h1 : hSet H d as tag (.bytes ip) secret auth salt = .err := by unfold hSet; rw [if_neg hk, he]
  have h2 : hAdd H d as tag (.bytes ip) secret auth salt = .err := by unfold hAdd; rw [if_neg hk, he]
  exact ⟨h1, h2, by rw [Imp.hSetImp_eq, h1]; rfl, by rw [Imp.hAddImp_eq, h2]; rfl⟩

theorem obfuscate_enc0 (d : Desc) (he : d.encrypt = 0) (a secret auth salt : Bytes) :
    obfuscate H d a secret auth salt = .ok a := by
  unfold obfuscate; rw [he]; rfl

theorem acceptsAs_ipaddr (d : Desc) (hwf : d.wf) (hk : d.kind = .ipaddr) (he : d.encrypt = 0)
    (as : Attrs) (tag : UInt8) (ip secret auth salt b : Bytes) (h4 : to4 ip = some b) (hb : b.length = 4) :
    AcceptsAs H d as tag ip secret auth salt b := by
  have hc : d.kind ≠ .concat := by simp [hk]
  have hen : encodeValue H d tag (.bytes ip) secret auth salt = .ok b := by
    rw [encode_ipaddr H d hk, h4]; exact obfuscate_enc0 H d he _ _ _ _
  obtain ⟨⟨as1, h1, r1⟩, h2⟩ := set_add_of_encode H d hwf hc tag _ secret auth salt b hen (by omega) as
  refine ⟨⟨as1, h1, r1, ?_⟩, h2⟩
  have hd : decodeValue H d b secret auth = .ok (0, .bytes b) := by
    unfold decodeValue
    simp [hk, Desc.usesSalt, he, ipAddr, hb]
  exact hLookup_of_raw_single H d hc as1 secret auth b [] _ r1 hd

theorem acceptsAs_ipv6addr (d : Desc) (hwf : d.wf) (hk : d.kind = .ipv6addr) (he : d.encrypt = 0)
    (as : Attrs) (tag : UInt8) (ip secret auth salt b : Bytes) (h16 : to16 ip = some b) (hb : b.length = 16) :
    AcceptsAs H d as tag ip secret auth salt b := by
  have hc : d.kind ≠ .concat := by simp [hk]
  have hen : encodeValue H d tag (.bytes ip) secret auth salt = .ok b := by
    rw [encode_ipv6addr H d hk, h16]; exact obfuscate_enc0 H d he _ _ _ _
  obtain ⟨⟨as1, h1, r1⟩, h2⟩ := set_add_of_encode H d hwf hc tag _ secret auth salt b hen (by omega) as
  refine ⟨⟨as1, h1, r1, ?_⟩, h2⟩
  have hd : decodeValue H d b secret auth = .ok (0, .bytes b) := by
    unfold decodeValue
    simp [hk, Desc.usesSalt, he, ipv6Addr, hb]
  exact hLookup_of_raw_single H d hc as1 secret auth b [] _ r1 hd

/-! ##### IPv4 attribute (`ipaddr`) -/

/-- 4 octets → accepted, stored as given -/
theorem ipv4_setter_accepts_4 (d : Desc) (hwf : d.wf) (hk : d.kind = .ipaddr) (he : d.encrypt = 0)
    (as : Attrs) (tag : UInt8) (ip secret auth salt : Bytes) (hl : ip.length = 4) :
    AcceptsAs H d as tag ip secret auth salt ip :=
  acceptsAs_ipaddr H d hwf hk he as tag ip secret auth salt ip (by unfold to4; rw [if_pos hl]) hl

/-- 16 octets in v4-mapped form → ACCEPTED, stored as its last 4 octets (this is how Go programs
    normally hold an IPv4 address, so the acceptance is the useful behaviour) -/
theorem ipv4_setter_accepts_v4mapped_as_4 (d : Desc) (hwf : d.wf) (hk : d.kind = .ipaddr) (he : d.encrypt = 0)
    (as : Attrs) (tag : UInt8) (ip secret auth salt : Bytes) (hm : isV4Mapped ip) :
    AcceptsAs H d as tag ip secret auth salt (ip.drop 12) :=
  acceptsAs_ipaddr H d hwf hk he as tag ip secret auth salt (ip.drop 12)
    (by unfold to4; rw [if_neg (by have := hm.1; omega), if_pos (show ip.length = 16 ∧ ip.take 12 = v4InV6Prefix from hm)]) (by have := hm.1; simp; omega)

/-- 16 octets, not v4-mapped (a genuine IPv6 address) → refused, whatever `encrypt` is -/
theorem ipv4_setter_refuses_ipv6 (d : Desc) (hk : d.kind = .ipaddr)
    (as : Attrs) (tag : UInt8) (ip secret auth salt : Bytes) (hl : ip.length = 16) (hm : ¬ isV4Mapped ip) :
    Refuses H d as tag ip secret auth salt := by
  refine refuses_of_encode_err H d (by simp [hk]) as tag ip secret auth salt ?_
  rw [encode_ipaddr H d hk]
  have : to4 ip = none := by
    unfold to4; rw [if_neg (by omega), if_neg (show ¬ (ip.length = 16 ∧ ip.take 12 = v4InV6Prefix) from hm)]
  rw [this]

/-- any other length (`nil` included) → refused -/
theorem ipv4_setter_refuses_other_length (d : Desc) (hk : d.kind = .ipaddr)
    (as : Attrs) (tag : UInt8) (ip secret auth salt : Bytes) (h4 : ip.length ≠ 4) (h16 : ip.length ≠ 16) :
    Refuses H d as tag ip secret auth salt := by
  refine refuses_of_encode_err H d (by simp [hk]) as tag ip secret auth salt ?_
  rw [encode_ipaddr H d hk]
  have : to4 ip = none := by
    unfold to4; rw [if_neg h4, if_neg (fun h => h16 h.1)]
  rw [this]

/-- summary for an unencrypted IPv4 attribute: refused exactly when the value is neither 4 octets
    nor a v4-mapped 16 octets -/
theorem ipv4_setter_refuses_iff (d : Desc) (hwf : d.wf) (hk : d.kind = .ipaddr) (he : d.encrypt = 0)
    (as : Attrs) (tag : UInt8) (ip secret auth salt : Bytes) :
    hSet H d as tag (.bytes ip) secret auth salt = .err ↔ ¬ (ip.length = 4 ∨ isV4Mapped ip) := by
  constructor
  · intro herr hor
    rcases hor with h | h
    · obtain ⟨⟨as', hs, _⟩, _⟩ := ipv4_setter_accepts_4 H d hwf hk he as tag ip secret auth salt h
      rw [hs] at herr; cases herr
    · obtain ⟨⟨as', hs, _⟩, _⟩ := ipv4_setter_accepts_v4mapped_as_4 H d hwf hk he as tag ip secret auth salt h
      rw [hs] at herr; cases herr
  · intro hn
    by_cases h16 : ip.length = 16
    · exact (ipv4_setter_refuses_ipv6 H d hk as tag ip secret auth salt h16 (fun h => hn (Or.inr h))).1
    · exact (ipv4_setter_refuses_other_length H d hk as tag ip secret auth salt (fun h => hn (Or.inl h)) h16).1

/-! ##### IPv6 attribute (`ipv6addr`) -/

/-- 4 octets (an IPv4 address) → ACCEPTED by the IPv6 attribute, stored as the 16-octet v4-mapped
    address `::ffff:a.b.c.d`; Lookup returns those 16 octets.  The property text says setters refuse
    the wrong address family; the code (`a.To16()` in `radius.NewIPv6Addr`) does not. -/
theorem ipv6_setter_accepts_ipv4_as_mapped (d : Desc) (hwf : d.wf) (hk : d.kind = .ipv6addr) (he : d.encrypt = 0)
    (as : Attrs) (tag : UInt8) (ip secret auth salt : Bytes) (hl : ip.length = 4) :
    AcceptsAs H d as tag ip secret auth salt (v4InV6Prefix ++ ip) :=
  acceptsAs_ipv6addr H d hwf hk he as tag ip secret auth salt _ (by unfold to16; rw [if_pos hl])
    (by simp [v4InV6Prefix, hl])

/-- 16 octets → accepted, stored as given — v4-mapped or not -/
theorem ipv6_setter_accepts_16 (d : Desc) (hwf : d.wf) (hk : d.kind = .ipv6addr) (he : d.encrypt = 0)
    (as : Attrs) (tag : UInt8) (ip secret auth salt : Bytes) (hl : ip.length = 16) :
    AcceptsAs H d as tag ip secret auth salt ip :=
  acceptsAs_ipv6addr H d hwf hk he as tag ip secret auth salt ip
    (by unfold to16; rw [if_neg (by omega), if_pos hl]) hl

/-- … in particular the v4-mapped form of an IPv4 address (what `net.ParseIP("a.b.c.d")` returns)
    is ACCEPTED by the IPv6 attribute -/
theorem ipv6_setter_accepts_v4mapped (d : Desc) (hwf : d.wf) (hk : d.kind = .ipv6addr) (he : d.encrypt = 0)
    (as : Attrs) (tag : UInt8) (ip secret auth salt : Bytes) (hm : isV4Mapped ip) :
    AcceptsAs H d as tag ip secret auth salt ip :=
  ipv6_setter_accepts_16 H d hwf hk he as tag ip secret auth salt hm.1

/-- any other length (`nil` included) → refused, whatever `encrypt` is -/
theorem ipv6_setter_refuses_other_length (d : Desc) (hk : d.kind = .ipv6addr)
    (as : Attrs) (tag : UInt8) (ip secret auth salt : Bytes) (h4 : ip.length ≠ 4) (h16 : ip.length ≠ 16) :
    Refuses H d as tag ip secret auth salt := by
  refine refuses_of_encode_err H d (by simp [hk]) as tag ip secret auth salt ?_
  rw [encode_ipv6addr H d hk]
  have : to16 ip = none := by
    unfold to16; rw [if_neg h4, if_neg h16]
  rw [this]

/-- summary for an unencrypted IPv6 attribute: refused exactly when the value has neither 4 nor 16
    octets — the address FAMILY of the value plays no role -/
theorem ipv6_setter_refuses_iff (d : Desc) (hwf : d.wf) (hk : d.kind = .ipv6addr) (he : d.encrypt = 0)
    (as : Attrs) (tag : UInt8) (ip secret auth salt : Bytes) :
    hSet H d as tag (.bytes ip) secret auth salt = .err ↔ ¬ (ip.length = 4 ∨ ip.length = 16) := by
  constructor
  · intro herr hor
    rcases hor with h | h
    · obtain ⟨⟨as', hs, _⟩, _⟩ := ipv6_setter_accepts_ipv4_as_mapped H d hwf hk he as tag ip secret auth salt h
      rw [hs] at herr; cases herr
    · obtain ⟨⟨as', hs, _⟩, _⟩ := ipv6_setter_accepts_16 H d hwf hk he as tag ip secret auth salt h
      rw [hs] at herr; cases herr
  · intro hn
    exact (ipv6_setter_refuses_other_length H d hk as tag ip secret auth salt
      (fun h => hn (Or.inl h)) (fun h => hn (Or.inr h))).1

theorem refuses_oversize (hH : ∀ x, (H x).length = 16) (d : Desc) (hwf : d.wf)
    (hk : d.kind = .string ∨ d.kind = .octets) (he : d.encrypt = 0) (b : Bytes) (tag : UInt8)
    (hb : 253 < b.length ∨ (b.length = 253 ∧ d.hasTag = true ∧ tag.toNat ≤ 0x1F))
    (as : Attrs) (secret auth salt : Bytes) :
    hSet H d as tag (.bytes b) secret auth salt = .err := by
  have hr : encodeRefused d tag (.bytes b) secret auth salt := by
    rcases hk with h | h <;> simp only [encodeRefused, h] <;> rcases hb with hb | hb
    · exact Or.inr (Or.inl ⟨he, hb⟩)
    · exact Or.inr (Or.inr (Or.inr ⟨hb.2.1, hb.2.2, he, hb.1⟩))
    · exact Or.inr (Or.inl ⟨he, hb⟩)
    · exact Or.inr (Or.inr (Or.inr ⟨hb.2.1, hb.2.2, he, hb.1⟩))
  have hc : d.kind ≠ .concat := by rcases hk with h | h <;> simp [h]
  exact (hSet_err_iff H hH d hwf as tag _ secret auth salt).2 (by rw [if_neg hc]; exact Or.inl hr)

theorem refuses_out_of_range_time (hH : ∀ x, (H x).length = 16) (d : Desc) (hwf : d.wf)
    (hk : d.kind = .date) (u : Int) (hu : u < 0 ∨ 4294967295 < u)
    (as : Attrs) (tag : UInt8) (secret auth salt : Bytes) :
    hSet H d as tag (.time u) secret auth salt = .err := by
  have hr : encodeRefused d tag (.time u) secret auth salt := by
    simp only [encodeRefused, hk]; exact hu
  have hc : d.kind ≠ .concat := by simp [hk]
  exact (hSet_err_iff H hH d hwf as tag _ secret auth salt).2 (by rw [if_neg hc]; exact Or.inl hr)

theorem refuses_empty_vendor_value (hH : ∀ x, (H x).length = 16) (d : Desc) (hwf : d.wf)
    (hv : d.vendorID ≠ 0) (tag : UInt8) (v : GVal) (secret auth salt : Bytes)
    (he : encodeValue H d tag v secret auth salt = .ok [])
    (as : Attrs) : hSet H d as tag v secret auth salt = .err := by
  have hc : d.kind ≠ .concat := fun hk => hv (hwf.2.2.2.2.1 hk).2.2.2
  exact (hSet_err_iff H hH d hwf as tag _ secret auth salt).2
    (by rw [if_neg hc]; exact Or.inr ⟨hv, [], he, Or.inl rfl⟩)

/-! ### 7. encrypted attributes are stored obfuscated and read back with the same secret -/

/-- encrypt=1 text: the stored bytes after the optional tag octet are exactly the RFC 2865 §5.2
    ciphertext -/
theorem stored_obfuscated_user (hH : ∀ x, (H x).length = 16) (d : Desc) (hwf : d.wf)
    (hk : d.kind = .string ∨ d.kind = .octets) (he : d.encrypt = 1)
    (as as' : Attrs) (tag : UInt8) (b secret auth salt : Bytes)
    (h : hSet H d as tag (.bytes b) secret auth salt = .ok as') :
    rawValues d as' = [tagPrefix d tag ++ Rfc2865.userPasswordCipher H b secret auth] := by
  have hc : d.kind ≠ .concat := by rcases hk with h | h <;> simp [h]
  obtain ⟨a, hea, hr⟩ := rawValues_hSet H d hwf hc as as' tag _ secret auth salt h
  obtain ⟨c, hcc, ha⟩ := stored_text H d hk tag b secret auth salt a hea
  rw [hr, ha, ((textCipher_length H hH d hk b secret auth salt c hcc).2.1 he).1]

/-- salt-encrypted attributes (encrypt=2 on text, addresses, untagged integers): the stored bytes
    after the optional tag octet are exactly the RFC 2868 §3.5 encoding under the given salt -/
theorem stored_obfuscated_salt (hH : ∀ x, (H x).length = 16) (d : Desc) (hwf : d.wf)
    (hs : d.usesSalt = true) (as as' : Attrs) (tag : UInt8) (v : GVal) (secret auth salt : Bytes)
    (h : hSet H d as tag v secret auth salt = .ok as') :
    ∃ clear, clearBytes d v = some clear ∧
      rawValues d as' = [tagPrefix d tag ++ Rfc2868.tunnelPasswordCipher H clear salt secret auth] := by
  have hc : d.kind ≠ .concat := by
    intro hk; have := (hwf.2.2.2.2.1 hk).1; have := usesSalt_encrypt hs; omega
  obtain ⟨a, hea, hr⟩ := rawValues_hSet H d hwf hc as as' tag _ secret auth salt h
  obtain ⟨p, hp, ha⟩ := stored_salted H hH d hwf hs tag v secret auth salt a hea
  exact ⟨p, hp, by rw [hr, ha]⟩

/-! ### 8. values survive Encode → Parse -/

/-- if the packet marshals, parsing the datagram gives back the attribute list (types 0-255), hence
    the same stored values and the same Lookup / Gets for every helper -/
theorem survives_wire (d : Desc) (hwf : d.wf) (p : Packet) (w s : Bytes) (hm : marshal p = .ok w)
    (hc : 0 ≤ p.code ∧ p.code ≤ 255) (ha : p.auth.length = 16) (secret auth : Bytes) :
    ∃ q, parse w s = .ok q ∧ q.attrs = p.attrs.filter validType ∧
      rawValues d q.attrs = rawValues d p.attrs ∧
      hLookup H d q.attrs secret auth = hLookup H d p.attrs secret auth ∧
      hGets H d q.attrs secret auth = hGets H d p.attrs secret auth := by
  refine ⟨_, C01.parse_marshal p w s hm hc ha, rfl, ?_⟩
  have hr := rawValues_filter_valid d hwf p.attrs
  exact ⟨hr, hLookup_congr H d _ _ secret auth hr, hGets_congr H d _ _ secret auth hr⟩

/-! ### 9. concat attributes -/

/-- X_Set of a concat attribute replaces the value; X_Lookup returns the whole value (the chunks
    joined), or reports no attribute when the value is empty -/
theorem set_lookup_concat (d : Desc) (hwf : d.wf) (hk : d.kind = .concat) (as as' : Attrs)
    (tag : UInt8) (v : GVal) (secret auth salt : Bytes)
    (h : hSet H d as tag v secret auth salt = .ok as') :
    ∃ b, v = .bytes b ∧ rawValues d as' = chunks253 b ∧
      hLookup H d as' secret auth = if b = [] then .noAttr else .val 0 (.bytes b) := by
  obtain ⟨b, hv, hr⟩ := rawValues_hSet_concat H d hwf hk as as' tag v secret auth salt h
  refine ⟨b, hv, hr, ?_⟩
  rw [hLookup_concat H d hk, hr, chunks253_flatten]
  by_cases hb : b = []
  · rw [if_pos hb, if_pos ((chunks253_eq_nil_iff b).2 hb)]
  · rw [if_neg hb, if_neg (fun e => hb ((chunks253_eq_nil_iff b).1 e))]

/-- … and X_Get / X_GetString return the whole value (nil for the empty value) -/
theorem set_get_concat (d : Desc) (hwf : d.wf) (hk : d.kind = .concat) (as as' : Attrs)
    (tag : UInt8) (v : GVal) (secret auth salt : Bytes)
    (h : hSet H d as tag v secret auth salt = .ok as') :
    ∃ b, v = .bytes b ∧ hGet H d as' secret auth = (0, .bytes b) ∧ hGetString H d as' secret auth = (0, .bytes b) := by
  obtain ⟨b, hv, hr, hl⟩ := set_lookup_concat H d hwf hk as as' tag v secret auth salt h
  have hg : hGet H d as' secret auth = (0, .bytes b) := by
    by_cases hb : b = []
    · rw [if_pos hb] at hl
      rw [hGet_of_lookup_noAttr H d as' secret auth hl, hk, hb]; rfl
    · rw [if_neg hb] at hl
      exact hGet_of_lookup_val H d as' secret auth _ _ hl
  exact ⟨b, hv, hg, by rw [hGetString_eq H d (Or.inr (Or.inr hk)), hg]⟩

/-- the stored chunks are non-empty, at most 253 bytes each, and concatenate to the value -/
theorem concat_chunks (b : Bytes) :
    (chunks253 b).flatten = b ∧ ∀ c ∈ chunks253 b, 1 ≤ c.length ∧ c.length ≤ 253 :=
  ⟨chunks253_flatten b, chunks253_bound b⟩

end

/-! ### 10. the three exclusions are necessary (known findings of the Go code) -/

/-- full strength without the tag bound -/
def set_lookup_anyTag_full : Prop :=
  ∀ (H : Hash), (∀ x, (H x).length = 16) → ∀ (d : Desc), d.wf → d.kind ≠ .concat →
    ∀ (as as' : Attrs) (tag : UInt8) (v : GVal) (secret auth salt : Bytes),
      valueTyped d tag v → tagIntFits d v → nulFree d v →
      hSet H d as tag v secret auth salt = .ok as' →
      hLookup H d as' secret auth = .val tag (canon d v)

/-- full strength without the 24-bit bound on tagged integers -/
def set_lookup_anyTaggedInt_full : Prop :=
  ∀ (H : Hash), (∀ x, (H x).length = 16) → ∀ (d : Desc), d.wf → d.kind ≠ .concat →
    ∀ (as as' : Attrs) (tag : UInt8) (v : GVal) (secret auth salt : Bytes),
      valueTyped d tag v → tagInRange d tag → nulFree d v →
      hSet H d as tag v secret auth salt = .ok as' →
      hLookup H d as' secret auth = .val tag (canon d v)

/-- full strength without the NUL exclusion on encrypt=1 text -/
def set_lookup_anyNul_full : Prop :=
  ∀ (H : Hash), (∀ x, (H x).length = 16) → ∀ (d : Desc), d.wf → d.kind ≠ .concat →
    ∀ (as as' : Attrs) (tag : UInt8) (v : GVal) (secret auth salt : Bytes),
      valueTyped d tag v → tagInRange d tag → tagIntFits d v →
      hSet H d as tag v secret auth salt = .ok as' →
      hLookup H d as' secret auth = .val tag (canon d v)

def zeroHash : Hash := fun _ => zeros 16
theorem zeroHash_len : ∀ x, (zeroHash x).length = 16 := fun _ => by simp [zeroHash, zeros]

/-- tag 0x20 on a tagged string: the setter stores no tag octet, the getter takes the first value
    octet (≤ 0x1F) for a tag -/
theorem set_lookup_anyTag_counterexample : ¬ set_lookup_anyTag_full := by
  intro h
  let d : Desc := ⟨64, 0, 0, .string, true, 0, none⟩
  have hset : hSet zeroHash d [] 0x20 (.bytes [1, 2]) [] [] [] = .ok [⟨64, [1, 2]⟩] := by
    simp [hSet, d, encodeValue, newBytes, set_eq_spec, Spec.set]
  have := h zeroHash zeroHash_len d (by decide) (by decide) [] _ 0x20 (.bytes [1, 2]) [] [] []
    (by decide) (by decide) (by decide) hset
  revert this
  decide

/-- a tagged integer ≥ 2^24: the top octet is replaced by the tag -/
theorem set_lookup_anyTaggedInt_counterexample : ¬ set_lookup_anyTaggedInt_full := by
  intro h
  let d : Desc := ⟨64, 0, 0, .integer, true, 0, none⟩
  have hset : hSet zeroHash d [] 1 (.nat 0x01000000) [] [] [] = .ok [⟨64, [1, 0, 0, 0]⟩] := by
    simp [hSet, d, encodeValue, Kind.intBytes, beBytes, set_eq_spec, Spec.set]
  have := h zeroHash zeroHash_len d (by decide) (by decide) [] _ 1 (.nat 0x01000000) [] [] []
    (by decide) (by decide) (by decide) hset
  revert this
  decide

/-- an encrypt=1 value with an inner NUL is cut at the NUL when read back -/
theorem set_lookup_anyNul_counterexample : ¬ set_lookup_anyNul_full := by
  intro h
  let d : Desc := ⟨2, 0, 0, .string, false, 1, none⟩
  have hwf : d.wf := by decide
  have hk : d.kind ≠ .concat := by decide
  have hH := zeroHash_len
  obtain ⟨c, hc⟩ := (newUserPassword_ok_iff zeroHash [65, 0, 66] [1] (zeros 16)).2
    ⟨by decide, by decide, by decide⟩
  have he : encodeValue zeroHash d 0 (.bytes [65, 0, 66]) [1] (zeros 16) [] = .ok c := by
    rw [encodeValue_text zeroHash d (Or.inl rfl)]
    simp [d, textCipher, obfuscate_eq, Kind.isText, hc]
  have hset : hSet zeroHash d [] 0 (.bytes [65, 0, 66]) [1] (zeros 16) [] = .ok (Attrs.set [] 2 c) := by
    unfold hSet; rw [if_neg hk, he]; rfl
  have hl := h zeroHash hH d hwf hk [] _ 0 (.bytes [65, 0, 66]) [1] (zeros 16) []
    (by decide) (by decide) (by decide) hset
  obtain ⟨a, hea, hr⟩ := rawValues_hSet zeroHash d hwf hk [] _ 0 _ [1] (zeros 16) [] hset
  rw [he] at hea; cases hea
  have hdec : decodeValue zeroHash d c [1] (zeros 16) = .ok (0, .bytes [65]) := by
    rw [decodeValue_text zeroHash d (Or.inl rfl)]
    have hu : untag d c = (0, c) := by unfold untag; rw [if_neg (by simp [d])]
    have hp : textPlain zeroHash d c [1] (zeros 16) = .ok [65] := by
      unfold textPlain; rw [if_pos rfl, userPassword_roundtrip zeroHash hH _ _ _ c hc]; rfl
    rw [hu, hp]; simp [d]
  rw [hLookup_of_raw_single zeroHash d hk _ [1] (zeros 16) c [] _ hr hdec] at hl
  revert hl
  decide

/-! ### 11. negative control for `refusal_leaves_unchanged`: the statement order matters -/

/-- `_V_SetVendor` in the statement order it had before the repair (removal loop first, encoding —
    which can fail — afterwards), mirrored with the same primitives: a Set that is refused (empty
    value) has already removed the attribute's old value from the packet.  The repaired order on the
    same input refuses and leaves the list as it was.  So `refusal_leaves_unchanged` is a statement
    about the order of the template's statements, not a consequence of the modelling style. -/
theorem old_vendor_set_order_changes_packet_on_refusal :
    ∃ (d : Desc) (as : Attrs) (tag : UInt8) (v : GVal), d.wf ∧ d.vendorID ≠ 0 ∧
      (Imp.hSetOldImp zeroHash d tag v [] [] [] as).1 = .err ∧
      (Imp.hSetOldImp zeroHash d tag v [] [] [] as).2 ≠ as ∧
      Imp.hSetImp zeroHash d tag v [] [] [] as = (.err, as) :=
  ⟨⟨26, 9, 1, .octets, false, 0, none⟩, [⟨26, [0, 0, 0, 9, 1, 3, 0xAA]⟩], 0, .bytes [],
    by decide +kernel, by decide +kernel, by decide +kernel, by decide +kernel, by decide +kernel⟩

/-- the same at the level of `_V_SetVendor` itself -/
example : Imp.setVendorOldImp 9 1 [] [⟨26, [0, 0, 0, 9, 1, 3, 0xAA]⟩, ⟨1, [0x61]⟩] = (.err, [⟨1, [0x61]⟩]) := by decide +kernel
example : Imp.setVendorImp 9 1 [] [⟨26, [0, 0, 0, 9, 1, 3, 0xAA]⟩, ⟨1, [0x61]⟩] =
    (.err, [⟨26, [0, 0, 0, 9, 1, 3, 0xAA]⟩, ⟨1, [0x61]⟩]) := by decide +kernel

/-! ### 12. address families, concretely -/

/-- The IPv4 address 192.0.2.1 (4 octets) handed to an IPv6 attribute (type 168, `ipv6addr`) is
    ACCEPTED and stored as `::ffff:192.0.2.1`; Lookup then returns that 16-octet address.  The
    property text ("setters refuse … wrong address family") does not hold of the code in this
    combination; whether that is a defect of the library or a loose wording of the property is for
    the reader to decide — the code's behaviour is `net.IP.To16()`. -/
theorem wrong_family_accepted_witness :
    hSet zeroHash ⟨168, 0, 0, .ipv6addr, false, 0, none⟩ [] 0 (.bytes [192, 0, 2, 1]) [] [] [] =
      .ok [⟨168, [0, 0, 0, 0, 0, 0, 0, 0, 0, 0, 0xff, 0xff, 192, 0, 2, 1]⟩] ∧
    hLookup zeroHash ⟨168, 0, 0, .ipv6addr, false, 0, none⟩
      [⟨168, [0, 0, 0, 0, 0, 0, 0, 0, 0, 0, 0xff, 0xff, 192, 0, 2, 1]⟩] [] [] =
      .val 0 (.bytes [0, 0, 0, 0, 0, 0, 0, 0, 0, 0, 0xff, 0xff, 192, 0, 2, 1]) := by
  constructor <;> decide +kernel

/-- the other direction is refused: 2001:db8::1 handed to an IPv4 attribute (type 8, `ipaddr`) -/
example : hSet zeroHash ⟨8, 0, 0, .ipaddr, false, 0, none⟩ [⟨8, [10, 0, 0, 1]⟩] 0
    (.bytes [0x20, 0x01, 0x0d, 0xb8, 0, 0, 0, 0, 0, 0, 0, 0, 0, 0, 0, 1]) [] [] [] = .err := by decide
/-- … while the v4-mapped form of 192.0.2.1 is accepted by the IPv4 attribute and stored as 4 octets -/
example : hSet zeroHash ⟨8, 0, 0, .ipaddr, false, 0, none⟩ [] 0
    (.bytes [0, 0, 0, 0, 0, 0, 0, 0, 0, 0, 0xff, 0xff, 192, 0, 2, 1]) [] [] [] = .ok [⟨8, [192, 0, 2, 1]⟩] := by
  decide +kernel
example : isV4Mapped [0, 0, 0, 0, 0, 0, 0, 0, 0, 0, 0xff, 0xff, 192, 0, 2, 1] := by decide
example : ¬ isV4Mapped [0x20, 0x01, 0x0d, 0xb8, 0, 0, 0, 0, 0, 0, 0, 0, 0, 0, 0, 1] := by decide
example : Desc.wf ⟨168, 0, 0, .ipv6addr, false, 0, none⟩ ∧ Desc.wf ⟨8, 0, 0, .ipaddr, false, 0, none⟩ ∧
    Desc.wf ⟨26, 311, 7, .ipaddr, false, 0, none⟩ := by decide
/-- instance of the table: a vendor IPv6 attribute, an IPv4 value, a packet with other content -/
example : AcceptsAs zeroHash ⟨26, 311, 7, .ipv6addr, false, 0, none⟩ [⟨1, [0x61]⟩] 0 [192, 0, 2, 1] [] [] []
    (v4InV6Prefix ++ [192, 0, 2, 1]) :=
  ipv6_setter_accepts_ipv4_as_mapped zeroHash _ (by decide) rfl rfl _ _ _ _ _ _ (by decide)
example : Refuses zeroHash ⟨8, 0, 0, .ipaddr, false, 2, none⟩ [⟨8, [10, 0, 0, 1]⟩] 0
    [0x20, 0x01, 0x0d, 0xb8, 0, 0, 0, 0, 0, 0, 0, 0, 0, 0, 0, 1] [1] (zeros 16) [0x80, 1] :=
  ipv4_setter_refuses_ipv6 zeroHash _ rfl _ _ _ _ _ _ (by decide) (by decide)

/-! ### 13. named value constants and their `String()` forms equal the VALUE declarations

    RV/Model/ValueConsts.lean models what genAttributeInteger emits from
    `values := attributeValues(attr, allValues)` (`Gen.attrValues`, the duplicate-number rule):
    the `const` block, the `X_Strings` map literal and `func (a X) String()`. -/

/-- For an arbitrary VALUE list sorted by number (the generator sorts: `value_constants_any_dictionary`)
    and an arbitrary attribute:
    (0) the generator keeps, of the attribute's VALUEs, exactly those not followed by another with
        the same number ("the last one wins");
    (1) it emits one constant per kept VALUE, named after the VALUE and equal to its number;
    (2) the keys of the `X_Strings` literal are pairwise distinct (the literal compiles and a lookup
        is unambiguous);
    (3) `String()` of a kept VALUE's number is the dictionary's name of that VALUE;
    (4) every VALUE declared for the attribute has its number named — by the last declaration with
        that number;
    (5) any other number prints as `X(<decimal>)`. -/
theorem value_constants_equal_dictionary (attrIdent attrName : Bytes) (all : List Dict.Value)
    (hs : all.Pairwise (fun a b => a.number ≤ b.number)) :
    (Gen.attrValues attrName all = Gen.lastWins (all.filter (fun v => v.attrName == attrName)) ∧
      ∀ v, v ∈ Gen.attrValues attrName all ↔
        ∃ pre post, all.filter (fun v => v.attrName == attrName) = pre ++ v :: post ∧
          ∀ w ∈ post, v.number < w.number) ∧
    Gen.valueConsts attrIdent (Gen.attrValues attrName all) =
      (Gen.attrValues attrName all).map
        (fun v => (attrIdent ++ Gen.bs "_Value_" ++ Gen.identifier v.name, v.number)) ∧
    ((Gen.stringsMap (Gen.attrValues attrName all)).map (·.1)).Nodup ∧
    (∀ v ∈ Gen.attrValues attrName all,
      v ∈ all ∧ v.attrName = attrName ∧
      Gen.valueString attrIdent (Gen.attrValues attrName all) v.number = v.name) ∧
    (∀ v ∈ all, v.attrName = attrName → ∃ v' ∈ Gen.attrValues attrName all, v'.number = v.number ∧
      Gen.valueString attrIdent (Gen.attrValues attrName all) v.number = v'.name) ∧
    (∀ n, (∀ v ∈ all, v.attrName = attrName → v.number ≠ n) →
      Gen.valueString attrIdent (Gen.attrValues attrName all) n =
        attrIdent ++ Gen.bs "(" ++ Gen.formatUint n ++ Gen.bs ")") := by
  have hmine : (all.filter (fun v => v.attrName == attrName)).Pairwise (fun a b => a.number ≤ b.number) :=
    List.Pairwise.sublist List.filter_sublist hs
  have heq := Gen.attrValues_eq_lastWins attrName all
  have hstrict := Gen.lastWins_strict _ hmine
  have hnodup : ((Gen.stringsMap (Gen.attrValues attrName all)).map (·.1)).Nodup := by
    rw [heq]
    unfold Gen.stringsMap
    rw [List.map_map]
    have : (List.map ((fun x => x.1) ∘ fun v : Dict.Value => (v.number, v.name))
        (Gen.lastWins (all.filter (fun v => v.attrName == attrName)))).Pairwise (fun a b => a < b) := by
      rw [List.pairwise_map]; exact hstrict
    exact List.Pairwise.imp (fun h => Nat.ne_of_lt h) this
  have hstr : ∀ v ∈ Gen.attrValues attrName all,
      Gen.valueString attrIdent (Gen.attrValues attrName all) v.number = v.name := by
    intro v hv
    unfold Gen.valueString
    rw [Gen.mapLookup_of_mem _ hnodup v.number v.name
      (by unfold Gen.stringsMap; exact List.mem_map.2 ⟨v, hv, rfl⟩)]
  refine ⟨⟨heq, fun v => ?_⟩, rfl, hnodup, fun v hv => ⟨?_, ?_, hstr v hv⟩, fun v hv ha => ?_, fun n hn => ?_⟩
  · rw [heq]; exact Gen.lastWins_mem_iff _ hmine v
  · rw [heq] at hv
    exact (List.mem_filter.1 (Gen.lastWins_mem _ _ hv)).1
  · rw [heq] at hv
    exact beq_iff_eq.1 (List.mem_filter.1 (Gen.lastWins_mem _ _ hv)).2
  · have hvm : v ∈ all.filter (fun v => v.attrName == attrName) :=
      List.mem_filter.2 ⟨hv, beq_iff_eq.2 ha⟩
    obtain ⟨v', hv', hn⟩ := Gen.lastWins_covers _ v hvm
    rw [← heq] at hv'
    exact ⟨v', hv', hn, by rw [← hn]; exact hstr v' hv'⟩
  · unfold Gen.valueString
    rw [Gen.mapLookup_none]
    intro e he
    unfold Gen.stringsMap at he
    obtain ⟨v, hv, rfl⟩ := List.mem_map.1 he
    rw [heq] at hv
    have hvm := List.mem_filter.1 (Gen.lastWins_mem _ _ hv)
    exact hn v hvm.1 (beq_iff_eq.1 hvm.2)

/-- the same for the list the generator actually passes — any VALUE list at all, stably sorted by
    number (`sortValues`): no hypothesis left -/
theorem value_constants_any_dictionary (attrIdent attrName : Bytes) (vs : List Dict.Value) :
    ((Gen.stringsMap (Gen.attrValues attrName (Gen.sortValues vs))).map (·.1)).Nodup ∧
    (∀ v ∈ Gen.attrValues attrName (Gen.sortValues vs),
      v ∈ vs ∧ v.attrName = attrName ∧
      Gen.valueString attrIdent (Gen.attrValues attrName (Gen.sortValues vs)) v.number = v.name) ∧
    (∀ v ∈ vs, v.attrName = attrName → ∃ v' ∈ Gen.attrValues attrName (Gen.sortValues vs),
      v'.number = v.number ∧ v' ∈ vs ∧ v'.attrName = attrName ∧
      Gen.valueString attrIdent (Gen.attrValues attrName (Gen.sortValues vs)) v.number = v'.name) ∧
    (∀ n, (∀ v ∈ vs, v.attrName = attrName → v.number ≠ n) →
      Gen.valueString attrIdent (Gen.attrValues attrName (Gen.sortValues vs)) n =
        attrIdent ++ Gen.bs "(" ++ Gen.formatUint n ++ Gen.bs ")") := by
  obtain ⟨_, _, h2, h3, h4, h5⟩ :=
    value_constants_equal_dictionary attrIdent attrName (Gen.sortValues vs) (Gen.sortValues_sorted vs)
  have hm : ∀ v, v ∈ Gen.sortValues vs ↔ v ∈ vs := fun v => Gen.mem_sortStable _ vs v
  refine ⟨h2, fun v hv => ?_, fun v hv ha => ?_, fun n hn => ?_⟩
  · obtain ⟨a, b, c⟩ := h3 v hv
    exact ⟨(hm v).1 a, b, c⟩
  · obtain ⟨v', hv', hn, hs⟩ := h4 v ((hm v).2 hv) ha
    obtain ⟨a, b, _⟩ := h3 v' hv'
    exact ⟨v', hv', hn, (hm v').1 a, b, hs⟩
  · exact h5 n (fun v hv => hn v ((hm v).1 hv))

/-- Service-Type-like example: two names for number 1 (the later declaration wins), declarations
    out of order, a VALUE of another attribute in between -/
example :
    let vs : List Dict.Value := [⟨Gen.bs "A", Gen.bs "Login", 1⟩, ⟨Gen.bs "A", Gen.bs "Zero", 0⟩,
      ⟨Gen.bs "B", Gen.bs "Other", 1⟩, ⟨Gen.bs "A", Gen.bs "Login-User", 1⟩]
    let values := Gen.attrValues (Gen.bs "A") (Gen.sortValues vs)
    Gen.valueConsts (Gen.bs "A") values = [(Gen.bs "A_Value_Zero", 0), (Gen.bs "A_Value_LoginUser", 1)] ∧
    Gen.valueString (Gen.bs "A") values 1 = Gen.bs "Login-User" ∧
    Gen.valueString (Gen.bs "A") values 0 = Gen.bs "Zero" ∧
    Gen.valueString (Gen.bs "A") values 27 = Gen.bs "A(27)" := by decide +kernel

/-! ### 14. X_Get on the error paths of X_Lookup, concretely -/

/-- an `octets[2]` attribute whose stored value has 3 octets: X_Lookup reports an error, X_Get (which
    drops the error) hands out the 3 octets — the template assigns `value` before the size check -/
example : hLookup zeroHash ⟨5, 0, 0, .octets, false, 0, some 2⟩ [⟨5, [1, 2, 3]⟩] [] [] = .err ∧
    hGet zeroHash ⟨5, 0, 0, .octets, false, 0, some 2⟩ [⟨5, [1, 2, 3]⟩] [] [] = (0, .bytes [1, 2, 3]) := by decide
/-- a tagged integer with a 3-octet value: error, X_Get returns the stripped tag and 0 -/
example : hLookup zeroHash ⟨64, 0, 0, .integer, true, 0, none⟩ [⟨64, [5, 0, 7]⟩] [] [] = .err ∧
    hGet zeroHash ⟨64, 0, 0, .integer, true, 0, none⟩ [⟨64, [5, 0, 7]⟩] [] [] = (5, .nat 0) := by decide
/-- absent attribute: zero values -/
example : hGet zeroHash ⟨55, 0, 0, .date, false, 0, none⟩ [] [] [] = (0, .time zeroTimeUnix) ∧
    hGet zeroHash ⟨97, 0, 0, .ipv6prefix, false, 0, none⟩ [] [] [] = (0, .pfx none) ∧
    hGetString zeroHash ⟨1, 0, 0, .string, false, 0, none⟩ [] [] [] = (0, .bytes []) := by decide
/-- Set then Get / GetString on a tagged text attribute (instance of `set_get`, `set_getString`) -/
example : ∃ as', hSet zeroHash ⟨64, 0, 0, .string, true, 0, none⟩ [⟨64, [9]⟩] 3 (.bytes [0x61]) [] [] [] = .ok as' ∧
    hGet zeroHash ⟨64, 0, 0, .string, true, 0, none⟩ as' [] [] = (3, .bytes [0x61]) ∧
    hGetString zeroHash ⟨64, 0, 0, .string, true, 0, none⟩ as' [] [] = (3, .bytes [0x61]) :=
  ⟨[⟨64, [3, 0x61]⟩], by decide +kernel, by decide, by decide⟩

/-! ### Non-vacuity (tests): the hypotheses are satisfiable -/

/-- a tagged, salt-encrypted string (Tunnel-Password): well-formed, accepted, stored, read back -/
example : ∃ as', hSet zeroHash ⟨69, 0, 0, .string, true, 2, none⟩ [] 1 (.bytes [97, 98]) [1]
    (zeros 16) [0x80, 7] = .ok as' := by
  have := refusal_leaves_unchanged zeroHash ⟨69, 0, 0, .string, true, 2, none⟩ [] 1 (.bytes [97, 98]) [1]
    (zeros 16) [0x80, 7]
  rcases this.1 with h | h
  · rw [set_refused_iff zeroHash zeroHash_len _ (by decide)] at h
    simp [encodeRefused, encFails, Desc.usesSalt, Kind.isText, zeros] at h
  · exact h
example : valueOK ⟨69, 0, 0, .string, true, 2, none⟩ 1 (.bytes [97, 98]) := by decide
example : Desc.wf ⟨26, 9, 1, .integer, false, 0, none⟩ := by decide
example : Desc.indep ⟨26, 9, 1, .integer, false, 0, none⟩ ⟨26, 9, 2, .string, false, 0, none⟩ := by decide
example : Desc.indep ⟨1, 0, 0, .string, false, 0, none⟩ ⟨26, 9, 2, .string, false, 0, none⟩ := by decide

/-! ### The type octet (second audit, finding 1)

`survives_wire` assumes `d.wf`, hence `0 ≤ d.typ ≤ 255`.  The hypothesis is needed: the wire form has one octet
for the Type, `encodeTo` skips every other type, so a helper for "attribute 300" stores a value that never leaves
the process.  The generator used to emit such helpers for top-level attributes (fix 07e31b9 in /repo; C17
`top_level_number_must_fit_the_type_octet`). -/

def dBeyond : Desc := { typ := 300, vendorID := 0, vendorType := 0, kind := .string, hasTag := false, encrypt := 0, size := none }
def pBeyond : Packet := { code := 1, id := 7, auth := List.replicate 16 0, secret := [115], attrs := [⟨300, [97, 98]⟩] }
def wBeyond : Bytes := [1, 7, 0, 20, 0, 0, 0, 0, 0, 0, 0, 0, 0, 0, 0, 0, 0, 0, 0, 0]

/-- without the range the clause fails: the packet marshals (to a bare header), parses, and the value is gone -/
theorem survives_wire_needs_the_type_octet :
    ¬ dBeyond.wf ∧ marshal pBeyond = .ok wBeyond ∧
    ∃ q, parse wBeyond [115] = .ok q ∧ q.attrs = [] ∧ rawValues dBeyond q.attrs ≠ rawValues dBeyond pBeyond.attrs := by
  refine ⟨by decide, by decide +kernel, ?_⟩
  have h := C01.parse_marshal pBeyond wBeyond [115] (by decide +kernel) (by decide) (by decide)
  exact ⟨_, h, by decide, by decide⟩

end RV.C12
