/-
  C12 — laws of the generated attribute helpers (X_Add / X_Set / X_Del / X_Get / X_Lookup / X_Gets
  emitted by dictionarygen/attributes.go), for every descriptor the generator accepts (`Desc.wf`),
  top-level and vendor attributes alike, and for an arbitrary hash `H` with 16-byte output.

  Vocabulary (RV/Proofs/Helper.lean):
    `Desc.wf d`            the flag combinations the generator emits code for
    `valueOK d tag v`      = `valueTyped` (Go parameter type / width; tag 0 when the helper has no
                             tag parameter) ∧ three exclusions that correspond to known findings:
                             `tagInRange` (tag ≤ 0x1F), `tagIntFits` (tagged integer < 2^24),
                             `nulFree` (no NUL octet in an encrypt=1 text value)
    `canon d v`            the value a getter returns (addresses in 4- or 16-byte form, prefix with its
                             host bits cleared)
    `Desc.indep d d'`      the two descriptors address different storage
    `isWrite H d as as'`   as' is the result of a successful Set or Add of d on as, or of Del
    `encodeRefused …`      explicit refusal predicate of the encoding half of a setter
  The full-strength versions without each exclusion are stated as `…_full` and refuted.
-/
import RV.Model.Helper
import RV.Proofs.Helper
import RV.Props.C01
import RV.Props.C10
namespace RV.C12
open RV

section
variable (H : Hash)

/-! ### 1. values survive encode → decode -/

/-- reading back what a setter stored gives the tag and the (canonical) value -/
theorem decode_encode (hH : ∀ x, (H x).length = 16) (d : Desc) (hwf : d.wf) (tag : UInt8) (v : GVal)
    (secret auth salt a : Bytes) (hv : valueOK d tag v)
    (he : encodeValue H d tag v secret auth salt = .ok a) :
    decodeValue H d a secret auth = .ok (tag, canon d v) :=
  decode_encode_all H hH d hwf tag v secret auth salt a hv he

/-- `canon` uses the same host-bit clearing as C10's prefix round trip -/
theorem canon_prefix_is_C10 (ip : Bytes) (n : Nat) : maskIP' ip n = C10.maskIP ip n := rfl

/-! ### 2. Set then Get / Lookup / Gets -/

/-- after a successful X_Set(p, v), X_Lookup returns v with its tag — whatever the packet held -/
theorem set_lookup (hH : ∀ x, (H x).length = 16) (d : Desc) (hwf : d.wf) (hk : d.kind ≠ .concat)
    (as as' : Attrs) (tag : UInt8) (v : GVal) (secret auth salt : Bytes) (hv : valueOK d tag v)
    (h : hSet H d as tag v secret auth salt = .ok as') :
    hLookup H d as' secret auth = .val tag (canon d v) := by
  obtain ⟨a, he, hr⟩ := rawValues_hSet H d hwf hk as as' tag v secret auth salt h
  exact hLookup_of_raw_single H d hk as' secret auth a [] _ hr
    (decode_encode_all H hH d hwf tag v secret auth salt a hv he)

/-- … and X_Gets returns exactly [v] -/
theorem set_gets_single (hH : ∀ x, (H x).length = 16) (d : Desc) (hwf : d.wf) (hk : d.kind ≠ .concat)
    (as as' : Attrs) (tag : UInt8) (v : GVal) (secret auth salt : Bytes) (hv : valueOK d tag v)
    (h : hSet H d as tag v secret auth salt = .ok as') :
    hGets H d as' secret auth = ([(tag, canon d v)], true) := by
  obtain ⟨a, he, hr⟩ := rawValues_hSet H d hwf hk as as' tag v secret auth salt h
  rw [hGets_eq, hr, hGets_go_cons_ok H d secret auth a [] _
    (decode_encode_all H hH d hwf tag v secret auth salt a hv he)]
  rfl

/-- exactly one stored occurrence is left -/
theorem set_stores_one (d : Desc) (hwf : d.wf) (hk : d.kind ≠ .concat)
    (as as' : Attrs) (tag : UInt8) (v : GVal) (secret auth salt : Bytes)
    (h : hSet H d as tag v secret auth salt = .ok as') :
    ∃ a, encodeValue H d tag v secret auth salt = .ok a ∧ rawValues d as' = [a] :=
  rawValues_hSet H d hwf hk as as' tag v secret auth salt h

/-! ### 3. Add appends -/

/-- X_Add appends one stored value after the existing ones -/
theorem add_appends (d : Desc) (hwf : d.wf) (as as' : Attrs) (tag : UInt8) (v : GVal)
    (secret auth salt : Bytes) (h : hAdd H d as tag v secret auth salt = .ok as') :
    ∃ a, encodeValue H d tag v secret auth salt = .ok a ∧ rawValues d as' = rawValues d as ++ [a] :=
  rawValues_hAdd H d hwf as as' tag v secret auth salt h

/-- X_Gets after X_Add = X_Gets before, followed by the added value (when the earlier values decode) -/
theorem add_gets_append (hH : ∀ x, (H x).length = 16) (d : Desc) (hwf : d.wf)
    (as as' : Attrs) (tag : UInt8) (v : GVal) (secret auth salt : Bytes) (hv : valueOK d tag v)
    (vs : List (UInt8 × GVal)) (hg : hGets H d as secret auth = (vs, true))
    (h : hAdd H d as tag v secret auth salt = .ok as') :
    hGets H d as' secret auth = (vs ++ [(tag, canon d v)], true) := by
  obtain ⟨a, he, hr⟩ := rawValues_hAdd H d hwf as as' tag v secret auth salt h
  rw [hGets_eq] at hg ⊢
  rw [hr, hGets_go_append_ok H d secret auth _ [a] vs hg,
    hGets_go_cons_ok H d secret auth a [] _ (decode_encode_all H hH d hwf tag v secret auth salt a hv he)]
  rfl

/-- when an earlier stored value does not decode, X_Gets keeps reporting that error -/
theorem add_gets_earlier_error (d : Desc) (hwf : d.wf)
    (as as' : Attrs) (tag : UInt8) (v : GVal) (secret auth salt : Bytes)
    (vs : List (UInt8 × GVal)) (hg : hGets H d as secret auth = (vs, false))
    (h : hAdd H d as tag v secret auth salt = .ok as') :
    hGets H d as' secret auth = (vs, false) := by
  obtain ⟨a, _, hr⟩ := rawValues_hAdd H d hwf as as' tag v secret auth salt h
  rw [hGets_eq] at hg ⊢
  rw [hr, hGets_go_append_fail H d secret auth _ [a] vs hg]

/-- a sequence of X_Add calls (tag, value, salt drawn for that call) -/
def addAll (d : Desc) (secret auth : Bytes) : Attrs → List (UInt8 × GVal × Bytes) → Res Attrs
  | as, [] => .ok as
  | as, (tag, v, salt) :: rest =>
    match hAdd H d as tag v secret auth salt with
    | .ok as' => addAll d secret auth as' rest
    | .err => .err
    | .fault => .fault

/-- X_Gets returns all added values, in the order they were added -/
theorem adds_gets_all (hH : ∀ x, (H x).length = 16) (d : Desc) (hwf : d.wf) (secret auth : Bytes)
    (ops : List (UInt8 × GVal × Bytes)) (hops : ∀ o ∈ ops, valueOK d o.1 o.2.1)
    (as as' : Attrs) (vs : List (UInt8 × GVal)) (hg : hGets H d as secret auth = (vs, true))
    (h : addAll H d secret auth as ops = .ok as') :
    hGets H d as' secret auth = (vs ++ ops.map (fun o => (o.1, canon d o.2.1)), true) := by
  induction ops generalizing as vs with
  | nil => simp only [addAll, Res.ok.injEq] at h; subst h; simpa using hg
  | cons o ops ih =>
    obtain ⟨tag, v, salt⟩ := o
    simp only [addAll] at h
    cases h1 : hAdd H d as tag v secret auth salt with
    | err => simp [h1] at h
    | fault => simp [h1] at h
    | ok as1 =>
      simp only [h1] at h
      have hv : valueOK d tag v := hops (tag, v, salt) (List.mem_cons_self)
      have := add_gets_append H hH d hwf as as1 tag v secret auth salt hv vs hg h1
      rw [ih (fun o ho => hops o (List.mem_cons_of_mem _ ho)) as1 _ this h]
      simp

/-! ### 4. Del removes every occurrence -/

theorem del_lookup_none (d : Desc) (as : Attrs) (secret auth : Bytes) :
    rawValues d (hDel d as) = [] ∧
    hLookup H d (hDel d as) secret auth = .noAttr ∧
    hGets H d (hDel d as) secret auth = ([], true) := by
  have hr := rawValues_hDel d as
  refine ⟨hr, hLookup_of_raw_nil H d _ secret auth hr, ?_⟩
  rw [hGets_eq, hr]; rfl

/-! ### 5. an operation on one attribute never alters another -/

/-- every write of `d` (successful Set or Add, or Del) leaves every read of an independent `d'`
    unchanged: stored values, Lookup, Gets -/
theorem noninterference (d d' : Desc) (hwf : d.wf) (hi : d.indep d') (as as' : Attrs)
    (hw : isWrite H d as as') (secret auth : Bytes) :
    rawValues d' as' = rawValues d' as ∧
    hLookup H d' as' secret auth = hLookup H d' as secret auth ∧
    hGets H d' as' secret auth = hGets H d' as secret auth := by
  have hr := rawValues_indep H d d' hwf hi as as' hw
  exact ⟨hr, hLookup_congr H d' as as' secret auth hr, hGets_congr H d' as as' secret auth hr⟩

/-- a top-level write keeps every attribute of another type verbatim and in order -/
theorem top_write_keeps_others (d : Desc) (h0 : d.vendorID = 0) (as as' : Attrs)
    (hw : isWrite H d as as') :
    as'.filter (fun a => a.typ ≠ d.typ) = as.filter (fun a => a.typ ≠ d.typ) :=
  write_top_filter H d h0 as as' hw

/-- a vendor write keeps the C14 view (foreign attributes verbatim, the vendor's other
    sub-attributes and residues byte for byte, all in order) -/
theorem vendor_write_keeps_view (d : Desc) (hwf : d.wf) (h0 : d.vendorID ≠ 0) (as as' : Attrs)
    (hw : isWrite H d as as') :
    othersView d.vendorID d.vendorType as' = othersView d.vendorID d.vendorType as :=
  (write_vendor H d hwf h0 as as' hw).1

/-! ### 6. refusals -/

/-- setters return an error or a new packet, never panic; `.err` carries no packet, so a refused
    operation leaves the caller's packet as it was -/
theorem never_faults (d : Desc) (as : Attrs) (tag : UInt8) (v : GVal) (secret auth salt : Bytes) :
    hSet H d as tag v secret auth salt ≠ .fault ∧ hAdd H d as tag v secret auth salt ≠ .fault :=
  ⟨hSet_ne_fault H d as tag v secret auth salt, hAdd_ne_fault H d as tag v secret auth salt⟩

theorem refusal_leaves_unchanged (d : Desc) (as : Attrs) (tag : UInt8) (v : GVal) (secret auth salt : Bytes) :
    (hSet H d as tag v secret auth salt = .err ∨ ∃ as', hSet H d as tag v secret auth salt = .ok as') ∧
    (hAdd H d as tag v secret auth salt = .err ∨ ∃ as', hAdd H d as tag v secret auth salt = .ok as') := by
  have h := never_faults H d as tag v secret auth salt
  constructor
  · cases hs : hSet H d as tag v secret auth salt with
    | ok as' => exact Or.inr ⟨as', rfl⟩
    | err => exact Or.inl rfl
    | fault => exact absurd hs h.1
  · cases hs : hAdd H d as tag v secret auth salt with
    | ok as' => exact Or.inr ⟨as', rfl⟩
    | err => exact Or.inl rfl
    | fault => exact absurd hs h.2

/-- the encoding half of a setter errs exactly on the explicit refusal predicate -/
theorem encode_refused_iff (hH : ∀ x, (H x).length = 16) (d : Desc) (hwf : d.wf) (tag : UInt8)
    (v : GVal) (secret auth salt : Bytes) :
    encodeValue H d tag v secret auth salt = .err ↔ encodeRefused d tag v secret auth salt :=
  encodeValue_err_iff H hH d hwf tag v secret auth salt

/-- X_Set is refused exactly when the value cannot be encoded or (vendor attribute) its encoding is
    empty or longer than 247 bytes; the condition does not mention the packet -/
theorem set_refused_iff (hH : ∀ x, (H x).length = 16) (d : Desc) (hwf : d.wf) (as : Attrs) (tag : UInt8)
    (v : GVal) (secret auth salt : Bytes) :
    hSet H d as tag v secret auth salt = .err ↔
      if d.kind = .concat then (∀ b, v ≠ .bytes b)
      else encodeRefused d tag v secret auth salt ∨
        (d.vendorID ≠ 0 ∧ ∃ a, encodeValue H d tag v secret auth salt = .ok a ∧
          (a.length = 0 ∨ 247 < a.length)) :=
  hSet_err_iff H hH d hwf as tag v secret auth salt

theorem add_refused_iff (hH : ∀ x, (H x).length = 16) (d : Desc) (hwf : d.wf) (as : Attrs) (tag : UInt8)
    (v : GVal) (secret auth salt : Bytes) :
    hAdd H d as tag v secret auth salt = .err ↔
      d.kind = .concat ∨ encodeRefused d tag v secret auth salt ∨
        (d.vendorID ≠ 0 ∧ ∃ a, encodeValue H d tag v secret auth salt = .ok a ∧
          (a.length = 0 ∨ 247 < a.length)) :=
  hAdd_err_iff H hH d hwf as tag v secret auth salt

/-- instances of the refusal predicate named in the property -/
theorem refuses_wrong_fixed_size (hH : ∀ x, (H x).length = 16) (d : Desc) (hwf : d.wf)
    (hk : d.kind = .string ∨ d.kind = .octets) (n : Nat) (hs : d.size = some n) (b : Bytes)
    (hb : b.length ≠ n) (as : Attrs) (tag : UInt8) (secret auth salt : Bytes) :
    hSet H d as tag (.bytes b) secret auth salt = .err ∧ hAdd H d as tag (.bytes b) secret auth salt = .err := by
  have hr : encodeRefused d tag (.bytes b) secret auth salt := by
    rcases hk with h | h <;> simp only [encodeRefused, h] <;> left <;> simp [hs] <;> omega
  have hc : d.kind ≠ .concat := by rcases hk with h | h <;> simp [h]
  exact ⟨(hSet_err_iff H hH d hwf as tag _ secret auth salt).2 (by rw [if_neg hc]; exact Or.inl hr),
    (hAdd_err_iff H hH d hwf as tag _ secret auth salt).2 (Or.inr (Or.inl hr))⟩

theorem refuses_wrong_address_family (hH : ∀ x, (H x).length = 16) (d : Desc) (hwf : d.wf)
    (ip : Bytes) (hk : (d.kind = .ipaddr ∧ to4 ip = none) ∨ (d.kind = .ipv6addr ∧ to16 ip = none))
    (as : Attrs) (tag : UInt8) (secret auth salt : Bytes) :
    hSet H d as tag (.bytes ip) secret auth salt = .err := by
  have hr : encodeRefused d tag (.bytes ip) secret auth salt := by
    rcases hk with ⟨h, h4⟩ | ⟨h, h4⟩ <;> simp only [encodeRefused, h] <;> exact Or.inl h4
  have hc : d.kind ≠ .concat := by rcases hk with ⟨h, _⟩ | ⟨h, _⟩ <;> simp [h]
  exact (hSet_err_iff H hH d hwf as tag _ secret auth salt).2 (by rw [if_neg hc]; exact Or.inl hr)

theorem refuses_oversize (hH : ∀ x, (H x).length = 16) (d : Desc) (hwf : d.wf)
    (hk : d.kind = .string ∨ d.kind = .octets) (he : d.encrypt = 0) (b : Bytes) (tag : UInt8)
    (hb : 253 < b.length ∨ (b.length = 253 ∧ d.hasTag = true ∧ tag.toNat ≤ 0x1F))
    (as : Attrs) (secret auth salt : Bytes) :
    hSet H d as tag (.bytes b) secret auth salt = .err := by
  have hr : encodeRefused d tag (.bytes b) secret auth salt := by
    rcases hk with h | h <;> simp only [encodeRefused, h] <;> rcases hb with hb | hb
    · exact Or.inr (Or.inl ⟨he, hb⟩)
    · exact Or.inr (Or.inr (Or.inr ⟨hb.2.1, hb.2.2, he, hb.1⟩))
    · exact Or.inr (Or.inl ⟨he, hb⟩)
    · exact Or.inr (Or.inr (Or.inr ⟨hb.2.1, hb.2.2, he, hb.1⟩))
  have hc : d.kind ≠ .concat := by rcases hk with h | h <;> simp [h]
  exact (hSet_err_iff H hH d hwf as tag _ secret auth salt).2 (by rw [if_neg hc]; exact Or.inl hr)

theorem refuses_out_of_range_time (hH : ∀ x, (H x).length = 16) (d : Desc) (hwf : d.wf)
    (hk : d.kind = .date) (u : Int) (hu : u < 0 ∨ 4294967295 < u)
    (as : Attrs) (tag : UInt8) (secret auth salt : Bytes) :
    hSet H d as tag (.time u) secret auth salt = .err := by
  have hr : encodeRefused d tag (.time u) secret auth salt := by
    simp only [encodeRefused, hk]; exact hu
  have hc : d.kind ≠ .concat := by simp [hk]
  exact (hSet_err_iff H hH d hwf as tag _ secret auth salt).2 (by rw [if_neg hc]; exact Or.inl hr)

theorem refuses_empty_vendor_value (hH : ∀ x, (H x).length = 16) (d : Desc) (hwf : d.wf)
    (hv : d.vendorID ≠ 0) (tag : UInt8) (v : GVal) (secret auth salt : Bytes)
    (he : encodeValue H d tag v secret auth salt = .ok [])
    (as : Attrs) : hSet H d as tag v secret auth salt = .err := by
  have hc : d.kind ≠ .concat := fun hk => hv (hwf.2.2.2.2.1 hk).2.2.2
  exact (hSet_err_iff H hH d hwf as tag _ secret auth salt).2
    (by rw [if_neg hc]; exact Or.inr ⟨hv, [], he, Or.inl rfl⟩)

/-! ### 7. encrypted attributes are stored obfuscated and read back with the same secret -/

/-- encrypt=1 text: the stored bytes after the optional tag octet are exactly the RFC 2865 §5.2
    ciphertext -/
theorem stored_obfuscated_user (hH : ∀ x, (H x).length = 16) (d : Desc) (hwf : d.wf)
    (hk : d.kind = .string ∨ d.kind = .octets) (he : d.encrypt = 1)
    (as as' : Attrs) (tag : UInt8) (b secret auth salt : Bytes)
    (h : hSet H d as tag (.bytes b) secret auth salt = .ok as') :
    rawValues d as' = [tagPrefix d tag ++ Rfc2865.userPasswordCipher H b secret auth] := by
  have hc : d.kind ≠ .concat := by rcases hk with h | h <;> simp [h]
  obtain ⟨a, hea, hr⟩ := rawValues_hSet H d hwf hc as as' tag _ secret auth salt h
  obtain ⟨c, hcc, ha⟩ := stored_text H d hk tag b secret auth salt a hea
  rw [hr, ha, ((textCipher_length H hH d hk b secret auth salt c hcc).2.1 he).1]

/-- salt-encrypted attributes (encrypt=2 on text, addresses, untagged integers): the stored bytes
    after the optional tag octet are exactly the RFC 2868 §3.5 encoding under the given salt -/
theorem stored_obfuscated_salt (hH : ∀ x, (H x).length = 16) (d : Desc) (hwf : d.wf)
    (hs : d.usesSalt = true) (as as' : Attrs) (tag : UInt8) (v : GVal) (secret auth salt : Bytes)
    (h : hSet H d as tag v secret auth salt = .ok as') :
    ∃ clear, clearBytes d v = some clear ∧
      rawValues d as' = [tagPrefix d tag ++ Rfc2868.tunnelPasswordCipher H clear salt secret auth] := by
  have hc : d.kind ≠ .concat := by
    intro hk; have := (hwf.2.2.2.2.1 hk).1; have := usesSalt_encrypt hs; omega
  obtain ⟨a, hea, hr⟩ := rawValues_hSet H d hwf hc as as' tag _ secret auth salt h
  obtain ⟨p, hp, ha⟩ := stored_salted H hH d hwf hs tag v secret auth salt a hea
  exact ⟨p, hp, by rw [hr, ha]⟩

/-! ### 8. values survive Encode → Parse -/

/-- if the packet marshals, parsing the datagram gives back the attribute list (types 0-255), hence
    the same stored values and the same Lookup / Gets for every helper -/
theorem survives_wire (d : Desc) (hwf : d.wf) (p : Packet) (w s : Bytes) (hm : marshal p = .ok w)
    (hc : 0 ≤ p.code ∧ p.code ≤ 255) (ha : p.auth.length = 16) (secret auth : Bytes) :
    ∃ q, parse w s = .ok q ∧ q.attrs = p.attrs.filter validType ∧
      rawValues d q.attrs = rawValues d p.attrs ∧
      hLookup H d q.attrs secret auth = hLookup H d p.attrs secret auth ∧
      hGets H d q.attrs secret auth = hGets H d p.attrs secret auth := by
  refine ⟨_, C01.parse_marshal p w s hm hc ha, rfl, ?_⟩
  have hr := rawValues_filter_valid d hwf p.attrs
  exact ⟨hr, hLookup_congr H d _ _ secret auth hr, hGets_congr H d _ _ secret auth hr⟩

/-! ### 9. concat attributes -/

/-- X_Set of a concat attribute replaces the value; X_Lookup returns the whole value (the chunks
    joined), or reports no attribute when the value is empty -/
theorem set_lookup_concat (d : Desc) (hwf : d.wf) (hk : d.kind = .concat) (as as' : Attrs)
    (tag : UInt8) (v : GVal) (secret auth salt : Bytes)
    (h : hSet H d as tag v secret auth salt = .ok as') :
    ∃ b, v = .bytes b ∧ rawValues d as' = chunks253 b ∧
      hLookup H d as' secret auth = if b = [] then .noAttr else .val 0 (.bytes b) := by
  obtain ⟨b, hv, hr⟩ := rawValues_hSet_concat H d hwf hk as as' tag v secret auth salt h
  refine ⟨b, hv, hr, ?_⟩
  rw [hLookup_concat H d hk, hr, chunks253_flatten]
  by_cases hb : b = []
  · rw [if_pos hb, if_pos ((chunks253_eq_nil_iff b).2 hb)]
  · rw [if_neg hb, if_neg (fun e => hb ((chunks253_eq_nil_iff b).1 e))]

/-- the stored chunks are non-empty, at most 253 bytes each, and concatenate to the value -/
theorem concat_chunks (b : Bytes) :
    (chunks253 b).flatten = b ∧ ∀ c ∈ chunks253 b, 1 ≤ c.length ∧ c.length ≤ 253 :=
  ⟨chunks253_flatten b, chunks253_bound b⟩

end

/-! ### 10. the three exclusions are necessary (known findings of the Go code) -/

/-- full strength without the tag bound -/
def set_lookup_anyTag_full : Prop :=
  ∀ (H : Hash), (∀ x, (H x).length = 16) → ∀ (d : Desc), d.wf → d.kind ≠ .concat →
    ∀ (as as' : Attrs) (tag : UInt8) (v : GVal) (secret auth salt : Bytes),
      valueTyped d tag v → tagIntFits d v → nulFree d v →
      hSet H d as tag v secret auth salt = .ok as' →
      hLookup H d as' secret auth = .val tag (canon d v)

/-- full strength without the 24-bit bound on tagged integers -/
def set_lookup_anyTaggedInt_full : Prop :=
  ∀ (H : Hash), (∀ x, (H x).length = 16) → ∀ (d : Desc), d.wf → d.kind ≠ .concat →
    ∀ (as as' : Attrs) (tag : UInt8) (v : GVal) (secret auth salt : Bytes),
      valueTyped d tag v → tagInRange d tag → nulFree d v →
      hSet H d as tag v secret auth salt = .ok as' →
      hLookup H d as' secret auth = .val tag (canon d v)

/-- full strength without the NUL exclusion on encrypt=1 text -/
def set_lookup_anyNul_full : Prop :=
  ∀ (H : Hash), (∀ x, (H x).length = 16) → ∀ (d : Desc), d.wf → d.kind ≠ .concat →
    ∀ (as as' : Attrs) (tag : UInt8) (v : GVal) (secret auth salt : Bytes),
      valueTyped d tag v → tagInRange d tag → tagIntFits d v →
      hSet H d as tag v secret auth salt = .ok as' →
      hLookup H d as' secret auth = .val tag (canon d v)

def zeroHash : Hash := fun _ => zeros 16
theorem zeroHash_len : ∀ x, (zeroHash x).length = 16 := fun _ => by simp [zeroHash, zeros]

/-- tag 0x20 on a tagged string: the setter stores no tag octet, the getter takes the first value
    octet (≤ 0x1F) for a tag -/
theorem set_lookup_anyTag_counterexample : ¬ set_lookup_anyTag_full := by
  intro h
  let d : Desc := ⟨64, 0, 0, .string, true, 0, none⟩
  have hset : hSet zeroHash d [] 0x20 (.bytes [1, 2]) [] [] [] = .ok [⟨64, [1, 2]⟩] := by
    simp [hSet, d, encodeValue, newBytes, set_eq_spec, Spec.set]
  have := h zeroHash zeroHash_len d (by decide) (by decide) [] _ 0x20 (.bytes [1, 2]) [] [] []
    (by decide) (by decide) (by decide) hset
  revert this
  decide

/-- a tagged integer ≥ 2^24: the top octet is replaced by the tag -/
theorem set_lookup_anyTaggedInt_counterexample : ¬ set_lookup_anyTaggedInt_full := by
  intro h
  let d : Desc := ⟨64, 0, 0, .integer, true, 0, none⟩
  have hset : hSet zeroHash d [] 1 (.nat 0x01000000) [] [] [] = .ok [⟨64, [1, 0, 0, 0]⟩] := by
    simp [hSet, d, encodeValue, Kind.intBytes, beBytes, set_eq_spec, Spec.set]
  have := h zeroHash zeroHash_len d (by decide) (by decide) [] _ 1 (.nat 0x01000000) [] [] []
    (by decide) (by decide) (by decide) hset
  revert this
  decide

/-- an encrypt=1 value with an inner NUL is cut at the NUL when read back -/
theorem set_lookup_anyNul_counterexample : ¬ set_lookup_anyNul_full := by
  intro h
  let d : Desc := ⟨2, 0, 0, .string, false, 1, none⟩
  have hwf : d.wf := by decide
  have hk : d.kind ≠ .concat := by decide
  have hH := zeroHash_len
  obtain ⟨c, hc⟩ := (newUserPassword_ok_iff zeroHash [65, 0, 66] [1] (zeros 16)).2
    ⟨by decide, by decide, by decide⟩
  have he : encodeValue zeroHash d 0 (.bytes [65, 0, 66]) [1] (zeros 16) [] = .ok c := by
    rw [encodeValue_text zeroHash d (Or.inl rfl)]
    simp [d, textCipher, obfuscate_eq, Kind.isText, hc]
  have hset : hSet zeroHash d [] 0 (.bytes [65, 0, 66]) [1] (zeros 16) [] = .ok (Attrs.set [] 2 c) := by
    unfold hSet; rw [if_neg hk, he]; rfl
  have hl := h zeroHash hH d hwf hk [] _ 0 (.bytes [65, 0, 66]) [1] (zeros 16) []
    (by decide) (by decide) (by decide) hset
  obtain ⟨a, hea, hr⟩ := rawValues_hSet zeroHash d hwf hk [] _ 0 _ [1] (zeros 16) [] hset
  rw [he] at hea; cases hea
  have hdec : decodeValue zeroHash d c [1] (zeros 16) = .ok (0, .bytes [65]) := by
    rw [decodeValue_text zeroHash d (Or.inl rfl)]
    have hu : untag d c = (0, c) := by unfold untag; rw [if_neg (by simp [d])]
    have hp : textPlain zeroHash d c [1] (zeros 16) = .ok [65] := by
      unfold textPlain; rw [if_pos rfl, userPassword_roundtrip zeroHash hH _ _ _ c hc]; rfl
    rw [hu, hp]; simp [d]
  rw [hLookup_of_raw_single zeroHash d hk _ [1] (zeros 16) c [] _ hr hdec] at hl
  revert hl
  decide

/-! ### Non-vacuity (tests): the hypotheses are satisfiable -/

/-- a tagged, salt-encrypted string (Tunnel-Password): well-formed, accepted, stored, read back -/
example : ∃ as', hSet zeroHash ⟨69, 0, 0, .string, true, 2, none⟩ [] 1 (.bytes [97, 98]) [1]
    (zeros 16) [0x80, 7] = .ok as' := by
  have := refusal_leaves_unchanged zeroHash ⟨69, 0, 0, .string, true, 2, none⟩ [] 1 (.bytes [97, 98]) [1]
    (zeros 16) [0x80, 7]
  rcases this.1 with h | h
  · rw [set_refused_iff zeroHash zeroHash_len _ (by decide)] at h
    simp [encodeRefused, encFails, Desc.usesSalt, Kind.isText, zeros] at h
  · exact h
example : valueOK ⟨69, 0, 0, .string, true, 2, none⟩ 1 (.bytes [97, 98]) := by decide
example : Desc.wf ⟨26, 9, 1, .integer, false, 0, none⟩ := by decide
example : Desc.indep ⟨26, 9, 1, .integer, false, 0, none⟩ ⟨26, 9, 2, .string, false, 0, none⟩ := by decide
example : Desc.indep ⟨1, 0, 0, .string, false, 0, none⟩ ⟨26, 9, 2, .string, false, 0, none⟩ := by decide

end RV.C12
