/-
  C20 — dictionary.Merge is a conflict-checked ordered union that never modifies its inputs.

  `merge m d1 d2 st` (RV.Model.DictMerge) is helpers.go on a vendor heap: dictionaries hold vendor
  *references*, `resolve st d` is the value a dictionary denotes.  `m = .fixed` is the repaired Merge
  (the matched vendor is copied before it is extended), `m = .current` the unrepaired one (extends
  `d1`'s vendor through the shared pointer).  `Spec.*` is the statement on dictionary values.

  What the theorems quantify over.
  * Well-formed inputs: `Spec.WF` = vendor names unique and vendor numbers unique inside each
    dictionary (what the parser guarantees; the statement says "well-formed dictionaries").  It is
    needed: with two vendors of one number in `d2`, the second is folded into the first although the
    statement wants both listed; with two vendors of one number in `d1`, a vendor of `d2` that equals
    the second in name and number is refused.  The success condition needs `WF d1` only.
  * `Valid st d`: every vendor pointer is allocated (a nil `*Vendor` makes the Go code panic).
  * Sharing is allowed: `d1` and `d2` may contain the same vendor reference (Merge(d,d),
    Merge(Merge(d1,d2),d1), …).  For the repaired Merge no hypothesis about sharing is needed because
    it never writes to an existing vendor.  The unrepaired Merge does, which is the defect.
  * Attributes and values are plain values (Merge never writes through those pointers); spare slice
    capacity is not modelled (the harness observes it).
-/
import RV.Model.DictMerge
import RV.Proofs.DictMerge
namespace RV.C20
open RV.Dict RV.DictMerge

/-- Merge succeeds iff no top-level attribute of the second shares a name or number with one of the
    first, every vendor of the second matches a vendor of the first on both name and number or on
    neither, and matched vendors have no attribute name or number in common.  (Either variant; the
    first input well-formed.) -/
theorem merge_ok_iff (m : Mode) (d1 d2 : DictR) (st : Store) (hw1 : Spec.WF (resolve st d1)) :
    (∃ out, merge m d1 d2 st = .ok out) ↔ Spec.ConflictFree (resolve st d1) (resolve st d2) := by
  exact merge_ok_iff_conflictFree m d1 d2 st hw1

/-- The result: attributes and values are `d1 ++ d2`; the vendors are `d1`'s vendors, a matched one
    carrying `a1 ++ a2` and `v1 ++ v2` under `d1`'s entry, then the unmatched vendors of `d2` in order. -/
theorem result_union {d1 d2 r : DictR} {st st' : Store}
    (hv1 : Valid st d1) (hv2 : Valid st d2)
    (hw1 : Spec.WF (resolve st d1)) (hw2 : Spec.WF (resolve st d2))
    (h : mergeFixed d1 d2 st = .ok (r, st')) :
    (resolve st' r).attributes = (resolve st d1).attributes ++ (resolve st d2).attributes ∧
    (resolve st' r).values = (resolve st d1).values ++ (resolve st d2).values ∧
    (resolve st' r).vendors =
      (resolve st d1).vendors.map (Spec.combine (resolve st d2).vendors) ++
      (resolve st d2).vendors.filter (fun v2 => (Spec.matchOf (resolve st d1).vendors v2).isNone) := by
  obtain ⟨_, heq⟩ := spec_merge_eq (merge_fixed_result hv1 hv2 hw1 hw2 h).2.2
  rw [heq]; exact ⟨rfl, rfl, rfl⟩

/-- Success condition and result in one equation: what an observer sees of the repaired Merge is the
    specification's `merge` of the two input values. -/
theorem merge_refines_spec {d1 d2 : DictR} {st : Store}
    (hv1 : Valid st d1) (hv2 : Valid st d2)
    (hw1 : Spec.WF (resolve st d1)) (hw2 : Spec.WF (resolve st d2)) :
    observe (mergeFixed d1 d2 st) = Spec.merge (resolve st d1) (resolve st d2) := by
  exact merge_fixed_refines hv1 hv2 hw1 hw2

/-- The result contains every attribute, value and vendor of both inputs exactly once, a matched
    vendor's declarations combined under one entry. -/
theorem exactly_once {d1 d2 r : DictR} {st st' : Store}
    (hv1 : Valid st d1) (hv2 : Valid st d2)
    (hw1 : Spec.WF (resolve st d1)) (hw2 : Spec.WF (resolve st d2))
    (h : mergeFixed d1 d2 st = .ok (r, st')) :
    Spec.ExactlyOnce (resolve st d1) (resolve st d2) (resolve st' r) := by
  exact spec_exactly_once hw1 hw2 (merge_fixed_result hv1 hv2 hw1 hw2 h).2.2

/-- The specification's result satisfies the count check the oracle runs on the implementation. -/
theorem exactly_once_check_sound {d1 d2 r : Dictionary} (h1 : Spec.WF d1) (h2 : Spec.WF d2)
    (h : Spec.merge d1 d2 = some r) : Spec.exactlyOnce d1 d2 r = true := by
  exact exactlyOnce_of_ExactlyOnce (spec_exactly_once h1 h2 h)

/-- The result of a merge is well-formed and valid again, so merges can be chained. -/
theorem result_wellformed {d1 d2 r : DictR} {st st' : Store}
    (hv1 : Valid st d1) (hv2 : Valid st d2)
    (hw1 : Spec.WF (resolve st d1)) (hw2 : Spec.WF (resolve st d2))
    (h : mergeFixed d1 d2 st = .ok (r, st')) :
    Valid st' r ∧ Spec.WF (resolve st' r) := by
  have hr := merge_fixed_result hv1 hv2 hw1 hw2 h
  exact ⟨hr.2.1, spec_merge_wf hw1 hw2 hr.2.2⟩

/-- "Merge never modifies either input dictionary", as a statement about a variant of Merge: after a
    successful call both inputs denote what they denoted before. -/
def inputs_unchanged_full (m : Mode) : Prop :=
  ∀ (d1 d2 r : DictR) (st st' : Store),
    Valid st d1 → Valid st d2 → Spec.WF (resolve st d1) → Spec.WF (resolve st d2) →
    merge m d1 d2 st = .ok (r, st') →
    resolve st' d1 = resolve st d1 ∧ resolve st' d2 = resolve st d2

/-- The repaired Merge only allocates: every vendor that existed before the call is untouched … -/
theorem store_only_grows {d1 d2 r : DictR} {st st' : Store}
    (hv1 : Valid st d1) (hv2 : Valid st d2)
    (hw1 : Spec.WF (resolve st d1)) (hw2 : Spec.WF (resolve st d2))
    (h : mergeFixed d1 d2 st = .ok (r, st')) :
    ∀ ref, ref < st.length → deref st' ref = deref st ref := by
  obtain ⟨⟨ext, rfl⟩, _, _⟩ := merge_fixed_result hv1 hv2 hw1 hw2 h
  exact fun ref href => deref_append_left href

/-- … hence the store agrees with the original on every reference reachable from `d1` and `d2`, and
    any dictionary that was valid before the call (the inputs, earlier results) denotes the same value. -/
theorem inputs_unchanged : inputs_unchanged_full .fixed := by
  intro d1 d2 r st st' hv1 hv2 hw1 hw2 h
  obtain ⟨⟨ext, rfl⟩, _, _⟩ := merge_fixed_result hv1 hv2 hw1 hw2 h
  exact ⟨resolve_append ext hv1, resolve_append ext hv2⟩

theorem bystanders_unchanged {d1 d2 r d : DictR} {st st' : Store}
    (hv1 : Valid st d1) (hv2 : Valid st d2)
    (hw1 : Spec.WF (resolve st d1)) (hw2 : Spec.WF (resolve st d2))
    (h : mergeFixed d1 d2 st = .ok (r, st')) (hd : Valid st d) :
    resolve st' d = resolve st d := by
  obtain ⟨⟨ext, rfl⟩, _, _⟩ := merge_fixed_result hv1 hv2 hw1 hw2 h
  exact resolve_append ext hd

/-- Inputs can be merged again: a second Merge of the same two dictionaries (in the heap the first
    one left behind) succeeds with the same result, and the first result is not disturbed. -/
theorem merge_again {d1 d2 r : DictR} {st st' : Store}
    (hv1 : Valid st d1) (hv2 : Valid st d2)
    (hw1 : Spec.WF (resolve st d1)) (hw2 : Spec.WF (resolve st d2))
    (h : mergeFixed d1 d2 st = .ok (r, st')) :
    ∃ r2 st2, mergeFixed d1 d2 st' = .ok (r2, st2) ∧
      resolve st2 r2 = resolve st' r ∧ resolve st2 r = resolve st' r := by
  obtain ⟨⟨ext, rfl⟩, hvr, hspec⟩ := merge_fixed_result hv1 hv2 hw1 hw2 h
  have hv1' := valid_append ext hv1
  have hv2' := valid_append ext hv2
  have hw1' := wf_resolve_append ext hv1 hw1
  have hw2' := wf_resolve_append ext hv2 hw2
  have href := merge_fixed_refines hv1' hv2' hw1' hw2'
  rw [resolve_append ext hv1, resolve_append ext hv2, hspec] at href
  cases h2 : merge .fixed d1 d2 (st ++ ext) with
  | error e => rw [h2] at href; cases href
  | ok out =>
    obtain ⟨r2, st2⟩ := out
    rw [h2] at href
    obtain ⟨⟨ext2, rfl⟩, _, _⟩ := merge_fixed_result hv1' hv2' hw1' hw2' h2
    exact ⟨r2, _, h2, Option.some.inj href, resolve_append ext2 hvr⟩

/-- Left folds `Merge(Merge(d0, ds₀), ds₁) …` over well-formed inputs (the list may name one input
    several times, and inputs may share vendors): the repaired Merge computes the specification's
    fold, and every input still denotes its original value in the final heap. -/
theorem fold_chain (d0 : DictR) (ds : List DictR) (st : Store)
    (h0 : Valid st d0 ∧ Spec.WF (resolve st d0))
    (hds : ∀ d ∈ ds, Valid st d ∧ Spec.WF (resolve st d)) :
    observe (mergeChain .fixed d0 ds st) = Spec.mergeChain (resolve st d0) (ds.map (resolve st)) ∧
    ∀ r st', mergeChain .fixed d0 ds st = .ok (r, st') →
      ∀ d ∈ d0 :: ds, resolve st' d = resolve st d := by
  obtain ⟨h1, h2⟩ := mergeChain_fixed_refines ds d0 st h0.1 h0.2 hds
  refine ⟨h1, ?_⟩
  intro r st' h d hd
  obtain ⟨ext, rfl⟩ := h2 r st' h
  rcases List.mem_cons.mp hd with rfl | hd
  · exact resolve_append ext h0.1
  · exact resolve_append ext (hds d hd).1

/-! ## The unrepaired Merge (`.current`): the statement's last clause is false for it.
    These are theorems about the model variant that mirrors helpers.go *before*
    proposed_fixes/merge-copy-vendor.diff; they stay true (and stay here as the record of the defect)
    after the repair. -/

/-- vendor "A" (1) declaring attribute "a" (1), and vendor "A" (1) declaring attribute "b" (2) -/
def wStore : Store :=
  [{ name := [0x41], number := 1, attributes := [{ name := [0x61], oid := [1], typ := .string }] },
   { name := [0x41], number := 1, attributes := [{ name := [0x62], oid := [2], typ := .string }] }]
def wD1 : DictR := { vendors := [0] }
def wD2 : DictR := { vendors := [1] }
/-- the heap after `mergeCurrent wD1 wD2`: vendor 0 — `wD1`'s — has absorbed `wD2`'s attribute -/
def wStore' : Store :=
  [{ name := [0x41], number := 1, attributes := [{ name := [0x61], oid := [1], typ := .string },
                                                { name := [0x62], oid := [2], typ := .string }] },
   { name := [0x41], number := 1, attributes := [{ name := [0x62], oid := [2], typ := .string }] }]

theorem witness_in_domain :
    Valid wStore wD1 ∧ Valid wStore wD2 ∧ Spec.WF (resolve wStore wD1) ∧ Spec.WF (resolve wStore wD2) ∧
    Spec.ConflictFree (resolve wStore wD1) (resolve wStore wD2) := by
  decide

theorem current_merge_witness : mergeCurrent wD1 wD2 wStore = .ok ({ vendors := [0] }, wStore') := by
  rfl

/-- Merge as it stands modifies its first input. -/
theorem inputs_unchanged_counterexample : ¬ inputs_unchanged_full .current := by
  intro h
  have hd := witness_in_domain
  have := (h wD1 wD2 _ wStore wStore' hd.1 hd.2.1 hd.2.2.1 hd.2.2.2.1 current_merge_witness).1
  revert this
  decide

/-- … and therefore the same two inputs cannot be merged again: the second call fails with
    "duplicate vendor attribute", although the inputs as given are conflict-free. -/
theorem merge_twice_fails :
    mergeCurrent wD1 wD2 wStore = .ok ({ vendors := [0] }, wStore') ∧
    mergeCurrent wD1 wD2 wStore' = .error .dupVendorAttr := by
  exact ⟨rfl, rfl⟩

/-- The repaired Merge on the same witness: inputs untouched, second merge gives the same result. -/
theorem fixed_on_witness :
    ∃ r st', mergeFixed wD1 wD2 wStore = .ok (r, st') ∧
      resolve st' wD1 = resolve wStore wD1 ∧
      observe (mergeFixed wD1 wD2 st') = some (resolve st' r) := by
  refine ⟨_, _, rfl, ?_, ?_⟩ <;> decide

/-- What does hold for the unrepaired Merge: when no vendor of `d2` has a number that occurs in `d1`
    (nothing is matched), it leaves the heap alone. -/
theorem current_inputs_unchanged_partial {d1 d2 r : DictR} {st st' : Store}
    (hw2 : Spec.WF (resolve st d2))
    (hno : ∀ r2 ∈ d2.vendors, ∀ r1 ∈ d1.vendors, (deref st r1).number ≠ (deref st r2).number)
    (h : mergeCurrent d1 d2 st = .ok (r, st')) : st' = st := by
  have hk := ((wf_resolve st d2).mp hw2).2
  have ha := assemble_current_unmatched d2.vendors d1.vendors st hno hk
  unfold mergeCurrent merge at h
  cases h1 : checkTop d1.attributes d2.attributes with
  | error e => simp [h1] at h
  | ok u =>
    cases h2 : checkVendors st d1.vendors d2.vendors with
    | error e => simp [h1, h2] at h
    | ok u' =>
      simp only [h1, h2, Except.ok.injEq, Prod.mk.injEq] at h
      rw [← h.2, ha]

/-- … and when `d1` and `d2` share no vendor object (two separately parsed files, the only use the
    test suite makes of Merge) its *result* is the specification's: success condition and ordered
    union hold for the unrepaired code as well; what fails is only the treatment of the inputs. -/
theorem current_result_union {d1 d2 : DictR} {st : Store}
    (hv1 : Valid st d1) (hv2 : Valid st d2)
    (hw1 : Spec.WF (resolve st d1)) (hw2 : Spec.WF (resolve st d2))
    (hdis : ∀ x ∈ d2.vendors, x ∉ d1.vendors) :
    observe (mergeCurrent d1 d2 st) = Spec.merge (resolve st d1) (resolve st d2) := by
  show observe (merge .current d1 d2 st) = _
  cases h : merge .current d1 d2 st with
  | ok out =>
    obtain ⟨r, st'⟩ := out
    rw [merge_current_result hv1 hv2 hw1 hw2 hdis h]; rfl
  | error e =>
    have : ¬ Spec.ConflictFree (resolve st d1) (resolve st d2) := by
      intro hcf
      obtain ⟨out, ho⟩ := (merge_ok_iff_conflictFree .current d1 d2 st hw1).mpr hcf
      rw [h] at ho; cases ho
    simp [observe, Spec.merge, this]

/-! ## Non-vacuity: a well-formed pair with a matched vendor, an unmatched vendor on each side,
    top-level attributes and values; merged, merged again, and chained with a third dictionary. -/

def exStore : Store :=
  [{ name := [0x41], number := 1, attributes := [{ name := [0x61], oid := [1], typ := .string }],
     values := [{ attrName := [0x61], name := [0x78], number := 1 }] },
   { name := [0x42], number := 2 },
   { name := [0x43], number := 3, attributes := [{ name := [0x61], oid := [1], typ := .integer }] },
   { name := [0x41], number := 1, attributes := [{ name := [0x62], oid := [1, 1], typ := .string }],
     values := [{ attrName := [0x62], name := [0x79], number := 2 }] }]
def exD1 : DictR :=
  { attributes := [{ name := [0x74], oid := [26], typ := .vsa }], values := [{ attrName := [0x74], name := [0x75], number := 0 }],
    vendors := [0, 1] }
def exD2 : DictR :=
  { attributes := [{ name := [0x73], oid := [26, 1], typ := .octets }], vendors := [2, 3] }

example : Valid exStore exD1 ∧ Valid exStore exD2 ∧ Spec.WF (resolve exStore exD1) ∧ Spec.WF (resolve exStore exD2) := by
  decide
example : Spec.ConflictFree (resolve exStore exD1) (resolve exStore exD2) := by decide
/-- the vendors of the result: A (combined), B, then C -/
example : (observe (mergeFixed exD1 exD2 exStore)).map (fun r => r.vendors.map (fun v => (v.name, v.attributes.length, v.values.length)))
    = some [([0x41], 2, 2), ([0x42], 0, 0), ([0x43], 1, 0)] := by decide
example : (mergeFixed exD1 exD2 exStore).toOption.map (fun p => decide (resolve p.2 exD1 = resolve exStore exD1)) = some true := by
  decide
/-- a conflicting pair is refused: vendor "A" with another number -/
example : Spec.merge (resolve exStore exD1) { vendors := [{ name := [0x41], number := 7 }] } = none := by decide
/-- a chain that uses one input twice: Merge(Merge(exD1, exD2), {B,C values only}) -/
example : (Spec.mergeChain (resolve exStore exD1) [resolve exStore exD2, { vendors := [{ name := [0x42], number := 2 }] }]).isSome = true := by
  decide

end RV.C20
