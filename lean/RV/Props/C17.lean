/-
  C17 — Generator output: API shape, ignore list, unique identifiers, imports, determinism.

  `Gen.generate cfg` is the model of dictionarygen.Generator.Generate; `Cfg.asIs` is the code as found,
  `Cfg.repaired` the code with proposed_fixes/01–03 applied (the driver compares the working tree with
  `Cfg.current`).  For every clause that is FALSE of the code as found there is the statement at full
  strength (`…_full cfg : Prop`), a kernel-checked counter-example for `Cfg.asIs`, a partial theorem for
  `Cfg.asIs` with the excluded domain explicit, and the full theorem for `Cfg.repaired`.

  Not proved here, and not provable in Lean: that the emitted text type-checks.  That is observed with
  go/types on every correspondence case (see checklib/propdefs/C17.py).
-/
import RV.Model.Gen
import RV.Proofs.Gen
namespace RV.C17
open RV RV.Dict RV.Gen RV.Gen.Spec

/-! ### deterministic: the output is a function of the dictionary and the options -/

theorem deterministic (cfg : Cfg) (d : Dictionary) (o : Options) (r₁ r₂ : Except Err Output)
    (h₁ : generate cfg d o = r₁) (h₂ : generate cfg d o = r₂) : r₁ = r₂ := by
  rw [← h₁, ← h₂]

/-! ### identifier normalisation (ASCII) -/

/-- the normalised identifier consists of ASCII letters and digits only (no `_`, no `.`) -/
theorem identifier_alnum (name : Bytes) : ∀ c ∈ identifier name, isAlnum c = true :=
  Gen.identifier_alnum name

example : identifier (bs "3GPP-Charging-Id") = bs "ThreeGPPChargingID" := by decide
example : identifier (bs "ADSL2+") = bs "ADSL2Plus" := by decide
example : identifier (bs "Acct-Session-Id") = bs "AcctSessionID" := by decide
example : identifier (bs "First_Name") = identifier (bs "First-Name") := by decide
example : identifier (bs "--") = [] := by decide

/-! ### sorting (#14) -/

/-- the code as found: `Less` compares an element with itself, so `SortAttributes` never moves anything -/
theorem sortAttrs_asIs_identity (as : List Attribute) : sortAttrs Cfg.asIs as = as :=
  Gen.sortAttrs_asIs as

/-- repaired: the result is a permutation of the input, ordered by (OID, name) -/
theorem sortAttrs_repaired_sorted (as : List Attribute) :
    (sortAttrs Cfg.repaired as).Perm as ∧
    (sortAttrs Cfg.repaired as).Pairwise (fun a b => attrLess Cfg.repaired b a = false) :=
  ⟨Gen.sortStable_perm _ as, Gen.sortAttrs_repaired_pairwise as⟩

/-- of several VALUEs of one attribute with the same number, exactly the last one declared survives;
    values with distinct numbers are all kept -/
example : attrValues (bs "A") (sortValues [⟨bs "A", bs "x", 1⟩, ⟨bs "A", bs "z", 0⟩, ⟨bs "B", bs "q", 1⟩, ⟨bs "A", bs "y", 1⟩])
    = [⟨bs "A", bs "z", 0⟩, ⟨bs "A", bs "y", 1⟩] := by decide

/-! ### api_shape: per attribute the helpers are exactly the documented set for its kind -/

/-- the functions emitted for an attribute are exactly the documented helpers of its kind, in the
    documented order, each named `<Identifier><suffix of its role>` -/
theorem api_shape (vendor : Bool) (a : Attribute) (vals : List Value) :
    ((attrDecls vendor a vals).filter (·.kind == .func)).map (·.role) = helperRoles vendor a
    ∧ ∀ d ∈ attrDecls vendor a vals, d.kind = .func → d.name = identifier a.name ++ bs d.role.suffix :=
  Gen.api_shape' vendor a vals

/-- integer kinds additionally get a value type, one named constant per (de-duplicated) VALUE, the
    `_Strings` map and the `String()` method; other kinds get nothing but functions -/
theorem api_shape_integer (vendor : Bool) (a : Attribute) (vals : List Value) :
    ((attrDecls vendor a vals).filter (·.kind != .func)).map (fun d => (d.kind, d.role, d.name)) =
      if isIntKind a.typ then
        [(DKind.type, Role.valueType, identifier a.name)]
        ++ (attrValues a.name vals).map (fun v => (DKind.const, Role.valueConst, identifier a.name ++ bs "_Value_" ++ identifier v.name))
        ++ [(DKind.var, Role.strings, identifier a.name ++ bs "_Strings"), (DKind.method, Role.stringer, identifier a.name ++ bs ".String")]
      else [] :=
  Gen.api_shape_integer' vendor a vals

/-- a tag parameter exactly when the attribute is tagged (for every attribute the validity rules accept) -/
theorem tag_param_iff (cfg : Cfg) (vendor : Bool) (a : Attribute) (vals : List Value)
    (hv : invalidAttr cfg vendor a = false) :
    ∀ d ∈ attrDecls vendor a vals, (d.role.isWriter || d.role.isReader) = true → hasTagParam d = tagged a :=
  Gen.tag_param_iff' cfg vendor a vals hv

/-- a request-packet parameter exactly when the attribute is salt-encrypted -/
def request_param_full (cfg : Cfg) : Prop :=
  ∀ (vendor : Bool) (a : Attribute) (vals : List Value), invalidAttr cfg vendor a = false →
    ∀ d ∈ attrDecls vendor a vals, d.role.isReader = true → hasRequestParam d = salted a

/-- #18: `ATTRIBUTE X 1 date encrypt=2` is accepted by the code as found and its readers have no `q` -/
theorem request_param_counterexample : ¬ request_param_full Cfg.asIs := by
  intro h
  have := h false { name := bs "X", oid := [1], typ := .date, encrypt := some 2 } [] (by decide)
    (fn (bs "X") .get [.packet] [.time]) (by decide) (by decide)
  exact absurd this (by decide)

/-- as found, the clause holds on the kinds whose template implements `encrypt=2` -/
theorem request_param_partial (vendor : Bool) (a : Attribute) (vals : List Value)
    (hv : invalidAttr Cfg.asIs vendor a = false)
    (hk : salted a = true → (stringy a.typ || isIPKind a.typ || isIntKind a.typ) = true) :
    ∀ d ∈ attrDecls vendor a vals, d.role.isReader = true → hasRequestParam d = salted a :=
  Gen.request_param_partial' vendor a vals hv hk

theorem request_param_repaired : request_param_full Cfg.repaired :=
  Gen.request_param_repaired'

/-! ### ignored_emit_nothing -/

/-- no group of declarations originates from an ATTRIBUTE on the ignore list, and no constant from a
    VALUE of an attribute on the ignore list -/
def ignored_emit_nothing_full (cfg : Cfg) : Prop :=
  ∀ (d : Dictionary) (o : Options) (out : Output), generate cfg d o = .ok out →
    ∀ s ∈ out.sections, match s.1 with
      | .attr _ a => a.name ∉ o.ignore
      | _ => True

/-- the shape of rfc4679: `VENDOR V 9`, inside it `ATTRIBUTE X 255.1 octets`, generated with `-ignore X` -/
def witnessIgnored : Dictionary :=
  { vendors := [{ name := bs "V", number := 9, attributes := [{ name := bs "X", oid := [255, 1], typ := .octets }] }] }

/-- an ignored vendor attribute still gets its helpers from the code as found -/
theorem ignored_emit_nothing_counterexample : ¬ ignored_emit_nothing_full Cfg.asIs := by
  intro h
  have hd : (match generate Cfg.asIs witnessIgnored ⟨[bs "X"], []⟩ with
      | .ok out => out.sections.any (fun s => match s.1 with | .attr _ a => [bs "X"].contains a.name | _ => false)
      | .error _ => false) = true := by decide
  cases hg : generate Cfg.asIs witnessIgnored ⟨[bs "X"], []⟩ with
  | error e => rw [hg] at hd; simp at hd
  | ok out =>
    rw [hg] at hd
    obtain ⟨s, hs, hbad⟩ := List.any_eq_true.mp hd
    have hgood := h _ _ out hg s hs
    cases hs1 : s.1 with
    | attr v a => rw [hs1] at hbad hgood; exact hgood (by simpa using hbad)
    | vendor n => rw [hs1] at hbad; simp at hbad
    | ext n => rw [hs1] at hbad; simp at hbad

/-- as found, the clause holds for top-level attributes -/
theorem ignored_emit_nothing_partial (d : Dictionary) (o : Options) (out : Output)
    (h : generate Cfg.asIs d o = .ok out) :
    ∀ s ∈ out.sections, ∀ a, s.1 = .attr false a → a.name ∉ o.ignore :=
  Gen.ignored_top' Cfg.asIs d o out h

theorem ignored_emit_nothing_repaired : ignored_emit_nothing_full Cfg.repaired :=
  Gen.ignored_repaired'

/-! ### imports_exact: declared = used (dot imports of external attributes aside) -/

def imports_exact_full (cfg : Cfg) : Prop :=
  ∀ (d : Dictionary) (o : Options) (out : Output), generate cfg d o = .ok out →
    ∀ i, (∀ p, i ≠ Imp.dot p) → (i ∈ out.imports ↔ i ∈ neededImports out.sections)

/-- `ATTRIBUTE X 1 date encrypt=2` -/
def witnessImports : Dictionary := { attributes := [{ name := bs "X", oid := [1], typ := .date, encrypt := some 2 }] }

/-- #18: `crypto/rand` is imported for `date encrypt=2` and nothing uses it -/
theorem imports_exact_counterexample : ¬ imports_exact_full Cfg.asIs := by
  intro h
  have hd : (match generate Cfg.asIs witnessImports ⟨[], []⟩ with
      | .ok out => out.imports.contains (Imp.std (bs "crypto/rand")) && !(neededImports out.sections).contains (Imp.std (bs "crypto/rand"))
      | .error _ => false) = true := by decide
  cases hg : generate Cfg.asIs witnessImports ⟨[], []⟩ with
  | error e => rw [hg] at hd; simp at hd
  | ok out =>
    rw [hg] at hd
    have hiff := h _ _ out hg (Imp.std (bs "crypto/rand")) (by intro p hp; cases hp)
    simp only [Bool.and_eq_true, Bool.not_eq_true', List.contains_eq_mem, decide_eq_true_eq, decide_eq_false_iff_not] at hd
    exact hd.2 (hiff.mp hd.1)

/-- as found: every import that is needed is declared, provided no vendor attribute is on the ignore
    list; the converse needs `encrypt=` only where implemented -/
theorem imports_exact_partial (d : Dictionary) (o : Options) (out : Output)
    (h : generate Cfg.asIs d o = .ok out)
    (hi : ∀ v ∈ d.vendors, ∀ a ∈ v.attributes, a.name ∉ o.ignore)
    (he : ∀ a, (a ∈ d.attributes ∨ ∃ v ∈ d.vendors, a ∈ v.attributes) → encryptSupported a = true) :
    ∀ i, (∀ p, i ≠ Imp.dot p) → (i ∈ out.imports ↔ i ∈ neededImports out.sections) :=
  Gen.imports_exact_partial' d o out h hi he

theorem imports_exact_repaired : imports_exact_full Cfg.repaired :=
  Gen.imports_exact_repaired'

/-! ### idents_unique: no two declarations share a name -/

/-- the `-ref` options are usable: every external attribute name normalises to an exported identifier,
    no two of them to the same one (ExternalAttributes is a Go map, so the names themselves are distinct),
    and none shares its identifier with a declared attribute (the external type is dot-imported) -/
def extWellFormed (d : Dictionary) (o : Options) : Prop :=
  (∀ r ∈ o.refs, ∀ a, (a ∈ d.attributes ∨ ∃ v ∈ d.vendors, a ∈ v.attributes) → identifier r.1 ≠ identifier a.name)
  ∧ (∀ r ∈ o.refs, exportedIdent (identifier r.1) = true)
  ∧ (o.refs.map (fun r => identifier r.1)).Nodup

def idents_unique_full (cfg : Cfg) : Prop :=
  ∀ (d : Dictionary) (o : Options) (out : Output), generate cfg d o = .ok out → extWellFormed d o →
    (declaredNames out).Nodup

/-- `ATTRIBUTE A 1 integer`, `VALUE A x-y 1`, `VALUE A x_y 2` -/
def witnessValues : Dictionary :=
  { attributes := [{ name := bs "A", oid := [1], typ := .integer }], values := [⟨bs "A", bs "x-y", 1⟩, ⟨bs "A", bs "x_y", 2⟩] }

/-- `VENDOR V-1 1`, `VENDOR V_1 2` -/
def witnessVendors : Dictionary := { vendors := [{ name := bs "V-1", number := 1 }, { name := bs "V_1", number := 2 }] }

/-- #15: two VALUEs of one attribute whose names normalise to the same identifier -/
theorem idents_unique_counterexample : ¬ idents_unique_full Cfg.asIs := by
  intro h
  have hd : (match generate Cfg.asIs witnessValues ⟨[], []⟩ with
      | .ok out => !decide (declaredNames out).Nodup
      | .error _ => false) = true := by decide
  cases hg : generate Cfg.asIs witnessValues ⟨[], []⟩ with
  | error e => rw [hg] at hd; simp at hd
  | ok out =>
    rw [hg] at hd
    have := h _ _ out hg ⟨(by intro r hr; cases hr), (by intro r hr; cases hr), List.nodup_nil⟩
    simp [this] at hd

/-- #15, vendors: two vendors whose names normalise to the same identifier -/
theorem idents_unique_counterexample_vendor : ¬ idents_unique_full Cfg.asIs := by
  intro h
  have hd : (match generate Cfg.asIs witnessVendors ⟨[], []⟩ with
      | .ok out => !decide (declaredNames out).Nodup
      | .error _ => false) = true := by decide
  cases hg : generate Cfg.asIs witnessVendors ⟨[], []⟩ with
  | error e => rw [hg] at hd; simp at hd
  | ok out =>
    rw [hg] at hd
    have := h _ _ out hg ⟨(by intro r hr; cases hr), (by intro r hr; cases hr), List.nodup_nil⟩
    simp [this] at hd

/-- as found, the clause holds for dictionaries of top-level attributes without VALUE lines, vendors and
    `-ref` options (the collision check of the validity loop covers exactly the attribute identifiers) -/
theorem idents_unique_partial (d : Dictionary) (o : Options) (out : Output)
    (h : generate Cfg.asIs d o = .ok out)
    (hvend : d.vendors = []) (hvals : d.values = []) (hrefs : o.refs = [])
    (hexp : ∀ a ∈ d.attributes, exportedIdent (identifier a.name) = true) :
    (declaredNames out).Nodup :=
  Gen.idents_unique_partial' d o out h hvend hvals hrefs hexp

theorem idents_unique_repaired : idents_unique_full Cfg.repaired :=
  fun d o out h hw => Gen.idents_unique_repaired' d o out h hw.1 hw.2.1 hw.2.2

/-! ### perm_invariant: the declaration order of attributes and vendors does not matter -/

/-- permuting ATTRIBUTE and VENDOR declarations changes neither whether Generate succeeds nor,
    if it does, anything about the output (imports, declarations, their order) -/
def perm_invariant_full (cfg : Cfg) : Prop :=
  ∀ (d₁ d₂ : Dictionary) (o : Options), PermRel d₁ d₂ → (generate cfg d₁ o).toOption = (generate cfg d₂ o).toOption

/-- #14: swapping two attributes swaps their helpers in the output of the code as found -/
theorem perm_invariant_counterexample : ¬ perm_invariant_full Cfg.asIs := by
  intro h
  have := h { attributes := [{ name := bs "B", oid := [2], typ := .string }, { name := bs "A", oid := [1], typ := .string }] }
            { attributes := [{ name := bs "A", oid := [1], typ := .string }, { name := bs "B", oid := [2], typ := .string }] }
            ⟨[], []⟩ ⟨List.Perm.swap _ _ _, rfl, [], .nil, .nil⟩
  exact absurd this (by decide)

/-- as found, whether Generate succeeds does not depend on the declaration order -/
theorem perm_invariant_partial (d₁ d₂ : Dictionary) (o : Options) (h : PermRel d₁ d₂) :
    accept Cfg.asIs d₁ o = accept Cfg.asIs d₂ o :=
  Gen.accept_perm' Cfg.asIs d₁ d₂ o h

theorem perm_invariant_repaired : perm_invariant_full Cfg.repaired :=
  Gen.perm_invariant_repaired'

end RV.C17
