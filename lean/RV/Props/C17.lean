/-
  C17 — Generator output: API shape, ignore list, unique identifiers, imports, determinism.

  `Gen.generate cfg` is the model of dictionarygen.Generator.Generate; `Cfg.asIs` is the code as found,
  `Cfg.repaired` the code with proposed_fixes/01–03 applied (the driver compares the working tree with
  `Cfg.current`).  For every clause that is FALSE of the code as found there is the statement at full
  strength (`…_full cfg : Prop`), a kernel-checked counter-example for `Cfg.asIs`, a partial theorem for
  `Cfg.asIs` with the excluded domain explicit, and the full theorem for `Cfg.repaired`.

  Not proved here, and not provable in Lean: that the emitted text type-checks (template bodies are not
  modelled).  That is observed with go/types on every correspondence case (see checklib/propdefs/C17.py).
  What "compiles" means at the level of the model is stated in full: declared names are pairwise distinct
  (`idents_unique_*`, `declaredNames_covers`), every name is a well-formed Go identifier (`names_wellformed`),
  exported or private as documented (`exported_names`), the import list is duplicate-free and is exactly what
  the emitted sections use (`imports_exact_*`, `dot_imports_exact`, `imports_nodup`).
-/
import RV.Model.Gen
import RV.Proofs.Gen
namespace RV.C17
open RV RV.Dict RV.Gen RV.Gen.Spec

/-! ### deterministic: the output does not depend on the order in which Go iterates its maps -/

/-- A TRIVIALITY, kept for its name only: `generate` is a Lean function, so two evaluations agree; this
    says nothing about the Go code.  In Go the run-to-run variation comes from MAP ITERATION ORDER; the
    maps of `Generate` are `ExternalAttributes` (iterated, then `sortExternalAttributes`), `baseImports`
    (iterated, then sorted by go/format), `ignoredAttributes`, `attrIdents`, `vendorIdents` (looked up only).
    The statements with content are `refs_order_irrelevant` and `ignore_order_irrelevant` below (the model
    takes the two option maps as lists; the result is invariant under every re-ordering of them), and
    `std_imports_canonical` (the `baseImports` map is emitted in one fixed order). -/
theorem deterministic (cfg : Cfg) (d : Dictionary) (o : Options) (r₁ r₂ : Except Err Output)
    (h₁ : generate cfg d o = r₁) (h₂ : generate cfg d o = r₂) : r₁ = r₂ := by
  rw [← h₁, ← h₂]

/-- `ExternalAttributes` (the `-ref` options) is a Go map: its keys are distinct and it is iterated in an
    arbitrary order.  Whatever that order is, the result is the same — for the code as found, the repaired
    code and the working tree alike (`cfg` is arbitrary): `sortExternalAttributes` orders the slice by a
    key that is unique. -/
theorem refs_order_irrelevant (cfg : Cfg) (d : Dictionary) (o : Options) (refs' : List (Bytes × Bytes))
    (h : o.refs.Perm refs') (hd : (o.refs.map (·.1)).Nodup) :
    generate cfg d { o with refs := refs' } = generate cfg d o :=
  Gen.refs_order_irrelevant' cfg d o refs' h hd

/-- the ignore list is turned into a map and only ever looked up: order and repetitions do not matter -/
theorem ignore_order_irrelevant (cfg : Cfg) (d : Dictionary) (o : Options) (ignore' : List Bytes)
    (h : ∀ n, n ∈ o.ignore ↔ n ∈ ignore') :
    generate cfg d { o with ignore := ignore' } = generate cfg d o :=
  Gen.ignore_order_irrelevant' cfg d o ignore' h

/-- both at once, for the working tree -/
theorem options_order_irrelevant (d : Dictionary) (o o' : Options)
    (hr : o.refs.Perm o'.refs) (hd : (o.refs.map (·.1)).Nodup) (hi : ∀ n, n ∈ o.ignore ↔ n ∈ o'.ignore) :
    generate Cfg.current d o' = generate Cfg.current d o := by
  have h1 := refs_order_irrelevant Cfg.current d o o'.refs hr hd
  have h2 := ignore_order_irrelevant Cfg.current d { o with refs := o'.refs } o'.ignore hi
  exact h2.trans h1

/-- the standard-library imports (the `baseImports` map) come out in one fixed order, whatever was
    inserted first: they are a sub-list of the sorted list `stdImports` -/
theorem std_imports_canonical (cfg : Cfg) (d : Dictionary) (o : Options) (out : Output)
    (h : generate cfg d o = .ok out) :
    (out.imports.filter (fun i => match i with | .std _ => true | _ => false)).Sublist stdImports :=
  Gen.std_imports_canonical' h

/-- two `-ref` options, an ignore list with a repetition -/
def witnessRefs : Dictionary :=
  { attributes := [{ name := bs "A", oid := [1], typ := .string }, { name := bs "Old", oid := [2], typ := .string }],
    values := [⟨bs "X", bs "on", 1⟩, ⟨bs "Y", bs "off", 0⟩] }

example : generate Cfg.current witnessRefs ⟨[bs "Old"], [(bs "Y", bs "q"), (bs "X", bs "p")]⟩
    = generate Cfg.current witnessRefs ⟨[bs "Old"], [(bs "X", bs "p"), (bs "Y", bs "q")]⟩ :=
  refs_order_irrelevant Cfg.current witnessRefs ⟨[bs "Old"], [(bs "X", bs "p"), (bs "Y", bs "q")]⟩ _
    (List.Perm.swap _ _ _) (by decide)

example : generate Cfg.current witnessRefs ⟨[bs "Old", bs "Old", bs "Old"], [(bs "X", bs "p"), (bs "Y", bs "q")]⟩
    = generate Cfg.current witnessRefs ⟨[bs "Old"], [(bs "X", bs "p"), (bs "Y", bs "q")]⟩ :=
  ignore_order_irrelevant Cfg.current witnessRefs ⟨[bs "Old"], [(bs "X", bs "p"), (bs "Y", bs "q")]⟩ _ (by simp)

/-- the run the two examples are about succeeds and emits both external sections -/
example : (match generate Cfg.current witnessRefs ⟨[bs "Old"], [(bs "X", bs "p"), (bs "Y", bs "q")]⟩ with
    | .ok out => out.imports.contains (Imp.dot (bs "p")) && out.imports.contains (Imp.dot (bs "q"))
    | .error _ => false) = true := by decide

/-- the hypothesis "keys are distinct" (a Go map) cannot be dropped: with a repeated key the first entry
    in sort order wins, and `sort.Stable` keeps the input order of equal keys -/
example : generate Cfg.current witnessRefs ⟨[bs "Old"], [(bs "X", bs "p"), (bs "X", bs "q"), (bs "Y", bs "r")]⟩
    ≠ generate Cfg.current witnessRefs ⟨[bs "Old"], [(bs "X", bs "q"), (bs "X", bs "p"), (bs "Y", bs "r")]⟩ := by decide

/-! ### never panics -/

/-- the only way the model reaches `Err.panic`: the ignore-list repair (proposed_fixes/03) is missing and
    an IGNORED — hence unchecked, but still emitted — vendor attribute of a templated type has an empty OID
    (`attr.OID[0]` in the vendor templates) -/
theorem panic_only_if (cfg : Cfg) (d : Dictionary) (o : Options) (h : generate cfg d o = .error .panic) :
    cfg.dropIgnoredVendorAttrs = false ∧
    ∃ v ∈ d.vendors, ∃ a ∈ v.attributes, a.name ∈ o.ignore ∧ a.oid = [] ∧ hasTemplate a.typ = true :=
  Gen.generate_panic cfg d o h

/-- the repaired generator never panics: every attribute it emits went through the validity block, whose
    first test is `len(attr.OID) != 1` -/
theorem repaired_never_panics (d : Dictionary) (o : Options) : generate Cfg.repaired d o ≠ .error .panic :=
  fun h => absurd (panic_only_if _ d o h).1 (by decide)

theorem current_never_panics (d : Dictionary) (o : Options) : generate Cfg.current d o ≠ .error .panic :=
  repaired_never_panics d o

/-- `VENDOR V 9` with an `ATTRIBUTE X <no OID> string` inside, generated with `-ignore X` -/
def witnessPanic : Dictionary :=
  { vendors := [{ name := bs "V", number := 9, attributes := [{ name := bs "X", oid := [], typ := .string }] }] }

/-- the code as found panics on it (the repair matters) … -/
theorem asIs_panics : generate Cfg.asIs witnessPanic ⟨[bs "X"], []⟩ = .error .panic := by decide

/-- … the repaired code emits the vendor without the ignored attribute -/
example : (generate Cfg.repaired witnessPanic ⟨[bs "X"], []⟩).toOption.isSome = true := by decide

/-- as found, there is no panic unless an ignored vendor attribute has an empty OID -/
theorem asIs_never_panics_partial (d : Dictionary) (o : Options)
    (h : ∀ v ∈ d.vendors, ∀ a ∈ v.attributes, a.name ∈ o.ignore → a.oid ≠ []) :
    generate Cfg.asIs d o ≠ .error .panic := by
  intro hp
  obtain ⟨_, v, hv, a, ha, hi, he, _⟩ := panic_only_if _ d o hp
  exact h v hv a ha hi he

example : ∀ v ∈ ({ vendors := [{ name := bs "V", number := 9, attributes := [{ name := bs "X", oid := [255, 1], typ := .octets }] }] } : Dictionary).vendors,
    ∀ a ∈ v.attributes, a.name ∈ [bs "X"] → a.oid ≠ [] := by decide

/-! ### identifier normalisation (ASCII) -/

/-- the normalised identifier consists of ASCII letters and digits only (no `_`, no `.`) -/
theorem identifier_alnum (name : Bytes) : ∀ c ∈ identifier name, isAlnum c = true :=
  Gen.identifier_alnum name

example : identifier (bs "3GPP-Charging-Id") = bs "ThreeGPPChargingID" := by decide
example : identifier (bs "ADSL2+") = bs "ADSL2Plus" := by decide
example : identifier (bs "Acct-Session-Id") = bs "AcctSessionID" := by decide
example : identifier (bs "First_Name") = identifier (bs "First-Name") := by decide
example : identifier (bs "--") = [] := by decide

/-! ### sorting (#14) -/

/-- the code as found: `Less` compares an element with itself, so `SortAttributes` never moves anything -/
theorem sortAttrs_asIs_identity (as : List Attribute) : sortAttrs Cfg.asIs as = as :=
  Gen.sortAttrs_asIs as

/-- repaired: the result is a permutation of the input, ordered by (OID, name) -/
theorem sortAttrs_repaired_sorted (as : List Attribute) :
    (sortAttrs Cfg.repaired as).Perm as ∧
    (sortAttrs Cfg.repaired as).Pairwise (fun a b => attrLess Cfg.repaired b a = false) :=
  ⟨Gen.sortStable_perm _ as, Gen.sortAttrs_repaired_pairwise as⟩

/-- of several VALUEs of one attribute with the same number, exactly the last one declared survives;
    values with distinct numbers are all kept -/
example : attrValues (bs "A") (sortValues [⟨bs "A", bs "x", 1⟩, ⟨bs "A", bs "z", 0⟩, ⟨bs "B", bs "q", 1⟩, ⟨bs "A", bs "y", 1⟩])
    = [⟨bs "A", bs "z", 0⟩, ⟨bs "A", bs "y", 1⟩] := by decide

/-! ### api_shape: per attribute the helpers are exactly the documented set for its kind -/

/-- the functions emitted for an attribute are exactly the documented helpers of its kind, in the
    documented order, each named `<Identifier><suffix of its role>` -/
theorem api_shape (vendor : Bool) (a : Attribute) (vals : List Value) :
    ((attrDecls vendor a vals).filter (·.kind == .func)).map (·.role) = helperRoles vendor a
    ∧ ∀ d ∈ attrDecls vendor a vals, d.kind = .func → d.name = identifier a.name ++ bs d.role.suffix :=
  Gen.api_shape' vendor a vals

/-- integer kinds additionally get a value type, one named constant per (de-duplicated) VALUE, the
    `_Strings` map and the `String()` method; other kinds get nothing but functions -/
theorem api_shape_integer (vendor : Bool) (a : Attribute) (vals : List Value) :
    ((attrDecls vendor a vals).filter (·.kind != .func)).map (fun d => (d.kind, d.role, d.name)) =
      if isIntKind a.typ then
        [(DKind.type, Role.valueType, identifier a.name)]
        ++ (attrValues a.name vals).map (fun v => (DKind.const, Role.valueConst, identifier a.name ++ bs "_Value_" ++ identifier v.name))
        ++ [(DKind.var, Role.strings, identifier a.name ++ bs "_Strings"), (DKind.method, Role.stringer, identifier a.name ++ bs ".String")]
      else [] :=
  Gen.api_shape_integer' vendor a vals

/-- a tag parameter exactly when the attribute is tagged (for every attribute the validity rules accept) -/
theorem tag_param_iff (cfg : Cfg) (vendor : Bool) (a : Attribute) (vals : List Value)
    (hv : invalidAttr cfg vendor a = false) :
    ∀ d ∈ attrDecls vendor a vals, (d.role.isWriter || d.role.isReader) = true → hasTagParam d = tagged a :=
  Gen.tag_param_iff' cfg vendor a vals hv

/-- a request-packet parameter exactly when the attribute is salt-encrypted -/
def request_param_full (cfg : Cfg) : Prop :=
  ∀ (vendor : Bool) (a : Attribute) (vals : List Value), invalidAttr cfg vendor a = false →
    ∀ d ∈ attrDecls vendor a vals, d.role.isReader = true → hasRequestParam d = salted a

/-- #18: `ATTRIBUTE X 1 date encrypt=2` is accepted by the code as found and its readers have no `q` -/
theorem request_param_counterexample : ¬ request_param_full Cfg.asIs := by
  intro h
  have := h false { name := bs "X", oid := [1], typ := .date, encrypt := some 2 } [] (by decide)
    (fn (bs "X") .get [.packet] [.time]) (by decide) (by decide)
  exact absurd this (by decide)

/-- as found, the clause holds on the kinds whose template implements `encrypt=2` -/
theorem request_param_partial (vendor : Bool) (a : Attribute) (vals : List Value)
    (hv : invalidAttr Cfg.asIs vendor a = false)
    (hk : salted a = true → (stringy a.typ || isIPKind a.typ || isIntKind a.typ) = true) :
    ∀ d ∈ attrDecls vendor a vals, d.role.isReader = true → hasRequestParam d = salted a :=
  Gen.request_param_partial' vendor a vals hv hk

theorem request_param_repaired : request_param_full Cfg.repaired :=
  Gen.request_param_repaired'

/-! ### the clauses of the API shape, one by one, over the output of an accepted dictionary

`api_shape` above compares the template table `attrDecls` with the specification table `helperRoles`.  The
statements below do not go through `helperRoles`: each spells its list out, and each is about the OUTPUT of
`generate` for an arbitrary accepted dictionary `d` and an arbitrary attribute `a` declared by `d` (at top
level or inside a VENDOR block — `AttrIn d vendor a vs`, `vs` being the VALUE lines of that scope) that is
not on the ignore list.  `declsOf out vendor a` is everything the output declares for `a`, in order. -/

/-- (i) text and octets: typed and `String` variants of Add/Get/Gets/Lookup/Set, and Del
    (top-level attributes additionally have their `_Type` constant) -/
theorem helpers_text {d : Dictionary} {o : Options} {out : Output} {vendor : Bool} {a : Attribute} {vs : List Value}
    (hacc : generate Cfg.repaired d o = .ok out) (hin : AttrIn d vendor a vs) (hi : a.name ∉ o.ignore)
    (hk : a.typ = .string ∨ a.typ = .octets) (hc : concatenated a = false) :
    (declsOf out vendor a).map (·.role) =
      (if vendor then [] else [Role.typeConst])
      ++ [.add, .addString, .get, .getString, .gets, .getStrings, .lookup, .lookupString, .set, .setString, .del] :=
  Gen.helpers_text' hacc hin hi hk hc

/-- (ii) concat attributes (top level only: inside a VENDOR block the flag is refused): only
    Get/Lookup/Set with their `String` variants, and Del — no Add, no Gets -/
theorem helpers_concat {d : Dictionary} {o : Options} {out : Output} {vendor : Bool} {a : Attribute} {vs : List Value}
    (hacc : generate Cfg.repaired d o = .ok out) (hin : AttrIn d vendor a vs) (hi : a.name ∉ o.ignore)
    (hk : a.typ = .string ∨ a.typ = .octets) (hc : concatenated a = true) :
    vendor = false ∧
    (declsOf out vendor a).map (·.role) = [.typeConst, .get, .getString, .lookup, .lookupString, .set, .setString, .del] :=
  Gen.helpers_concat' hacc hin hi hk hc

/-- (iii) integer kinds (`short`, `integer`, `integer64`; `n` = 16, 32, 64): the value type `uint<n>`, one
    named constant of that type per VALUE number (`attrValues ∘ sortValues`, characterised by `value_constants`),
    the `_Strings` map, the `String()` method, Add/Get/Gets/Lookup/Set/Del over the value type.  The constants'
    identifiers are pairwise distinct and their numbers fit the type. -/
theorem helpers_integer {d : Dictionary} {o : Options} {out : Output} {vendor : Bool} {a : Attribute} {vs : List Value}
    (hacc : generate Cfg.repaired d o = .ok out) (hin : AttrIn d vendor a vs) (hi : a.name ∉ o.ignore)
    (n : Nat) (hk : intBits a.typ = some n) :
    (declsOf out vendor a).map (fun dc => (dc.role, dc.name, dc.results)) =
      (if vendor then [] else [(Role.typeConst, identifier a.name ++ bs "_Type", [Ty.radiusType])])
      ++ [(Role.valueType, identifier a.name, [if n = 64 then Ty.u64 else if n = 16 then Ty.u16 else Ty.u32])]
      ++ (attrValues a.name (sortValues vs)).map (fun v =>
            (Role.valueConst, identifier a.name ++ bs "_Value_" ++ identifier v.name, [Ty.named (identifier a.name)]))
      ++ [(Role.strings, identifier a.name ++ bs "_Strings", [Ty.mapStr (identifier a.name)]),
          (Role.stringer, identifier a.name ++ bs ".String", [Ty.str]),
          (Role.add, identifier a.name ++ bs "_Add", [Ty.error]),
          (Role.get, identifier a.name ++ bs "_Get", tg a .byte ++ [Ty.named (identifier a.name)]),
          (Role.gets, identifier a.name ++ bs "_Gets", tg a .bytes ++ [Ty.slice (Ty.named (identifier a.name)), Ty.error]),
          (Role.lookup, identifier a.name ++ bs "_Lookup", tg a .byte ++ [Ty.named (identifier a.name), Ty.error]),
          (Role.set, identifier a.name ++ bs "_Set", [Ty.error]),
          (Role.del, identifier a.name ++ bs "_Del", [])]
    ∧ ((attrValues a.name (sortValues vs)).map (fun v => identifier v.name)).Nodup
    ∧ (∀ v ∈ attrValues a.name (sortValues vs), v.number < 2 ^ n) :=
  Gen.helpers_integer' hacc hin hi n hk

/-- which VALUEs name a constant: VALUE lines of that attribute (and scope), with pairwise distinct numbers,
    in ascending order, one for every number that occurs (which one: `value_constants_last`) -/
theorem value_constants (attrName : Bytes) (vs : List Value) :
    (attrValues attrName (sortValues vs)).Pairwise (fun x y => x.number < y.number)
    ∧ (∀ w ∈ attrValues attrName (sortValues vs), w ∈ vs ∧ w.attrName = attrName)
    ∧ (∀ v ∈ vs, v.attrName = attrName → ∃ w ∈ attrValues attrName (sortValues vs), w.number = v.number) :=
  Gen.attrValues_spec' attrName vs

/-- of the VALUE lines of one attribute that carry the same number, the one declared LAST names the constant
    (`sort.Stable` keeps their order, the loop of `attributeValues` overwrites) -/
theorem value_constants_last (attrName : Bytes) (vs : List Value) :
    ∀ w ∈ attrValues attrName (sortValues vs),
      (vs.filter (fun v => v.attrName == attrName && v.number == w.number)).getLast? = some w :=
  Gen.attrValues_last' attrName vs

example : attrValues (bs "Service-Type") (sortValues [⟨bs "Service-Type", bs "Login-User", 1⟩, ⟨bs "Service-Type", bs "Framed-User", 2⟩,
    ⟨bs "Service-Type", bs "Login", 1⟩, ⟨bs "Ext-Attr", bs "On", 1⟩]) = [⟨bs "Service-Type", bs "Login", 1⟩, ⟨bs "Service-Type", bs "Framed-User", 2⟩] := by decide

/-- (iv) the other kinds with a template (`ipaddr`, `ipv6addr`, `ipv6prefix`, `ifid`, `date`, `byte`):
    typed Add/Get/Gets/Lookup/Set/Del and nothing else -/
theorem helpers_other {d : Dictionary} {o : Options} {out : Output} {vendor : Bool} {a : Attribute} {vs : List Value}
    (hacc : generate Cfg.repaired d o = .ok out) (hin : AttrIn d vendor a vs) (hi : a.name ∉ o.ignore)
    (hk : a.typ = .ipaddr ∨ a.typ = .ipv6addr ∨ a.typ = .ipv6prefix ∨ a.typ = .ifid ∨ a.typ = .date ∨ a.typ = .byte) :
    (declsOf out vendor a).map (·.role) =
      (if vendor then [] else [Role.typeConst]) ++ [.add, .get, .gets, .lookup, .set, .del] :=
  Gen.helpers_simple' hacc hin hi hk

/-- (v) kinds without a template: the only one an accepted dictionary can contain is a top-level `vsa`,
    and it gets its `_Type` constant and nothing else -/
theorem helpers_none {d : Dictionary} {o : Options} {out : Output} {vendor : Bool} {a : Attribute} {vs : List Value}
    (hacc : generate Cfg.repaired d o = .ok out) (hin : AttrIn d vendor a vs) (hi : a.name ∉ o.ignore)
    (hk : hasTemplate a.typ = false) :
    vendor = false ∧ a.typ = .vsa ∧ declsOf out vendor a = [typeConstDecl a] :=
  Gen.helpers_none' hacc hin hi hk

/-- the five clauses are exhaustive -/
theorem helpers_cases (a : Attribute) :
    ((a.typ = .string ∨ a.typ = .octets) ∧ (concatenated a = false ∨ concatenated a = true))
    ∨ (∃ n, intBits a.typ = some n)
    ∨ (a.typ = .ipaddr ∨ a.typ = .ipv6addr ∨ a.typ = .ipv6prefix ∨ a.typ = .ifid ∨ a.typ = .date ∨ a.typ = .byte)
    ∨ hasTemplate a.typ = false := by
  obtain ⟨name, oid, typ, size, enc, tag, cc⟩ := a
  cases typ <;> simp [intBits, hasTemplate, stringy, isIPKind, isIntKind]
  all_goals (cases concatenated _ <;> simp)

/-- names and sorts of declaration: each declaration of `a` is the sort of declaration its role says and is
    named `<Identifier><suffix of the role>`, a constant `<Identifier>_Value_<identifier of the VALUE>` -/
theorem helper_names {d : Dictionary} {o : Options} {out : Output} {vendor : Bool} {a : Attribute} {vs : List Value}
    (hacc : generate Cfg.repaired d o = .ok out) (hin : AttrIn d vendor a vs) (hi : a.name ∉ o.ignore) :
    ∀ dc ∈ declsOf out vendor a, dc.kind = dc.role.kind ∧
      ((dc.role ≠ .valueConst ∧ dc.name = identifier a.name ++ bs dc.role.suffix) ∨
       (dc.role = .valueConst ∧ ∃ v ∈ attrValues a.name (sortValues vs),
          dc.name = identifier a.name ++ bs "_Value_" ++ identifier v.name)) :=
  Gen.helper_names' hacc hin hi

/-- `declsOf` is not a second table: it is the union of the output's sections of that origin -/
theorem mem_declsOf {out : Output} {vendor : Bool} {a : Attribute} {dc : Decl} :
    dc ∈ declsOf out vendor a ↔ ∃ s ∈ out.sections, s.1 = .attr vendor a ∧ dc ∈ s.2 :=
  Gen.mem_declsOf

/-- a tag parameter exactly when the attribute is tagged: over EVERY declaration emitted for ANY attribute
    (top-level or vendor) of an accepted dictionary, a declaration carries a tag iff the attribute is tagged
    and the declaration is one of Add/Set/Get/Gets/Lookup (or a `String` variant); Del, the `_Type` constant,
    the value type, its constants, `_Strings` and `String()` never do -/
theorem tag_param {d : Dictionary} {o : Options} {out : Output} (hacc : generate Cfg.repaired d o = .ok out) :
    ∀ s ∈ out.sections, ∀ (vendor : Bool) (a : Attribute), s.1 = .attr vendor a → ∀ dc ∈ s.2,
      (hasTagParam dc = true ↔ (tagged a = true ∧ (dc.role.isWriter || dc.role.isReader) = true)) :=
  Gen.tag_param_sections hacc

/-- a request-packet parameter exactly when the attribute is salt-encrypted (`encrypt=2`): over every
    declaration emitted for any attribute of an accepted dictionary, the parameters are `(p, q *radius.Packet)`
    iff the attribute is salt-encrypted and the declaration is one of Get/Gets/Lookup (or a `String` variant) -/
theorem request_param {d : Dictionary} {o : Options} {out : Output} (hacc : generate Cfg.repaired d o = .ok out) :
    ∀ s ∈ out.sections, ∀ (vendor : Bool) (a : Attribute), s.1 = .attr vendor a → ∀ dc ∈ s.2,
      (hasRequestParam dc = true ↔ (salted a = true ∧ dc.role.isReader = true)) :=
  Gen.request_param_sections hacc

/-- the remaining sections (vendor identifiers, the private vendor helpers, external VALUE constants and
    their `init`) carry neither -/
theorem other_sections_no_param {cfg : Cfg} {d : Dictionary} {o : Options} {out : Output} (hacc : generate cfg d o = .ok out) :
    ∀ s ∈ out.sections, (∀ vendor a, s.1 ≠ .attr vendor a) → ∀ dc ∈ s.2, hasTagParam dc = false ∧ hasRequestParam dc = false :=
  Gen.other_sections_no_param hacc

/-- `ATTRIBUTE X 1 date encrypt=2` -/
def witnessDateSalt : Dictionary := { attributes := [{ name := bs "X", oid := [1], typ := .date, encrypt := some 2 }] }

/-- as found (#18) the request-packet clause fails on the OUTPUT too: `date encrypt=2` is accepted and its
    `_Get` takes one packet -/
example : (match generate Cfg.asIs witnessDateSalt ⟨[], []⟩ with
    | .ok out => out.decls.any (fun dc => dc.role == .get && !hasRequestParam dc)
    | .error _ => false) = true := by decide

/-! #### a dictionary that exercises every clause (non-vacuity) -/

def wText : Attribute := { name := bs "User-Name", oid := [1], typ := .string }
def wConcat : Attribute := { name := bs "EAP-Message", oid := [79], typ := .octets, isConcat := some true }
def wInt : Attribute := { name := bs "Service-Type", oid := [6], typ := .integer }
def wIP : Attribute := { name := bs "Framed-IP-Address", oid := [8], typ := .ipaddr }
def wVSA : Attribute := { name := bs "Vendor-Specific", oid := [26], typ := .vsa }
def wTunnel : Attribute := { name := bs "Tunnel-Password", oid := [69], typ := .string, encrypt := some 2, hasTag := some true }
def wOld : Attribute := { name := bs "Old", oid := [99], typ := .string }
def wVInt : Attribute := { name := bs "Acme-Level", oid := [1], typ := .short }
def wVText : Attribute := { name := bs "Acme-Note", oid := [2], typ := .octets, hasTag := some true }
def wVDate : Attribute := { name := bs "Acme-When", oid := [3], typ := .date }
def wVendor : Vendor :=
  { name := bs "Acme", number := 9, attributes := [wVDate, wVInt, wVText],
    values := [⟨bs "Acme-Level", bs "High", 2⟩, ⟨bs "Acme-Level", bs "Low", 1⟩] }

/-- top-level attributes of every kind, one of them ignored, VALUEs with a repeated number, a VALUE of an
    external attribute, a vendor with attributes of three kinds -/
def witnessShape : Dictionary :=
  { attributes := [wTunnel, wText, wConcat, wInt, wIP, wVSA, wOld],
    values := [⟨bs "Service-Type", bs "Login-User", 1⟩, ⟨bs "Service-Type", bs "Framed-User", 2⟩,
               ⟨bs "Service-Type", bs "Login", 1⟩, ⟨bs "Ext-Attr", bs "On", 1⟩],
    vendors := [wVendor] }
def witnessOpts : Options := ⟨[bs "Old"], [(bs "Ext-Attr", bs "example.com/ext")]⟩

def witnessOut : Output := match generate Cfg.repaired witnessShape witnessOpts with | .ok out => out | .error _ => ⟨[], []⟩

theorem witness_ok : generate Cfg.repaired witnessShape witnessOpts = .ok witnessOut := by decide

example : (declsOf witnessOut false wText).map (·.role) =
    [.typeConst, .add, .addString, .get, .getString, .gets, .getStrings, .lookup, .lookupString, .set, .setString, .del] :=
  helpers_text witness_ok (Or.inl ⟨rfl, by decide, rfl⟩) (by decide) (Or.inl rfl) rfl
example : (declsOf witnessOut true wVText).map (·.role) =
    [.add, .addString, .get, .getString, .gets, .getStrings, .lookup, .lookupString, .set, .setString, .del] :=
  helpers_text witness_ok (Or.inr ⟨rfl, wVendor, by decide, by decide, rfl⟩) (by decide) (Or.inr rfl) rfl
example : (declsOf witnessOut false wConcat).map (·.role) = [.typeConst, .get, .getString, .lookup, .lookupString, .set, .setString, .del] :=
  (helpers_concat witness_ok (Or.inl ⟨rfl, by decide, rfl⟩) (by decide) (Or.inr rfl) rfl).2
example : ((declsOf witnessOut false wInt).filter (·.role == .valueConst)).map (·.name) =
    [bs "ServiceType_Value_Login", bs "ServiceType_Value_FramedUser"] := by decide
example := (helpers_integer (vs := witnessShape.values) witness_ok (Or.inl ⟨rfl, by decide, rfl⟩) (by decide : wInt.name ∉ witnessOpts.ignore) 32 rfl).1
example := (helpers_integer (vs := wVendor.values) witness_ok (Or.inr ⟨rfl, wVendor, by decide, by decide, rfl⟩) (by decide : wVInt.name ∉ witnessOpts.ignore) 16 rfl).1
example : (declsOf witnessOut false wIP).map (·.role) = [.typeConst, .add, .get, .gets, .lookup, .set, .del] :=
  helpers_other witness_ok (Or.inl ⟨rfl, by decide, rfl⟩) (by decide) (Or.inl rfl)
example : (declsOf witnessOut true wVDate).map (·.role) = [.add, .get, .gets, .lookup, .set, .del] :=
  helpers_other witness_ok (Or.inr ⟨rfl, wVendor, by decide, by decide, rfl⟩) (by decide) (by decide)
example : declsOf witnessOut false wVSA = [typeConstDecl wVSA] :=
  (helpers_none witness_ok (Or.inl ⟨rfl, by decide, rfl⟩) (by decide) rfl).2.2
example := helper_names (vs := witnessShape.values) witness_ok (Or.inl ⟨rfl, by decide, rfl⟩) (by decide : wInt.name ∉ witnessOpts.ignore)
/-- the output has tagged and untagged, salted and unsalted helpers, of top-level and of vendor attributes -/
example : witnessOut.sections.any (fun s => s.1 == .attr false wTunnel && s.2.any hasTagParam && s.2.any hasRequestParam) = true
    ∧ witnessOut.sections.any (fun s => s.1 == .attr true wVText && s.2.any hasTagParam && !s.2.any hasRequestParam) = true
    ∧ witnessOut.sections.any (fun s => s.1 == .attr false wText && !s.2.any hasTagParam) = true := by decide
example := tag_param witness_ok
example := request_param witness_ok

/-! ### ignored_emit_nothing -/

/-- no group of declarations originates from an ATTRIBUTE on the ignore list, and no constant from a
    VALUE of an attribute on the ignore list -/
def ignored_emit_nothing_full (cfg : Cfg) : Prop :=
  ∀ (d : Dictionary) (o : Options) (out : Output), generate cfg d o = .ok out →
    ∀ s ∈ out.sections, match s.1 with
      | .attr _ a => a.name ∉ o.ignore
      | _ => True

/-- the shape of rfc4679: `VENDOR V 9`, inside it `ATTRIBUTE X 255.1 octets`, generated with `-ignore X` -/
def witnessIgnored : Dictionary :=
  { vendors := [{ name := bs "V", number := 9, attributes := [{ name := bs "X", oid := [255, 1], typ := .octets }] }] }

/-- an ignored vendor attribute still gets its helpers from the code as found -/
theorem ignored_emit_nothing_counterexample : ¬ ignored_emit_nothing_full Cfg.asIs := by
  intro h
  have hd : (match generate Cfg.asIs witnessIgnored ⟨[bs "X"], []⟩ with
      | .ok out => out.sections.any (fun s => match s.1 with | .attr _ a => [bs "X"].contains a.name | _ => false)
      | .error _ => false) = true := by decide
  cases hg : generate Cfg.asIs witnessIgnored ⟨[bs "X"], []⟩ with
  | error e => rw [hg] at hd; simp at hd
  | ok out =>
    rw [hg] at hd
    obtain ⟨s, hs, hbad⟩ := List.any_eq_true.mp hd
    have hgood := h _ _ out hg s hs
    cases hs1 : s.1 with
    | attr v a => rw [hs1] at hbad hgood; exact hgood (by simpa using hbad)
    | vendor n => rw [hs1] at hbad; simp at hbad
    | ext n => rw [hs1] at hbad; simp at hbad

/-- as found, the clause holds for top-level attributes -/
theorem ignored_emit_nothing_partial (d : Dictionary) (o : Options) (out : Output)
    (h : generate Cfg.asIs d o = .ok out) :
    ∀ s ∈ out.sections, ∀ a, s.1 = .attr false a → a.name ∉ o.ignore :=
  Gen.ignored_top' Cfg.asIs d o out h

theorem ignored_emit_nothing_repaired : ignored_emit_nothing_full Cfg.repaired :=
  Gen.ignored_repaired'

/-! ### imports_exact: declared = used (dot imports of external attributes aside) -/

def imports_exact_full (cfg : Cfg) : Prop :=
  ∀ (d : Dictionary) (o : Options) (out : Output), generate cfg d o = .ok out →
    ∀ i, (∀ p, i ≠ Imp.dot p) → (i ∈ out.imports ↔ i ∈ neededImports out.sections)

/-- `ATTRIBUTE X 1 date encrypt=2` -/
def witnessImports : Dictionary := { attributes := [{ name := bs "X", oid := [1], typ := .date, encrypt := some 2 }] }

/-- #18: `crypto/rand` is imported for `date encrypt=2` and nothing uses it -/
theorem imports_exact_counterexample : ¬ imports_exact_full Cfg.asIs := by
  intro h
  have hd : (match generate Cfg.asIs witnessImports ⟨[], []⟩ with
      | .ok out => out.imports.contains (Imp.std (bs "crypto/rand")) && !(neededImports out.sections).contains (Imp.std (bs "crypto/rand"))
      | .error _ => false) = true := by decide
  cases hg : generate Cfg.asIs witnessImports ⟨[], []⟩ with
  | error e => rw [hg] at hd; simp at hd
  | ok out =>
    rw [hg] at hd
    have hiff := h _ _ out hg (Imp.std (bs "crypto/rand")) (by intro p hp; cases hp)
    simp only [Bool.and_eq_true, Bool.not_eq_true', List.contains_eq_mem, decide_eq_true_eq, decide_eq_false_iff_not] at hd
    exact hd.2 (hiff.mp hd.1)

/-- as found: every import that is needed is declared, provided no vendor attribute is on the ignore
    list; the converse needs `encrypt=` only where implemented -/
theorem imports_exact_partial (d : Dictionary) (o : Options) (out : Output)
    (h : generate Cfg.asIs d o = .ok out)
    (hi : ∀ v ∈ d.vendors, ∀ a ∈ v.attributes, a.name ∉ o.ignore)
    (he : ∀ a, (a ∈ d.attributes ∨ ∃ v ∈ d.vendors, a ∈ v.attributes) → encryptSupported a = true) :
    ∀ i, (∀ p, i ≠ Imp.dot p) → (i ∈ out.imports ↔ i ∈ neededImports out.sections) :=
  Gen.imports_exact_partial' d o out h hi he

theorem imports_exact_repaired : imports_exact_full Cfg.repaired :=
  Gen.imports_exact_repaired'

/-- `imports_exact_*` is an equivalence (every import the sections need is imported AND nothing else is), but
    it leaves the dot imports aside.  Those are exact too, for every `cfg`: the package of a `-ref` option
    is dot-imported exactly when the output declares at least one constant of that external attribute
    (an unused dot import would not compile).  `ExternalAttributes` is a Go map: keys are distinct. -/
theorem dot_imports_exact (cfg : Cfg) (d : Dictionary) (o : Options) (out : Output) (h : generate cfg d o = .ok out)
    (hd : (o.refs.map (·.1)).Nodup) (p : Bytes) :
    Imp.dot p ∈ out.imports ↔
      ∃ r ∈ o.refs, r.2 = p ∧ ∃ s ∈ out.sections, s.1 = .ext r.1 ∧ ∃ dc ∈ s.2, dc.role = .extValue :=
  Gen.dot_imports_exact' h hd p

/-- no package is imported twice -/
theorem imports_nodup (cfg : Cfg) (d : Dictionary) (o : Options) (out : Output) (h : generate cfg d o = .ok out) :
    out.imports.Nodup :=
  Gen.imports_nodup' h

example : (witnessOpts.refs.map (·.1)).Nodup := by decide
example : Imp.dot (bs "example.com/ext") ∈ witnessOut.imports := by decide
example := (dot_imports_exact _ _ _ _ witness_ok (by decide) (bs "example.com/ext")).1 (by decide)
/-- a `-ref` option none of whose VALUEs occurs is not imported -/
example : (match generate Cfg.repaired witnessShape ⟨[bs "Old"], [(bs "Ext-Attr", bs "example.com/ext"), (bs "Unused", bs "example.com/unused")]⟩ with
    | .ok out => !out.imports.contains (Imp.dot (bs "example.com/unused")) && out.imports.contains (Imp.dot (bs "example.com/ext"))
    | .error _ => false) = true := by decide

/-! ### idents_unique: no two declarations share a name -/

/-- the `-ref` options are usable: every external attribute name normalises to an exported identifier,
    no two of them to the same one (ExternalAttributes is a Go map, so the names themselves are distinct),
    and none shares its identifier with a declared attribute (the external type is dot-imported) -/
def extWellFormed (d : Dictionary) (o : Options) : Prop :=
  (∀ r ∈ o.refs, ∀ a, (a ∈ d.attributes ∨ ∃ v ∈ d.vendors, a ∈ v.attributes) → identifier r.1 ≠ identifier a.name)
  ∧ (∀ r ∈ o.refs, exportedIdent (identifier r.1) = true)
  ∧ (o.refs.map (fun r => identifier r.1)).Nodup

def idents_unique_full (cfg : Cfg) : Prop :=
  ∀ (d : Dictionary) (o : Options) (out : Output), generate cfg d o = .ok out → extWellFormed d o →
    (declaredNames out).Nodup

/-- `ATTRIBUTE A 1 integer`, `VALUE A x-y 1`, `VALUE A x_y 2` -/
def witnessValues : Dictionary :=
  { attributes := [{ name := bs "A", oid := [1], typ := .integer }], values := [⟨bs "A", bs "x-y", 1⟩, ⟨bs "A", bs "x_y", 2⟩] }

/-- `VENDOR V-1 1`, `VENDOR V_1 2` -/
def witnessVendors : Dictionary := { vendors := [{ name := bs "V-1", number := 1 }, { name := bs "V_1", number := 2 }] }

/-- #15: two VALUEs of one attribute whose names normalise to the same identifier -/
theorem idents_unique_counterexample : ¬ idents_unique_full Cfg.asIs := by
  intro h
  have hd : (match generate Cfg.asIs witnessValues ⟨[], []⟩ with
      | .ok out => !decide (declaredNames out).Nodup
      | .error _ => false) = true := by decide
  cases hg : generate Cfg.asIs witnessValues ⟨[], []⟩ with
  | error e => rw [hg] at hd; simp at hd
  | ok out =>
    rw [hg] at hd
    have := h _ _ out hg ⟨(by intro r hr; cases hr), (by intro r hr; cases hr), List.nodup_nil⟩
    simp [this] at hd

/-- #15, vendors: two vendors whose names normalise to the same identifier -/
theorem idents_unique_counterexample_vendor : ¬ idents_unique_full Cfg.asIs := by
  intro h
  have hd : (match generate Cfg.asIs witnessVendors ⟨[], []⟩ with
      | .ok out => !decide (declaredNames out).Nodup
      | .error _ => false) = true := by decide
  cases hg : generate Cfg.asIs witnessVendors ⟨[], []⟩ with
  | error e => rw [hg] at hd; simp at hd
  | ok out =>
    rw [hg] at hd
    have := h _ _ out hg ⟨(by intro r hr; cases hr), (by intro r hr; cases hr), List.nodup_nil⟩
    simp [this] at hd

/-- as found, the clause holds for dictionaries of top-level attributes without VALUE lines, vendors and
    `-ref` options (the collision check of the validity loop covers exactly the attribute identifiers) -/
theorem idents_unique_partial (d : Dictionary) (o : Options) (out : Output)
    (h : generate Cfg.asIs d o = .ok out)
    (hvend : d.vendors = []) (hvals : d.values = []) (hrefs : o.refs = [])
    (hexp : ∀ a ∈ d.attributes, exportedIdent (identifier a.name) = true) :
    (declaredNames out).Nodup :=
  Gen.idents_unique_partial' d o out h hvend hvals hrefs hexp

theorem idents_unique_repaired : idents_unique_full Cfg.repaired :=
  fun d o out h hw => Gen.idents_unique_repaired' d o out h hw.1 hw.2.1 hw.2.2

/-- what `declaredNames` (hence `idents_unique_*`) covers: the name of EVERY declaration of the output —
    `_Type` constants, vendor identifiers, the private vendor helper functions, value types, value constants,
    `_Strings` maps, `String` methods, helper functions, constants of external attributes — with the one
    exception Go allows to repeat, the `init` functions -/
theorem declaredNames_covers (out : Output) :
    ∀ dc ∈ out.decls, dc.role ≠ .extInit → dc.name ∈ declaredNames out := by
  intro dc hdc hr
  exact List.mem_map.2 ⟨dc, List.mem_filter.2 ⟨hdc, by simpa using hr⟩, rfl⟩

/-- … and the exception is exactly the `init` functions -/
theorem extInit_is_init (cfg : Cfg) (d : Dictionary) (o : Options) (out : Output) (h : generate cfg d o = .ok out) :
    ∀ dc ∈ out.decls, dc.role = .extInit → dc = ⟨.func, .extInit, bs "init", [], []⟩ :=
  Gen.extInit_is_init' h

/-! ### names_wellformed: every declared name is a Go identifier -/

/-- every declared name of an accepted dictionary is a well-formed Go identifier (`goIdent`: non-empty,
    ASCII letters, digits and `_`, not starting with a digit — in particular `lexesAsIdent`), the method's
    name being `<value type>.String`.  No hypothesis on the `-ref` options: the model refuses (`Err.format`,
    as go/format does) a `-ref` name that normalises to something starting with a digit as soon as a VALUE
    is declared for it, and without a VALUE nothing is declared under that name. -/
theorem names_wellformed (d : Dictionary) (o : Options) (out : Output) (h : generate Cfg.repaired d o = .ok out) :
    ∀ dc ∈ out.decls, declNameOK dc :=
  Gen.names_ok' h

theorem goIdent_lexes (n : Bytes) (h : goIdent n = true) : lexesAsIdent n = true := by
  simp only [goIdent, Bool.and_eq_true] at h
  exact h.1.2

example : ∀ r ∈ witnessOpts.refs, lexesAsIdent (identifier r.1) = true := by decide
example := names_wellformed _ _ _ witness_ok

/-- the format gate on `-ref` names, as observed on the Go side (dictionarygen.Generator.Generate with
    `ExternalAttributes = {NAME: "some/pkg"}` and one `VALUE NAME x 1`): `-ref -1=…` emits
    `1_Strings[1_Value_X] = "x"` / `1_Value_X 1 = 1`, which go/format refuses … -/
example : generate Cfg.repaired { values := [⟨bs "-1", bs "x", 1⟩] } ⟨[], [(bs "-1", bs "example.com/q")]⟩
    = .error .format := by decide
example : generate Cfg.asIs { values := [⟨bs "-1", bs "x", 1⟩] } ⟨[], [(bs "-1", bs "example.com/q")]⟩
    = .error .format := by decide
example : generate Cfg.repaired { values := [⟨bs "_1", bs "x", 1⟩] } ⟨[], [(bs "_1", bs "example.com/q")]⟩
    = .error .format := by decide
/-- … an ordinary `-ref` is accepted, with its constant and its dot import … -/
example : (match generate Cfg.repaired { values := [⟨bs "Ok-Name", bs "x", 1⟩] } ⟨[], [(bs "Ok-Name", bs "example.com/q")]⟩ with
    | .ok out => out.decls.any (fun dc => dc.name == bs "OkName_Value_X" && goIdent dc.name)
        && out.imports == [Imp.dot (bs "example.com/q")]
    | .error _ => false) = true := by decide
/-- … so are names whose FIRST byte is a digit (`1` ↦ `One`, `3Com` ↦ `ThreeCom`) … -/
example : (match generate Cfg.repaired { values := [⟨bs "1", bs "x", 1⟩, ⟨bs "3Com", bs "x", 1⟩] }
      ⟨[], [(bs "1", bs "example.com/q"), (bs "3Com", bs "example.com/r")]⟩ with
    | .ok out => out.decls.any (fun dc => dc.name == bs "One_Value_X") && out.decls.any (fun dc => dc.name == bs "ThreeCom_Value_X")
    | .error _ => false) = true := by decide
/-- … a name that normalises to the EMPTY identifier (`-ref -=…`: `_Strings[_Value_X] = "x"`, `_Value_X = 1`
    are Go) … -/
example : (match generate Cfg.repaired { values := [⟨bs "-", bs "x", 1⟩] } ⟨[], [(bs "-", bs "example.com/q")]⟩ with
    | .ok out => out.decls.any (fun dc => dc.name == bs "_Value_X" && goIdent dc.name)
    | .error _ => false) = true := by decide
/-- … and `-ref -1=…` when no VALUE line refers to it (only `func init() {}` and `const ()` are emitted) -/
example : (match generate Cfg.repaired {} ⟨[], [(bs "-1", bs "example.com/q")]⟩ with
    | .ok out => out.decls == [⟨.func, .extInit, bs "init", [], []⟩] && out.imports == []
    | .error _ => false) = true := by decide

/-! ### exported_names: what is exported and what is private -/

/-- Everything declared for an ATTRIBUTE of an accepted dictionary (its `_Type` constant, helper functions,
    value type, named constants, `_Strings`, `String`) starts with the attribute's identifier, which is an
    upper-case ASCII letter followed by letters and digits: it is exported.  Everything declared for a VENDOR
    (`_<Identifier>_VendorID` and the six helpers `_<Identifier>_{New,Add,Gets,Lookup,Set,Del}Vendor`)
    starts with `_`: it is private to the package.  The section of an external attribute holds `init` and
    constants `<Identifier>_Value_…` (exported when the `-ref` name has an exported identifier). -/
theorem exported_names (d : Dictionary) (o : Options) (out : Output) (h : generate Cfg.repaired d o = .ok out) :
    ∀ s ∈ out.sections, ∀ dc ∈ s.2,
      match s.1 with
      | .attr _ a => exportedIdent dc.name = true ∧ identifier a.name <+: dc.name
      | .vendor n => dc.name.head? = some 95 ∧ (bs "_" ++ identifier n) <+: dc.name
      | .ext n => dc.name = bs "init" ∨ (identifier n ++ bs "_Value_") <+: dc.name :=
  Gen.exported_names' h

/-- the part about attributes alone, as a property of `cfg` -/
def exported_names_full (cfg : Cfg) : Prop :=
  ∀ (d : Dictionary) (o : Options) (out : Output), generate cfg d o = .ok out →
    ∀ s ∈ out.sections, ∀ vendor a, s.1 = .attr vendor a → ∀ dc ∈ s.2, exportedIdent dc.name = true

theorem exported_names_repaired : exported_names_full Cfg.repaired := by
  intro d o out h s hs vendor a ho dc hdc
  have := exported_names d o out h s hs dc hdc
  rw [ho] at this
  exact this.1

/-- `ATTRIBUTE -- 1 string`: the name normalises to the empty identifier -/
def witnessUnexported : Dictionary := { attributes := [{ name := bs "--", oid := [1], typ := .string }] }

/-- as found, `--` is accepted and its helpers are called `_Type`, `_Add`, …: not exported -/
theorem exported_names_counterexample : ¬ exported_names_full Cfg.asIs := by
  intro h
  have hd : (match generate Cfg.asIs witnessUnexported ⟨[], []⟩ with
      | .ok out => out.sections.any (fun s => (match s.1 with | .attr _ _ => true | _ => false) && s.2.any (fun dc => !exportedIdent dc.name))
      | .error _ => false) = true := by decide
  cases hg : generate Cfg.asIs witnessUnexported ⟨[], []⟩ with
  | error e => rw [hg] at hd; simp at hd
  | ok out =>
    rw [hg] at hd
    obtain ⟨s, hs, hbad⟩ := List.any_eq_true.mp hd
    simp only [Bool.and_eq_true] at hbad
    obtain ⟨ho, hbad⟩ := hbad
    obtain ⟨dc, hdc, hne⟩ := List.any_eq_true.mp hbad
    cases hs1 : s.1 with
    | attr v a =>
      have := h _ _ out hg s hs v a hs1 dc hdc
      simp [this] at hne
    | vendor n => rw [hs1] at ho; simp at ho
    | ext n => rw [hs1] at ho; simp at ho

/-- as found, the clause holds for every attribute whose name has an exported identifier -/
theorem exported_names_partial (d : Dictionary) (o : Options) (out : Output) (h : generate Cfg.asIs d o = .ok out) :
    ∀ s ∈ out.sections, ∀ vendor a, s.1 = .attr vendor a → exportedIdent (identifier a.name) = true →
      ∀ dc ∈ s.2, exportedIdent dc.name = true :=
  Gen.exported_names_partial' h

example := exported_names _ _ _ witness_ok

/-! ### perm_invariant: the declaration order of attributes and vendors does not matter -/

/-- permuting ATTRIBUTE and VENDOR declarations changes neither whether Generate succeeds nor,
    if it does, anything about the output (imports, declarations, their order) -/
def perm_invariant_full (cfg : Cfg) : Prop :=
  ∀ (d₁ d₂ : Dictionary) (o : Options), PermRel d₁ d₂ → (generate cfg d₁ o).toOption = (generate cfg d₂ o).toOption

/-- #14: swapping two attributes swaps their helpers in the output of the code as found -/
theorem perm_invariant_counterexample : ¬ perm_invariant_full Cfg.asIs := by
  intro h
  have := h { attributes := [{ name := bs "B", oid := [2], typ := .string }, { name := bs "A", oid := [1], typ := .string }] }
            { attributes := [{ name := bs "A", oid := [1], typ := .string }, { name := bs "B", oid := [2], typ := .string }] }
            ⟨[], []⟩ ⟨List.Perm.swap _ _ _, rfl, [], .nil, .nil⟩
  exact absurd this (by decide)

/-- as found, whether Generate succeeds does not depend on the declaration order -/
theorem perm_invariant_partial (d₁ d₂ : Dictionary) (o : Options) (h : PermRel d₁ d₂) :
    accept Cfg.asIs d₁ o = accept Cfg.asIs d₂ o :=
  Gen.accept_perm' Cfg.asIs d₁ d₂ o h

theorem perm_invariant_repaired : perm_invariant_full Cfg.repaired :=
  Gen.perm_invariant_repaired'

/-! ### Top-level attribute numbers (second audit, finding 1; fix 07e31b9 in /repo) -/

/-- the repaired validity rules refuse an attribute - top-level or vendor - whose number does not fit in one octet:
    the helpers would compile, and store values that `encodeTo` never puts on the wire (C12
    `survives_wire_needs_the_type_octet`) -/
theorem top_level_number_must_fit_the_type_octet (vendor : Bool) (a : Attribute) (n : Int) (ho : a.oid = [n])
    (hn : n < 0 ∨ 255 < n) : invalidAttr Cfg.current vendor a = true := by
  have h : (decide (n < 0) || decide (n > 255)) = true := by
    rcases hn with h | h <;> simp [h]
  simp [invalidAttr, Cfg.current, Cfg.repaired, ho, h]

/-- … conversely a number 0..255 alone never makes an attribute invalid (the other rules decide) -/
theorem number_in_range_is_not_the_reason (cfg : Cfg) (vendor : Bool) (a : Attribute) (n : Int) (ho : a.oid = [n])
    (hn : 0 ≤ n ∧ n ≤ 255) :
    invalidAttr cfg vendor a = invalidAttr { cfg with rejectRanges := false } vendor a := by
  have h : (decide (n < 0) || decide (n > 255)) = false := by
    simp only [Bool.or_eq_false_iff, decide_eq_false_iff_not]; omega
  simp [invalidAttr, ho, h]

/-- the code as found (and as it stood after the first round of repairs, which range-checked vendor attributes
    only) accepted `ATTRIBUTE Big-Num 300 string` at top level -/
theorem top_level_number_unchecked_as_found :
    invalidAttr Cfg.asIs false { name := bs "Big-Num", oid := [300], typ := .string } = false := by decide

end RV.C17
