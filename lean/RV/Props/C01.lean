/-
  C01 — Wire codec: Parse and MarshalBinary are mutual inverses.
  Property theorems only (helper lemmas live in RV/Proofs/Wire.lean).  Statements are about the
  model RV.Model.Wire, which mirrors packet.go / attributes.go and is tied to them on every run.
-/
import RV.Model.Wire
import RV.Proofs.Wire
namespace RV.C01
open RV

/-- total wire length of the attributes the encoder emits (valid types only) -/
def wireLen (as : Attrs) : Nat := ((as.filter validType).map (fun a => 2 + a.val.length)).sum

/-- 1. The parser accepts exactly the declaratively well-formed inputs. -/
theorem parse_accepts_iff (b s : Bytes) :
    (∃ p, parse b s = .ok p) ↔
      20 ≤ b.length ∧ 20 ≤ lengthField b ∧ lengthField b ≤ 4096 ∧ lengthField b ≤ b.length ∧
      WellFormedTLV ((b.take (lengthField b)).drop 20) := by
  exact parse_accepts_iff_wf b s

/-- The parser never panics (index / slice out of range) on any input. -/
theorem parse_never_faults (b s : Bytes) : parse b s ≠ .fault := by
  exact parse_ne_fault b s

/-- The attribute-list parser accepts exactly the gap-free TLV sequences, and never panics. -/
theorem parseAttrs_accepts_iff (b : Bytes) : (∃ as, parseAttrs b = .ok as) ↔ WellFormedTLV b := by
  exact parseAttrs_ok_iff_wf b

theorem parseAttrs_never_faults (b : Bytes) : parseAttrs b ≠ .fault := by
  exact parseAttrs_ne_fault b

/-- 2. For every accepted input, re-encoding the parsed packet reproduces exactly the first
    `Length` bytes. -/
theorem marshal_parse (b s : Bytes) (p : Packet) (h : parse b s = .ok p) :
    marshal p = .ok (b.take (lengthField b)) := by
  exact marshal_of_parse b s p h

/-- Octets beyond `Length` are ignored as padding. -/
theorem parse_ignores_padding (b pad s : Bytes) (p : Packet) (h : parse b s = .ok p) :
    parse (b ++ pad) s = .ok p ∧ parse (b.take (lengthField b)) s = .ok p := by
  exact parse_padding b pad s p h

/-- 3. Every packet the encoder accepts (codes 0-255) parses back to the same code, identifier,
    authenticator and attribute sequence, attributes with a type outside 0-255 being omitted. -/
theorem parse_marshal (p : Packet) (w s : Bytes) (hm : marshal p = .ok w)
    (hc : 0 ≤ p.code ∧ p.code ≤ 255) (ha : p.auth.length = 16) :
    parse w s = .ok { code := p.code, id := p.id, auth := p.auth, secret := s,
                      attrs := p.attrs.filter validType } := by
  exact parse_of_marshal p w s hm hc ha

/-- 4. The encoder succeeds iff every emitted value is at most 253 bytes and the total is at most
    4096 bytes; anything larger is refused with an error (never a panic, never a datagram). -/
theorem marshal_ok_iff (p : Packet) :
    (∃ w, marshal p = .ok w) ↔
      (∀ a ∈ p.attrs, validType a = true → a.val.length ≤ 253) ∧ 20 + wireLen p.attrs ≤ 4096 := by
  exact marshal_ok_iff_cond p

theorem marshal_never_faults (p : Packet) : marshal p ≠ .fault := by
  exact marshal_ne_fault p

theorem marshal_refuses_or_errs (p : Packet)
    (h : ¬ ((∀ a ∈ p.attrs, validType a = true → a.val.length ≤ 253) ∧ 20 + wireLen p.attrs ≤ 4096)) :
    marshal p = .err := by
  exact marshal_err_of_not_cond p h

/-- An emitted datagram is never mis-sized: its size is 20 + the attributes' wire length, its
    Length field says so, and it is within the limit. -/
theorem marshal_length (p : Packet) (w : Bytes) (hm : marshal p = .ok w) (ha : p.auth.length = 16) :
    w.length = 20 + wireLen p.attrs ∧ lengthField w = w.length ∧ w.length ≤ 4096 := by
  exact marshal_length_cond p w hm ha

/-- Whatever the encoder emits, the decoder accepts, and encoding the decoded packet gives the same
    octets again (encode ∘ decode ∘ encode = encode). -/
theorem marshal_parse_marshal (p : Packet) (w s : Bytes) (hm : marshal p = .ok w)
    (hc : 0 ≤ p.code ∧ p.code ≤ 255) (ha : p.auth.length = 16) :
    ∃ q, parse w s = .ok q ∧ marshal q = .ok w := by
  refine ⟨_, parse_marshal p w s hm hc ha, ?_⟩
  have h1 := marshal_parse w s _ (parse_marshal p w s hm hc ha)
  have h2 := marshal_length p w hm ha
  rw [h1, h2.2.1, List.take_length]

/-- Decoding is insensitive to what follows the datagram: two buffers that agree on the first
    `Length` octets decode to the same packet. -/
theorem parse_depends_on_prefix (b pad pad' s : Bytes) (p : Packet) (h : parse (b ++ pad) s = .ok p)
    (hl : lengthField (b ++ pad) ≤ b.length) : parse (b ++ pad') s = .ok p := by
  have h1 := (parse_ignores_padding (b ++ pad) [] s p h).2
  have e : (b ++ pad).take (lengthField (b ++ pad)) = b.take (lengthField (b ++ pad)) := by
    rw [List.take_append_of_le_length hl]
  rw [e] at h1
  have := (parse_ignores_padding _ ((b.drop (lengthField (b ++ pad))) ++ pad') s p h1).1
  rw [← List.append_assoc, List.take_append_drop] at this
  exact this

/-- 5. `encodeTo` into a buffer of the reported size writes exactly the valid-type attributes in
    list order, without overrun, and the reported length equals the bytes written (shared with C09). -/
theorem encodeTo_writes (as : Attrs) (n : Nat) (h : encodedLen as = .ok n) :
    encodeTo as (zeros n) = .ok (encodeBytes as) ∧ (encodeBytes as).length = n := by
  exact encodeTo_of_encodedLen as n h

theorem encodeBytes_eq (as : Attrs) :
    encodeBytes as = ((as.filter validType).map avpBytes).flatten := by
  exact encodeBytes_eq_flatten as

/-! Non-vacuity: concrete inputs meeting the hypotheses (tests, not theorems about all inputs). -/
example : ∃ p, parse ([1, 7, 0, 25] ++ zeros 16 ++ [1, 5, 97, 98, 99]) [] = .ok p := by
  simp [parse, lengthField, be16, zeros, List.replicate, parseAttrs, minPacketLength, maxPacketLength,
    minAttrLength]
example : ∃ w, marshal ⟨1, 7, zeros 16, [], [⟨1, [97]⟩, ⟨256, [1]⟩, ⟨2, []⟩]⟩ = .ok w := by
  exact (marshal_ok_iff_cond _).2 (by simp [marshalCond, validType])

/-! ### The oracle's acceptance predicate is the specification (second audit, finding 12)

The driver evaluates `wellFormedTLV` (a Bool, `Driver/C01.lean: specAccept`); the acceptance theorem speaks about the
inductive `WellFormedTLV`.  They are the same predicate. -/

/-- the Bool the driver's oracle evaluates IS the inductive specification -/
theorem wellFormedTLV_iff (b : Bytes) : wellFormedTLV b = true ↔ WellFormedTLV b := by
  constructor
  · intro h
    induction b using wellFormedTLV.induct with
    | case1 => exact .nil
    | case2 x => simp [wellFormedTLV] at h
    | case3 t l rest hbad => simp [wellFormedTLV, hbad] at h
    | case4 t l rest hok ih =>
      have hg : ¬ (l.toNat < 2 ∨ rest.length < l.toNat - 2) := hok
      rw [wellFormedTLV] at h
      simp only [hg, if_false] at h
      have hw := ih h
      have := WellFormedTLV.cons t l (rest.take (l.toNat - 2)) (rest.drop (l.toNat - 2)) (by omega) (by simp; omega) hw
      simpa using this
  · intro h
    induction h with
    | nil => simp [wellFormedTLV]
    | cons t l v rest h2 hv _ ih =>
      rw [wellFormedTLV]
      have : ¬ (l.toNat < 2 ∨ (v ++ rest).length < l.toNat - 2) := by simp; omega
      simp only [this, if_false]
      have hd : (v ++ rest).drop (l.toNat - 2) = rest := by
        rw [← hv]; simp
      rw [hd]; exact ih

/-- … hence `Parse` accepts a datagram exactly when the oracle's Boolean says so -/
theorem parse_accepts_iff_oracle (b s : Bytes) :
    (∃ p, parse b s = .ok p) ↔
      (decide (20 ≤ b.length) && decide (20 ≤ lengthField b) && decide (lengthField b ≤ 4096)
        && decide (lengthField b ≤ b.length) && wellFormedTLV ((b.take (lengthField b)).drop 20)) = true := by
  rw [parse_accepts_iff]
  simp only [Bool.and_eq_true, decide_eq_true_eq, wellFormedTLV_iff]
  constructor
  · rintro ⟨a, b, c, d, e⟩; exact ⟨⟨⟨⟨a, b⟩, c⟩, d⟩, e⟩
  · rintro ⟨⟨⟨⟨a, b⟩, c⟩, d⟩, e⟩; exact ⟨a, b, c, d, e⟩

end RV.C01
