/-
  C04 — User-Password hiding conforms to RFC 2865 §5.2 and round-trips.
  For an arbitrary hash `H` with 16-byte output.
-/
import RV.Model.Password
import RV.Proofs.Password
namespace RV.C04
open RV

/-- NewUserPassword refuses exactly: plaintext longer than 128, empty secret, authenticator ≠ 16 bytes;
    it never panics. -/
theorem new_ok_iff (H : Hash) (plain secret ra : Bytes) :
    (∃ c, newUserPassword H plain secret ra = .ok c) ↔
      plain.length ≤ 128 ∧ secret ≠ [] ∧ ra.length = 16 :=
  newUserPassword_ok_iff H plain secret ra

theorem new_never_faults (H : Hash) (plain secret ra : Bytes) :
    newUserPassword H plain secret ra ≠ .fault :=
  newUserPassword_ne_fault H plain secret ra

/-- The result is exactly the RFC 2865 §5.2 ciphertext: block i is the zero-padded plaintext block
    xor H(secret ‖ previous ciphertext block), the authenticator for the first. -/
theorem new_eq_rfc (H : Hash) (hH : ∀ x, (H x).length = 16) (plain secret ra c : Bytes)
    (h : newUserPassword H plain secret ra = .ok c) :
    c = Rfc2865.userPasswordCipher H plain secret ra :=
  newUserPassword_eq_rfc H hH plain secret ra c h

/-- length 16 * max(1, ceil(n/16)) -/
theorem new_length (H : Hash) (hH : ∀ x, (H x).length = 16) (plain secret ra c : Bytes)
    (h : newUserPassword H plain secret ra = .ok c) :
    c.length = 16 * max 1 ((plain.length + 15) / 16) := by
  rw [newUserPassword_eq_rfc H hH plain secret ra c h]
  exact userPasswordCipher_length H hH plain secret ra

/-- UserPassword accepts exactly the ciphertext lengths 16, 32, …, 128 (with a non-empty secret and
    a 16-byte authenticator) and never panics. -/
theorem user_ok_iff (H : Hash) (a secret ra : Bytes) :
    (∃ p, userPassword H a secret ra = .ok p) ↔
      16 ≤ a.length ∧ a.length ≤ 128 ∧ a.length % 16 = 0 ∧ secret ≠ [] ∧ ra.length = 16 :=
  userPassword_ok_iff H a secret ra

theorem user_never_faults (H : Hash) (a secret ra : Bytes) : userPassword H a secret ra ≠ .fault :=
  userPassword_ne_fault H a secret ra

/-- Round trip: with the same secret and authenticator the plaintext comes back up to its first NUL. -/
theorem roundtrip (H : Hash) (hH : ∀ x, (H x).length = 16) (plain secret ra c : Bytes)
    (h : newUserPassword H plain secret ra = .ok c) :
    userPassword H c secret ra = .ok (plain.takeWhile (· ≠ 0)) :=
  userPassword_roundtrip H hH plain secret ra c h

/-- … all of it when it is NUL-free. -/
theorem roundtrip_nulfree (H : Hash) (hH : ∀ x, (H x).length = 16) (plain secret ra c : Bytes)
    (hn : ∀ x ∈ plain, x ≠ 0) (h : newUserPassword H plain secret ra = .ok c) :
    userPassword H c secret ra = .ok plain := by
  rw [userPassword_roundtrip H hH plain secret ra c h, takeWhile_nulfree plain hn]

/-! Non-vacuity (test): the hypotheses are satisfiable. -/
example : ∃ c, newUserPassword (fun _ => zeros 16) [1, 2, 3] [9] (zeros 16) = .ok c := by
  exact (newUserPassword_ok_iff _ _ _ _).mpr ⟨by decide, by decide, by decide⟩

end RV.C04
