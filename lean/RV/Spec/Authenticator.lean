/-
  Field-level specification of the RADIUS authenticators, written from the RFC texts only:
  RFC 2865 §3 (packet format, Request / Response Authenticator), RFC 2866 §3 (Accounting),
  RFC 5176 §2.3 (Disconnect / CoA), RFC 5997 §3 (Status-Server).

  Nothing of the model is imported (only the byte vocabulary `Bytes`): the formulas below speak about
  the FIELDS of a packet — Code, Identifier, Length, Authenticator, Attributes — never about byte
  offsets of a datagram.  The connection "byte offsets of a datagram ↔ fields" is made (and proved
  against `parse` / `marshal`) in RV/Proofs/Auth.lean; the property theorems are in RV/Props/C03.lean.
-/
import RV.Model.Bytes
namespace RV

/-! ## RFC 2865 §3: packet format -/
namespace Rfc2865

/-- "Packet Format": the fields of a RADIUS packet, transmitted from left to right.  The Length field
    is not stored: it is determined by the others (`Fields.length`). -/
structure Fields where
  /-- "Code: The Code field is one octet, and identifies the type of RADIUS packet." -/
  code : UInt8
  /-- "Identifier: The Identifier field is one octet, and aids in matching requests and replies." -/
  identifier : UInt8
  /-- "Authenticator: The Authenticator field is sixteen (16) octets." -/
  authenticator : Bytes
  /-- "Attributes": the attribute region, as the octets it occupies on the wire -/
  attributes : Bytes
deriving Repr, DecidableEq

/-- "Length: The Length field is two octets.  It indicates the length of the packet including the
    Code, Identifier, Length, Authenticator and Attribute fields." -/
def Fields.length (f : Fields) : Nat := 1 + 1 + 2 + 16 + f.attributes.length

/-- a two-octet field in network byte order (most significant octet first) -/
def lengthOctets (n : Nat) : Bytes := [UInt8.ofNat (n / 256), UInt8.ofNat (n % 256)]

/-- the packet as transmitted: Code, Identifier, Length, Authenticator, Attributes, in this order.
    "Octets outside the range of the Length field MUST be treated as padding": none are produced. -/
def serialize (f : Fields) : Bytes :=
  [f.code] ++ [f.identifier] ++ lengthOctets f.length ++ f.authenticator ++ f.attributes

/-- "Response Authenticator: The value of the Authenticator field in Access-Accept, Access-Reject,
    and Access-Challenge packets is called the Response Authenticator, and contains a one-way MD5
    hash calculated over a stream of octets consisting of: the RADIUS packet, beginning with the
    Code field, including the Identifier, the Length, the Request Authenticator field from the
    Access-Request packet, and the response Attributes, followed by the shared secret.  That is,
    ResponseAuth = MD5(Code+ID+Length+RequestAuth+Attributes+Secret)".
    `f` are the fields of the reply (its own Authenticator field is not an input); `H` stands for MD5. -/
def responseAuth (H : Bytes → Bytes) (f : Fields) (requestAuth secret : Bytes) : Bytes :=
  H ([f.code] ++ [f.identifier] ++ lengthOctets f.length ++ requestAuth ++ f.attributes ++ secret)

end Rfc2865

/-! ## RFC 2866 §3: Accounting -/
namespace Rfc2866

/-- "Request Authenticator: In Accounting-Request Packets, the Authenticator value is a 16 octet MD5
    checksum, called the Request Authenticator. … one-way MD5 hash calculated over a stream of octets
    consisting of the Code + Identifier + Length + 16 zero octets + request attributes + shared
    secret". -/
def requestAuth (H : Bytes → Bytes) (f : Rfc2865.Fields) (secret : Bytes) : Bytes :=
  H ([f.code] ++ [f.identifier] ++ Rfc2865.lengthOctets f.length ++
      [0, 0, 0, 0, 0, 0, 0, 0, 0, 0, 0, 0, 0, 0, 0, 0] ++ f.attributes ++ secret)

/-- "Response Authenticator: The Authenticator field in an Accounting-Response packet … MD5 hash
    calculated over a stream of octets consisting of the Accounting-Response Code, Identifier, Length,
    the Request Authenticator field from the Accounting-Request packet being replied to, and the
    response attributes if any, followed by the shared secret." -/
def responseAuth (H : Bytes → Bytes) (f : Rfc2865.Fields) (requestAuth secret : Bytes) : Bytes :=
  H ([f.code] ++ [f.identifier] ++ Rfc2865.lengthOctets f.length ++ requestAuth ++ f.attributes ++ secret)

end Rfc2866

/-! ## RFC 5176 §2.3: Disconnect and CoA -/
namespace Rfc5176

/-- "Request Authenticator: In Request packets, the Authenticator value is a 16-octet MD5 checksum …
    MD5(Code + Identifier + Length + 16 zero octets + request attributes + shared secret)". -/
def requestAuth (H : Bytes → Bytes) (f : Rfc2865.Fields) (secret : Bytes) : Bytes :=
  H ([f.code] ++ [f.identifier] ++ Rfc2865.lengthOctets f.length ++
      [0, 0, 0, 0, 0, 0, 0, 0, 0, 0, 0, 0, 0, 0, 0, 0] ++ f.attributes ++ secret)

/-- "Response Authenticator: … MD5(Code + Identifier + Length + Request Authenticator field from the
    packet being replied to + response attributes + shared secret)". -/
def responseAuth (H : Bytes → Bytes) (f : Rfc2865.Fields) (requestAuth secret : Bytes) : Bytes :=
  H ([f.code] ++ [f.identifier] ++ Rfc2865.lengthOctets f.length ++ requestAuth ++ f.attributes ++ secret)

end Rfc5176

/-! ## Which packet carries which authenticator -/
namespace RfcAuth

/-- the packet types of RFC 2865 §3 / §4, RFC 2866 §3 / §4, RFC 5176 §2.1 / §2.2, RFC 5997 §3 -/
inductive Kind where
  | accessRequest | accessAccept | accessReject | accessChallenge     -- RFC 2865
  | accountingRequest | accountingResponse                            -- RFC 2866
  | statusServer                                                      -- RFC 2865 §3 (code 12), RFC 5997
  | disconnectRequest | disconnectACK | disconnectNAK                 -- RFC 5176
  | coaRequest | coaACK | coaNAK                                      -- RFC 5176
deriving Repr, DecidableEq

/-- the assigned Code values (RFC 2865 §3 "RADIUS Codes (decimal) are assigned as follows",
    RFC 5176 §2.3 "Code") -/
def Kind.code : Kind → Nat
  | .accessRequest => 1
  | .accessAccept => 2
  | .accessReject => 3
  | .accountingRequest => 4
  | .accountingResponse => 5
  | .accessChallenge => 11
  | .statusServer => 12
  | .disconnectRequest => 40
  | .disconnectACK => 41
  | .disconnectNAK => 42
  | .coaRequest => 43
  | .coaACK => 44
  | .coaNAK => 45

/-- the three ways an Authenticator field is formed -/
inductive AuthRule where
  /-- "Request Authenticator: In Access-Request Packets, the Authenticator value is a 16 octet random
      number … The value SHOULD be unpredictable and unique": chosen by the sender, sent verbatim -/
  | unpredictable
  /-- a Response Authenticator: hash over the reply with the Request Authenticator of the request -/
  | overRequestAuthenticator
  /-- a hashed Request Authenticator: hash over the request with sixteen zero octets -/
  | overZeroOctets
deriving Repr, DecidableEq

/-- one proposition per packet type, each from its RFC -/
inductive Rule : Kind → AuthRule → Prop where
  /-- RFC 2865 §3, Request Authenticator -/
  | accessRequest : Rule .accessRequest .unpredictable
  /-- RFC 5997 §3: "the Request Authenticator … as in Access-Request" -/
  | statusServer : Rule .statusServer .unpredictable
  /-- RFC 2865 §3, Response Authenticator: Access-Accept, Access-Reject, Access-Challenge -/
  | accessAccept : Rule .accessAccept .overRequestAuthenticator
  | accessReject : Rule .accessReject .overRequestAuthenticator
  | accessChallenge : Rule .accessChallenge .overRequestAuthenticator
  /-- RFC 2866 §3 -/
  | accountingRequest : Rule .accountingRequest .overZeroOctets
  | accountingResponse : Rule .accountingResponse .overRequestAuthenticator
  /-- RFC 5176 §2.3 -/
  | disconnectRequest : Rule .disconnectRequest .overZeroOctets
  | disconnectACK : Rule .disconnectACK .overRequestAuthenticator
  | disconnectNAK : Rule .disconnectNAK .overRequestAuthenticator
  | coaRequest : Rule .coaRequest .overZeroOctets
  | coaACK : Rule .coaACK .overRequestAuthenticator
  | coaNAK : Rule .coaNAK .overRequestAuthenticator

/-- the replies: the packet types whose Authenticator is a Response Authenticator -/
def IsReply (k : Kind) : Prop := Rule k .overRequestAuthenticator

/-- the Authenticator field a sender must put into a packet of type `k` with fields `f`
    (`own` = the 16 octets the packet value carries: the sender's unpredictable octets for an
    Access-Request / Status-Server, the Request Authenticator of the request for a reply) -/
def authenticatorFor (H : Bytes → Bytes) (r : AuthRule) (f : Rfc2865.Fields) (own secret : Bytes) : Bytes :=
  match r with
  | .unpredictable => own
  | .overRequestAuthenticator => Rfc2865.responseAuth H f own secret
  | .overZeroOctets => Rfc2866.requestAuth H f secret

end RfcAuth
end RV
