/-
  SHA-1 written from FIPS 180-4 (§5.1.1 padding, §5.3.1 initial hash value, §4.1.1 functions,
  §4.2.1 constants, §6.1.2 computation).  Known-answer tests (FIPS 180 examples) are in
  `RV/Model/CryptoTest.lean`; the driver compares this function with Go's crypto/sha1 (through the
  Go functions under test) on every C19 case.
-/
import RV.Model.Bytes
namespace RV.SHA1

def rotl (x : UInt32) (c : UInt32) : UInt32 := (x <<< c) ||| (x >>> (32 - c))

def be32 (w : UInt32) : Bytes :=
  [(w >>> 24).toUInt8, (w >>> 16).toUInt8, (w >>> 8).toUInt8, w.toUInt8]

def word (b0 b1 b2 b3 : UInt8) : UInt32 :=
  (b0.toUInt32 <<< 24) ||| (b1.toUInt32 <<< 16) ||| (b2.toUInt32 <<< 8) ||| b3.toUInt32

/-- 16 big-endian words of a 64-byte block (missing bytes read as 0; never happens after padding) -/
def words : Bytes → Nat → List UInt32
  | _, 0 => []
  | b0 :: b1 :: b2 :: b3 :: rest, n+1 => word b0 b1 b2 b3 :: words rest n
  | _, n+1 => 0 :: words [] n

def be64 (n : Nat) : Bytes :=
  (List.range 8).map fun i => UInt8.ofNat (n / 256 ^ (7 - i) % 256)

/-- §5.1.1: a one bit, `k` zero bits so that the length is 448 mod 512, then the 64-bit length -/
def pad (msg : Bytes) : Bytes :=
  let n := msg.length
  let k := (119 - n % 64) % 64
  msg ++ [0x80] ++ zeros k ++ be64 (n * 8)

structure St where
  a : UInt32
  b : UInt32
  c : UInt32
  d : UInt32
  e : UInt32

/-- §5.3.1 -/
def init : St := ⟨0x67452301, 0xefcdab89, 0x98badcfe, 0x10325476, 0xc3d2e1f0⟩

/-- §6.1.2 step 1: the message schedule `W_0 … W_79` -/
def schedule (blk : Bytes) : Array UInt32 :=
  (List.range 64).foldl
    (fun w i =>
      let t := i + 16
      w.push (rotl (w[t-3]! ^^^ w[t-8]! ^^^ w[t-14]! ^^^ w[t-16]!) 1))
    (words blk 16).toArray

/-- §4.1.1 `f_t` and §4.2.1 `K_t` -/
def fK (t : Nat) (x y z : UInt32) : UInt32 × UInt32 :=
  if t < 20 then ((x &&& y) ^^^ ((~~~ x) &&& z), 0x5a827999)
  else if t < 40 then (x ^^^ y ^^^ z, 0x6ed9eba1)
  else if t < 60 then ((x &&& y) ^^^ (x &&& z) ^^^ (y &&& z), 0x8f1bbcdc)
  else (x ^^^ y ^^^ z, 0xca62c1d6)

/-- §6.1.2 step 3 -/
def round (w : Array UInt32) (s : St) (t : Nat) : St :=
  let (f, k) := fK t s.b s.c s.d
  let tmp := rotl s.a 5 + f + s.e + k + w[t]!
  ⟨tmp, s.a, rotl s.b 30, s.c, s.d⟩

def block (s : St) (blk : Bytes) : St :=
  let w := schedule blk
  let t := (List.range 80).foldl (round w) s
  ⟨s.a + t.a, s.b + t.b, s.c + t.c, s.d + t.d, s.e + t.e⟩

def blocks (fuel : Nat) (s : St) (b : Bytes) : St :=
  match fuel with
  | 0 => s
  | fuel+1 => if b.isEmpty then s else blocks fuel (block s (b.take 64)) (b.drop 64)

def sha1 (msg : Bytes) : Bytes :=
  let p := pad msg
  let s := blocks (p.length / 64 + 1) init p
  be32 s.a ++ be32 s.b ++ be32 s.c ++ be32 s.d ++ be32 s.e

theorem sha1_length (msg : Bytes) : (sha1 msg).length = 20 := by
  simp [sha1, be32]

end RV.SHA1
