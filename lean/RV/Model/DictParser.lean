/-
  Model of the dictionary parser (dictionary/parser.go), for C15 (include walk) and C16 (language).
  Core Lean only.  Everything works on byte strings (`Bytes = List UInt8`): Go strings hold bytes.

  WHERE GO DECODES UTF-8 AND THE MODEL DOES NOT.  `strings.Fields`, `strings.EqualFold` and the
  `range` loop of `parseOID` decode runes.  The model stays on bytes, which is exact because
    * every byte that can START one of the byte patterns the model looks for (an ASCII byte, or the
      lead bytes C2, C5, E1, E2, E3 of the non-ASCII white-space runes / of U+017F / of U+212A) is
      ≥ C0 or < 80, hence never a continuation byte (80..BF) of a preceding valid rune; and an
      invalid byte is consumed alone (RuneError, width 1).  So every occurrence of such a byte is at
      a rune boundary of Go's decoder, and the pattern that follows it is decoded by Go as that rune;
    * all other runes are treated alike by the Go code (copied into the field / "no match").
  The correspondence run (arbitrary bytes incl. invalid UTF-8 and Unicode spaces) validates this.

  REPAIRS.  The four proposed repairs of DESIGN §8 #10–#13 are switches of `Cfg`; `Cfg.current` is
  the code as found, `Cfg.repaired` the code with the four diffs of `proposed_fixes/` applied, and
  `Cfg.tree` is what the driver runs (= what /repo is supposed to be).
-/
import RV.Model.Dict
namespace RV.DictParser
open RV RV.Dict

/-- which repairs are applied to the modelled tree -/
structure Cfg where
  /-- fix #11 (`proposed_fixes/11-whitespace-only-line.diff`): `if len(fields) == 0 { continue }` -/
  skipNoFields : Bool
  /-- fix #12 (`proposed_fixes/12-vendor-format-length.diff`): `f[3][9] < '0' || f[3][9] > '2'` -/
  formatLenChecked : Bool
  /-- fix #13 (`proposed_fixes/13-oid-overflow.diff`): `parseOID` returns nil when a component overflows `int` -/
  oidOverflowRejected : Bool
  /-- fix #10 (`proposed_fixes/10-include-cycle.diff`): the included file's name is in `parsedFiles`
      for the duration of the recursive call -/
  includePath : Bool
deriving DecidableEq, Repr

def Cfg.current : Cfg := ⟨false, false, false, false⟩
def Cfg.repaired : Cfg := ⟨true, true, true, true⟩
/-- the tree the driver is compared with -/
def Cfg.tree : Cfg := Cfg.repaired

/-! ## Lexing -/
namespace Lex

/-- bufio.MaxScanTokenSize -/
def maxTokenSize : Nat := 65536

/-- the segments between `\n`; a final segment without `\n` counts, an empty final one does not -/
def splitNL : Bytes → List Bytes
  | [] => []
  | b :: rest =>
    if b == 10 then [] :: splitNL rest
    else match splitNL rest with
      | [] => [[b]]
      | l :: ls => (b :: l) :: ls

/-- bufio's dropCR: one trailing `\r` is dropped -/
def dropCR (l : Bytes) : Bytes := if l.getLast? == some 13 then l.dropLast else l

/-- `Scanner.Scan` over the segments: a segment (with its `\r`) of 65536 bytes or more does not fit
    in the buffer together with its terminator: the scanner stops, `Err() = ErrTooLong`.
    Result: the lines delivered, and whether the scanner stopped with an error. -/
def scan : List Bytes → List Bytes × Bool
  | [] => ([], false)
  | seg :: rest =>
    if seg.length ≥ maxTokenSize then ([], true)
    else let r := scan rest; (dropCR seg :: r.1, r.2)

def lines (text : Bytes) : List Bytes × Bool := scan (splitNL text)

/-- `if idx := strings.IndexByte(line, '#'); idx >= 0 { line = line[:idx] }` -/
def stripComment (l : Bytes) : Bytes := l.takeWhile (· != 35)

/-- width of the white-space rune (`unicode.IsSpace`) that starts here, 0 if none:
    `\t \n \v \f \r ' '`, U+0085, U+00A0, U+1680, U+2000..U+200A, U+2028, U+2029, U+202F, U+205F, U+3000 -/
def spaceWidth : Bytes → Nat
  | [] => 0
  | b :: rest =>
    if b == 9 || b == 10 || b == 11 || b == 12 || b == 13 || b == 32 then 1
    else if b == 0xC2 then
      match rest with
      | c :: _ => if c == 0x85 || c == 0xA0 then 2 else 0
      | [] => 0
    else if b == 0xE1 then
      match rest with
      | c :: d :: _ => if c == 0x9A && d == 0x80 then 3 else 0
      | _ => 0
    else if b == 0xE2 then
      match rest with
      | c :: d :: _ =>
        if c == 0x80 && ((0x80 ≤ d && d ≤ 0x8A) || d == 0xA8 || d == 0xA9 || d == 0xAF) then 3
        else if c == 0x81 && d == 0x9F then 3 else 0
      | _ => 0
    else if b == 0xE3 then
      match rest with
      | c :: d :: _ => if c == 0x80 && d == 0x80 then 3 else 0
      | _ => 0
    else 0

/-- emit the field collected so far (kept reversed) -/
def flush (cur : Bytes) (acc : List Bytes) : List Bytes := if cur.isEmpty then acc else cur.reverse :: acc

/-- `skip` = bytes of the current white-space rune still to be skipped; `cur` = current field, reversed -/
def fieldsAux : Nat → Bytes → Bytes → List Bytes
  | _, cur, [] => flush cur []
  | skip + 1, cur, _ :: rest => fieldsAux skip cur rest
  | 0, cur, b :: rest =>
    let w := spaceWidth (b :: rest)
    if w == 0 then fieldsAux 0 (b :: cur) rest
    else flush cur (fieldsAux (w - 1) [] rest)

/-- strings.Fields -/
def fields (l : Bytes) : List Bytes := fieldsAux 0 [] l

end Lex

/-! ## Numbers (strconv) -/

def isDigit (b : UInt8) : Bool := 48 ≤ b && b ≤ 57
def digitVal (b : UInt8) : Nat := b.toNat - 48

/-- value of a non-empty string of decimal digits -/
def decNat? (s : Bytes) : Option Nat :=
  if s.isEmpty || !s.all isDigit then none else some (s.foldl (fun n b => n * 10 + digitVal b) 0)

def hexVal? (b : UInt8) : Option Nat :=
  if 48 ≤ b && b ≤ 57 then some (b.toNat - 48)
  else if 97 ≤ b && b ≤ 102 then some (b.toNat - 87)
  else if 65 ≤ b && b ≤ 70 then some (b.toNat - 55)
  else none

def hexNat? (s : Bytes) : Option Nat :=
  if s.isEmpty then none else s.foldl (fun acc b => acc.bind fun n => (hexVal? b).map fun d => n * 16 + d) (some 0)

/-- `strconv.ParseUint(s, 10, 32)`: `some v` iff err == nil (no sign, no underscores, no prefix; ≤ 2³²−1) -/
def parseUint32Dec (s : Bytes) : Option Nat := (decNat? s).bind fun n => if n < 2 ^ 32 then some n else none
/-- `strconv.ParseUint(s, 16, 32)` -/
def parseUint32Hex (s : Bytes) : Option Nat := (hexNat? s).bind fun n => if n < 2 ^ 32 then some n else none

/-- `strconv.ParseInt(s, 10, 32)`: optional `+`/`-`, then digits; −2³¹ ≤ v < 2³¹ -/
def parseInt32 (s : Bytes) : Option Int :=
  match s with
  | [] => none
  | c :: rest =>
    if c == 43 then (decNat? rest).bind fun n => if n < 2 ^ 31 then some (n : Int) else none
    else if c == 45 then (decNat? rest).bind fun n => if n ≤ 2 ^ 31 then some (-(n : Int)) else none
    else (decNat? s).bind fun n => if n < 2 ^ 31 then some (n : Int) else none

/-! ## parseOID -/

def maxInt64 : Int := 2 ^ 63 - 1
/-- two's-complement wrap-around of Go's 64-bit `int` -/
def wrap64 (x : Int) : Int := (x + 2 ^ 63) % 2 ^ 64 - 2 ^ 63

/-- `o[len(o)-1] *= 10; o[len(o)-1] += int(ch - '0')`; with fix #13 preceded by
    `if o[len(o)-1] > (maxInt-int(ch-'0'))/10 { return nil }` -/
def oidStep (cfg : Cfg) (cur : Int) (c : UInt8) : Option Int :=
  if cfg.oidOverflowRejected && cur > (maxInt64 - digitVal c) / 10 then none   -- fix #13
  else some (wrap64 (cur * 10 + digitVal c))

/-- the loop of `parseOID` after the first byte; `done` = finished components (reversed) -/
def oidLoop (cfg : Cfg) : Bytes → List Int → Int → Option (List Int)
  | [], done, cur => some (cur :: done).reverse
  | c :: rest, done, cur =>
    if c == 46 then
      match rest with
      | [] => none                                           -- `len(s) == i+1`
      | d :: _ => if isDigit d then oidLoop cfg rest (cur :: done) 0 else none
    else if isDigit c then
      match oidStep cfg cur c with
      | some v => oidLoop cfg rest done v
      | none => none
    else none

/-- `parseOID`; `none` = nil (which `parseAttribute` turns into InvalidOIDError) -/
def parseOID (cfg : Cfg) (s : Bytes) : Option (List Int) :=
  match s with
  | [] => none
  | c :: rest =>
    if isDigit c then
      match oidStep cfg 0 c with
      | some v => oidLoop cfg rest [] v
      | none => none
    else none                                                 -- '.' at i == 0, or any other byte

/-! ## Keywords (explicit bytes, so that proofs see literals) -/

def kwATTRIBUTE : Bytes := [65,84,84,82,73,66,85,84,69]
def kwVALUE : Bytes := [86,65,76,85,69]
def kwVENDOR : Bytes := [86,69,78,68,79,82]
def kwBEGIN : Bytes := [66,69,71,73,78,45,86,69,78,68,79,82]
def kwEND : Bytes := [69,78,68,45,86,69,78,68,79,82]
def kwINCLUDE : Bytes := [36,73,78,67,76,85,68,69]
def kwEncrypt : Bytes := [101,110,99,114,121,112,116,61]      -- "encrypt="
def kwHasTag : Bytes := [104,97,115,95,116,97,103]             -- "has_tag"
def kwConcat : Bytes := [99,111,110,99,97,116]                 -- "concat"
def kwFormat : Bytes := [102,111,114,109,97,116,61]            -- "format="
def kw0x : Bytes := [48,120]                                   -- "0x"
def kwOctetsBr : Bytes := [111,99,116,101,116,115,91]          -- "octets["
def nmString : Bytes := [115,116,114,105,110,103]
def nmOctets : Bytes := [111,99,116,101,116,115]

/-- bytes of an ASCII string literal (used only to cross-check the tables above) -/
def bs (s : String) : Bytes := s.toList.map fun c => UInt8.ofNat c.toNat

/-- the type names tested after `string`, `octets`, `octets[n]`, in the order of the Go `switch` -/
def typeTable : List (Bytes × AttrType) :=
  [ ([105,112,97,100,100,114], .ipaddr), ([100,97,116,101], .date), ([105,110,116,101,103,101,114], .integer),
    ([105,112,118,54,97,100,100,114], .ipv6addr), ([105,112,118,54,112,114,101,102,105,120], .ipv6prefix),
    ([105,102,105,100], .ifid), ([105,110,116,101,103,101,114,54,52], .integer64), ([118,115,97], .vsa),
    ([101,116,104,101,114], .ether), ([97,98,105,110,97,114,121], .abinary), ([98,121,116,101], .byte),
    ([115,104,111,114,116], .short), ([115,105,103,110,101,100], .signed), ([116,108,118], .tlv),
    ([105,112,118,52,112,114,101,102,105,120], .ipv4prefix) ]

example : kwATTRIBUTE = bs "ATTRIBUTE" ∧ kwVALUE = bs "VALUE" ∧ kwVENDOR = bs "VENDOR" ∧ kwBEGIN = bs "BEGIN-VENDOR"
    ∧ kwEND = bs "END-VENDOR" ∧ kwINCLUDE = bs "$INCLUDE" ∧ kwEncrypt = bs "encrypt=" ∧ kwHasTag = bs "has_tag"
    ∧ kwConcat = bs "concat" ∧ kwFormat = bs "format=" ∧ kw0x = bs "0x" ∧ kwOctetsBr = bs "octets["
    ∧ nmString = bs "string" ∧ nmOctets = bs "octets" := by decide
example : typeTable.map (·.1) = ["ipaddr", "date", "integer", "ipv6addr", "ipv6prefix", "ifid", "integer64", "vsa",
    "ether", "abinary", "byte", "short", "signed", "tlv", "ipv4prefix"].map bs := by decide

/-- `strings.EqualFold(s, t)` for the lower-case ASCII constants `t` used by the parser.  Besides
    ASCII upper/lower case, Unicode simple folding equates U+017F (C5 BF) with `s` and U+212A
    (E2 84 AA) with `k`; every other non-ASCII or invalid byte sequence matches nothing. -/
def foldEq : Bytes → Bytes → Bool
  | [], [] => true
  | c :: s, d :: t =>
    if c == d || (65 ≤ c && c ≤ 90 && c + 32 == d) then foldEq s t
    else if c == 0xC5 && d == 115 then
      match s with
      | e :: s' => if e == 0xBF then foldEq s' t else false
      | [] => false
    else if c == 0xE2 && d == 107 then
      match s with
      | e :: f :: s' => if e == 0x84 && f == 0xAA then foldEq s' t else false
      | _ => false
    else false
  | _, _ => false

/-! ## The directive parsers -/

/-- the inner error types of errors.go that a declaration line can produce (`strconv` = a bare
    `*strconv.NumError` from parseValue / parseVendor) -/
inductive ErrClass where
  | unknownLine | invalidOID | unknownAttributeType | duplicateAttributeFlag | unknownAttributeFlag
  | invalidAttributeEncryptType | duplicateAttribute | strconv | invalidVendorFormat | duplicateVendor
  | nestedVendorBlock | unknownVendor | unmatchedEndVendor | invalidEndVendor | beginVendorInclude
  | unclosedVendorBlock
deriving DecidableEq, Repr

/-- the type switch of `parseAttribute` -/
def parseType (t : Bytes) : Except ErrClass (AttrType × Option Int) :=
  if foldEq t nmString then .ok (.string, none)
  else if foldEq t nmOctets then .ok (.octets, none)
  else if t.length > 8 && foldEq (t.take 7) kwOctetsBr && t.getLast? == some 93 then
    match parseInt32 (t.drop 7).dropLast with
    | some n => .ok (.octets, some n)
    | none => .error .unknownAttributeType
  else match typeTable.find? (fun e => foldEq t e.1) with
    | some e => .ok (e.2, none)
    | none => .error .unknownAttributeType

/-- `strings.Split(s, ",")` -/
def splitComma : Bytes → List Bytes
  | [] => [[]]
  | b :: rest =>
    if b == 44 then [] :: splitComma rest
    else match splitComma rest with
      | [] => [[b]]
      | l :: ls => (b :: l) :: ls

/-- the flag loop of `parseAttribute` -/
def parseFlags : List Bytes → Attribute → Except ErrClass Attribute
  | [], a => .ok a
  | f :: fs, a =>
    if f.take 8 == kwEncrypt then
      if a.encrypt.isSome then .error .duplicateAttributeFlag
      else match parseInt32 (f.drop 8) with
        | some n => parseFlags fs { a with encrypt := some n }
        | none => .error .invalidAttributeEncryptType
    else if f == kwHasTag then
      if a.hasTag.isSome then .error .duplicateAttributeFlag
      else parseFlags fs { a with hasTag := some true }
    else if f == kwConcat then
      if a.isConcat.isSome then .error .duplicateAttributeFlag
      else parseFlags fs { a with isConcat := some true }
    else .error .unknownAttributeFlag

/-- `parseAttribute` on the arguments `name oid type [flags]` -/
def parseAttribute (cfg : Cfg) (name oid typ : Bytes) (flags : Option Bytes) : Except ErrClass Attribute :=
  match parseOID cfg oid with
  | none => .error .invalidOID
  | some o =>
    match parseType typ with
    | .error e => .error e
    | .ok (ty, size) =>
      let a : Attribute := { name := name, oid := o, typ := ty, size := size }
      match flags with
      | none => .ok a
      | some fl => parseFlags (splitComma fl) a

/-- `parseValue` -/
def parseValue (attr name num : Bytes) : Except ErrClass Value :=
  let n := if num.take 2 == kw0x then parseUint32Hex (num.drop 2) else parseUint32Dec num
  match n with
  | some n => .ok { attrName := attr, name := name, number := n }
  | none => .error .strconv

/-- the `format=t,l` test of `parseVendor` on a 10-byte string -/
def formatOK (cfg : Cfg) (f : Bytes) : Bool :=
  f.take 7 == kwFormat && f.length == 10 && f.getD 8 0 == 44 &&
  (f.getD 7 0 == 49 || f.getD 7 0 == 50 || f.getD 7 0 == 52) &&
  (!cfg.formatLenChecked || (48 ≤ f.getD 9 0 && f.getD 9 0 ≤ 50))          -- fix #12 (without it: always true)

/-- `parseVendor` -/
def parseVendor (cfg : Cfg) (name num : Bytes) (fmt : Option Bytes) : Except ErrClass Vendor :=
  match parseInt32 num with
  | none => .error .strconv
  | some n =>
    match fmt with
    | none => .ok { name := name, number := n }
    | some f =>
      if formatOK cfg f then
        .ok { name := name, number := n,
              typeOctets := some (((f.getD 7 0) - 48).toNat : Int),
              lengthOctets := some (((f.getD 9 0) - 48).toNat : Int) }     -- byte arithmetic, then int()
      else .error .invalidVendorFormat

/-! ## State and the line loop -/

inductive Event where
  | opened (name : Bytes)
  | closed (name : Bytes)
deriving DecidableEq, Repr

/-- what a run accumulates: the dictionary under construction and the opener's event log -/
structure St where
  dict : Dictionary := {}
  log : List Event := []
deriving DecidableEq, Repr

/-- how a run can fail -/
inductive Failure where
  /-- `&ParseError{Inner: <declaration-level error>, File, Line}` -/
  | decl (c : ErrClass) (file : Bytes) (line : Nat)
  /-- `&ParseError{Inner: <the opener's error>, File, Line}` -/
  | openErr (file : Bytes) (line : Nat) (name : Bytes)
  /-- `&ParseError{Inner: &RecursiveIncludeError{Filename}, File, Line}` -/
  | recursive (file : Bytes) (line : Nat) (name : Bytes)
  /-- bare `s.Err()` (bufio.ErrTooLong) -/
  | scanner
  /-- `ParseFile`: bare error of the opener for the root file -/
  | rootOpen
  /-- the fuel of the `current` include rule ran out (the real code would recurse on) -/
  | outOfFuel
deriving DecidableEq, Repr

abbrev Result := Option Failure × St

/-- the `$INCLUDE` handler: included name, including file, line number, state -/
abbrev IncludeHandler := Bytes → Bytes → Nat → St → Result

/-- append to the attributes/values of the FIRST vendor with this name (`vendorBlock` is the pointer
    `VendorByName` returned) -/
def modifyVendor (name : Bytes) (f : Vendor → Vendor) : List Vendor → List Vendor
  | [] => []
  | v :: vs => if v.name == name then f v :: vs else v :: modifyVendor name f vs

/-- attributes of the current scope -/
def scopeAttrs (d : Dictionary) : Option Bytes → List Attribute
  | none => d.attributes
  | some v => match vendorByName d.vendors v with
    | some vd => vd.attributes
    | none => []

def addAttr (d : Dictionary) (a : Attribute) : Option Bytes → Dictionary
  | none => { d with attributes := d.attributes ++ [a] }
  | some v => { d with vendors := modifyVendor v (fun vd => { vd with attributes := vd.attributes ++ [a] }) d.vendors }

def addValue (d : Dictionary) (x : Value) : Option Bytes → Dictionary
  | none => { d with values := d.values ++ [x] }
  | some v => { d with vendors := modifyVendor v (fun vd => { vd with values := vd.values ++ [x] }) d.vendors }

def vendorByNameOrNumber (vs : List Vendor) (name : Bytes) (num : Int) : Option Vendor :=
  vs.find? fun v => v.name == name || v.number == num

/-- result of one line: go on (with the vendor block state) or stop -/
inductive Step where
  | next (vb : Option Bytes) (st : St)
  | fail (e : Failure) (st : St)

/-- the `switch` on the fields of one line.  `ign` = Parser.IgnoreIdenticalAttributes. -/
def dispatch (cfg : Cfg) (ign : Bool) (inc : IncludeHandler) (file : Bytes) (lineNo : Nat)
    (vb : Option Bytes) (st : St) (fields : List Bytes) : Step :=
  let n := fields.length
  let kw := fields.headD []
  let arg (i : Nat) : Bytes := fields.getD i []
  let perr (c : ErrClass) : Step := .fail (.decl c file lineNo) st
  if (n == 4 || n == 5) && kw == kwATTRIBUTE then
    match parseAttribute cfg (arg 1) (arg 2) (arg 3) (if n == 5 then some (arg 4) else none) with
    | .error e => perr e
    | .ok a =>
      match attributeByName (scopeAttrs st.dict vb) a.name with
      | some existing =>
        if ign && a == existing then .next vb st
        else perr .duplicateAttribute
      | none => .next vb { st with dict := addAttr st.dict a vb }
  else if n == 4 && kw == kwVALUE then
    match parseValue (arg 1) (arg 2) (arg 3) with
    | .error e => perr e
    | .ok x => .next vb { st with dict := addValue st.dict x vb }
  else if (n == 3 || n == 4) && kw == kwVENDOR then
    match parseVendor cfg (arg 1) (arg 2) (if n == 4 then some (arg 3) else none) with
    | .error e => perr e
    | .ok v =>
      match vendorByNameOrNumber st.dict.vendors v.name v.number with
      | some _ => perr .duplicateVendor
      | none => .next vb { st with dict := { st.dict with vendors := st.dict.vendors ++ [v] } }
  else if n == 2 && kw == kwBEGIN then
    if vb.isSome then perr .nestedVendorBlock
    else match vendorByName st.dict.vendors (arg 1) with
      | none => perr .unknownVendor
      | some _ => .next (some (arg 1)) st
  else if n == 2 && kw == kwEND then
    match vb with
    | none => perr .unmatchedEndVendor
    | some v => if v != arg 1 then perr .invalidEndVendor else .next none st
  else if n == 2 && kw == kwINCLUDE then
    if vb.isSome then perr .beginVendorInclude
    else match inc (arg 1) file lineNo st with
      | (none, st') => .next vb st'
      | (some e, st') => .fail e st'
  else perr .unknownLine

/-- one iteration of the scan loop -/
def stepLine (cfg : Cfg) (ign : Bool) (inc : IncludeHandler) (file : Bytes) (lineNo : Nat)
    (vb : Option Bytes) (st : St) (raw : Bytes) : Step :=
  let line := Lex.stripComment raw
  if line.isEmpty then .next vb st                               -- `if len(line) == 0 { continue }`
  else
    let fs := Lex.fields line
    if cfg.skipNoFields && fs.isEmpty then .next vb st           -- fix #11
    else dispatch cfg ign inc file lineNo vb st fs

/-- the scan loop of `parse` and what follows it (`s.Err()`, unclosed block) -/
def parseLines (cfg : Cfg) (ign : Bool) (inc : IncludeHandler) (file : Bytes) (tooLong : Bool) :
    List Bytes → Nat → Option Bytes → St → Result
  | [], lineNo, vb, st =>
    if tooLong then (some .scanner, st)
    else match vb with
      | some _ => (some (.decl .unclosedVendorBlock file (lineNo - 1)), st)
      | none => (none, st)
  | l :: ls, lineNo, vb, st =>
    match stepLine cfg ign inc file lineNo vb st l with
    | .next vb' st' => parseLines cfg ign inc file tooLong ls (lineNo + 1) vb' st'
    | .fail e st' => (some e, st')

/-- `p.parse(dict, parsedFiles, f)` on an open file with this name and content -/
def parseBody (cfg : Cfg) (ign : Bool) (inc : IncludeHandler) (file text : Bytes) (st : St) : Result :=
  let ls := Lex.lines text
  parseLines cfg ign inc file ls.2 ls.1 1 none st

/-! ## `$INCLUDE` over a finite file system -/

abbrev FS := List (Bytes × Bytes)

def FS.lookup (fs : FS) (name : Bytes) : Option Bytes := (fs.find? (·.1 == name)).map (·.2)

def St.opened (st : St) (n : Bytes) : St := { st with log := st.log ++ [.opened n] }
def St.closed (st : St) (n : Bytes) : St := { st with log := st.log ++ [.closed n] }

/-- the closure run for `$INCLUDE`, after the recursive parse returned: on success `incFile.Close()`
    is called explicitly and once more by the `defer`; on failure only by the `defer` -/
def afterInclude (name : Bytes) : Result → Result
  | (none, st) => (none, (st.closed name).closed name)
  | (some e, st) => (some e, st.closed name)

/-- The closure `parse` runs for `$INCLUDE name`: open; look the opened file's name up in
    `parsedFiles` (`onPath`); otherwise parse it recursively (`recur`, which receives the evidence
    that the file exists and is not on the path); close. -/
def includeWith (fs : FS) (onPath : Bytes → Bool)
    (recur : (name t : Bytes) → fs.lookup name = some t → onPath name = false → St → Result) : IncludeHandler :=
  fun name file lineNo st =>
    match h : fs.lookup name with
    | none => (some (.openErr file lineNo name), st)                       -- `p.Opener.OpenFile` failed
    | some t =>
      let st1 := st.opened name
      if hp : onPath name = true then (some (.recursive file lineNo name), st1.closed name)
      else afterInclude name (recur name t h (by simpa using hp) st1)

/-- CURRENT include rule: `parsedFiles` only ever holds the root file's name.  `fuel` bounds the
    nesting depth; `outOfFuel` stands for "the real code recurses on". -/
def parseFileCur (cfg : Cfg) (ign : Bool) (fs : FS) (root : Bytes) : Nat → Bytes → Bytes → St → Result
  | 0, _, _, st => (some .outOfFuel, st)
  | fuel + 1, file, text, st =>
    parseBody cfg ign
      (includeWith fs (· == root) fun name t _ _ st1 => parseFileCur cfg ign fs root fuel name t st1)
      file text st

/-- number of files of `fs` whose name is not on the path -/
def unvisited : FS → List Bytes → Nat
  | [], _ => 0
  | e :: es, path => (if e.1 ∈ path then 0 else 1) + unvisited es path

theorem unvisited_mono (fs : FS) (path : List Bytes) (name : Bytes) :
    unvisited fs (name :: path) ≤ unvisited fs path := by
  induction fs with
  | nil => simp [unvisited]
  | cons e es ih =>
    simp only [unvisited, List.mem_cons]
    by_cases h1 : e.1 ∈ path <;> by_cases h2 : e.1 = name <;> simp [h1, h2] <;> omega

theorem unvisited_lt (fs : FS) (path : List Bytes) (name t : Bytes)
    (h : fs.lookup name = some t) (hp : ¬ name ∈ path) : unvisited fs (name :: path) < unvisited fs path := by
  unfold FS.lookup at h
  induction fs with
  | nil => simp at h
  | cons e es ih =>
    simp only [List.find?_cons] at h
    by_cases he : (e.1 == name) = true
    · have hen : e.1 = name := by simpa using he
      have := unvisited_mono es path name
      simp only [unvisited, List.mem_cons, hen, hp]
      simp
      omega
    · simp only [he] at h
      have ih' := ih h
      have hen : ¬ e.1 = name := by simpa using he
      simp only [unvisited, List.mem_cons, hen]
      by_cases h1 : e.1 ∈ path <;> simp [h1] <;> omega

/-- REPAIRED include rule (fix #10): the names of all files being parsed are on `path`; terminates on
    every finite file system (measure: files not on the path). -/
def parseFileFix (cfg : Cfg) (ign : Bool) (fs : FS) (path : List Bytes) (file text : Bytes) (st : St) : Result :=
  parseBody cfg ign
    (includeWith fs (fun n => path.contains n) fun name t h hp st1 =>
      have : unvisited fs (name :: path) < unvisited fs path := unvisited_lt fs path name t h (by simpa using hp)
      parseFileFix cfg ign fs (name :: path) name t st1)
    file text st
termination_by unvisited fs path

/-- depth at which the harness's in-memory opener refuses to open (observation DEPTH-EXCEEDED) -/
def depthCap : Nat := 200

/-- `Parser.Parse(f)` on an already opened root file, as the tree does it -/
def parseRoot (cfg : Cfg) (ign : Bool) (fs : FS) (root text : Bytes) (st : St) : Result :=
  if cfg.includePath then parseFileFix cfg ign fs [root] root text st            -- fix #10
  else parseFileCur cfg ign fs root depthCap root text st

/-- `Parser.ParseFile(root)` -/
def parseFile (cfg : Cfg) (ign : Bool) (fs : FS) (root : Bytes) : Result :=
  match fs.lookup root with
  | none => (some .rootOpen, {})
  | some text =>
    let r := parseRoot cfg ign fs root text (St.opened {} root)
    (r.1, r.2.closed root)

/-- `Parser.Parse` on a single text with an opener that knows no file -/
def parseText (cfg : Cfg) (ign : Bool) (text : Bytes) : Result :=
  parseRoot cfg ign [] [] text {}

/-- the value `Parse` returns: the dictionary, or the failure -/
def outcome (r : Result) : Except Failure Dictionary :=
  match r with
  | (none, st) => .ok st.dict
  | (some e, _) => .error e

/-! ## The include graph (specification side of C15) -/

/-- the names a text includes, in directive order: the lines whose fields are `$INCLUDE name` -/
def includesOf (text : Bytes) : List Bytes :=
  (Lex.lines text).1.filterMap fun raw =>
    match Lex.fields (Lex.stripComment raw) with
    | [k, n] => if k == kwINCLUDE then some n else none
    | _ => none

/-- `a` is a file of `fs` with a line `$INCLUDE b` -/
def Includes (fs : FS) (a b : Bytes) : Prop := ∃ t, fs.lookup a = some t ∧ b ∈ includesOf t

/-- one or more include steps -/
inductive Reaches (fs : FS) : Bytes → Bytes → Prop where
  | step {a b : Bytes} : Includes fs a b → Reaches fs a b
  | trans {a b c : Bytes} : Includes fs a b → Reaches fs b c → Reaches fs a c

/-- some file reachable from `root` (or `root` itself) lies on an include cycle -/
def HasCycle (fs : FS) (root : Bytes) : Prop := ∃ f, (f = root ∨ Reaches fs root f) ∧ Reaches fs f f

end RV.DictParser
