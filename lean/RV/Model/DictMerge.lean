/-
  Model of `dictionary.Merge` (dictionary/helpers.go) and its specification (C20).

  A Go `*Dictionary` holds `[]*Vendor`: the vendors are shared, mutable objects.  To make "Merge
  modified its argument" expressible, vendors live in a `Store` indexed by reference (`Ref`), and a
  dictionary (`DictR`) lists references.  `resolve st d` is the value a dictionary denotes in a store.
  Attributes and values are pointers in Go as well, but Merge never writes through them, so they are
  plain values here.

  `merge .current` is the code as it stands in helpers.go: a vendor of `d2` whose number is found in
  the result list is merged into the vendor it found *in place* (through the pointer that also lives
  in `d1.Vendors`).  `merge .fixed` is the repaired code (proposed_fixes/merge-copy-vendor.diff): the
  found vendor is copied into a fresh reference (fresh slices) that replaces it in the result list.

  Not modelled (observed by the harness only): spare slice capacity shared through `append`.
-/
import RV.Model.Dict
namespace RV.DictMerge
open RV.Dict

/-- a `*Vendor` -/
abbrev Ref := Nat
/-- the heap of vendors: reference `r` denotes `st[r]` -/
abbrev Store := List Vendor

/-- what a dangling reference denotes (never happens for `Valid` dictionaries; a nil `*Vendor`
    inside `Vendors` makes the Go code panic and is outside the property's domain) -/
def nilVendor : Vendor := { name := [], number := 0 }

def deref (st : Store) (r : Ref) : Vendor := (st[r]?).getD nilVendor

/-- a `*dictionary.Dictionary` whose vendors are references into a store -/
structure DictR where
  attributes : List Attribute := []
  values : List Value := []
  vendors : List Ref := []
deriving DecidableEq, Repr

/-- the value a dictionary denotes in a store -/
def resolve (st : Store) (d : DictR) : Dictionary :=
  { attributes := d.attributes, values := d.values, vendors := d.vendors.map (deref st) }

/-- every vendor pointer of the dictionary is allocated -/
def Valid (st : Store) (d : DictR) : Prop := ∀ r ∈ d.vendors, r < st.length

instance (st : Store) (d : DictR) : Decidable (Valid st d) := by unfold Valid; exact inferInstance

/-- the three `fmt.Errorf` exits of Merge, in the order they appear -/
inductive Err where
  | dupAttr          -- "duplicate attribute %s (%s)"
  | vendorConflict   -- "conflicting vendor: %s (%d)"
  | dupVendorAttr    -- "duplicate vendor attrbute %s (%s)"
deriving DecidableEq, Repr

/-- `AttributeByName(existing, a.Name)`, and if nil `AttributeByOID(existing, a.OID)`; `!= nil` -/
def attrConflict (existing : List Attribute) (a : Attribute) : Bool :=
  match attributeByName existing a.name with
  | some _ => true
  | none => (attributeByOID existing a.oid).isSome

/-- `VendorByName(vendors, name)` on a pointer list -/
def refByName (st : Store) (rs : List Ref) (n : Bytes) : Option Ref :=
  rs.find? (fun r => (deref st r).name == n)

/-- `VendorByNumber(vendors, number)` on a pointer list -/
def refByNumber (st : Store) (rs : List Ref) (n : Int) : Option Ref :=
  rs.find? (fun r => (deref st r).number == n)

/-- first loop of Merge: top-level attributes of `d2` against those of `d1` -/
def checkTop (a1 : List Attribute) : List Attribute → Except Err Unit
  | [] => .ok ()
  | a :: rest => if attrConflict a1 a then .error .dupAttr else checkTop a1 rest

/-- second loop of Merge: every vendor of `d2` against the vendors of `d1`.  The two lookups are
    compared as *pointers* (`existingVendorByName != existingVendorByNumber`). -/
def checkVendors (st : Store) (vs1 : List Ref) : List Ref → Except Err Unit
  | [] => .ok ()
  | r :: rest =>
    let v := deref st r
    let byName := refByName st vs1 v.name
    let byNumber := refByNumber st vs1 v.number
    if byName != byNumber then .error .vendorConflict
    else match byName with
      | none => checkVendors st vs1 rest
      | some q =>
        if v.attributes.any (attrConflict (deref st q).attributes) then .error .dupVendorAttr
        else checkVendors st vs1 rest

/-- `existing.Attributes = append(existing.Attributes, v.Attributes...)`, same for `Values` -/
def extend (e v : Vendor) : Vendor :=
  { e with attributes := e.attributes ++ v.attributes, values := e.values ++ v.values }

inductive Mode where
  | current   -- helpers.go as it is: extends the found vendor through its pointer
  | fixed     -- repaired: extends a copy that replaces the found pointer in the result list
deriving DecidableEq, Repr

/-- assembly loop over `d2.Vendors`.  `acc` is `newDict.Vendors` so far (it starts as `d1.Vendors`
    and may already contain earlier unmatched vendors of `d2`: the lookup searches all of it). -/
def assemble (m : Mode) : Store → List Ref → List Ref → List Ref × Store
  | st, acc, [] => (acc, st)
  | st, acc, r :: rest =>
    let v := deref st r
    match acc.findIdx? (fun q => (deref st q).number == v.number) with
    | none => assemble m st (acc ++ [r]) rest
    | some i =>
      let q := acc.getD i 0
      match m with
      | .current => assemble m (st.set q (extend (deref st q) v)) acc rest
      | .fixed => assemble m (st ++ [extend (deref st q) v]) (acc.set i st.length) rest

/-- `dictionary.Merge(d1, d2)`: the result dictionary and the heap afterwards, or the error -/
def merge (m : Mode) (d1 d2 : DictR) (st : Store) : Except Err (DictR × Store) :=
  match checkTop d1.attributes d2.attributes with
  | .error e => .error e
  | .ok () =>
    match checkVendors st d1.vendors d2.vendors with
    | .error e => .error e
    | .ok () =>
      let res := assemble m st d1.vendors d2.vendors
      .ok ({ attributes := d1.attributes ++ d2.attributes,
             values := d1.values ++ d2.values,
             vendors := res.1 }, res.2)

abbrev mergeCurrent := merge .current
abbrev mergeFixed := merge .fixed

/-- left fold `Merge(Merge(Merge(d0, ds₀), ds₁), …)`; the list may name the same input repeatedly -/
def mergeChain (m : Mode) : DictR → List DictR → Store → Except Err (DictR × Store)
  | acc, [], st => .ok (acc, st)
  | acc, d :: ds, st =>
    match merge m acc d st with
    | .error e => .error e
    | .ok (r, st') => mergeChain m r ds st'

/-! ## Specification, written from the statement of C20 on dictionary *values* -/
namespace Spec

/-- well-formed dictionary (what the parser produces): vendor names and vendor numbers are unique -/
def WF (d : Dictionary) : Prop :=
  (d.vendors.map (·.name)).Nodup ∧ (d.vendors.map (·.number)).Nodup

instance (d : Dictionary) : Decidable (WF d) := by unfold WF; exact inferInstance

/-- no attribute of `a2` shares a name or a number (OID) with one of `a1` -/
def AttrsDisjoint (a1 a2 : List Attribute) : Prop :=
  ∀ a ∈ a2, ∀ b ∈ a1, b.name ≠ a.name ∧ b.oid ≠ a.oid

/-- `v2` matches a vendor of `vs1` on both name and number, or on neither -/
def VendorOK (vs1 : List Vendor) (v2 : Vendor) : Prop :=
  (∃ v1 ∈ vs1, v1.name = v2.name ∧ v1.number = v2.number) ∨
  (∀ v1 ∈ vs1, v1.name ≠ v2.name ∧ v1.number ≠ v2.number)

/-- the three-part success condition of the statement -/
def ConflictFree (d1 d2 : Dictionary) : Prop :=
  AttrsDisjoint d1.attributes d2.attributes ∧
  (∀ v2 ∈ d2.vendors, VendorOK d1.vendors v2) ∧
  (∀ v2 ∈ d2.vendors, ∀ v1 ∈ d1.vendors, v1.name = v2.name → v1.number = v2.number →
      AttrsDisjoint v1.attributes v2.attributes)

instance (d1 d2 : Dictionary) : Decidable (ConflictFree d1 d2) := by
  unfold ConflictFree VendorOK AttrsDisjoint; exact inferInstance

/-- the vendor of `vs` with the same name and number as `v` -/
def matchOf (vs : List Vendor) (v : Vendor) : Option Vendor :=
  vs.find? (fun w => w.name == v.name && w.number == v.number)

/-- a vendor of the first input in the result: combined with its match in the second, if any -/
def combine (vs2 : List Vendor) (v1 : Vendor) : Vendor :=
  match matchOf vs2 v1 with
  | some v2 => { v1 with attributes := v1.attributes ++ v2.attributes, values := v1.values ++ v2.values }
  | none => v1

/-- Merge as the statement describes it: defined iff conflict-free; first-input items first; a
    matched vendor's declarations combined under one (the first input's) vendor entry; then the
    vendors of the second input that match nothing, in order. -/
def merge (d1 d2 : Dictionary) : Option Dictionary :=
  if ConflictFree d1 d2 then
    some { attributes := d1.attributes ++ d2.attributes,
           values := d1.values ++ d2.values,
           vendors := d1.vendors.map (combine d2.vendors) ++
                      d2.vendors.filter (fun v2 => (matchOf d1.vendors v2).isNone) }
  else none

/-- left fold of `merge` -/
def mergeChain : Dictionary → List Dictionary → Option Dictionary
  | acc, [] => some acc
  | acc, d :: ds => (merge acc d).bind (fun r => mergeChain r ds)

/-- identity of a vendor entry -/
def key (v : Vendor) : Bytes × Int := (v.name, v.number)

/-- all attribute declarations made for vendor `k` in `d` -/
def declAttrs (d : Dictionary) (k : Bytes × Int) : List Attribute :=
  (d.vendors.filter (fun v => key v == k)).flatMap (·.attributes)

/-- all value declarations made for vendor `k` in `d` -/
def declValues (d : Dictionary) (k : Bytes × Int) : List Value :=
  (d.vendors.filter (fun v => key v == k)).flatMap (·.values)

/-- "contains every attribute, value and vendor of both inputs exactly once": occurrence counts add
    up, the vendor entries of the result are the union of the inputs' entries without repetition,
    and each entry carries exactly the declarations made for it in the two inputs -/
structure ExactlyOnce (d1 d2 r : Dictionary) : Prop where
  attrs : ∀ a, r.attributes.count a = d1.attributes.count a + d2.attributes.count a
  values : ∀ v, r.values.count v = d1.values.count v + d2.values.count v
  entries_nodup : (r.vendors.map key).Nodup
  entries : ∀ k, k ∈ r.vendors.map key ↔ k ∈ d1.vendors.map key ∨ k ∈ d2.vendors.map key
  vendor_attrs : ∀ w ∈ r.vendors, ∀ a,
    w.attributes.count a = (declAttrs d1 (key w)).count a + (declAttrs d2 (key w)).count a
  vendor_values : ∀ w ∈ r.vendors, ∀ v,
    w.values.count v = (declValues d1 (key w)).count v + (declValues d2 (key w)).count v

/-- "contains every attribute, value and vendor of both inputs exactly once", as a directly
    executable count check (used by the oracle on the implementation's result, independently of
    `merge`): occurrence counts add up, vendor entries are the union of the inputs' entries without
    repetition, and each entry carries exactly the declarations made for it in the inputs. -/
def exactlyOnce (d1 d2 r : Dictionary) : Bool :=
  (d1.attributes ++ d2.attributes ++ r.attributes).all (fun a =>
      r.attributes.count a == d1.attributes.count a + d2.attributes.count a) &&
  (d1.values ++ d2.values ++ r.values).all (fun v =>
      r.values.count v == d1.values.count v + d2.values.count v) &&
  decide ((r.vendors.map key).Nodup) &&
  (d1.vendors ++ d2.vendors).all (fun v => (r.vendors.map key).contains (key v)) &&
  r.vendors.all (fun w =>
      ((d1.vendors ++ d2.vendors).map key).contains (key w) &&
      (declAttrs d1 (key w) ++ declAttrs d2 (key w) ++ w.attributes).all (fun a =>
          w.attributes.count a == (declAttrs d1 (key w)).count a + (declAttrs d2 (key w)).count a) &&
      (declValues d1 (key w) ++ declValues d2 (key w) ++ w.values).all (fun v =>
          w.values.count v == (declValues d1 (key w)).count v + (declValues d2 (key w)).count v))

end Spec
end RV.DictMerge
