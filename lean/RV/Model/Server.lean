/-
  Model of server-packet.go: PacketServer.Serve, the per-datagram goroutine and Shutdown, as a
  labelled transition system over per-thread program counters.  A schedule is a `List Label`;
  "every interleaving" is quantification over schedules.  Mutex-protected regions are single steps
  (the only operations other threads perform on the same variables outside the mutex are the
  atomic add / load on `activeCount` and `shutdownRequested`, which are steps of their own here).

  What a datagram goroutine captured when it was spawned (receiving Serve call — hence conn —,
  source address, datagram) is recorded per task in `St.origin`; the log records the read (`recv`),
  the `Request` handed to the handler (`request`: packet, RemoteAddr, the conn whose LocalAddr it
  carries, context) and every `ResponseWriter.Write` of a running handler that reached the conn
  (`reply`: conn, addr and the octets written; label `taskReply t code attrs`: the handler writes
  `request.Response(code)` with attributes of its choice — handlers that hand `Write` a packet that is
  not a Response of their request are outside the model).  Replies written after the handler has
  returned are outside the model.

  Granularity of the read loop.  The label `serveRecv` is THREE code steps taken together: `ReadFrom`
  returns a datagram (server-packet.go:133), `s.activeAdd()` (:146) and the `go` statement (:147).
  The machine in which they are separate steps (`serveRead` / `serveSpawn`, so that a Shutdown can
  fall between them) is `RV.Model.Server2`; it shares every other step and the function `spawn` with
  this one, and this machine is exactly its restriction to the schedules in which the pair is adjacent
  (`RV.C07.coarse_is_fine_with_adjacent_pairs`, from `RV.Server.refine_run`).

  Two variants of `Serve`'s registration:
    `.fixed`   — `activeAdd` happens before `mu.Unlock()` (the code after the C07 repair);
    `.current` — the listener is registered under the mutex and counted in a later step (the code
                 as it was: the window in which Shutdown can run is the step `serveCount`).
-/
import RV.Model.Auth
namespace RV.Server

inductive Variant where
  | fixed | current
deriving DecidableEq, Repr

/-- what the secret source answers for a peer.

    `RADIUSSecret` returns a PAIR `([]byte, error)`, and a source may return a secret together with
    a non-nil error.  server-packet.go:151-158 tests `err != nil` FIRST (log, return) and looks at
    `len(secret)` only when `err == nil`; the secret that came with an error is never used.  So the
    three answers below are the three things the code distinguishes, and a product answer adds
    nothing: `SecretAns.ofPair` is the code's reading of a pair (error wins). -/
inductive SecretAns where
  | secret (s : Bytes)
  | empty
  | error
deriving DecidableEq, Repr

/-- how server-packet.go:151-158 reads the pair `(secret, err)` a secret source returned: a non-nil
    error wins whatever the secret is; without an error an empty secret is refused -/
def SecretAns.ofPair (secret : Bytes) (errNonNil : Bool) : SecretAns :=
  if errNonNil then .error else if secret.length = 0 then .empty else .secret secret

/-- static configuration of a scenario -/
structure Cfg where
  variant : Variant := .fixed
  skipVerify : Bool := false
  secretOf : Nat → SecretAns        -- peer ↦ answer of the SecretSource

/-- the dedup key: (source address, identifier) -/
abbrev Key := Nat × UInt8

/-- fate of a datagram in the per-datagram pipeline, before the dedup table is consulted -/
inductive Fate where
  | dropSecretError | dropEmptySecret | dropNotAuthentic | dropUnparsable
  | handle (key : Key) (p : Packet)
deriving DecidableEq, Repr

/-- server-packet.go, datagram goroutine: secret → non-empty → authentic (unless skipped) → parse -/
def classify (H : Hash) (cfg : Cfg) (peer : Nat) (d : Bytes) : Fate :=
  match cfg.secretOf peer with
  | .error => .dropSecretError
  | .empty => .dropEmptySecret
  | .secret s =>
    if s.length = 0 then .dropEmptySecret
    else if !cfg.skipVerify && !isAuthenticRequest H d s then .dropNotAuthentic
    else match parse d s with
      | .ok p => .handle (peer, p.id) p
      | _ => .dropUnparsable

inductive ServeRes where
  | errShutdown
  | readError           -- a non-temporary read error before Shutdown was requested
deriving DecidableEq, Repr

/-- what `conn.ReadFrom` failed with: a `net.Error` whose `Temporary()` is false, or anything else
    (temporary network errors, plain errors) -/
inductive ReadErrKind where
  | nonTemporary | other
deriving DecidableEq, Repr

inductive ServePc where
  | notStarted
  | registered          -- `.current` only: listener registered, not yet counted
  | running             -- in the ReadFrom loop
  | returned (r : ServeRes)
deriving DecidableEq, Repr

inductive TaskPc where
  | spawned (fate : Fate)    -- goroutine started (already counted), pipeline not yet run
  | inHandler (key : Key)
  | done
deriving DecidableEq, Repr

structure Task where
  serve : Nat
  pc : TaskPc
deriving DecidableEq, Repr

/-- what the datagram goroutine captured when it was spawned (the closure variables of
    `go func(buff, remoteAddr)`): `conn` (through the Serve call that read the datagram), the
    source address `remoteAddr` and the copy of the datagram.  Written once by `serveRecv`, never
    changed afterwards. -/
structure Origin where
  serve : Nat
  peer : Nat
  dgram : Bytes
deriving DecidableEq, Repr

/-- the contexts of the model: the server's own (`s.ctx`, cancelled by Shutdown) and the one a
    caller handed to Shutdown call `j` -/
inductive Ctx where
  | server
  | caller (j : Nat)
deriving DecidableEq, Repr

inductive DownRes where
  | nil | ctxErr
deriving DecidableEq, Repr

inductive DownPc where
  | notStarted
  | waiting             -- past the mutex region, at the `select`
  | returned (r : DownRes)
deriving DecidableEq, Repr

structure Down where
  pc : DownPc
  ctxDone : Bool
deriving DecidableEq, Repr

/-- observable events, in order -/
inductive Event where
  | handlerStart (task : Nat) (key : Key)
  | handlerEnd (task : Nat)
  | dropped (task : Nat)
  | serveReturned (serve : Nat)
  | downReturned (down : Nat) (r : DownRes)
  | listenerClosed (conn : Nat)
  | doubleClose
  /-- `ReadFrom` of Serve call `serve` returned datagram `d` from `peer`; goroutine `task` spawned -/
  | recv (task serve peer : Nat) (d : Bytes)
  /-- the `Request` built for the handler of `task`: `Packet`, `RemoteAddr`, `LocalAddr` (the local
      address of conn `localConn`) and `ctx` -/
  | request (task : Nat) (p : Packet) (remote localConn : Nat) (ctx : Ctx)
  /-- `packetResponseWriter.Write` of `task`'s handler: `conn.WriteTo(w, addr)` — socket, destination
      and the octets written -/
  | reply (task conn addr : Nat) (w : Bytes)
deriving DecidableEq, Repr

structure St where
  sd : Bool := false                    -- shutdownRequested
  active : Int := 0                     -- activeCount
  closes : Nat := 0                     -- how often lastActive was closed (2 = panic)
  ctxCancelled : Bool := false
  serves : List ServePc := []
  connOf : List Nat := []               -- per Serve: the conn it was called with (several calls may share one)
  listeners : List Nat := []            -- per conn: `s.listeners[conn]` (0 = not in the map)
  connClosed : List Nat := []           -- per conn: Close() calls
  inflight : List (List Key) := []      -- per Serve: the `requests` table
  tasks : List Task := []
  origin : List Origin := []            -- per task: what its goroutine captured (see `Origin`)
  downs : List Down := []
  log : List Event := []
deriving Repr

/-- `remoteAddr` as captured by datagram goroutine `t` -/
def St.peerOf (s : St) (t : Nat) : Nat :=
  match s.origin[t]? with
  | some o => o.peer
  | none => 0

/-- the `Packet` of the `Request` handed to the handler of goroutine `t`: what the pipeline made of the
    datagram the goroutine captured (`none` when that datagram is not handed to a handler) -/
def St.packetOf (H : Hash) (cfg : Cfg) (s : St) (t : Nat) : Option Packet :=
  match s.origin[t]? with
  | some o =>
    match classify H cfg o.peer o.dgram with
    | .handle _ p => some p
    | _ => none
  | none => none

/-- whether a context has ended -/
def St.ctxEnded (s : St) : Ctx → Bool
  | .server => s.ctxCancelled
  | .caller j => match s.downs[j]? with
    | some d => d.ctxDone
    | none => false

/-- initial state: Serve call `i` will be made with conn `conns[i]` -/
def initWith (conns : List Nat) (nDowns : Nat) : St :=
  let nConn := conns.foldl max 0 + 1
  { serves := List.replicate conns.length .notStarted,
    connOf := conns,
    listeners := List.replicate nConn 0,
    connClosed := List.replicate nConn 0,
    inflight := List.replicate conns.length [],
    downs := List.replicate nDowns ⟨.notStarted, false⟩ }

/-- every Serve call on a conn of its own -/
def init (nServes nDowns : Nat) : St := initWith (List.range nServes) nDowns

/-- `activeDone`: atomic add of -1; closing `lastActive` when the result is -1 -/
def activeDone (s : St) : St :=
  let a := s.active - 1
  if a = -1 then
    { s with active := a, closes := s.closes + 1,
             log := if s.closes ≥ 1 then s.log ++ [.doubleClose] else s.log }
  else { s with active := a }

def activeAdd (s : St) : St := { s with active := s.active + 1 }

/-- server-packet.go:146-147, `s.activeAdd(); go func(buff, remoteAddr){…}(copy of buff[:n], remoteAddr)`
    by Serve call `i` for the datagram `d` that `ReadFrom` returned from `peer`: one more goroutine,
    counted BEFORE it exists.  Shared by `serveRecv` here and `serveSpawn` of `RV.Model.Server2`. -/
def spawn (H : Hash) (cfg : Cfg) (s : St) (i peer : Nat) (d : Bytes) : St :=
  activeAdd { s with tasks := s.tasks ++ [⟨i, .spawned (classify H cfg peer d)⟩],
                     origin := s.origin ++ [⟨i, peer, d⟩],
                     log := s.log ++ [.recv s.tasks.length i peer d] }

inductive Label where
  | serveEnter (i : Nat)                     -- Serve: mutex region (init, shutdown test, register [, count])
  | serveCount (i : Nat)                     -- `.current`: the later `activeAdd`
  | serveRecv (i : Nat) (peer : Nat) (d : Bytes)   -- ReadFrom returned a datagram: count + spawn
  | serveReadErr (i : Nat)                   -- ReadFrom failed because the conn was closed
  | serveReadFail (i : Nat) (k : ReadErrKind) -- ReadFrom failed for another reason (environment)
  | taskRun (t : Nat)                        -- the goroutine runs its pipeline up to the handler call
  | taskFinish (t : Nat)                     -- the handler returns
  | taskReply (t : Nat) (code : Int) (attrs : Attrs)  -- the running handler calls `ResponseWriter.Write` (any number of times) with `request.Response(code)` + `attrs`
  | downEnter (j : Nat)                      -- Shutdown: mutex region
  | downReturnNil (j : Nat)                  -- select: lastActive closed
  | downReturnCtx (j : Nat)                  -- select: ctx.Done()
  | ctxExpire (j : Nat)                      -- the caller's context ends
deriving DecidableEq, Repr

def setAt {α} (l : List α) (i : Nat) (a : α) : List α := l.set i a

/-- one step; `none` = the label is not enabled in this state -/
def step (H : Hash) (cfg : Cfg) (s : St) : Label → Option St
  | .serveEnter i =>
    match s.serves[i]? with
    | some .notStarted =>
      if s.sd then
        some { s with serves := s.serves.set i (.returned .errShutdown), log := s.log ++ [.serveReturned i] }
      else
        let c := s.connOf.getD i 0
        let s := { s with listeners := s.listeners.set c (s.listeners.getD c 0 + 1) }
        match cfg.variant with
        | .fixed => some (activeAdd { s with serves := s.serves.set i .running })
        | .current => some { s with serves := s.serves.set i .registered }
    | _ => none
  | .serveCount i =>
    match s.serves[i]? with
    | some .registered => some (activeAdd { s with serves := s.serves.set i .running })
    | _ => none
  | .serveRecv i peer d =>
    match s.serves[i]? with
    | some .running =>
      if s.connClosed.getD (s.connOf.getD i 0) 0 > 0 then none
      else some (spawn H cfg s i peer d)
    | _ => none
  | .serveReadErr i =>
    match s.serves[i]? with
    | some .running =>
      -- the read fails only because the conn was closed; with shutdownRequested set Serve returns
      -- ErrServerShutdown after its deferred cleanup (unregister, activeDone)
      let c := s.connOf.getD i 0
      if s.connClosed.getD c 0 > 0 ∧ s.sd then
        some (activeDone { s with serves := s.serves.set i (.returned .errShutdown),
                                   listeners := s.listeners.set c (s.listeners.getD c 0 - 1),
                                   log := s.log ++ [.serveReturned i] })
      else none
    | _ => none
  | .serveReadFail i k =>
    match s.serves[i]? with
    | some .running =>
      -- `if shutdownRequested { return ErrServerShutdown }; if net.Error && !Temporary() { return err };
      --  log; continue` — the deferred cleanup runs on both returns
      let c := s.connOf.getD i 0
      if s.sd then
        some (activeDone { s with serves := s.serves.set i (.returned .errShutdown),
                                   listeners := s.listeners.set c (s.listeners.getD c 0 - 1),
                                   log := s.log ++ [.serveReturned i] })
      else if k = .nonTemporary then
        some (activeDone { s with serves := s.serves.set i (.returned .readError),
                                   listeners := s.listeners.set c (s.listeners.getD c 0 - 1),
                                   log := s.log ++ [.serveReturned i] })
      else some s
    | _ => none
  | .taskRun t =>
    match s.tasks[t]? with
    | some ⟨i, .spawned fate⟩ =>
      (match fate with
       | .handle key p =>
         if (s.inflight.getD i []).contains key then
           some (activeDone { s with tasks := s.tasks.set t ⟨i, .done⟩, log := s.log ++ [.dropped t] })
         else
           -- `response := packetResponseWriter{conn, remoteAddr}`,
           -- `request := Request{LocalAddr: conn.LocalAddr(), RemoteAddr: remoteAddr, Packet: packet, ctx: s.ctx}`,
           -- `s.Handler.ServeRADIUS(&response, &request)`
           some { s with tasks := s.tasks.set t ⟨i, .inHandler key⟩,
                         inflight := s.inflight.set i (key :: s.inflight.getD i []),
                         log := s.log ++ [.request t p (s.peerOf t) (s.connOf.getD i 0) .server,
                                          .handlerStart t key] }
       | _ => some (activeDone { s with tasks := s.tasks.set t ⟨i, .done⟩, log := s.log ++ [.dropped t] }))
    | _ => none
  | .taskFinish t =>
    match s.tasks[t]? with
    | some ⟨i, .inHandler key⟩ =>
      some (activeDone { s with tasks := s.tasks.set t ⟨i, .done⟩,
                                 inflight := s.inflight.set i ((s.inflight.getD i []).erase key),
                                 log := s.log ++ [.handlerEnd t] })
    | _ => none
  | .taskReply t code attrs =>
    match s.tasks[t]? with
    | some ⟨i, .inHandler _⟩ =>
      -- `Write(packet)`: `encoded, err := packet.Encode(); if err != nil { return err }` — nothing reaches
      -- the conn when the encoder refuses (the step is then not enabled) — else
      -- `r.conn.WriteTo(encoded, r.addr)` with the writer built in `taskRun`
      match s.packetOf H cfg t with
      | some p =>
        match encode H { response p code with attrs := attrs } with
        | .ok w => some { s with log := s.log ++ [.reply t (s.connOf.getD i 0) (s.peerOf t) w] }
        | _ => none
      | none => none
    | _ => none
  | .downEnter j =>
    match s.downs[j]? with
    | some ⟨.notStarted, c⟩ =>
      let s := { s with downs := s.downs.set j ⟨.waiting, c⟩ }
      if s.sd then some s
      else
        -- CompareAndSwap succeeded: close every registered listener, cancel the server context, activeDone
        -- `for listener := range s.listeners { listener.Close() }`: every conn in the map, once
        let closed := (List.range s.listeners.length).filter (fun c => s.listeners.getD c 0 > 0)
        some (activeDone { s with sd := true, ctxCancelled := true,
                                   connClosed := (List.range s.connClosed.length).map
                                     (fun c => s.connClosed.getD c 0 + (if s.listeners.getD c 0 > 0 then 1 else 0)),
                                   log := s.log ++ closed.map .listenerClosed })
    | _ => none
  | .downReturnNil j =>
    match s.downs[j]? with
    | some ⟨.waiting, c⟩ =>
      if s.closes ≥ 1 then
        some { s with downs := s.downs.set j ⟨.returned .nil, c⟩, log := s.log ++ [.downReturned j .nil] }
      else none
    | _ => none
  | .downReturnCtx j =>
    match s.downs[j]? with
    | some ⟨.waiting, true⟩ =>
      some { s with downs := s.downs.set j ⟨.returned .ctxErr, true⟩, log := s.log ++ [.downReturned j .ctxErr] }
    | _ => none
  | .ctxExpire j =>
    match s.downs[j]? with
    | some ⟨pc, false⟩ => some { s with downs := s.downs.set j ⟨pc, true⟩ }
    | _ => none

/-- run a schedule; labels that are not enabled are skipped (so every list is a schedule) -/
def run (H : Hash) (cfg : Cfg) (s : St) : List Label → St
  | [] => s
  | l :: ls => match step H cfg s l with
    | some s' => run H cfg s' ls
    | none => run H cfg s ls

/-- the server panicked (close of closed channel) -/
def St.panicked (s : St) : Bool := s.closes ≥ 2

/-- number of Serve calls that are counted in `activeCount` -/
def countedServes (s : St) : Nat := (s.serves.filter (· == .running)).length

/-- number of datagram goroutines that have not yet called `activeDone` -/
def liveTasks (s : St) : Nat := (s.tasks.filter (fun t => t.pc != .done)).length

end RV.Server
