/-
  Data model of the `dictionary` package (dictionary/dictionary.go): what a parsed dictionary is.
  Names are byte strings (Go strings may hold any bytes).  Shared by the models of the parser
  (C15, C16), of Merge (C20) and of the generator (C17).
-/
import RV.Model.Bytes
namespace RV.Dict

/-- dictionary.AttributeType (iota + 1 in the Go source, in this order) -/
inductive AttrType where
  | string | octets | ipaddr | date | integer | ipv6addr | ipv6prefix | ifid | integer64
  | vsa | ether | abinary | byte | short | signed | tlv | ipv4prefix
deriving DecidableEq, Repr, Inhabited

def AttrType.toNat : AttrType → Nat
  | .string => 1 | .octets => 2 | .ipaddr => 3 | .date => 4 | .integer => 5 | .ipv6addr => 6
  | .ipv6prefix => 7 | .ifid => 8 | .integer64 => 9 | .vsa => 10 | .ether => 11 | .abinary => 12
  | .byte => 13 | .short => 14 | .signed => 15 | .tlv => 16 | .ipv4prefix => 17

/-- dictionary.Attribute.  `IntFlag{Int, Valid}` / `BoolFlag{Bool, Valid}` are `Option`s
    (`none` = not Valid).  OID components are Go ints. -/
structure Attribute where
  name : Bytes
  oid : List Int
  typ : AttrType
  size : Option Int := none
  encrypt : Option Int := none
  hasTag : Option Bool := none
  isConcat : Option Bool := none
deriving DecidableEq, Repr

/-- dictionary.Value -/
structure Value where
  attrName : Bytes
  name : Bytes
  number : Nat
deriving DecidableEq, Repr

/-- dictionary.Vendor (`TypeOctets`/`LengthOctets` are `*int`: none = nil) -/
structure Vendor where
  name : Bytes
  number : Int
  typeOctets : Option Int := none
  lengthOctets : Option Int := none
  attributes : List Attribute := []
  values : List Value := []
deriving DecidableEq, Repr

/-- dictionary.Dictionary -/
structure Dictionary where
  attributes : List Attribute := []
  values : List Value := []
  vendors : List Vendor := []
deriving DecidableEq, Repr

def attributeByName (as : List Attribute) (n : Bytes) : Option Attribute := as.find? (·.name == n)
def attributeByOID (as : List Attribute) (o : List Int) : Option Attribute := as.find? (·.oid == o)
def vendorByName (vs : List Vendor) (n : Bytes) : Option Vendor := vs.find? (·.name == n)
def vendorByNumber (vs : List Vendor) (n : Int) : Option Vendor := vs.find? (·.number == n)

end RV.Dict
