/-
  Model of the helper functions that dictionarygen/attributes.go emits for one dictionary
  attribute, parameterised by the attribute's descriptor (kind, flags, size, numbers) — one model
  for all ~3300 shipped functions and for any freshly generated package.

  The model describes the templates in their repaired state (DESIGN.md, findings F5–F9); where the
  templates deliberately remain as they were (tags above 0x1F, 24-bit value of tagged integers,
  NUL cut of encrypt=1 values) the model mirrors the code and the oracle reports the known finding.
-/
import RV.Model.Vendor
import RV.Model.Password
namespace RV

inductive Kind where
  | string | octets | concat | ipaddr | ipv6addr | ipv6prefix | ifid | date
  | integer | integer64 | short | byte
deriving DecidableEq, Repr

def Kind.isText : Kind → Bool
  | .string | .octets => true
  | _ => false

def Kind.intBytes : Kind → Option Nat
  | .integer => some 4 | .integer64 => some 8 | .short => some 2 | _ => none

/-- descriptor of a dictionary attribute, as far as the templates depend on it -/
structure Desc where
  typ : Int               -- radius.Type of the attribute (26 for a vendor attribute)
  vendorID : Nat          -- 0 = not a vendor attribute
  vendorType : UInt8
  kind : Kind
  hasTag : Bool
  encrypt : Nat           -- 0, 1 (User-Password), 2 (Tunnel-Password)
  size : Option Nat       -- octets[n]
deriving Repr

/-- uniform value representation (what the typed Go parameter carries) -/
inductive GVal where
  | bytes (b : Bytes)                 -- []byte, string, net.IP, net.HardwareAddr
  | nat (n : Nat)                     -- integer kinds, byte
  | time (unix : Int)                 -- time.Time (seconds)
  | pfx (p : Option (Bytes × Bytes))  -- *net.IPNet
deriving DecidableEq, Repr

/-- which getters take the request packet `q` (salt-encrypted and actually implemented) -/
def Desc.usesSalt (d : Desc) : Bool :=
  d.encrypt = 2 &&
    (match d.kind with
     | .string | .octets | .ipaddr | .ipv6addr => true
     | .integer | .integer64 | .short => !d.hasTag
     | _ => false)

section
variable (H : Hash)

/-- the `encrypt=` stage of a setter -/
def obfuscate (d : Desc) (a secret auth salt : Bytes) : Res Bytes :=
  match d.encrypt with
  | 1 => if d.kind.isText then newUserPassword H a secret auth else .ok a
  | 2 => if d.usesSalt then newTunnelPassword H a salt secret auth else .ok a
  | _ => .ok a

/-- value → stored attribute bytes (X_Add / X_Set up to the point where the list is changed) -/
def encodeValue (d : Desc) (tag : UInt8) (v : GVal) (secret auth salt : Bytes) : Res Bytes :=
  match d.kind, v with
  | .string, .bytes b | .octets, .bytes b =>
    if d.size.isSome ∧ d.size ≠ some b.length then .err
    else
      match (match d.encrypt with
             | 0 => newBytes b
             | _ => obfuscate H d b secret auth salt) with
      | .ok a =>
        if d.hasTag ∧ tag.toNat ≤ 0x1F then
          if a.length > 252 then .err else .ok (tag :: a)
        else .ok a
      | .err => .err
      | .fault => .fault
  | .ipaddr, .bytes ip =>
    match newIPAddr ip with
    | .ok a => obfuscate H d a secret auth salt
    | r => r
  | .ipv6addr, .bytes ip =>
    match newIPv6Addr ip with
    | .ok a => obfuscate H d a secret auth salt
    | r => r
  | .ifid, .bytes x => newIFID x
  | .ipv6prefix, .pfx p => newIPv6Prefix p
  | .date, .time u => newDate u
  | .byte, .nat n => .ok [UInt8.ofNat n]
  | k, .nat n =>
    match k.intBytes with
    | some w =>
      let a := beBytes w n
      if d.hasTag then
        .ok ((if 1 ≤ tag.toNat ∧ tag.toNat ≤ 0x1F then tag else 0) :: a.drop 1)
      else obfuscate H d a secret auth salt
    | none => .err
  | _, _ => .err

/-- Tunnel-Password decryption, password only -/
def tpPlain (a secret auth : Bytes) : Res Bytes :=
  match tunnelPassword H a secret auth with
  | .ok (pw, _) => .ok pw
  | .err => .err
  | .fault => .fault

/-- stored attribute bytes → (tag, value) (the body of X_Lookup after the attribute was found) -/
def decodeValue (d : Desc) (a secret auth : Bytes) : Res (UInt8 × GVal) :=
  match d.kind with
  | .string | .octets | .concat =>
    let (tag, a) := if d.hasTag ∧ a.length ≥ 1 ∧ (a.getD 0 0).toNat ≤ 0x1F then (a.getD 0 0, a.drop 1) else (0, a)
    match (match d.encrypt with
           | 1 => userPassword H a secret auth
           | 2 => tpPlain H a secret auth
           | _ => (.ok a : Res Bytes)) with
    | .ok v => if d.size.isSome ∧ d.size ≠ some v.length then .err else .ok (tag, .bytes v)
    | .err => .err
    | .fault => .fault
  | .ipaddr | .ipv6addr =>
    match (if d.usesSalt then tpPlain H a secret auth else (.ok a : Res Bytes)) with
    | .ok a =>
      (match (if d.kind = .ipaddr then ipAddr a else ipv6Addr a) with
       | .ok ip => .ok (0, .bytes ip)
       | .err => .err
       | .fault => .fault)
    | .err => .err
    | .fault => .fault
  | .ifid => (match ifid a with | .ok x => .ok (0, .bytes x) | .err => .err | .fault => .fault)
  | .ipv6prefix => (match ipv6Prefix a with | .ok p => .ok (0, .pfx (some p)) | .err => .err | .fault => .fault)
  | .date => (match date a with | .ok u => .ok (0, .time u) | .err => .err | .fault => .fault)
  | .byte => if a.length ≠ 1 then .err else .ok (0, .nat (a.getD 0 0).toNat)
  | k =>
    match k.intBytes with
    | none => .err
    | some w =>
      if d.hasTag then
        let (tag, a) := if a.length ≥ 1 ∧ (a.getD 0 0).toNat ≤ 0x1F then (a.getD 0 0, (0 : UInt8) :: a.drop 1) else (0, a)
        if a.length ≠ w then .err else .ok (tag, .nat (beNat a))
      else
        match (if d.usesSalt then tpPlain H a secret auth else (.ok a : Res Bytes)) with
        | .ok a => if a.length ≠ w then .err else .ok (0, .nat (beNat a))
        | .err => .err
        | .fault => .fault

/-- the raw stored values of this attribute, in packet order -/
def rawValues (d : Desc) (as : Attrs) : List Bytes :=
  if d.vendorID = 0 then (as.filter (fun a => a.typ = d.typ)).map (·.val)
  else getsVendor d.vendorID d.vendorType as

/-- split a value into chunks of at most 253 bytes (concat `_Set`) -/
def chunks253 (b : Bytes) : List Bytes :=
  if h : b = [] then [] else b.take 253 :: chunks253 (b.drop 253)
termination_by b.length
decreasing_by
  cases b with
  | nil => exact absurd rfl h
  | cons x xs => simp; omega

/-- X_Add -/
def hAdd (d : Desc) (as : Attrs) (tag : UInt8) (v : GVal) (secret auth salt : Bytes) : Res Attrs :=
  if d.kind = .concat then .err else
  match encodeValue H d tag v secret auth salt with
  | .ok a => if d.vendorID = 0 then .ok (as.add d.typ a) else addVendor d.vendorID d.vendorType a as
  | .err => .err
  | .fault => .fault

/-- X_Set -/
def hSet (d : Desc) (as : Attrs) (tag : UInt8) (v : GVal) (secret auth salt : Bytes) : Res Attrs :=
  if d.kind = .concat then
    match v with
    | .bytes b => .ok ((as.del d.typ) ++ (chunks253 b).map (fun c => ⟨d.typ, c⟩))
    | _ => .err
  else
  match encodeValue H d tag v secret auth salt with
  | .ok a => if d.vendorID = 0 then .ok (as.set d.typ a) else setVendor d.vendorID d.vendorType a as
  | .err => .err
  | .fault => .fault

/-- X_Del -/
def hDel (d : Desc) (as : Attrs) : Attrs :=
  if d.vendorID = 0 then as.del d.typ else delVendor d.vendorID d.vendorType as

inductive LookupRes where
  | noAttr
  | err
  | val (tag : UInt8) (v : GVal)
deriving DecidableEq, Repr

/-- X_Lookup -/
def hLookup (d : Desc) (as : Attrs) (secret auth : Bytes) : LookupRes :=
  if d.kind = .concat then
    match rawValues d as with
    | [] => .noAttr
    | vs => .val 0 (.bytes vs.flatten)
  else
  match (rawValues d as).head? with
  | none => .noAttr
  | some a =>
    match decodeValue H d a secret auth with
    | .ok (t, v) => .val t v
    | _ => .err

/-- X_Gets: values decoded in order; stops at the first undecodable one (values so far + error) -/
def hGets (d : Desc) (as : Attrs) (secret auth : Bytes) : List (UInt8 × GVal) × Bool :=
  let rec go : List Bytes → List (UInt8 × GVal) × Bool
    | [] => ([], true)
    | a :: rest =>
      match decodeValue H d a secret auth with
      | .ok tv => let (vs, ok) := go rest; (tv :: vs, ok)
      | _ => ([], false)
  go (rawValues d as)

/-! ### X_Get, X_GetString, X_GetStrings, X_LookupString, X_SetString, X_AddString

    `X_Get` is emitted as `value, _ = X_Lookup(p)` (resp. `tag, value, _ = …`): the named results of
    `X_Lookup` at its `return`, the error dropped.  `hLookup` above collapses every error path to
    `.err`; `lookupResults` are the (tag, value) results of the same template INCLUDING the error
    paths (what Go leaves in the named results there: the zero value, except that a text value of
    the wrong fixed size and the tag octet stripped before a failing decode are kept). -/

/-- `time.Time{}.Unix()`: the zero `time.Time` (1 January of year 1) -/
def zeroTimeUnix : Int := -62135596800

/-- zero value of the Go type of a getter's `value` result: nil slice / "" / nil `*net.IPNet` /
    `time.Time{}` / 0 -/
def GVal.zero : Kind → GVal
  | .string | .octets | .concat | .ipaddr | .ipv6addr | .ifid => .bytes []
  | .ipv6prefix => .pfx none
  | .date => .time zeroTimeUnix
  | .integer | .integer64 | .short | .byte => .nat 0

/-- the named results `(tag, value)` of `X_Lookup` at `return` once the attribute `a` was found -/
def lookupResults (d : Desc) (a secret auth : Bytes) : UInt8 × GVal :=
  match d.kind with
  | .string | .octets | .concat =>
    let (tag, a) := if d.hasTag ∧ a.length ≥ 1 ∧ (a.getD 0 0).toNat ≤ 0x1F then (a.getD 0 0, a.drop 1) else (0, a)
    -- `value, err = radius.UserPassword(…)` / `TunnelPassword(…)` yield nil with an error; the
    -- `octets[n]` check sets `err` and leaves `value` as it is
    match (match d.encrypt with
           | 1 => userPassword H a secret auth
           | 2 => tpPlain H a secret auth
           | _ => (.ok a : Res Bytes)) with
    | .ok v => (tag, .bytes v)
    | _ => (tag, .bytes [])
  | .ipaddr | .ipv6addr =>
    match (if d.usesSalt then tpPlain H a secret auth else (.ok a : Res Bytes)) with
    | .ok a =>
      (match (if d.kind = .ipaddr then ipAddr a else ipv6Addr a) with
       | .ok ip => (0, .bytes ip)
       | _ => (0, .bytes []))
    | _ => (0, .bytes [])
  | .ifid => (match ifid a with | .ok x => (0, .bytes x) | _ => (0, .bytes []))
  | .ipv6prefix => (match ipv6Prefix a with | .ok p => (0, .pfx (some p)) | _ => (0, .pfx none))
  | .date => (match date a with | .ok u => (0, .time u) | _ => (0, .time zeroTimeUnix))
  | .byte => if a.length ≠ 1 then (0, .nat 0) else (0, .nat (a.getD 0 0).toNat)
  | k =>
    match k.intBytes with
    | none => (0, .nat 0)
    | some w =>
      if d.hasTag then
        let (tag, a) := if a.length ≥ 1 ∧ (a.getD 0 0).toNat ≤ 0x1F then (a.getD 0 0, (0 : UInt8) :: a.drop 1) else (0, a)
        if a.length ≠ w then (tag, .nat 0) else (tag, .nat (beNat a))
      else
        match (if d.usesSalt then tpPlain H a secret auth else (.ok a : Res Bytes)) with
        | .ok a => if a.length ≠ w then (0, .nat 0) else (0, .nat (beNat a))
        | _ => (0, .nat 0)

/-- X_Get: `tag, value, _ = X_Lookup(p)` -/
def hGet (d : Desc) (as : Attrs) (secret auth : Bytes) : UInt8 × GVal :=
  if d.kind = .concat then (0, .bytes (rawValues d as).flatten)   -- `value = append(value, i...)` over all, nil if none
  else
  match (rawValues d as).head? with
  | none => (0, GVal.zero d.kind)          -- `err = radius.ErrNoAttribute; return`: results still zero
  | some a => lookupResults H d a secret auth

/-- Go `string(b)` / `[]byte(s)`: byte-preserving conversions -/
def GVal.toStr : GVal → GVal
  | .bytes b => .bytes (stringOf b)
  | v => v

/-- the body of `X_LookupString` (string / octets templates) after the attribute `a` was found: the
    named results `(tag, value)` at `return` and whether `err != nil`.  `radius.String(a)` in place
    of `radius.Bytes(a)`; `value = string(b)` only after a successful decryption; the `octets[n]`
    check `if err == nil && len(value) != n` -/
def lookupStringBody (d : Desc) (a secret auth : Bytes) : (UInt8 × GVal) × Bool :=
  let ta := if d.hasTag ∧ a.length ≥ 1 ∧ (a.getD 0 0).toNat ≤ 0x1F then (a.getD 0 0, a.drop 1) else (0, a)
  let ve : Bytes × Bool :=     -- (value, err != nil) after the decoding statement
    match d.encrypt with
    | 1 => (match userPassword H ta.2 secret auth with | .ok b => (stringOf b, false) | _ => ([], true))
    | 2 => (match tpPlain H ta.2 secret auth with | .ok b => (stringOf b, false) | _ => ([], true))
    | _ => (stringOf ta.2, false)
  ((ta.1, .bytes ve.1), ve.2 || decide (d.size.isSome ∧ d.size ≠ some ve.1.length))

/-- X_LookupString (string / octets / concat templates) -/
def hLookupString (d : Desc) (as : Attrs) (secret auth : Bytes) : LookupRes :=
  if d.kind = .concat then
    match rawValues d as with
    | [] => .noAttr
    | vs => .val 0 (.bytes (vs.map stringOf).flatten)        -- `value += radius.String(attr)`
  else
  match (rawValues d as).head? with
  | none => .noAttr
  | some a =>
    let r := lookupStringBody H d a secret auth
    if r.2 then .err else .val r.1.1 r.1.2

/-- X_GetString: `tag, value, _ = X_LookupString(p)` -/
def hGetString (d : Desc) (as : Attrs) (secret auth : Bytes) : UInt8 × GVal :=
  if d.kind = .concat then (0, .bytes ((rawValues d as).map stringOf).flatten)
  else
  match (rawValues d as).head? with
  | none => (0, .bytes [])
  | some a => (lookupStringBody H d a secret auth).1

/-- X_GetStrings: X_Gets with string conversions -/
def hGetStrings (d : Desc) (as : Attrs) (secret auth : Bytes) : List (UInt8 × GVal) × Bool :=
  let g := hGets H d as secret auth
  (g.1.map fun tv => (tv.1, tv.2.toStr), g.2)

/-- X_SetString / X_AddString: `[]byte(value)` resp. `radius.NewString(value)` (same length limit as
    `radius.NewBytes`), then the body of X_Set / X_Add -/
def hSetString (d : Desc) (as : Attrs) (tag : UInt8) (s : Bytes) (secret auth salt : Bytes) : Res Attrs :=
  hSet H d as tag (.bytes (bytesOf s)) secret auth salt
def hAddString (d : Desc) (as : Attrs) (tag : UInt8) (s : Bytes) (secret auth salt : Bytes) : Res Attrs :=
  hAdd H d as tag (.bytes (bytesOf s)) secret auth salt

end
end RV
