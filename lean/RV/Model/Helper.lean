/-
  Model of the helper functions that dictionarygen/attributes.go emits for one dictionary
  attribute, parameterised by the attribute's descriptor (kind, flags, size, numbers) — one model
  for all ~3300 shipped functions and for any freshly generated package.

  The model describes the templates in their repaired state (DESIGN.md, findings F5–F9); where the
  templates deliberately remain as they were (tags above 0x1F, 24-bit value of tagged integers,
  NUL cut of encrypt=1 values) the model mirrors the code and the oracle reports the known finding.
-/
import RV.Model.Vendor
import RV.Model.Password
namespace RV

inductive Kind where
  | string | octets | concat | ipaddr | ipv6addr | ipv6prefix | ifid | date
  | integer | integer64 | short | byte
deriving DecidableEq, Repr

def Kind.isText : Kind → Bool
  | .string | .octets => true
  | _ => false

def Kind.intBytes : Kind → Option Nat
  | .integer => some 4 | .integer64 => some 8 | .short => some 2 | _ => none

/-- descriptor of a dictionary attribute, as far as the templates depend on it -/
structure Desc where
  typ : Int               -- radius.Type of the attribute (26 for a vendor attribute)
  vendorID : Nat          -- 0 = not a vendor attribute
  vendorType : UInt8
  kind : Kind
  hasTag : Bool
  encrypt : Nat           -- 0, 1 (User-Password), 2 (Tunnel-Password)
  size : Option Nat       -- octets[n]
deriving Repr

/-- uniform value representation (what the typed Go parameter carries) -/
inductive GVal where
  | bytes (b : Bytes)                 -- []byte, string, net.IP, net.HardwareAddr
  | nat (n : Nat)                     -- integer kinds, byte
  | time (unix : Int)                 -- time.Time (seconds)
  | pfx (p : Option (Bytes × Bytes))  -- *net.IPNet
deriving DecidableEq, Repr

/-- which getters take the request packet `q` (salt-encrypted and actually implemented) -/
def Desc.usesSalt (d : Desc) : Bool :=
  d.encrypt = 2 &&
    (match d.kind with
     | .string | .octets | .ipaddr | .ipv6addr => true
     | .integer | .integer64 | .short => !d.hasTag
     | _ => false)

section
variable (H : Hash)

/-- the `encrypt=` stage of a setter -/
def obfuscate (d : Desc) (a secret auth salt : Bytes) : Res Bytes :=
  match d.encrypt with
  | 1 => if d.kind.isText then newUserPassword H a secret auth else .ok a
  | 2 => if d.usesSalt then newTunnelPassword H a salt secret auth else .ok a
  | _ => .ok a

/-- value → stored attribute bytes (X_Add / X_Set up to the point where the list is changed) -/
def encodeValue (d : Desc) (tag : UInt8) (v : GVal) (secret auth salt : Bytes) : Res Bytes :=
  match d.kind, v with
  | .string, .bytes b | .octets, .bytes b =>
    if d.size.isSome ∧ d.size ≠ some b.length then .err
    else
      match (match d.encrypt with
             | 0 => newBytes b
             | _ => obfuscate H d b secret auth salt) with
      | .ok a =>
        if d.hasTag ∧ tag.toNat ≤ 0x1F then
          if a.length > 252 then .err else .ok (tag :: a)
        else .ok a
      | .err => .err
      | .fault => .fault
  | .ipaddr, .bytes ip =>
    match newIPAddr ip with
    | .ok a => obfuscate H d a secret auth salt
    | r => r
  | .ipv6addr, .bytes ip =>
    match newIPv6Addr ip with
    | .ok a => obfuscate H d a secret auth salt
    | r => r
  | .ifid, .bytes x => newIFID x
  | .ipv6prefix, .pfx p => newIPv6Prefix p
  | .date, .time u => newDate u
  | .byte, .nat n => .ok [UInt8.ofNat n]
  | k, .nat n =>
    match k.intBytes with
    | some w =>
      let a := beBytes w n
      if d.hasTag then
        .ok ((if 1 ≤ tag.toNat ∧ tag.toNat ≤ 0x1F then tag else 0) :: a.drop 1)
      else obfuscate H d a secret auth salt
    | none => .err
  | _, _ => .err

/-- Tunnel-Password decryption, password only -/
def tpPlain (a secret auth : Bytes) : Res Bytes :=
  match tunnelPassword H a secret auth with
  | .ok (pw, _) => .ok pw
  | .err => .err
  | .fault => .fault

/-- stored attribute bytes → (tag, value) (the body of X_Lookup after the attribute was found) -/
def decodeValue (d : Desc) (a secret auth : Bytes) : Res (UInt8 × GVal) :=
  match d.kind with
  | .string | .octets | .concat =>
    let (tag, a) := if d.hasTag ∧ a.length ≥ 1 ∧ (a.getD 0 0).toNat ≤ 0x1F then (a.getD 0 0, a.drop 1) else (0, a)
    match (match d.encrypt with
           | 1 => userPassword H a secret auth
           | 2 => tpPlain H a secret auth
           | _ => (.ok a : Res Bytes)) with
    | .ok v => if d.size.isSome ∧ d.size ≠ some v.length then .err else .ok (tag, .bytes v)
    | .err => .err
    | .fault => .fault
  | .ipaddr | .ipv6addr =>
    match (if d.usesSalt then tpPlain H a secret auth else (.ok a : Res Bytes)) with
    | .ok a =>
      (match (if d.kind = .ipaddr then ipAddr a else ipv6Addr a) with
       | .ok ip => .ok (0, .bytes ip)
       | .err => .err
       | .fault => .fault)
    | .err => .err
    | .fault => .fault
  | .ifid => (match ifid a with | .ok x => .ok (0, .bytes x) | .err => .err | .fault => .fault)
  | .ipv6prefix => (match ipv6Prefix a with | .ok p => .ok (0, .pfx (some p)) | .err => .err | .fault => .fault)
  | .date => (match date a with | .ok u => .ok (0, .time u) | .err => .err | .fault => .fault)
  | .byte => if a.length ≠ 1 then .err else .ok (0, .nat (a.getD 0 0).toNat)
  | k =>
    match k.intBytes with
    | none => .err
    | some w =>
      if d.hasTag then
        let (tag, a) := if a.length ≥ 1 ∧ (a.getD 0 0).toNat ≤ 0x1F then (a.getD 0 0, (0 : UInt8) :: a.drop 1) else (0, a)
        if a.length ≠ w then .err else .ok (tag, .nat (beNat a))
      else
        match (if d.usesSalt then tpPlain H a secret auth else (.ok a : Res Bytes)) with
        | .ok a => if a.length ≠ w then .err else .ok (0, .nat (beNat a))
        | .err => .err
        | .fault => .fault

/-- the raw stored values of this attribute, in packet order -/
def rawValues (d : Desc) (as : Attrs) : List Bytes :=
  if d.vendorID = 0 then (as.filter (fun a => a.typ = d.typ)).map (·.val)
  else getsVendor d.vendorID d.vendorType as

/-- split a value into chunks of at most 253 bytes (concat `_Set`) -/
def chunks253 (b : Bytes) : List Bytes :=
  if h : b = [] then [] else b.take 253 :: chunks253 (b.drop 253)
termination_by b.length
decreasing_by
  cases b with
  | nil => exact absurd rfl h
  | cons x xs => simp; omega

/-- X_Add -/
def hAdd (d : Desc) (as : Attrs) (tag : UInt8) (v : GVal) (secret auth salt : Bytes) : Res Attrs :=
  if d.kind = .concat then .err else
  match encodeValue H d tag v secret auth salt with
  | .ok a => if d.vendorID = 0 then .ok (as.add d.typ a) else addVendor d.vendorID d.vendorType a as
  | .err => .err
  | .fault => .fault

/-- X_Set -/
def hSet (d : Desc) (as : Attrs) (tag : UInt8) (v : GVal) (secret auth salt : Bytes) : Res Attrs :=
  if d.kind = .concat then
    match v with
    | .bytes b => .ok ((as.del d.typ) ++ (chunks253 b).map (fun c => ⟨d.typ, c⟩))
    | _ => .err
  else
  match encodeValue H d tag v secret auth salt with
  | .ok a => if d.vendorID = 0 then .ok (as.set d.typ a) else setVendor d.vendorID d.vendorType a as
  | .err => .err
  | .fault => .fault

/-- X_Del -/
def hDel (d : Desc) (as : Attrs) : Attrs :=
  if d.vendorID = 0 then as.del d.typ else delVendor d.vendorID d.vendorType as

inductive LookupRes where
  | noAttr
  | err
  | val (tag : UInt8) (v : GVal)
deriving DecidableEq, Repr

/-- X_Lookup -/
def hLookup (d : Desc) (as : Attrs) (secret auth : Bytes) : LookupRes :=
  if d.kind = .concat then
    match rawValues d as with
    | [] => .noAttr
    | vs => .val 0 (.bytes vs.flatten)
  else
  match (rawValues d as).head? with
  | none => .noAttr
  | some a =>
    match decodeValue H d a secret auth with
    | .ok (t, v) => .val t v
    | _ => .err

/-- X_Gets: values decoded in order; stops at the first undecodable one (values so far + error) -/
def hGets (d : Desc) (as : Attrs) (secret auth : Bytes) : List (UInt8 × GVal) × Bool :=
  let rec go : List Bytes → List (UInt8 × GVal) × Bool
    | [] => ([], true)
    | a :: rest =>
      match decodeValue H d a secret auth with
      | .ok tv => let (vs, ok) := go rest; (tv :: vs, ok)
      | _ => ([], false)
  go (rawValues d as)

end
end RV
