/-
  Known-answer TESTS (not theorems) of the from-the-standards primitives used by C19:
  MD4 (RFC 1320 A.5), SHA-1 (FIPS 180 examples), DES (FIPS 46 worked example + NBS SP 500-20
  validation vectors), UTF-8 → UTF-16LE (RFC 2781 / RFC 3629 examples), and the RFC 2759 §9.2 /
  RFC 3079 §3.5 worked examples through the `Spec.*` definitions instantiated with them.
-/
import RV.Model.MD4
import RV.Model.SHA1
import RV.Model.DES
import RV.Model.UTF16
import RV.Model.MSCHAP
namespace RV.CryptoTest
open RV

def hx (b : Bytes) : String :=
  String.join (b.map fun x => String.ofList [Nat.digitChar (x.toNat / 16), Nat.digitChar (x.toNat % 16)])

def hexVal (c : Char) : Nat :=
  if c.isDigit then c.toNat - 48 else if 'a' ≤ c ∧ c ≤ 'f' then c.toNat - 87 else c.toNat - 55

def unhxList : List Char → Bytes
  | a :: b :: rest => UInt8.ofNat (hexVal a * 16 + hexVal b) :: unhxList rest
  | _ => []

def unhx (s : String) : Bytes := unhxList s.toList

def ascii (s : String) : Bytes := s.toUTF8.toList

/-! ### MD4 — RFC 1320 A.5 test suite -/
open RV.MD4 in
#guard hx (md4 (ascii "")) = "31d6cfe0d16ae931b73c59d7e0c089c0"
open RV.MD4 in
#guard hx (md4 (ascii "a")) = "bde52cb31de33e46245e05fbdbd6fb24"
open RV.MD4 in
#guard hx (md4 (ascii "abc")) = "a448017aaf21d8525fc10ae87aa6729d"
open RV.MD4 in
#guard hx (md4 (ascii "message digest")) = "d9130a8164549fe818874806e1c7014b"
open RV.MD4 in
#guard hx (md4 (ascii "abcdefghijklmnopqrstuvwxyz")) = "d79e1c308aa5bbcdeea8ed63df412da9"
open RV.MD4 in
#guard hx (md4 (ascii "ABCDEFGHIJKLMNOPQRSTUVWXYZabcdefghijklmnopqrstuvwxyz0123456789")) = "043f8582f241db351ce627e153e7f0e4"
open RV.MD4 in
#guard hx (md4 (ascii "12345678901234567890123456789012345678901234567890123456789012345678901234567890")) = "e33b4ddc9c38f2199c3e7b164fcc0536"

/-! ### SHA-1 — FIPS 180 examples (one-block, two-block, 896-bit) and the empty message -/
open RV.SHA1 in
#guard hx (sha1 (ascii "abc")) = "a9993e364706816aba3e25717850c26c9cd0d89d"
open RV.SHA1 in
#guard hx (sha1 (ascii "")) = "da39a3ee5e6b4b0d3255bfef95601890afd80709"
open RV.SHA1 in
#guard hx (sha1 (ascii "abcdbcdecdefdefgefghfghighijhijkijkljklmklmnlmnomnopnopq")) = "84983e441c3bd26ebaae4aa1f95129e5e54670f1"
open RV.SHA1 in
#guard hx (sha1 (ascii "abcdefghbcdefghicdefghijdefghijkefghijklfghijklmghijklmnhijklmnoijklmnopjklmnopqklmnopqrlmnopqrsmnopqrstnopqrstu")) = "a49b2446a02c645bf419f995b67091253a04a259"
-- padding boundaries: 55, 56, 63, 64 octets
open RV.SHA1 in
#guard (pad (List.replicate 55 0x61)).length = 64 ∧ (pad (List.replicate 56 0x61)).length = 128 ∧
       (pad (List.replicate 63 0x61)).length = 128 ∧ (pad (List.replicate 64 0x61)).length = 128

/-! ### DES — FIPS 46 worked example, "Now is t", NBS SP 500-20 variable-plaintext / variable-key /
    permutation / substitution samples, and parity-bit independence -/
def des (k p : String) : String := hx (DES.encryptBlock (unhx k) (unhx p))
#guard des "133457799bbcdff1" "0123456789abcdef" = "85e813540f0ab405"
#guard des "0123456789abcdef" "4e6f772069732074" = "3fa40e8a984d4815"
#guard des "0101010101010101" "8000000000000000" = "95f8a5e5dd31d900"
#guard des "0101010101010101" "95f8a5e5dd31d900" = "8000000000000000"
#guard des "8001010101010101" "0000000000000000" = "95a8d72813daa94d"
#guard des "7ca110454a1a6e57" "01a1d6d039776742" = "690f5b0d9a26939b"
#guard des "0131d9619dc1376e" "5cd54ca83def57da" = "7a389d10354bd271"
#guard des "ffffffffffffffff" "ffffffffffffffff" = "7359b2163e4edc58"
#guard des "0000000000000000" "0000000000000000" = "8ca64de9c1b123a7"
#guard des "fedcba9876543210" "0123456789abcdef" = "ed39d950fa74bcc4"
-- the parity bits (bit 8 of every key octet) are ignored
#guard des "0101010101010101" "0000000000000000" = des "0000000000000000" "0000000000000000"
#guard des "123456789abcdef0" "0011223344556677" = des "133557799bbcdff1" "0011223344556677"

/-! ### UTF-8 → UTF-16LE — RFC 2781 / RFC 3629 examples, boundaries, invalid input -/
open RV.UTF16 in
#guard Spec.utf16le? (ascii "clientPass") = some (unhx "63006c00690065006e0074005000610073007300")
open RV.UTF16 in  -- U+0041 U+2262 U+0391 U+002E  (RFC 3629 §7)
#guard Spec.utf16le? (unhx "41e289a2ce912e") = some (unhx "4100622291032e00")
open RV.UTF16 in  -- U+233B4 (RFC 3629 §7) = D84C DFB4 ; U+12345 (RFC 2781) = D808 DF45
#guard Spec.utf16le? (unhx "f0a38eb4f0928d85") = some (unhx "4cd8b4df08d845df")
open RV.UTF16 in  -- boundaries U+7F U+80 U+7FF U+800 U+FFFF U+10000 U+10FFFF, U+D7FF, U+E000
#guard Spec.utf16le? (unhx "7fc280dfbfe0a080efbfbff0908080f48fbfbfed9fbfee8080")
        = some (unhx "7f008000ff070008ffff00d800dcffdbffdfffd700e0")
open RV.UTF16 in  -- over-long, surrogate, > U+10FFFF, truncated, stray tail, C0/C1/F5.. lead octets
#guard [unhx "c080", unhx "e08080", unhx "f0808080", unhx "eda080", unhx "edbfbf", unhx "f4908080",
        unhx "c3", unhx "e282", unhx "f09f98", unhx "80", unhx "c1bf", unhx "f5808080", unhx "ff",
        unhx "61ff62"].all (fun b => (Spec.utf16le? b).isNone)
open RV.UTF16 in  -- what the Go encoder does there (probed): one U+FFFD per offending octet
#guard goEncodeLE (unhx "61ff62") = unhx "6100fdff6200" ∧ goEncodeLE (unhx "e282") = unhx "fdfffdff" ∧
       goEncodeLE (unhx "eda080") = unhx "fdfffdfffdff" ∧ goEncodeLE (unhx "c328") = unhx "fdff2800" ∧
       goEncodeLE (unhx "efbbbf61") = unhx "fffe6100" ∧ goEncodeLE (unhx "f09f9880") = unhx "3dd800de"

/-! ### RFC 2759 §9.2 and RFC 3079 §3.5.1 / §3.5.3 worked examples through the specification -/
def P : Prims := Prims.concrete
def userName := ascii "User"
def password := ascii "clientPass"
def authChallenge := unhx "5b5d7c7d7b3f2f3e3c2c602132262628"
def peerChallenge := unhx "21402324255e262a28295f2b3a337c7e"
def ntResponse := unhx "82309ecd8d708b5ea08faa3981cd83544233114a3d85d6df"

open Spec.Rfc2759 in
#guard hx (challengeHash P peerChallenge authChallenge userName) = "d02e4386bce91226"
open Spec.Rfc2759 in
#guard (UTF16.Spec.utf16le? password).map (fun u => hx (ntPasswordHash P u)) = some "44ebba8d5312b8d611474411f56989ae"
open Spec.Rfc2759 in
#guard hx (hashNtPasswordHash P (unhx "44ebba8d5312b8d611474411f56989ae")) = "41c00c584bd2d91c4017a2a12fa59f3f"
open Spec.Rfc2759 in
#guard (generateNTResponse P authChallenge peerChallenge userName password).map hx
        = some "82309ecd8d708b5ea08faa3981cd83544233114a3d85d6df"
open Spec.Rfc2759 in
#guard (generateAuthenticatorResponse P authChallenge peerChallenge ntResponse userName password).map String.ofList
        = some "S=407A5589115FD0D6209F510FE9C04566932CDA56"
-- the key expansion on the repository's own unit-test vector
open Spec.Rfc2759 in
#guard hx (expandKey (unhx "61ee8b50748f5e")) = "61f7a26b07a43dbc"
open Spec.Rfc3079 in
#guard hx (getMasterKey P (unhx "41c00c584bd2d91c4017a2a12fa59f3f") ntResponse) = "fdece3717a8c838cb388e527ae3cdd31"
open Spec.Rfc3079 in  -- §3.5.1 40-bit: SendStartKey40 (server side)
#guard hx (getAsymmetricStartKey P (unhx "fdece3717a8c838cb388e527ae3cdd31") 8 true true) = "8b7cdc149b993a1b"
open Spec.Rfc3079 in  -- §3.5.3 128-bit
#guard hx (getAsymmetricStartKey P (unhx "fdece3717a8c838cb388e527ae3cdd31") 16 true true) = "8b7cdc149b993a1ba118cb153f56dccb"
-- the magic constants are the ASCII sentences given in the RFCs' comments
#guard Spec.Rfc2759.magic1 = ascii "Magic server to client signing constant"
#guard Spec.Rfc2759.magic2 = ascii "Pad to make it do more than one iteration"
#guard Spec.Rfc3079.magic1 = ascii "This is the MPPE Master Key"
#guard Spec.Rfc3079.magic2 = ascii "On the client side, this is the send key; on the server side, it is the receive key."
#guard Spec.Rfc3079.magic3 = ascii "On the client side, this is the receive key; on the server side, it is the send key."
#guard Spec.Rfc3079.shsPad1 = List.replicate 40 0x00 ∧ Spec.Rfc3079.shsPad2 = List.replicate 40 0xf2

-- model and specification agree on the worked example (the for-all statement is RV.Props.C19)
#guard Model.MSCHAP.generateNTResponse P authChallenge peerChallenge userName password = .ok ntResponse
#guard Model.MSCHAP.parityPadDESKey (unhx "61ee8b50748f5e") = unhx "61f7a26b07a43dbc"

end RV.CryptoTest
