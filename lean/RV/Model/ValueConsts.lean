/-
  Model of what genAttributeInteger (dictionarygen/attributes.go) emits for the named values of an
  integer-kind attribute `X` (integer / integer64 / short), from `values := attributeValues(attr,
  allValues)` (`attrValues` of RV/Model/Gen.lean — the generator's duplicate-number rule):

      const ( X_Value_<Ident(name)> X = <number> … )                   one per element of `values`
      var X_Strings = map[X]string{ X_Value_<Ident(name)>: "<name>", … }
      func (a X) String() string {
          if str, ok := X_Strings[a]; ok { return str }
          return "X(" + strconv.FormatUint(uint64(a), 10) + ")"
      }
-/
import RV.Model.Gen
namespace RV.Gen
open RV.Dict

/-- `strconv.FormatUint(n, 10)` -/
def formatUint (n : Nat) : Bytes :=
  if n < 10 then [UInt8.ofNat (48 + n)] else formatUint (n / 10) ++ [UInt8.ofNat (48 + n % 10)]
decreasing_by omega

/-- the `const (…)` block: (constant identifier, its value) -/
def valueConsts (attrIdent : Bytes) (values : List Value) : List (Bytes × Nat) :=
  values.map fun v => (attrIdent ++ bs "_Value_" ++ identifier v.name, v.number)

/-- the `X_Strings` map literal as (key, string) entries; a key is written as the constant, so it
    is the constant's number -/
def stringsMap (values : List Value) : List (Nat × Bytes) :=
  values.map fun v => (v.number, v.name)

/-- Go `str, ok := m[k]` on a map built from a literal (first entry with the key; Go rejects a
    literal with two equal constant keys at compile time — `Gen.strings_keys_nodup` shows the
    literal has none) -/
def mapLookup (m : List (Nat × Bytes)) (k : Nat) : Option Bytes :=
  (m.find? (fun e => e.1 == k)).map (·.2)

/-- `func (a X) String() string` -/
def valueString (attrIdent : Bytes) (values : List Value) (a : Nat) : Bytes :=
  match mapLookup (stringsMap values) a with
  | some s => s
  | none => attrIdent ++ bs "(" ++ formatUint a ++ bs ")"

/-- specification of the duplicate-number rule on the VALUEs of ONE attribute, sorted by number:
    of consecutive declarations with the same number only the last is kept -/
def lastWins : List Value → List Value
  | [] => []
  | [v] => [v]
  | v :: w :: rest => if v.number == w.number then lastWins (w :: rest) else v :: lastWins (w :: rest)

end RV.Gen
