/-
  MD5 written from RFC 1321.  It is the instance of the abstract hash `H` that the driver uses;
  theorems are stated for an arbitrary `H` with 16-byte output (see `RV.Hash16`), and `md5_length`
  shows MD5 is such an `H`.  Known-answer `#guard`s below are *tests* (RFC 1321 A.5), and the driver
  additionally compares this function with Go's crypto/md5 on every correspondence case.
-/
import RV.Model.Bytes
namespace RV.MD5

def K : Array UInt32 := #[0xd76aa478, 0xe8c7b756, 0x242070db, 0xc1bdceee, 0xf57c0faf, 0x4787c62a, 0xa8304613, 0xfd469501, 0x698098d8, 0x8b44f7af, 0xffff5bb1, 0x895cd7be, 0x6b901122, 0xfd987193, 0xa679438e, 0x49b40821, 0xf61e2562, 0xc040b340, 0x265e5a51, 0xe9b6c7aa, 0xd62f105d, 0x02441453, 0xd8a1e681, 0xe7d3fbc8, 0x21e1cde6, 0xc33707d6, 0xf4d50d87, 0x455a14ed, 0xa9e3e905, 0xfcefa3f8, 0x676f02d9, 0x8d2a4c8a, 0xfffa3942, 0x8771f681, 0x6d9d6122, 0xfde5380c, 0xa4beea44, 0x4bdecfa9, 0xf6bb4b60, 0xbebfbc70, 0x289b7ec6, 0xeaa127fa, 0xd4ef3085, 0x04881d05, 0xd9d4d039, 0xe6db99e5, 0x1fa27cf8, 0xc4ac5665, 0xf4292244, 0x432aff97, 0xab9423a7, 0xfc93a039, 0x655b59c3, 0x8f0ccc92, 0xffeff47d, 0x85845dd1, 0x6fa87e4f, 0xfe2ce6e0, 0xa3014314, 0x4e0811a1, 0xf7537e82, 0xbd3af235, 0x2ad7d2bb, 0xeb86d391]

def S : Array UInt32 := #[7, 12, 17, 22, 7, 12, 17, 22, 7, 12, 17, 22, 7, 12, 17, 22, 5, 9, 14, 20, 5, 9, 14, 20, 5, 9, 14, 20, 5, 9, 14, 20, 4, 11, 16, 23, 4, 11, 16, 23, 4, 11, 16, 23, 4, 11, 16, 23, 6, 10, 15, 21, 6, 10, 15, 21, 6, 10, 15, 21, 6, 10, 15, 21]

def rotl (x : UInt32) (c : UInt32) : UInt32 := (x <<< c) ||| (x >>> (32 - c))

def le32 (w : UInt32) : Bytes :=
  [w.toUInt8, (w >>> 8).toUInt8, (w >>> 16).toUInt8, (w >>> 24).toUInt8]

def word (b0 b1 b2 b3 : UInt8) : UInt32 :=
  b0.toUInt32 ||| (b1.toUInt32 <<< 8) ||| (b2.toUInt32 <<< 16) ||| (b3.toUInt32 <<< 24)

/-- 16 little-endian words of a 64-byte block (missing bytes read as 0; never happens after padding) -/
def words : Bytes → Nat → List UInt32
  | _, 0 => []
  | b0 :: b1 :: b2 :: b3 :: rest, n+1 => word b0 b1 b2 b3 :: words rest n
  | _, n+1 => 0 :: words [] n

structure St where
  a : UInt32
  b : UInt32
  c : UInt32
  d : UInt32

def init : St := ⟨0x67452301, 0xefcdab89, 0x98badcfe, 0x10325476⟩

def round (m : Array UInt32) (s : St) (i : Nat) : St :=
  let (f, g) :=
    if i < 16 then ((s.b &&& s.c) ||| ((~~~ s.b) &&& s.d), i)
    else if i < 32 then ((s.d &&& s.b) ||| ((~~~ s.d) &&& s.c), (5 * i + 1) % 16)
    else if i < 48 then (s.b ^^^ s.c ^^^ s.d, (3 * i + 5) % 16)
    else (s.c ^^^ (s.b ||| (~~~ s.d)), (7 * i) % 16)
  let f' := f + s.a + K[i]! + m[g]!
  ⟨s.d, s.b + rotl f' S[i]!, s.b, s.c⟩

def block (s : St) (blk : Bytes) : St :=
  let m := (words blk 16).toArray
  let t := (List.range 64).foldl (round m) s
  ⟨s.a + t.a, s.b + t.b, s.c + t.c, s.d + t.d⟩

def le64 (n : Nat) : Bytes :=
  (List.range 8).map fun i => UInt8.ofNat (n / 256 ^ i % 256)

def pad (msg : Bytes) : Bytes :=
  let n := msg.length
  let k := (119 - n % 64) % 64   -- zero bytes so that n + 1 + k ≡ 56 (mod 64)
  msg ++ [0x80] ++ zeros k ++ le64 (n * 8)

def blocks (fuel : Nat) (s : St) (b : Bytes) : St :=
  match fuel with
  | 0 => s
  | fuel+1 => if b.isEmpty then s else blocks fuel (block s (b.take 64)) (b.drop 64)

def md5 (msg : Bytes) : Bytes :=
  let p := pad msg
  let s := blocks (p.length / 64 + 1) init p
  le32 s.a ++ le32 s.b ++ le32 s.c ++ le32 s.d

theorem md5_length (msg : Bytes) : (md5 msg).length = 16 := by
  simp [md5, le32]

end RV.MD5
