import RV.Model.MD5
open RV RV.MD5
def hexOf (b : Bytes) : String := String.join (b.map fun x => String.mk [Nat.digitChar (x.toNat / 16), Nat.digitChar (x.toNat % 16)])
-- RFC 1321 A.5 test suite (tests, not theorems)
#guard hexOf (md5 "".toUTF8.toList) = "d41d8cd98f00b204e9800998ecf8427e"
#guard hexOf (md5 "a".toUTF8.toList) = "0cc175b9c0f1b6a831c399e269772661"
#guard hexOf (md5 "abc".toUTF8.toList) = "900150983cd24fb0d6963f7d28e17f72"
#guard hexOf (md5 "message digest".toUTF8.toList) = "f96b697d7cb7938d525a2f31aaf161d0"
#guard hexOf (md5 "abcdefghijklmnopqrstuvwxyz".toUTF8.toList) = "c3fcd3d76192e4007dfb496cca67e13b"
#guard hexOf (md5 "ABCDEFGHIJKLMNOPQRSTUVWXYZabcdefghijklmnopqrstuvwxyz0123456789".toUTF8.toList) = "d174ab98d277d9f5a5611c2c9f419d9f"
#guard hexOf (md5 "12345678901234567890123456789012345678901234567890123456789012345678901234567890".toUTF8.toList) = "57edf4a22be3c955ac49da2e2107b67a"
