/-
  I/O failures of the dictionary parser (dictionary/parser.go), an ADDITIVE layer over
  RV.Model.DictParser for C15.  Core Lean only.

  In RV.Model.DictParser a file is `(name, text)` and neither reading nor closing it can fail.  In
  parser.go two failures exist that no state of that model exhibits:

  READ FAILURE.  `File.Read` returns a non-EOF error.  `bufio.Scanner` then behaves as at end of file
  - the bytes delivered so far are split into lines as usual, an unterminated last line included
  (`split(data, atEOF = true)`) - `Scan` returns false, and `s.Err()` is that error.  `parse`
  (parser.go 258-260) returns it BARE (no ParseError), before the test for an unclosed vendor block,
  and only if no line was refused earlier.  `bufio.ErrTooLong` takes the same exit and comes first:
  the scanner refuses to read on once 65536 octets without a line end fill its buffer, and it asks
  the reader for more only after that test.  The error travels up through every enclosing
  `$INCLUDE` closure unchanged (parser.go 229-231).

  CLOSE FAILURE.  In the `$INCLUDE` closure, after the recursive `parse` succeeded, `incFile.Close()`
  is called explicitly (parser.go 233) and a non-nil error is returned as
  `&ParseError{Inner: err, File: f, Line: lineNo}`, `f` being the INCLUDING file; the deferred
  `incFile.Close()` of line 214 runs as well.  So `Close` is called twice when the nested parse
  succeeded (whether or not the first call failed) and once when it failed or the file was on the
  include path.  The errors of the deferred call and of `ParseFile`'s `defer f.Close()` are dropped.

  THE FILE SYSTEM OF THIS LAYER.  An entry is `(name, text, readFails, closeFails)`:
    * `text`       the octets `Read` delivers, in any number of calls, each with a nil error;
    * `readFails`  the `Read` call after the last octet returns `(0, err)` with `err ≠ io.EOF`
                   (`false`: `(0, io.EOF)`).  The error never accompanies data.  (A reader that hands
                   out its last octets TOGETHER with the error is not covered: with it a final
                   unterminated line of exactly 65536 octets is delivered instead of ErrTooLong,
                   because the scanner tests for a full buffer only before it reads on.
                   The harness file does not do that.)
    * `closeFails` the FIRST `Close` call on a handle of this file returns an error; every handle
                   (one per `OpenFile`) starts afresh.  What later `Close` calls on the same handle
                   return is immaterial (parser.go drops it); the harness file answers them like
                   `*os.File` does, with an "already closed" error.
  This is exactly what the harness file `dpFileIO` (harness/cmd/vh/c15.go, op `walkio`) does.

  Only the REPAIRED include rule (fix #10, `cfg.includePath = true`: what the tree does) is mirrored;
  `cfg.includePath` is ignored by this layer.  `RV.Proofs.DictIO.parseFileIO_refines`: on a file
  system without failure flags `parseFileIO` is `parseFile` of RV.Model.DictParser.

  HOW THE PER-LINE CODE IS REUSED.  `stepLine` / `dispatch` of RV.Model.DictParser are run unchanged,
  with the handler `askInclude` that includes nothing and only reports which file the line asks for;
  `stepLineIO` then serves that request with the handler of this layer, whose failures are
  `FailureIO`.  (`dispatch` itself produces `.decl` failures only, so the report cannot be mistaken:
  `RV.Proofs.DictIO.stepLineIO_lift`.)
-/
import RV.Model.DictParser
namespace RV.DictParser
open RV RV.Dict

/-! ## The file system with failure flags -/

/-- `(name, text, readFails, closeFails)`; the first entry of a name wins -/
abbrev FSIO := List (Bytes × Bytes × Bool × Bool)

/-- `(text, readFails, closeFails)` of the file with this name -/
def FSIO.lookup (fs : FSIO) (name : Bytes) : Option (Bytes × Bool × Bool) :=
  (fs.find? (·.1 == name)).map (·.2)

/-- the same files without their flags: a file system of RV.Model.DictParser -/
def FSIO.erase (fs : FSIO) : FS := fs.map fun e => (e.1, e.2.1)

/-- a file system of RV.Model.DictParser as one whose files never fail -/
def FSIO.ofFS (fs : FS) : FSIO := fs.map fun e => (e.1, e.2, false, false)

theorem FSIO.lookup_erase (fs : FSIO) (name : Bytes) :
    fs.erase.lookup name = (fs.lookup name).map (·.1) := by
  induction fs with
  | nil => rfl
  | cons e es ih =>
    unfold FSIO.erase FS.lookup FSIO.lookup at *
    simp only [List.map_cons, List.find?_cons]
    cases h : (e.1 == name) with
    | true => rfl
    | false => exact ih

theorem FSIO.lookup_erase_some (fs : FSIO) (name : Bytes) (e : Bytes × Bool × Bool)
    (h : fs.lookup name = some e) : fs.erase.lookup name = some e.1 := by
  rw [FSIO.lookup_erase, h]; rfl

/-! ## Failures -/

/-- how a run over a file system with failure flags can fail -/
inductive FailureIO where
  /-- every failure of RV.Model.DictParser -/
  | base (e : Failure)
  /-- bare `s.Err()`: the reader's non-EOF error (of the file being parsed, or of a file below it) -/
  | readErr
  /-- `&ParseError{Inner: <error of incFile.Close()>, File, Line}`: `File` includes `name` at `Line` -/
  | closeErr (file : Bytes) (line : Nat) (name : Bytes)
deriving DecidableEq, Repr

abbrev ResultIO := Option FailureIO × St

/-- a result of RV.Model.DictParser as a result of this layer -/
def Result.lift (r : Result) : ResultIO := (r.1.map FailureIO.base, r.2)

/-- the `$INCLUDE` handler of this layer: included name, including file, line number, state -/
abbrev IncludeHandlerIO := Bytes → Bytes → Nat → St → ResultIO

inductive StepIO where
  | next (vb : Option Bytes) (st : St)
  | fail (e : FailureIO) (st : St)

/-! ## The line loop -/

/-- the handler that includes nothing: it reports the request (file, line, name) and leaves the state alone -/
def askInclude : IncludeHandler := fun name file lineNo st => (some (.openErr file lineNo name), st)

/-- one iteration of the scan loop: the per-line code of RV.Model.DictParser, the `$INCLUDE` it asks
    for served by `inc` -/
def stepLineIO (cfg : Cfg) (ign : Bool) (inc : IncludeHandlerIO) (file : Bytes) (lineNo : Nat)
    (vb : Option Bytes) (st : St) (raw : Bytes) : StepIO :=
  match stepLine cfg ign askInclude file lineNo vb st raw with
  | .next vb' st' => .next vb' st'
  | .fail (.openErr _ _ name) st' =>                 -- the line is `$INCLUDE name`, outside a vendor block
    match inc name file lineNo st' with
    | (none, st'') => .next vb st''
    | (some e, st'') => .fail e st''
  | .fail e st' => .fail (.base e) st'

/-- the scan loop of `parse` and what follows it: `s.Err()` (ErrTooLong, else the reader's error),
    then the unclosed block -/
def parseLinesIO (cfg : Cfg) (ign : Bool) (inc : IncludeHandlerIO) (file : Bytes) (tooLong readFails : Bool) :
    List Bytes → Nat → Option Bytes → St → ResultIO
  | [], lineNo, vb, st =>
    if tooLong then (some (.base .scanner), st)
    else if readFails then (some .readErr, st)
    else match vb with
      | some _ => (some (.base (.decl .unclosedVendorBlock file (lineNo - 1))), st)
      | none => (none, st)
  | l :: ls, lineNo, vb, st =>
    match stepLineIO cfg ign inc file lineNo vb st l with
    | .next vb' st' => parseLinesIO cfg ign inc file tooLong readFails ls (lineNo + 1) vb' st'
    | .fail e st' => (some e, st')

/-- `p.parse(dict, parsedFiles, f)` on an open file with this name, whose reader delivers `text`
    and then fails iff `readFails` -/
def parseBodyIO (cfg : Cfg) (ign : Bool) (inc : IncludeHandlerIO) (file text : Bytes) (readFails : Bool)
    (st : St) : ResultIO :=
  let ls := Lex.lines text
  parseLinesIO cfg ign inc file ls.2 readFails ls.1 1 none st

/-! ## `$INCLUDE` -/

/-- the closure run for `$INCLUDE name` (at line `lineNo` of `file`), after the recursive parse
    returned.  Success: the explicit `incFile.Close()` - a failure of it is the result - and the
    deferred one.  Failure: the deferred one only, its error dropped. -/
def afterIncludeIO (closeFails : Bool) (name file : Bytes) (lineNo : Nat) : ResultIO → ResultIO
  | (none, st) =>
    (if closeFails then some (.closeErr file lineNo name) else none, (st.closed name).closed name)
  | (some e, st) => (some e, st.closed name)

/-- the closure `parse` runs for `$INCLUDE name`: open; look the name up in `parsedFiles`; otherwise
    parse the file recursively; close -/
def includeWithIO (fs : FSIO) (onPath : Bytes → Bool)
    (recur : (name : Bytes) → (e : Bytes × Bool × Bool) → fs.lookup name = some e → onPath name = false →
      St → ResultIO) : IncludeHandlerIO :=
  fun name file lineNo st =>
    match h : fs.lookup name with
    | none => (some (.base (.openErr file lineNo name)), st)               -- `p.Opener.OpenFile` failed
    | some e =>
      let st1 := st.opened name
      if hp : onPath name = true then (some (.base (.recursive file lineNo name)), st1.closed name)
      else afterIncludeIO e.2.2 name file lineNo (recur name e h (by simpa using hp) st1)

/-- the repaired include rule over a file system with failure flags; terminates by the same measure
    as `parseFileFix` (files not on the path), no fuel -/
def parseFileFixIO (cfg : Cfg) (ign : Bool) (fs : FSIO) (path : List Bytes) (file text : Bytes)
    (readFails : Bool) (st : St) : ResultIO :=
  parseBodyIO cfg ign
    (includeWithIO fs (fun n => path.contains n) fun name e h hp st1 =>
      have : unvisited fs.erase (name :: path) < unvisited fs.erase path :=
        unvisited_lt fs.erase path name e.1 (FSIO.lookup_erase_some fs name e h) (by simpa using hp)
      parseFileFixIO cfg ign fs (name :: path) name e.1 e.2.1 st1)
    file text readFails st
termination_by unvisited fs.erase path

/-- `Parser.ParseFile(root)`: the opener's error for a missing root; otherwise `Parse`, and the
    deferred `f.Close()` whose error is dropped -/
def parseFileIO (cfg : Cfg) (ign : Bool) (fs : FSIO) (root : Bytes) : ResultIO :=
  match fs.lookup root with
  | none => (some (.base .rootOpen), {})
  | some e =>
    let r := parseFileFixIO cfg ign fs [root] root e.1 e.2.1 (St.opened {} root)
    (r.1, r.2.closed root)

end RV.DictParser
