/-
  Model of the typed value codecs of attribute.go.  Go's fixed-width integers are `Nat` with an
  explicit range (the encoders take uint16/uint32/uint64, so the harness only offers in-range
  values); `time.Time` is its Unix second count (an `Int`); `net.IP`, `net.HardwareAddr` are byte
  strings; `*net.IPNet` is `Option (ip, mask)`.
-/
import RV.Model.Wire
namespace RV

/-! ### integers -/
def newShort (v : Nat) : Bytes := beBytes 2 v
def newInteger (v : Nat) : Bytes := beBytes 4 v
def newInteger64 (v : Nat) : Bytes := beBytes 8 v

def short (a : Bytes) : Res Nat := if a.length ≠ 2 then .err else .ok (beNat a)
def integer (a : Bytes) : Res Nat := if a.length ≠ 4 then .err else .ok (beNat a)
def integer64 (a : Bytes) : Res Nat := if a.length ≠ 8 then .err else .ok (beNat a)

/-! ### text / octets -/
def newString (s : Bytes) : Res Bytes := if s.length > 253 then .err else .ok s
def newBytes (s : Bytes) : Res Bytes := if s.length > 253 then .err else .ok s
def stringOf (a : Bytes) : Bytes := a
def bytesOf (a : Bytes) : Bytes := a

/-! ### addresses -/
def v4InV6Prefix : Bytes := [0, 0, 0, 0, 0, 0, 0, 0, 0, 0, 0xff, 0xff]

/-- Go `net.IP.To4` (none = nil) -/
def to4 (ip : Bytes) : Option Bytes :=
  if ip.length = 4 then some ip
  else if ip.length = 16 ∧ ip.take 12 = v4InV6Prefix then some (ip.drop 12)
  else none

/-- Go `net.IP.To16` -/
def to16 (ip : Bytes) : Option Bytes :=
  if ip.length = 4 then some (v4InV6Prefix ++ ip)
  else if ip.length = 16 then some ip
  else none

def newIPAddr (ip : Bytes) : Res Bytes := match to4 ip with | some b => .ok b | none => .err
def ipAddr (a : Bytes) : Res Bytes := if a.length ≠ 4 then .err else .ok a
def newIPv6Addr (ip : Bytes) : Res Bytes := match to16 ip with | some b => .ok b | none => .err
def ipv6Addr (a : Bytes) : Res Bytes := if a.length ≠ 16 then .err else .ok a

/-- Go `net.IP.Equal` -/
def ipEqual (x y : Bytes) : Bool :=
  match to16 x, to16 y with
  | some a, some b => a == b
  | _, _ => false

def newIFID (addr : Bytes) : Res Bytes := if addr.length ≠ 8 then .err else .ok addr
def ifid (a : Bytes) : Res Bytes := if a.length ≠ 8 then .err else .ok a

/-! ### date -/
/-- attribute.go NewDate: representable ⇔ 0 ≤ unix ≤ MaxUint32 (the lower bound is the repaired
    behaviour; see DESIGN.md findings) -/
def newDate (unix : Int) : Res Bytes :=
  if unix > 4294967295 then .err
  else if unix < 0 then .err
  else .ok (beBytes 4 (unix % 4294967296).toNat)
def date (a : Bytes) : Res Int := if a.length ≠ 4 then .err else .ok (beNat a)

/-! ### vendor-specific, TLV -/
def newVendorSpecific (vendorID : Nat) (value : Bytes) : Res Bytes :=
  if value.length > 249 then .err
  else if value.length < 1 then .err
  else .ok (beBytes 4 vendorID ++ value)
def vendorSpecific (a : Bytes) : Res (Nat × Bytes) :=
  if a.length < 5 then .err else .ok (beNat (a.take 4), a.drop 4)

def newTLV (t : UInt8) (v : Bytes) : Res Bytes :=
  if v.length < 1 ∨ v.length > 253 then .err else .ok (t :: UInt8.ofNat (2 + v.length) :: v)
def tlv (a : Bytes) : Res (UInt8 × Bytes) :=
  if a.length < 3 ∨ a.length > 255 ∨ (a.getD 1 0).toNat ≠ a.length then .err
  else .ok (a.getD 0 0, a.drop 2)

/-! ### IPv6 prefix -/

/-- number of leading one bits of a byte if it is of the form 1…10…0, else none -/
def byteOnes (b : UInt8) : Option Nat :=
  match b.toNat with
  | 0x00 => some 0 | 0x80 => some 1 | 0xc0 => some 2 | 0xe0 => some 3 | 0xf0 => some 4
  | 0xf8 => some 5 | 0xfc => some 6 | 0xfe => some 7 | 0xff => some 8
  | _ => none

/-- Go `net.IPMask.Size` (simpleMaskLength): ones then zeros ⇒ (ones, bits), otherwise (0, 0) -/
def maskOnes : Bytes → Option Nat
  | [] => some 0
  | b :: rest =>
    if b = 0xff then (maskOnes rest).map (· + 8)
    else match byteOnes b with
      | some n => if rest.all (· == 0) then some n else none
      | none => none

def maskSize (mask : Bytes) : Nat × Nat :=
  match maskOnes mask with
  | some n => (n, mask.length * 8)
  | none => (0, 0)

/-- clear the bits of `b` from bit position `i` (0 = most significant) to 7 -/
def clearFrom (b : UInt8) (i : Nat) : UInt8 := b &&& UInt8.ofNat (256 - 2 ^ (8 - i))

def newIPv6Prefix (pfx : Option (Bytes × Bytes)) : Res Bytes :=
  match pfx with
  | none => .err
  | some (ip, mask) =>
    if ip.length ≠ 16 then .err
    else
      let (ones, bits) := maskSize mask
      if bits ≠ 128 then .err
      else
        let n := (ones + 7) / 8
        let body := ip.take n
        let body := if ones % 8 ≠ 0 then body.take (n - 1) ++ [clearFrom (body.getD (n - 1) 0) (ones % 8)] else body
        .ok (0 :: UInt8.ofNat ones :: body)

/-- bits of `ip` at positions ≥ `p` (bit 0 = MSB of byte 0) are all zero -/
def hostBitsZero (ip : Bytes) (p : Nat) : Bool :=
  (List.range ip.length).all fun i =>
    let b := ip.getD i 0
    if (i + 1) * 8 ≤ p then true
    else if i * 8 ≥ p then b == 0
    else clearFrom b (p - i * 8) == b

/-- Go `net.CIDRMask(ones, 128)` -/
def cidrMask (ones : Nat) : Bytes :=
  (List.range 16).map fun i =>
    if (i + 1) * 8 ≤ ones then 0xff
    else if i * 8 ≥ ones then 0
    else UInt8.ofNat (256 - 2 ^ (8 - (ones - i * 8)))

def ipv6Prefix (a : Bytes) : Res (Bytes × Bytes) :=
  if a.length < 2 ∨ a.length > 18 then .err
  else
    let pl := (a.getD 1 0).toNat
    if pl > 128 then .err
    else
      let ip := (a.drop 2) ++ zeros (16 - (a.length - 2))
      if !hostBitsZero ip pl then .err
      else .ok (ip, cidrMask pl)

end RV
