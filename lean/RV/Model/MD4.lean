/-
  MD4 written from RFC 1320.  Padding (§3.1, §3.2), the little-endian word order and the initial
  state (§3.3) are literally those of RFC 1321, so `pad`, `words`, `le32`, `rotl`, `St`, `init` are
  shared with `RV.MD5`; the three rounds (§3.4) are written here.
  Known-answer tests (RFC 1320 A.5) are in `RV/Model/CryptoTest.lean`; the driver compares this
  function with golang.org/x/crypto/md4 (through the Go functions under test) on every C19 case.
-/
import RV.Model.MD5
namespace RV.MD4
open RV.MD5 (rotl le32 words pad St init)

/-- §3.4 auxiliary functions -/
def F (x y z : UInt32) : UInt32 := (x &&& y) ||| ((~~~ x) &&& z)
def G (x y z : UInt32) : UInt32 := (x &&& y) ||| (x &&& z) ||| (y &&& z)
def H (x y z : UInt32) : UInt32 := x ^^^ y ^^^ z

/-- the message word used by step `i` (round 1: 0..15 in order; round 2: columns; round 3: bit-reversed) -/
def order : Array Nat := #[
  0, 1, 2, 3, 4, 5, 6, 7, 8, 9, 10, 11, 12, 13, 14, 15,
  0, 4, 8, 12, 1, 5, 9, 13, 2, 6, 10, 14, 3, 7, 11, 15,
  0, 8, 4, 12, 2, 10, 6, 14, 1, 9, 5, 13, 3, 11, 7, 15]

/-- the rotation of step `i` -/
def shift : Array UInt32 := #[
  3, 7, 11, 19, 3, 7, 11, 19, 3, 7, 11, 19, 3, 7, 11, 19,
  3, 5, 9, 13, 3, 5, 9, 13, 3, 5, 9, 13, 3, 5, 9, 13,
  3, 9, 11, 15, 3, 9, 11, 15, 3, 9, 11, 15, 3, 9, 11, 15]

/-- one step `[abcd k s]`: `a = (a + f(b,c,d) + X[k] + const) <<< s`, then the registers rotate
    (`ABCD → DABC → CDAB → BCDA`), which is the state permutation `(a,b,c,d) ↦ (d,a',b,c)`. -/
def step (m : Array UInt32) (s : St) (i : Nat) : St :=
  let f :=
    if i < 16 then F s.b s.c s.d
    else if i < 32 then G s.b s.c s.d + 0x5A827999
    else H s.b s.c s.d + 0x6ED9EBA1
  ⟨s.d, rotl (s.a + f + m[order[i]!]!) shift[i]!, s.b, s.c⟩

def block (s : St) (blk : Bytes) : St :=
  let m := (words blk 16).toArray
  let t := (List.range 48).foldl (step m) s
  ⟨s.a + t.a, s.b + t.b, s.c + t.c, s.d + t.d⟩

def blocks (fuel : Nat) (s : St) (b : Bytes) : St :=
  match fuel with
  | 0 => s
  | fuel+1 => if b.isEmpty then s else blocks fuel (block s (b.take 64)) (b.drop 64)

def md4 (msg : Bytes) : Bytes :=
  let p := pad msg
  let s := blocks (p.length / 64 + 1) init p
  le32 s.a ++ le32 s.b ++ le32 s.c ++ le32 s.d

theorem md4_length (msg : Bytes) : (md4 msg).length = 16 := by
  simp [md4, le32]

end RV.MD4
